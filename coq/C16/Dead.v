(** C16: deadlock freedom of the repaired protocol (lock-order argument:
    delegateMeterOnce < meterProvider.mtx < registration.unregMu < meter.mtx; a thread
    that waits for a lock holds only locks of lower rank, and the holder of a meter.mtx
    never waits), and the stuck state the protocol as found could reach. *)
From Coq Require Import List Arith NArith Bool Lia.
From Verif Require Import C16.Spec C16.Hist C16.Model C16.Inv.
Import ListNotations.

Definition progress (prog : nat -> op) (s : st) : Prop := exists u s', step false prog s u = Some s'.

(** [u] can take a step: unfold its program counter and every test the step makes. *)
Ltac enabled_by u E :=
  exists u; unfold step; rewrite E;
  repeat match goal with
         | |- context [match ?x with _ => _ end] => destruct x
         end;
  eexists; reflexivity.

(** Rank 3: the holder of a meter.mtx never waits. *)
Lemma holder_m_progress prog s k u : Inv1 s -> mlock s k = Some u -> progress prog s.
Proof.
  intros HI H. apply (i_mlock _ HI) in H. destruct (pcs s u) eqn:E; cbn in H; try discriminate;
    enabled_by u E.
Qed.

Lemma wait_m_progress prog s t k : Inv1 s ->
  (pcs s t = CWait k \/ (exists j, pcs s t = AWait k j) \/ pcs s t = GWait k \/ (exists r, pcs s t = UWaitM r k) \/
   (exists todo, pcs s t = IWalk (k :: todo))) ->
  progress prog s.
Proof.
  intros HI H. destruct (mlock s k) as [u|] eqn:Em; [eapply holder_m_progress; eassumption|].
  destruct H as [E|[[j E]|[E|[[r E]|[todo E]]]]]; exists t; unfold step; rewrite E, Em; eexists; reflexivity.
Qed.

(** Rank 2: the holder of a registration's unregMu waits at most for a meter.mtx. *)
Lemma holder_u_progress prog s r u : Inv1 s -> ulock s r = Some u -> progress prog s.
Proof.
  intros HI H. apply (i_ulock _ HI) in H. destruct (pcs s u) eqn:E; cbn in H; try discriminate;
    try (enabled_by u E).
  eapply wait_m_progress; [exact HI|]. right. right. right. left. eexists. exact E.
Qed.

Lemma wait_u_progress prog s t r : Inv1 s ->
  (pcs s t = UWait r \/ exists k rs todo, pcs s t = IRegs k (r :: rs) todo) -> progress prog s.
Proof.
  intros HI H. destruct (ulock s r) as [u|] eqn:Eu; [eapply holder_u_progress; eassumption|].
  destruct H as [E|[k [rs [todo E]]]]; exists t; unfold step; rewrite E, ?Eu.
  - destruct (unreg s r); rewrite ?Eu; eexists; reflexivity.
  - eexists; reflexivity.
Qed.

(** Rank 1: the holder of meterProvider.mtx waits at most for a meter.mtx or an unregMu. *)
Lemma holder_p_progress prog s u : Inv1 s -> plock s = Some u -> progress prog s.
Proof.
  intros HI H. apply (i_plock _ HI) in H. destruct (pcs s u) eqn:E; cbn in H; try discriminate.
  - enabled_by u E.
  - enabled_by u E.
  - destruct todo as [|k todo]; [enabled_by u E|].
    eapply wait_m_progress; [exact HI|]. right. right. right. right. eexists. exact E.
  - enabled_by u E.
  - enabled_by u E.
  - destruct rs as [|r rs]; [enabled_by u E|].
    eapply wait_u_progress; [exact HI|]. right. do 3 eexists. exact E.
  - enabled_by u E.
Qed.

Lemma wait_p_progress prog s t : Inv1 s -> (exists k, pcs s t = MWait k) \/ pcs s t = ILockP -> progress prog s.
Proof.
  intros HI H. destruct (plock s) as [u|] eqn:Ep; [eapply holder_p_progress; eassumption|].
  destruct H as [[k E]|E]; exists t; unfold step; rewrite E, Ep; eexists; reflexivity.
Qed.

(** Rank 0: the thread that runs delegateMeterOnce. *)
Lemma installer_progress prog s u : Inv1 s -> is_ipc (pcs s u) = true -> progress prog s.
Proof.
  intros HI H. destruct (pcs s u) eqn:E; cbn in H; try discriminate.
  - eapply wait_p_progress; [exact HI|]. right. exact E.
  - enabled_by u E.
  - destruct todo as [|k todo]; [enabled_by u E|].
    eapply wait_m_progress; [exact HI|]. right. right. right. right. eexists. exact E.
  - enabled_by u E.
  - enabled_by u E.
  - destruct rs as [|r rs]; [enabled_by u E|].
    eapply wait_u_progress; [exact HI|]. right. do 3 eexists. exact E.
  - enabled_by u E.
  - enabled_by u E.
Qed.

Lemma unfinished_progress prog s t : Inv1 s -> ~ finished prog s t -> progress prog s.
Proof.
  intros HI Hn. destruct (pcs s t) eqn:E.
  - (* Start *) destruct (prog t) eqn:Ep.
    + exfalso. apply Hn. right. auto.
    + exists t. unfold step, start. rewrite E, Ep. eexists. reflexivity.
    + exists t. unfold step, start. rewrite E, Ep. eexists. reflexivity.
    + exists t. unfold step, start. rewrite E, Ep. eexists. reflexivity.
    + exists t. unfold step, start. rewrite E, Ep. destruct (ist s i); eexists; reflexivity.
    + exists t. unfold step, start. rewrite E, Ep. destruct (mcreated s k); eexists; reflexivity.
    + exists t. unfold step, start. rewrite E, Ep. destruct (unreg s r); eexists; reflexivity.
    + exists t. unfold step, start. rewrite E, Ep. eexists. reflexivity.
  - exfalso. apply Hn. left. exact E.
  - eapply wait_p_progress; [exact HI|]. left. eexists. exact E.
  - enabled_by t E.
  - eapply wait_m_progress; [exact HI|]. left. exact E.
  - enabled_by t E.
  - eapply wait_m_progress; [exact HI|]. right. left. eexists. exact E.
  - enabled_by t E.
  - enabled_by t E.
  - eapply wait_m_progress; [exact HI|]. right. right. left. exact E.
  - enabled_by t E.
  - (* UWait *) destruct (unreg s r) eqn:Er;
      try (eapply wait_u_progress; [exact HI|]; left; exact E);
      exists t; unfold step; rewrite E, Er; eexists; reflexivity.
  - enabled_by t E.
  - eapply wait_m_progress; [exact HI|]. right. right. right. left. eexists. exact E.
  - enabled_by t E.
  - enabled_by t E.
  - (* IOnce *) destruct (once s) as [|u|] eqn:Eo.
    + exists t. unfold step. rewrite E, Eo. eexists. reflexivity.
    + eapply (installer_progress prog s u HI). apply (i_once _ HI). rewrite Eo. reflexivity.
    + exists t. unfold step. rewrite E, Eo. eexists. reflexivity.
  - eapply installer_progress; [exact HI|]. rewrite E. reflexivity.
  - eapply installer_progress; [exact HI|]. rewrite E. reflexivity.
  - eapply installer_progress; [exact HI|]. rewrite E. reflexivity.
  - eapply installer_progress; [exact HI|]. rewrite E. reflexivity.
  - eapply installer_progress; [exact HI|]. rewrite E. reflexivity.
  - eapply installer_progress; [exact HI|]. rewrite E. reflexivity.
  - eapply installer_progress; [exact HI|]. rewrite E. reflexivity.
  - eapply installer_progress; [exact HI|]. rewrite E. reflexivity.
Qed.

(** ** The protocol as found (hand-over while holding meter.mtx): a reachable stuck state.
    Thread 0 obtains meter 0, thread 1 registers a callback on it, thread 3 installs and
    reaches the hand-over of registration 1 holding meter 0's lock, thread 2 has begun
    Unregister of registration 1 and holds its unregMu. *)
Definition old_prog : nat -> op :=
  fun t => match t with 0 => OpMeter 0 | 1 => OpRegister 0 | 2 => OpUnregister 1 | 3 => OpInstall | _ => OpNone end.
Definition old_sched : list nat := [0;0;0; 1;1;1; 3;3;3;3;3;3;3; 2;2;2].
Definition old_state : st :=
  match run true old_prog init old_sched with Some s => s | None => init end.

Lemma old_run : run true old_prog init old_sched = Some old_state.
Proof. vm_compute. reflexivity. Qed.

Lemma old_stuck : forall u, step true old_prog old_state u = None.
Proof. intro u. destruct u as [|[|[|[|u]]]]; vm_compute; reflexivity. Qed.

Lemma old_waiting :
  pcs old_state 2 = UWaitM 1 0 /\ pcs old_state 3 = IRegs 0 [1] [] /\
  mlock old_state 0 = Some 3 /\ ulock old_state 1 = Some 2.
Proof. vm_compute. repeat split; reflexivity. Qed.

(** The same schedule under the repaired protocol is not stuck. *)
Lemma new_not_stuck : exists s s', run false old_prog init old_sched = Some s /\ step false old_prog s 2 = Some s'.
Proof. vm_compute. do 2 eexists. split; reflexivity. Qed.
