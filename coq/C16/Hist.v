(** C16: lemmas about histories (count / inb / before / after, extension by one
    event) and the equivalence of the boolean checker with the Prop reading of the
    specification.  Nothing here mentions the model. *)
From Coq Require Import List Arith NArith Bool Lia.
From Verif Require Import C16.Spec.
Import ListNotations.

Lemma ev_beq_eq e x : ev_beq e x = true <-> e = x.
Proof. split; [apply internal_ev_dec_bl | apply internal_ev_dec_lb]. Qed.

Lemma ev_beq_refl e : ev_beq e e = true.
Proof. now apply ev_beq_eq. Qed.

Lemma ev_beq_neq e x : e <> x -> ev_beq e x = false.
Proof. intro H. destruct (ev_beq e x) eqn:E; [|reflexivity]. apply ev_beq_eq in E. contradiction. Qed.

Lemma ev_beq_false e x : ev_beq e x = false -> e <> x.
Proof. intros H E. subst. now rewrite ev_beq_refl in H. Qed.

Definition hit (e x : ev) : nat := if ev_beq e x then 1 else 0.

Lemma hit_same e : hit e e = 1.
Proof. unfold hit. now rewrite ev_beq_refl. Qed.
Lemma hit_diff e x : e <> x -> hit e x = 0.
Proof. intro H. unfold hit. now rewrite ev_beq_neq. Qed.

Lemma count_nil e : count e [] = 0.
Proof. reflexivity. Qed.

Lemma count_app e h1 h2 : count e (h1 ++ h2) = count e h1 + count e h2.
Proof. unfold count. now rewrite filter_app, app_length. Qed.

Lemma count_snoc e h x : count e (h ++ [x]) = count e h + hit e x.
Proof. rewrite count_app. unfold count at 2, hit. cbn. now destruct (ev_beq e x). Qed.

Lemma inb_app e h1 h2 : inb e (h1 ++ h2) = inb e h1 || inb e h2.
Proof. unfold inb. apply existsb_app. Qed.

Lemma inb_snoc e h x : inb e (h ++ [x]) = inb e h || ev_beq e x.
Proof. rewrite inb_app. unfold inb at 2. cbn. now rewrite orb_false_r. Qed.

Lemma inb_In e h : inb e h = true <-> In e h.
Proof.
  unfold inb. rewrite existsb_exists. split.
  - intros [x [Hx E]]. apply ev_beq_eq in E. now subst.
  - intro H. exists e. split; [exact H | apply ev_beq_refl].
Qed.

Lemma inb_count e h : inb e h = negb (count e h =? 0).
Proof.
  induction h as [|x h IH]; [reflexivity|].
  unfold inb, count in *. cbn. destruct (ev_beq e x); cbn; [reflexivity | exact IH].
Qed.

Lemma inb_false_count e h : inb e h = false -> count e h = 0.
Proof. rewrite inb_count. intro H. apply negb_false_iff in H. now apply Nat.eqb_eq. Qed.

Lemma count_pos_inb e h : 0 < count e h -> inb e h = true.
Proof. rewrite inb_count. intro H. apply negb_true_iff. apply Nat.eqb_neq. lia. Qed.

Lemma before_snoc e h x :
  before e (h ++ [x]) = if inb e h then before e h else if ev_beq e x then h else h ++ [x].
Proof.
  induction h as [|y h IH]; cbn.
  - now destruct (ev_beq e x).
  - unfold inb in *. cbn. destruct (ev_beq e y); cbn; [reflexivity|].
    rewrite IH. destruct (existsb (ev_beq e) h); [reflexivity|]. now destruct (ev_beq e x).
Qed.

Lemma after_snoc e h x :
  after e (h ++ [x]) = if inb e h then after e h ++ [x] else [].
Proof.
  induction h as [|y h IH]; cbn.
  - now destruct (ev_beq e x).
  - unfold inb in *. cbn. destruct (ev_beq e y); cbn; [reflexivity | exact IH].
Qed.

Lemma inb_before_sub e x h : inb x (before e h) = true -> inb x h = true.
Proof.
  induction h as [|y h IH]; cbn; [auto|].
  destruct (ev_beq e y); cbn; [discriminate|].
  unfold inb in *. cbn. destruct (ev_beq x y); cbn; auto.
Qed.

Lemma inb_after_sub e x h : inb x (after e h) = true -> inb x h = true.
Proof.
  induction h as [|y h IH]; cbn; [auto|].
  unfold inb in *. cbn. destruct (ev_beq e y); intro H.
  - rewrite H. apply orb_true_r.
  - rewrite (IH H). apply orb_true_r.
Qed.

(** ** Checker = Prop reading *)

Lemma dedup_In x l : In x (dedup l) <-> In x l.
Proof.
  induction l as [|y l IH]; cbn; [tauto|].
  destruct (existsb (N.eqb y) l) eqn:E.
  - rewrite IH. split; [auto|]. intros [->|H]; [|exact H].
    apply existsb_exists in E as [z [Hz E]]. apply N.eqb_eq in E. now subst.
  - cbn. rewrite IH. tauto.
Qed.

Lemma regs_occurs r h : ~ In r (flat_map ev_regs h) ->
  count (ESdkReg r) h = 0 /\ count (ESdkUnreg r) h = 0 /\ inb (ERegRet r) h = false /\
  inb (EUnregRet r) h = false.
Proof.
  induction h as [|x h IH]; intro H; [cbn; auto|].
  cbn [flat_map] in H. rewrite in_app_iff in H.
  assert (H1 : ~ In r (ev_regs x)) by tauto. assert (H2 : ~ In r (flat_map ev_regs h)) by tauto.
  destruct (IH H2) as [A [B [C D]]].
  unfold count, inb in *. cbn [filter existsb].
  assert (E : forall e, In r (ev_regs e) \/ (ev_beq (ESdkReg r) e = false /\ ev_beq (ESdkUnreg r) e = false /\
                         ev_beq (ERegRet r) e = false /\ ev_beq (EUnregRet r) e = false)).
  { intro e. destruct e; try (right; repeat split; apply ev_beq_neq; discriminate);
      match goal with |- In ?r (ev_regs (_ ?a)) \/ _ => destruct (N.eq_dec a r) as [->|Hn] end;
      try (left; now left); right; repeat split; apply ev_beq_neq; congruence. }
  destruct (E x) as [Hx | [E1 [E2 [E3 E4]]]]; [contradiction|].
  rewrite E1, E2, E3, E4. cbn [orb]. auto.
Qed.

Lemma reg_ok_vacuous r h : ~ In r (flat_map ev_regs h) -> reg_ok r h = true.
Proof.
  intro H. destruct (regs_occurs r h H) as [A [B [C D]]].
  unfold reg_ok, reg_at_most_once, reg_exactly_once, unreg_before_install_never, unreg_not_leaked.
  rewrite A, B, C, D. cbn.
  destruct (inb (EUnregRet r) (before EInstallCall h)) eqn:E.
  - apply inb_before_sub in E. congruence.
  - reflexivity.
Qed.

Lemma callbacks_ok_iff h : callbacks_ok h = true <-> CallbacksExactlyOnce h.
Proof.
  unfold callbacks_ok, CallbacksExactlyOnce. rewrite forallb_forall. split.
  - intros H r. destruct (in_dec N.eq_dec r (flat_map ev_regs h)) as [Hi|Hn].
    + apply H. now apply dedup_In.
    + now apply reg_ok_vacuous.
  - intros H r _. apply H.
Qed.

Lemma recs_occurs i n h : ~ In (i, n) (flat_map ev_recs h) -> inb (ERecCall i n) h = false.
Proof.
  induction h as [|x h IH]; intro H; [reflexivity|].
  cbn [flat_map] in H. rewrite in_app_iff in H. unfold inb in *. cbn [existsb].
  rewrite IH by tauto. rewrite orb_false_r.
  destruct (ev_beq (ERecCall i n) x) eqn:E; [|reflexivity].
  apply ev_beq_eq in E. subst x. exfalso. apply H. left. cbn. auto.
Qed.

Lemma sdkrec_occurs n h : ~ In (0%N, n) (flat_map ev_recs h) -> count (ESdkRec n) h = 0.
Proof.
  induction h as [|x h IH]; intro H; [reflexivity|].
  cbn [flat_map] in H. rewrite in_app_iff in H. unfold count in *. cbn [filter].
  destruct (ev_beq (ESdkRec n) x) eqn:E.
  - apply ev_beq_eq in E. subst x. exfalso. apply H. left. cbn. auto.
  - apply IH. tauto.
Qed.

Lemma spans_occurs t n h : ~ In (t, n) (flat_map ev_spans h) -> inb (ESpanCall t n) h = false.
Proof.
  induction h as [|x h IH]; intro H; [reflexivity|].
  cbn [flat_map] in H. rewrite in_app_iff in H. unfold inb in *. cbn [existsb].
  rewrite IH by tauto. rewrite orb_false_r.
  destruct (ev_beq (ESpanCall t n) x) eqn:E; [|reflexivity].
  apply ev_beq_eq in E. subst x. exfalso. apply H. left. cbn. auto.
Qed.

Lemma sdkspan_occurs n h : ~ In (0%N, n) (flat_map ev_spans h) -> count (ESdkSpan n) h = 0.
Proof.
  induction h as [|x h IH]; intro H; [reflexivity|].
  cbn [flat_map] in H. rewrite in_app_iff in H. unfold count in *. cbn [filter].
  destruct (ev_beq (ESdkSpan n) x) eqn:E.
  - apply ev_beq_eq in E. subst x. exfalso. apply H. left. cbn. auto.
  - apply IH. tauto.
Qed.

Definition pair_dec : forall a b : N * N, {a = b} + {a <> b}.
Proof. decide equality; apply N.eq_dec. Defined.

Lemma forwarding_ok_iff h : forwarding_ok h = true <-> ForwardingAfterInstall h.
Proof.
  unfold forwarding_ok, ForwardingAfterInstall. rewrite andb_true_iff, !forallb_forall. split.
  - intros [H1 H2]. repeat split.
    + intro n. destruct (in_dec pair_dec (0%N, n) (flat_map ev_recs h)) as [Hi|Hn].
      * apply H1 in Hi. now apply andb_true_iff in Hi.
      * unfold rec_at_most_once. now rewrite sdkrec_occurs.
    + intros i n. destruct (in_dec pair_dec (i, n) (flat_map ev_recs h)) as [Hi|Hn].
      * apply H1 in Hi. now apply andb_true_iff in Hi.
      * unfold rec_forwarded. destruct (inb (ERecCall i n) (after EInstallRet h)) eqn:E; [|reflexivity].
        apply inb_after_sub in E. rewrite recs_occurs in E by exact Hn. discriminate.
    + intro n. destruct (in_dec pair_dec (0%N, n) (flat_map ev_spans h)) as [Hi|Hn].
      * apply H2 in Hi. now apply andb_true_iff in Hi.
      * unfold span_at_most_once. now rewrite sdkspan_occurs.
    + intros t n. destruct (in_dec pair_dec (t, n) (flat_map ev_spans h)) as [Hi|Hn].
      * apply H2 in Hi. now apply andb_true_iff in Hi.
      * unfold span_forwarded. destruct (inb (ESpanCall t n) (after ETInstallRet h)) eqn:E; [|reflexivity].
        apply inb_after_sub in E. rewrite spans_occurs in E by exact Hn. discriminate.
  - intros [A [B [C D]]]. split; intros [a b] _; cbn; apply andb_true_iff; auto.
Qed.

Lemma spec_ok_iff h : spec_ok h = true <-> Spec h.
Proof.
  unfold spec_ok, Spec. rewrite andb_true_iff, callbacks_ok_iff, forwarding_ok_iff. tauto.
Qed.
