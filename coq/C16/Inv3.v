(** C16: invariants, part 3: what the SDK has been told about each registration,
    and where a registration that still has to be handed over is waiting. *)
From Coq Require Import List Arith NArith Bool Lia.
From Verif Require Import C16.Spec C16.Hist C16.Model C16.Inv C16.Inv2.
Import ListNotations.

Definition reg_table (u : ureg) (a b : nat) : Prop :=
  match u with
  | RNone | RLocal _ => a = 0 /\ b = 0
  | RSdk | RDirect => a = 1 /\ b = 0
  | RDirectNil => a = 1 /\ b = 1
  | RNil => a = b /\ a <= 1
  end.

(** Registrations of meter k that installation still has to hand to the SDK. *)
Definition pregs_of (p : pc) (k : nat) (reg : list nat) : list nat :=
  match p with
  | IInsts k' _ _ => if Nat.eqb k' k then reg else []
  | IRegs k' rs _ => if Nat.eqb k' k then rs else []
  | IReg k' r rs _ => if Nat.eqb k' k then r :: rs else []
  | _ => []
  end.
Definition pending_regs (s : st) (k : nat) : list nat :=
  if mdel s k then match once s with ORun u => pregs_of (pcs s u) k (registry s k) | _ => [] end
  else registry s k.

Record Inv3 (s : st) : Prop := mkInv3 {
  r_tab : forall r, reg_table (unreg s r) (sreg s r) (sunreg s r);
  r_pend : forall r k, unreg s r = RLocal k -> In r (pending_regs s k) \/ exists u, pcs s u = UFin r }.

Ltac get_inv3 HK := pose proof (r_tab _ HK) as Htab; pose proof (r_pend _ HK) as Hrp.

Lemma fresh_none s t : (forall r, unreg s r <> RNone -> pcs s r = Done) -> pcs s t <> Done -> unreg s t = RNone.
Proof. intros Hf Hp. destruct (unreg s t) eqn:E; try reflexivity; exfalso; apply Hp, Hf; congruence. Qed.

Lemma step_tab prog s t s' : Inv1 s -> Inv3 s -> step false prog s t = Some s' ->
  forall r, reg_table (unreg s' r) (sreg s' r) (sunreg s' r).
Proof.
  intros HI HK Hs. get_inv HI. get_inv3 HK. clear HI HK.
  inv_step Hs; pc_facts; simp_st; intros r'; upd_cases; try apply Htab.
  all: try (match goal with E : pcs ?s ?t = _ |- _ =>
              let X := fresh in
              assert (X : unreg s t = RNone) by (apply fresh_none; [assumption | congruence]);
              pose proof (Htab t) as Y; rewrite X in Y; cbn in Y |- *; lia end).
  all: try (match goal with |- context [sunreg ?s ?r] => pose proof (Htab r) as Y end;
            try (destruct Ef as [Ef|Ef]); try (rewrite Ef in * );
            repeat match goal with E : unreg _ _ = _ |- _ => rewrite E in Y end;
            cbn in Y |- *; try discriminate; try congruence; lia).
Qed.

Lemma pregs_other s t P k reg : (forall u, orun (once s) = Some u -> u <> t) ->
  match once s with ORun u => pregs_of (upd (pcs s) t P u) k reg | _ => [] end =
  match once s with ORun u => pregs_of (pcs s u) k reg | _ => [] end.
Proof. intro H. destruct (once s) eqn:E; try reflexivity. rewrite upd_other; [reflexivity|]. apply H. reflexivity. Qed.

Lemma ufin_keep (f : nat -> pc) t P r : (exists u, f u = UFin r) -> f t <> UFin r ->
  exists u, upd f t P u = UFin r.
Proof.
  intros [u Hu] Hn. exists u. destruct (Nat.eq_dec u t) as [->|Hne]; [congruence|]. now rewrite upd_other.
Qed.

Lemma pregs_remove p k reg r x : In x (pregs_of p k reg) -> x <> r -> In x (pregs_of p k (remove_nat r reg)).
Proof.
  destruct p; cbn; auto. destruct (Nat.eqb k0 k); auto. intros. apply in_remove_nat. auto.
Qed.

Lemma step_rpend prog s t s' : Inv1 s -> Inv2 s -> Inv3 s -> step false prog s t = Some s' ->
  forall r k, unreg s' r = RLocal k -> In r (pending_regs s' k) \/ exists u, pcs s' u = UFin r.
Proof.
  intros HI HJ HK Hs. get_inv HI. get_inv2 HJ. get_inv3 HK. clear HI HJ HK. unfold pending_regs in *.
  inv_step Hs; pc_facts; try ipc_once; simp_st; intros r' k' Hr';
    try (rewrite pregs_other by not_installer;
         destruct (Hrp _ _ Hr') as [X|X]; [left; exact X | right; apply ufin_keep; [exact X | congruence]]).
  all: try match goal with
       | E : pcs ?s ?t = UInM ?r ?k, Hr' : unreg ?s ?r' = RLocal ?k' |- _ =>
           destruct (Nat.eq_dec r' r) as [->|Hne]; [right; exists t; apply upd_same|];
           destruct (Hrp _ _ Hr') as [X|X]; [left | right; apply ufin_keep; [exact X|congruence]];
           rewrite pregs_other by not_installer;
           destruct (Nat.eq_dec k' k) as [->|Hk]; [rewrite upd_same | rewrite upd_other by assumption; exact X];
           destruct (mdel s k);
           [destruct (once s); try exact X; apply pregs_remove; assumption | apply in_remove_nat; auto]
       end.
  all: try (try match goal with E : once _ = _ |- _ => rewrite E in * end;
            rewrite ?pregs_other by not_installer;
            rewrite ?upd_same in *; upd_cases; try discriminate; try congruence;
            try match type of Hr' with RLocal _ = _ => inversion Hr'; subst | _ => idtac end;
            try match goal with E : pcs _ _ = IInsts _ _ _ |- _ => pose proof (Hid _ _ _ _ E) end;
            try (right; eexists; apply upd_same; fail);
            try (destruct (Hrp _ _ Hr') as [X|X];
                 [ try match goal with E : pcs _ _ = _ |- _ => rewrite E in X end
                 | right; apply ufin_keep; [exact X | congruence] ]);
            left; cbn [pregs_of] in *; eqb_cases;
            repeat match goal with
                   | |- context [mdel ?s ?k] => destruct (mdel s k) eqn:?
                   | H : context [if mdel ?s ?k then _ else _] |- _ => destruct (mdel s k) eqn:?
                   end;
            try discriminate; try congruence; try assumption;
            try (apply in_or_app; auto; fail);
            try (apply in_or_app; right; left; reflexivity);
            try (apply in_remove_nat; split; [assumption | congruence]);
            try (destruct X as [X|X]; [congruence | assumption]);
            try (destruct X; fail)).
Qed.

Lemma step_inv3 prog s t s' : Inv1 s -> Inv2 s -> Inv3 s -> step false prog s t = Some s' -> Inv3 s'.
Proof.
  intros HI HJ HK Hs. constructor.
  - eapply step_tab; eassumption.
  - eapply step_rpend; eassumption.
Qed.

Lemma init_inv3 : Inv3 init.
Proof. constructor; cbn; intros; [auto | discriminate]. Qed.

(** All three together, along any schedule. *)
Definition Inv (s : st) : Prop := Inv1 s /\ Inv2 s /\ Inv3 s.

Lemma step_inv prog s t s' : Inv s -> step false prog s t = Some s' -> Inv s'.
Proof.
  intros [HI [HJ HK]] Hs. split; [|split].
  - eapply step_inv1; eassumption.
  - eapply step_inv2; eassumption.
  - eapply step_inv3; eassumption.
Qed.

Lemma init_inv : Inv init.
Proof. split; [|split]; [apply init_inv1 | apply init_inv2 | apply init_inv3]. Qed.

Lemma run_inv prog sch : forall s0 s, Inv s0 -> run false prog s0 sch = Some s -> Inv s.
Proof.
  induction sch as [|t r IH]; cbn; intros s0 s H0 Hr.
  - inversion Hr; subst. exact H0.
  - destruct (step false prog s0 t) eqn:Hs; [|discriminate]. eapply IH; [|exact Hr]. eapply step_inv; eassumption.
Qed.

(** A registration that is still to be handed over cannot exist once installation is over,
    unless an Unregister call on it is in flight. *)
Lemma local_after_done s r k : Inv s -> once s = ODone -> unreg s r = RLocal k -> exists u, pcs s u = UFin r.
Proof.
  intros [HI [HJ HK]] Hd Hr. destruct (r_pend _ HK r k Hr) as [X|X]; [|exact X]. exfalso.
  unfold pending_regs in X. destruct (all_delegated_when_done s HJ Hd) as [Hm _].
  rewrite (Hm k (m_rcreated _ HJ r k Hr)), Hd in X. destruct X.
Qed.
