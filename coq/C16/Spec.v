(** C16 specification: global providers forward to the installed SDK without
    loss or deadlock.

    The property is stated over HISTORIES: chronological lists of call / return
    events at the global API and of events at the SDK that was installed as the
    delegate.  The same predicates judge (a) the histories produced by the
    transition system of Model.v (theorems, all schedules) and (b) the
    histories recorded from the real implementation by the harness.  Nothing
    in this file mentions the model.

    Identifiers: [i] instrument handle, [n] measurement / span id (unique per
    call), [r] callback registration, [t] tracer handle; binary numbers so that
    recorded histories with thousands of events are cheap to judge. *)
From Coq Require Import List Arith NArith Bool Lia.
Import ListNotations.

Inductive ev :=
(* meter side, global API *)
| EInstallCall | EInstallRet                  (* SetMeterProvider called / returned *)
| EInstRet (i : N)                          (* an instrument constructor returned handle i *)
| ERecCall (i n : N) | ERecRet (n : N)    (* measurement n on instrument i: call / return *)
| ERegCall (r : N) | ERegRet (r : N)      (* RegisterCallback: call / returned registration r *)
| EUnregCall (r : N) | EUnregRet (r : N)  (* r.Unregister(): call / return *)
(* meter side, at the SDK *)
| ESdkRec (n : N)                           (* measurement n reached the SDK *)
| ESdkReg (r : N) | ESdkUnreg (r : N)     (* callback of r registered with / unregistered from the SDK *)
(* tracer side *)
| ETInstallCall | ETInstallRet                (* SetTracerProvider *)
| ETracerRet (t : N)                        (* Tracer(...) returned handle t *)
| ESpanCall (t n : N) | ESpanRet (n : N)  (* span n started on tracer t: call / return *)
| ESdkSpan (n : N).                         (* span n was created by the SDK tracer *)

Scheme Equality for ev.

Definition history := list ev.

(** Occurrence counting, membership, and the parts of a history strictly
    before / after the FIRST occurrence of an event. *)
Definition count (e : ev) (h : history) : nat := length (filter (ev_beq e) h).
Definition inb (e : ev) (h : history) : bool := existsb (ev_beq e) h.

Fixpoint before (e : ev) (h : history) : history :=
  match h with
  | [] => []
  | x :: r => if ev_beq e x then [] else x :: before e r
  end.

Fixpoint after (e : ev) (h : history) : history :=
  match h with
  | [] => []
  | x :: r => if ev_beq e x then r else after e r
  end.

(** ** Clauses about one callback registration [r] *)

(** Registered with the SDK at most once; never unregistered more often than registered. *)
Definition reg_at_most_once (r : N) (h : history) : bool :=
  (count (ESdkReg r) h <=? 1) && (count (ESdkUnreg r) h <=? count (ESdkReg r) h).

(** Once installation has returned, a registration that was handed to the user
    and on which Unregister was never called is registered with the SDK exactly once
    (and still is). *)
Definition reg_exactly_once (r : N) (h : history) : bool :=
  implb (inb (ERegRet r) h && inb EInstallRet h && negb (inb (EUnregCall r) h))
        ((count (ESdkReg r) h =? 1) && (count (ESdkUnreg r) h =? 0)).

(** A registration whose Unregister returned before installation began is never
    registered with the SDK. *)
Definition unreg_before_install_never (r : N) (h : history) : bool :=
  implb (inb (EUnregRet r) (before EInstallCall h)) (count (ESdkReg r) h =? 0).

(** When Unregister has returned the callback is not registered with the SDK
    (every SDK registration has been undone), and nothing happens to it at the SDK afterwards:
    it is never registered after its Unregister returned. *)
Definition unreg_not_leaked (r : N) (h : history) : bool :=
  implb (inb (EUnregRet r) h)
        ((count (ESdkUnreg r) h =? count (ESdkReg r) h) &&
         (count (ESdkReg r) (after (EUnregRet r) h) =? 0) &&
         (count (ESdkUnreg r) (after (EUnregRet r) h) =? 0)).

Definition reg_ok (r : N) (h : history) : bool :=
  reg_at_most_once r h && reg_exactly_once r h && unreg_before_install_never r h && unreg_not_leaked r h.

(** ** Clauses about one measurement / span [n] *)

(** Never duplicated. *)
Definition rec_at_most_once (n : N) (h : history) : bool := count (ESdkRec n) h <=? 1.

(** A measurement whose call began after installation returned, and whose call has
    returned, reached the SDK (exactly once) -- whatever instrument it was made on
    (created before, during or after installation). *)
Definition rec_forwarded (i n : N) (h : history) : bool :=
  implb (inb (ERecCall i n) (after EInstallRet h) && inb (ERecRet n) h) (count (ESdkRec n) h =? 1).

Definition span_at_most_once (n : N) (h : history) : bool := count (ESdkSpan n) h <=? 1.
Definition span_forwarded (t n : N) (h : history) : bool :=
  implb (inb (ESpanCall t n) (after ETInstallRet h) && inb (ESpanRet n) h) (count (ESdkSpan n) h =? 1).

(** ** The whole specification, as a Prop over all identifiers ... *)
Definition CallbacksExactlyOnce (h : history) : Prop := forall r, reg_ok r h = true.
Definition ForwardingAfterInstall (h : history) : Prop :=
  (forall n, rec_at_most_once n h = true) /\ (forall i n, rec_forwarded i n h = true) /\
  (forall n, span_at_most_once n h = true) /\ (forall t n, span_forwarded t n h = true).
Definition Spec (h : history) : Prop := CallbacksExactlyOnce h /\ ForwardingAfterInstall h.

(** ... and as a checker over the identifiers that occur in the history (every
    clause is vacuous for an identifier that does not occur; proved in Proofs.v:
    [spec_ok h = true <-> Spec h]). *)
Definition ev_regs (e : ev) : list N :=
  match e with
  | ERegCall r | ERegRet r | EUnregCall r | EUnregRet r | ESdkReg r | ESdkUnreg r => [r]
  | _ => []
  end.
Definition ev_recs (e : ev) : list (N * N) :=
  match e with ERecCall i n => [(i, n)] | ESdkRec n => [(0%N, n)] | _ => [] end.
Definition ev_spans (e : ev) : list (N * N) :=
  match e with ESpanCall t n => [(t, n)] | ESdkSpan n => [(0%N, n)] | _ => [] end.

(** Duplicate-free list of identifiers (any list with the same members would do). *)
Fixpoint dedup (l : list N) : list N :=
  match l with
  | [] => []
  | x :: r => if existsb (N.eqb x) r then dedup r else x :: dedup r
  end.

Definition callbacks_ok (h : history) : bool :=
  forallb (fun r => reg_ok r h) (dedup (flat_map ev_regs h)).
Definition forwarding_ok (h : history) : bool :=
  forallb (fun p => rec_at_most_once (snd p) h && rec_forwarded (fst p) (snd p) h) (flat_map ev_recs h) &&
  forallb (fun p => span_at_most_once (snd p) h && span_forwarded (fst p) (snd p) h) (flat_map ev_spans h).
Definition spec_ok (h : history) : bool := callbacks_ok h && forwarding_ok h.

(** ** Well-formedness of a recorded history (harness sanity, not part of the property):
    measurement and registration identifiers are used by one call only. *)
Definition ids_unique (h : history) : bool :=
  forallb (fun r => (count (ERegCall r) h <=? 1) && (count (ERegRet r) h <=? 1)) (dedup (flat_map ev_regs h)) &&
  forallb (fun p => count (ERecRet (snd p)) h <=? 1) (flat_map ev_recs h).
