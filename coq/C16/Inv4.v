(** C16: invariants, part 4: the recorded history against the state. *)
From Coq Require Import List Arith NArith Bool Lia.
From Verif Require Import C16.Spec C16.Hist C16.Model C16.Inv C16.Inv2 C16.Inv3.
Import ListNotations.

Notation "# x" := (N.of_nat x) (at level 9, format "# x").

Definition upc (p : pc) : option nat :=
  match p with UWait r | UHold r | UWaitM r _ | UInM r _ | UFin r => Some r | _ => None end.

Ltac simp_hist :=
  cbn [hist set_plock set_mlock set_ulock set_once set_pdel set_mlist set_mcreated set_mdel set_imap
       set_registry set_ist set_unreg set_sreg set_sunreg set_pc emit sdk_register sdk_unregister
       delegate_inst] in *.

Ltac hist_simp := rewrite ?count_snoc, ?inb_snoc in *; unfold hit in *.

(** Decide one comparison of events: different constructors, or equal / different identifiers. *)
Ltac ev_split :=
  match goal with
  | |- context [ev_beq ?e ?x] =>
      first [ rewrite (ev_beq_neq e x) in * by discriminate
            | let Heq := fresh "Heq" in let Hne := fresh "Hne" in
              destruct (ev_eq_dec e x) as [Heq|Hne];
              [ try (injection Heq; intros); repeat match goal with H : N.of_nat _ = N.of_nat _ |- _ => apply Nat2N.inj in H end;
                subst; rewrite ?ev_beq_refl in *
              | rewrite (ev_beq_neq e x) in * by assumption ] ]
  | H : context [ev_beq ?e ?x] |- _ =>
      first [ rewrite (ev_beq_neq e x) in * by discriminate
            | let Heq := fresh "Heq" in let Hne := fresh "Hne" in
              destruct (ev_eq_dec e x) as [Heq|Hne];
              [ try (injection Heq; intros); repeat match goal with H : N.of_nat _ = N.of_nat _ |- _ => apply Nat2N.inj in H end;
                subst; rewrite ?ev_beq_refl in *
              | rewrite (ev_beq_neq e x) in * by assumption ] ]
  end.
Ltac ev_cases := repeat ev_split.

(** An Unregister call past its first step works on a registration that exists; one that
    holds unregMu works on a registration made through the global meter. *)
Record Inv1b (s : st) : Prop := mkInv1b {
  b_unn : forall u r, pcs s u = UWait r \/ pcs s u = UHold r -> unreg s r <> RNone;
  b_glob : forall u r, pcs s u = UHold r -> unreg s r <> RDirect /\ unreg s r <> RDirectNil }.

Lemma step_inv1b prog s t s' : Inv1 s -> Inv1b s -> step false prog s t = Some s' -> Inv1b s'.
Proof.
  intros HI [Hb1 Hb2] Hs. get_inv HI. clear HI. constructor.
  - inv_step Hs; pc_facts; simp_st; intros u' r' Hu'; upd_cases;
      try (destruct Hu' as [Hu'|Hu']; discriminate);
      try (destruct Hu' as [Hu'|Hu']; inversion Hu'; subst; congruence);
      try (eapply Hb1; eassumption);
      try discriminate;
      try (pose proof (Hb1 _ _ Hu'); contra_fresh);
      try (destruct Hu' as [Hu'|Hu']; inversion Hu'; subst; eapply Hb1; eauto).
  - inv_step Hs; pc_facts; simp_st; intros u' r' Hu'; upd_cases;
      try discriminate;
      try (eapply Hb2; eassumption);
      try (split; discriminate);
      try (inversion Hu'; subst; split; congruence);
      try (assert (X : unreg s t <> RNone) by (eapply Hb1; eauto); contra_fresh);
      try (pose proof (Hb2 _ _ Hu') as [X1 X2]; congruence).
Qed.

Lemma init_inv1b : Inv1b init.
Proof. constructor; cbn; intros; [destruct H|]; discriminate. Qed.

Record Inv4a (s : st) : Prop := mkInv4a {
  h_reg : forall r, count (ESdkReg #r) (hist s) = sreg s r;
  h_unreg : forall r, count (ESdkUnreg #r) (hist s) = sunreg s r;
  h_regret : forall r, inb (ERegRet #r) (hist s) = true -> unreg s r <> RNone;
  h_upc : forall u r, upc (pcs s u) = Some r -> inb (EUnregCall #r) (hist s) = true;
  h_nil : forall r, unreg s r = RNil \/ unreg s r = RDirectNil -> inb (EUnregCall #r) (hist s) = true;
  h_iret : inb EInstallRet (hist s) = true -> once s = ODone;
  h_unregret : forall r, inb (EUnregRet #r) (hist s) = true -> unreg s r = RNil \/ unreg s r = RDirectNil;
  h_instret : forall i, inb (EInstRet #i) (hist s) = true -> ist s i <> INone }.

Ltac get_inv4a HL :=
  pose proof (h_reg _ HL) as Hhr; pose proof (h_unreg _ HL) as Hhu; pose proof (h_regret _ HL) as Hhrr;
  pose proof (h_upc _ HL) as Hhp; pose proof (h_nil _ HL) as Hhn; pose proof (h_iret _ HL) as Hhi;
  pose proof (h_unregret _ HL) as Hhur; pose proof (h_instret _ HL) as Hhir.

Lemma step_hreg prog s t s' : Inv4a s -> step false prog s t = Some s' ->
  forall r, count (ESdkReg #r) (hist s') = sreg s' r.
Proof.
  intros HL Hs. get_inv4a HL. clear HL. inv_step Hs; simp_st; intro r'; hist_simp; ev_cases; upd_cases;
    rewrite ?Hhr; cbn; try lia; try congruence.
Qed.

Lemma step_hunreg prog s t s' : Inv4a s -> step false prog s t = Some s' ->
  forall r, count (ESdkUnreg #r) (hist s') = sunreg s' r.
Proof.
  intros HL Hs. get_inv4a HL. clear HL. inv_step Hs; simp_st; intro r'; hist_simp; ev_cases; upd_cases;
    rewrite ?Hhu; cbn; try lia; try congruence.
Qed.

Lemma step_hregret prog s t s' : Inv1 s -> Inv4a s -> step false prog s t = Some s' ->
  forall r, inb (ERegRet #r) (hist s') = true -> unreg s' r <> RNone.
Proof.
  intros HI HL Hs. get_inv HI. get_inv4a HL. clear HI HL.
  inv_step Hs; pc_facts; simp_st; intros r' Hr'; hist_simp; ev_cases; upd_cases;
    rewrite ?orb_false_r in *; try discriminate; try (apply Hhrr; assumption);
    try (apply Hhrr in Hr'; congruence);
    try (destruct Ef; congruence).
Qed.

Lemma step_hupc prog s t s' : Inv4a s -> step false prog s t = Some s' ->
  forall u r, upc (pcs s' u) = Some r -> inb (EUnregCall #r) (hist s') = true.
Proof.
  intros HL Hs. get_inv4a HL. clear HL.
  inv_step Hs; simp_st; intros u' r' Hu'; hist_simp; upd_cases; cbn [upc] in Hu';
    try discriminate;
    try (inversion Hu'; subst; rewrite ?ev_beq_refl, ?orb_true_r; try reflexivity);
    try (rewrite (Hhp _ _ Hu'); reflexivity);
    try (match goal with E : pcs _ _ = _ |- _ => erewrite Hhp by (rewrite E; reflexivity); reflexivity end).
Qed.

Ltac own_upc :=
  match goal with
  | E : pcs ?s ?t = _, Hhp : forall u r, upc (pcs ?s u) = Some r -> _ |- _ =>
      erewrite Hhp by (rewrite E; reflexivity)
  end.

Lemma step_hnil prog s t s' : Inv4a s -> step false prog s t = Some s' ->
  forall r, unreg s' r = RNil \/ unreg s' r = RDirectNil -> inb (EUnregCall #r) (hist s') = true.
Proof.
  intros HL Hs. get_inv4a HL. clear HL.
  inv_step Hs; simp_st; intros r' Hr'; hist_simp; upd_cases;
    try (destruct Hr' as [Hr'|Hr']; discriminate);
    try (rewrite (Hhn _ Hr'); reflexivity);
    try (own_upc; reflexivity).
Qed.

Lemma step_hiret prog s t s' : Inv4a s -> step false prog s t = Some s' ->
  inb EInstallRet (hist s') = true -> once s' = ODone.
Proof.
  intros HL Hs. get_inv4a HL. clear HL.
  inv_step Hs; simp_st; intros Hr'; hist_simp; ev_cases; rewrite ?orb_false_r in *;
    try reflexivity; try (apply Hhi; assumption); try assumption;
    try (apply Hhi in Hr'; congruence).
Qed.

Lemma step_hunregret prog s t s' : Inv1 s -> Inv1b s -> Inv4a s -> step false prog s t = Some s' ->
  forall r, inb (EUnregRet #r) (hist s') = true -> unreg s' r = RNil \/ unreg s' r = RDirectNil.
Proof.
  intros HI [Hb1 Hb2] HL Hs. get_inv HI. get_inv4a HL. clear HI HL.
  inv_step Hs; pc_facts; simp_st; intros r' Hr'; hist_simp; ev_cases; upd_cases;
    rewrite ?orb_false_r in *; try discriminate; try (apply Hhur; assumption);
    try (left; reflexivity); try (right; reflexivity);
    try (destruct (Hhur _ Hr'); [left|right]; congruence);
    try (destruct (Hhur _ Hr'); congruence);
    try (apply Hhur in Hr'; destruct Hr' as [X|X]; contra_fresh);
    try (left; assumption); try (right; assumption);
    try (exfalso; destruct Ef; congruence);
    try (exfalso; match goal with E : pcs _ _ = UHold _ |- _ =>
                    pose proof (Hb1 _ _ (or_intror E)); pose proof (Hb2 _ _ E) as [X1 X2]; congruence end).
Qed.

Lemma step_hinstret prog s t s' : Inv4a s -> step false prog s t = Some s' ->
  forall i, inb (EInstRet #i) (hist s') = true -> ist s' i <> INone.
Proof.
  intros HL Hs. get_inv4a HL. clear HL.
  inv_step Hs; simp_st; intros i' Hi'; hist_simp; ev_cases; upd_cases;
    rewrite ?orb_false_r in *; try discriminate; try (apply Hhir; assumption);
    try (intro X; apply deleg_none in X; revert X; apply Hhir; assumption).
Qed.

Lemma step_inv4a prog s t s' : Inv1 s -> Inv1b s -> Inv4a s -> step false prog s t = Some s' -> Inv4a s'.
Proof.
  intros HI HB HL Hs. constructor.
  - eapply step_hreg; eassumption.
  - eapply step_hunreg; eassumption.
  - eapply step_hregret; eassumption.
  - eapply step_hupc; eassumption.
  - eapply step_hnil; eassumption.
  - eapply step_hiret; eassumption.
  - eapply step_hunregret; eassumption.
  - eapply step_hinstret; eassumption.
Qed.

Lemma init_inv4a : Inv4a init.
Proof. constructor; cbn; intros; try reflexivity; try discriminate. destruct H; discriminate. Qed.

(** ** Before installation is first called nothing has reached the SDK *)
Record Inv4b (s : st) : Prop := mkInv4b {
  h_pre : inb EInstallCall (hist s) = false ->
          (forall u, is_ipc (pcs s u) = false /\ pcs s u <> IOnce) /\ (forall k, mdel s k = false) /\
          (forall r, sreg s r = 0);
  h_early : forall r, inb (EUnregRet #r) (before EInstallCall (hist s)) = true -> unreg s r = RNil /\ sreg s r = 0;
  h_after_reg : forall r, count (ESdkReg #r) (after (EUnregRet #r) (hist s)) = 0;
  h_after_unreg : forall r, count (ESdkUnreg #r) (after (EUnregRet #r) (hist s)) = 0 }.

Lemma step_hpre prog s t s' : Inv4b s -> step false prog s t = Some s' ->
  inb EInstallCall (hist s') = false ->
  (forall u, is_ipc (pcs s' u) = false /\ pcs s' u <> IOnce) /\ (forall k, mdel s' k = false) /\
  (forall r, sreg s' r = 0).
Proof.
  intros [Hpre _ _ _] Hs.
  inv_step Hs; simp_st; intros Hr'; hist_simp; ev_cases; rewrite ?orb_false_r, ?orb_true_r in *; try congruence;
    specialize (Hpre Hr'); destruct Hpre as [P1 [P2 P3]];
    try (exfalso; match goal with E : pcs _ ?t = _ |- _ => destruct (P1 t) as [X1 X2]; rewrite E in *; (discriminate || congruence) end);
    try (exfalso; match goal with E : mdel _ ?k = true |- _ => rewrite P2 in E; discriminate end);
    (split; [|split]); try assumption;
    try (intros u'; upd_cases; [split; [reflexivity|discriminate] | apply P1]);
    try (intros r'; upd_cases; apply P3).
Qed.

Ltac hist_simp2 := rewrite ?after_snoc, ?before_snoc, ?count_snoc, ?inb_snoc in *; unfold hit in *.

Lemma step_hafter_reg prog s t s' : Inv1 s -> Inv4a s -> Inv4b s -> step false prog s t = Some s' ->
  forall r, count (ESdkReg #r) (after (EUnregRet #r) (hist s')) = 0.
Proof.
  intros HI HL [_ _ Har _] Hs. get_inv HI. get_inv4a HL. clear HI HL.
  inv_step Hs; pc_facts; simp_st; intros r'; specialize (Har r'); pose proof (Hhur r') as Hur;
    repeat (hist_simp2;
            match goal with |- context [if ?b then _ else _] => destruct b eqn:? end);
    hist_simp2; rewrite ?count_nil, ?Har; ev_cases; cbn; try reflexivity; try congruence;
    try (exfalso; destruct (Hur eq_refl) as [X|X]; first [contra_fresh | destruct Ef; congruence | congruence]).
Qed.

Lemma step_hafter_unreg prog s t s' : Inv1 s -> Inv4a s -> Inv4b s -> step false prog s t = Some s' ->
  forall r, count (ESdkUnreg #r) (after (EUnregRet #r) (hist s')) = 0.
Proof.
  intros HI HL [_ _ _ Har] Hs. get_inv HI. get_inv4a HL. clear HI HL.
  inv_step Hs; pc_facts; simp_st; intros r'; specialize (Har r'); pose proof (Hhur r') as Hur;
    repeat (hist_simp2;
            match goal with |- context [if ?b then _ else _] => destruct b eqn:? end);
    hist_simp2; rewrite ?count_nil, ?Har; ev_cases; cbn; try reflexivity; try congruence;
    try (exfalso; destruct (Hur eq_refl) as [X|X]; first [contra_fresh | destruct Ef; congruence | congruence]).
Qed.

Lemma inb_before_notin e h : inb e h = false -> before e h = h.
Proof.
  induction h as [|y h IH]; cbn; [reflexivity|]. unfold inb in *. cbn.
  destruct (ev_beq e y); cbn; [discriminate|]. intro H. now rewrite IH.
Qed.

Lemma step_hearly prog s t s' : Inv1 s -> Inv1b s -> Inv3 s -> Inv4a s -> Inv4b s -> step false prog s t = Some s' ->
  forall r, inb (EUnregRet #r) (before EInstallCall (hist s')) = true -> unreg s' r = RNil /\ sreg s' r = 0.
Proof.
  intros HI [Hb1 Hb2] HK HL [Hpre Hearly _ _] Hs. get_inv HI. get_inv3 HK. get_inv4a HL. clear HI HK HL.
  inv_step Hs; pc_facts; simp_st; intros r' Hr';
    pose proof (Hearly r') as Hk; pose proof (Htab r') as Ht; pose proof (Hhur r') as Hur;
    repeat (hist_simp2;
            match goal with H : context [if ?b then _ else _] |- _ => destruct b eqn:? end);
    hist_simp2; ev_cases; rewrite ?orb_false_r, ?orb_true_r in *;
    try (destruct (Hk Hr') as [K1 K2]; upd_cases; try (split; assumption); try congruence;
         try contra_fresh; try (destruct Ef; congruence); fail).
  all: try congruence.
  all: match goal with Hpre : ?A -> _ /\ _ |- _ =>
         let HA := fresh in assert (HA : A) by (reflexivity || assumption);
         destruct (Hpre HA) as [P1 [P2 P3]]; clear Hpre end.
  all: try (exfalso; match goal with E : pcs _ ?t = _ |- _ => destruct (P1 t) as [X1 X2]; rewrite E in *; (discriminate || congruence) end).
  all: try (exfalso; match goal with E : mdel _ ?k = true |- _ => rewrite P2 in E; discriminate end).
  all: try (match type of Hr' with inb _ _ = true =>
              destruct (Hur Hr') as [X|X]; rewrite X in Ht; cbn in Ht;
              [ | exfalso; match goal with |- _ => rewrite P3 in Ht; lia end ] end).
  all: rewrite ?upd_same; upd_cases; try (split; [assumption | apply P3]); try (split; [reflexivity | apply P3]);
       try congruence; try contra_fresh.
  all: try (exfalso; match goal with E : unreg _ _ = _ |- _ => rewrite E in Ht; cbn in Ht; rewrite P3 in Ht; lia end).
  all: try (exfalso; match goal with E : pcs _ _ = UHold _ |- _ => pose proof (Hb1 _ _ (or_intror E)); congruence end).
Qed.

Lemma step_inv4b prog s t s' : Inv1 s -> Inv1b s -> Inv3 s -> Inv4a s -> Inv4b s ->
  step false prog s t = Some s' -> Inv4b s'.
Proof.
  intros HI HB HK HL HM Hs. constructor.
  - eapply step_hpre; eassumption.
  - eapply step_hearly; eassumption.
  - eapply step_hafter_reg; eassumption.
  - eapply step_hafter_unreg; eassumption.
Qed.

Lemma init_inv4b : Inv4b init.
Proof. constructor; cbn; intros; try reflexivity; try discriminate. repeat split; auto; discriminate. Qed.

(** ** Measurements *)
Record Inv4c (s : st) : Prop := mkInv4c {
  g_once : forall n, count (ESdkRec #n) (hist s) <= 1 /\ (pcs s n <> Done -> count (ESdkRec #n) (hist s) = 0);
  g_ret : forall n, inb (ERecRet #n) (hist s) = true -> pcs s n = Done;
  g_call : forall n i i', pcs s n = RRec i -> inb (ERecCall #i' #n) (after EInstallRet (hist s)) = true ->
                          once s = ODone;
  g_nocall : forall n i', pcs s n = Start -> inb (ERecCall #i' #n) (hist s) = false;
  g_fwd : forall n i, inb (ERecCall #i #n) (after EInstallRet (hist s)) = true ->
                      inb (ERecRet #n) (hist s) = true -> count (ESdkRec #n) (hist s) = 1 }.

Ltac get_inv4c HN :=
  pose proof (g_once _ HN) as Hgo; pose proof (g_ret _ HN) as Hgr; pose proof (g_call _ HN) as Hgc;
  pose proof (g_nocall _ HN) as Hgn; pose proof (g_fwd _ HN) as Hgf.

Lemma step_gonce prog s t s' : Inv4c s -> step false prog s t = Some s' ->
  forall n, count (ESdkRec #n) (hist s') <= 1 /\ (pcs s' n <> Done -> count (ESdkRec #n) (hist s') = 0).
Proof.
  intros HN Hs. get_inv4c HN. clear HN.
  inv_step Hs; simp_st; intros n'; destruct (Hgo n') as [G1 G2]; hist_simp; ev_cases; upd_cases; cbn;
    rewrite ?Nat.add_0_r; try (split; [assumption | first [assumption | congruence]]);
    try (split; [assumption | intros _; apply G2; congruence]);
    try (rewrite G2 by congruence; split; [lia | congruence]).
Qed.

Lemma step_gret prog s t s' : Inv4c s -> step false prog s t = Some s' ->
  forall n, inb (ERecRet #n) (hist s') = true -> pcs s' n = Done.
Proof.
  intros HN Hs. get_inv4c HN. clear HN.
  inv_step Hs; simp_st; intros n' Hn'; hist_simp; ev_cases; upd_cases; rewrite ?orb_false_r in *;
    try reflexivity; try (apply Hgr; assumption); try (apply Hgr in Hn'; congruence).
Qed.

Lemma step_gnocall prog s t s' : Inv4c s -> step false prog s t = Some s' ->
  forall n i', pcs s' n = Start -> inb (ERecCall #i' #n) (hist s') = false.
Proof.
  intros HN Hs. get_inv4c HN. clear HN.
  inv_step Hs; simp_st; intros n' i' Hn'; hist_simp; upd_cases; try discriminate; ev_cases;
    rewrite ?orb_false_r in *; try (apply Hgn; assumption); try congruence.
Qed.

Lemma step_gcall prog s t s' : Inv4a s -> Inv4c s -> step false prog s t = Some s' ->
  forall n i i', pcs s' n = RRec i -> inb (ERecCall #i' #n) (after EInstallRet (hist s')) = true ->
                 once s' = ODone.
Proof.
  intros HL HN Hs. get_inv4a HL. get_inv4c HN. clear HL HN.
  inv_step Hs; simp_st; intros n' i0 i' Hn' Hc';
    repeat (hist_simp2;
            match goal with H : context [if ?b then _ else _] |- _ => destruct b eqn:? end);
    hist_simp2; upd_cases; try discriminate; ev_cases; rewrite ?orb_false_r, ?orb_true_r in *;
    try (cbn in Hc'; discriminate);
    try (eapply Hgc; eassumption);
    try (apply Hhi; assumption);
    try reflexivity;
    try (assert (X : once s = ODone) by (first [eapply Hgc; eassumption | apply Hhi; assumption]); congruence);
    try (apply Hhi; reflexivity);
    try (exfalso; pose proof (Hgc _ _ _ Hn' Hc') as X; discriminate X);
    try assumption.
Qed.

Lemma step_gfwd prog s t s' : Inv1 s -> Inv2 s -> Inv4a s -> Inv4c s -> step false prog s t = Some s' ->
  forall n i, inb (ERecCall #i #n) (after EInstallRet (hist s')) = true ->
              inb (ERecRet #n) (hist s') = true -> count (ESdkRec #n) (hist s') = 1.
Proof.
  intros HI HJ HL HN Hs. get_inv HI. get_inv4a HL. get_inv4c HN. clear HI HL HN.
  inv_step Hs; simp_st; intros n' i' Hc' Hr'; destruct (Hgo n') as [G1 G2];
    repeat (hist_simp2;
            match goal with H : context [if ?b then _ else _] |- _ => destruct b eqn:? end);
    hist_simp2; ev_cases; rewrite ?orb_false_r, ?orb_true_r in *;
    try (cbn in Hc'; discriminate);
    rewrite ?Nat.add_0_r;
    try (eapply Hgf; eassumption);
    try (apply Hgr in Hr'; congruence);
    try (rewrite G2 by congruence; reflexivity);
    try congruence;
    try (exfalso;
         match goal with
         | E : pcs ?s ?t = RRec ?i |- _ =>
             assert (X : once s = ODone) by (eapply Hgc; eassumption);
             destruct (all_delegated_when_done s HJ X) as [_ Hall]; destruct (Hall i) as [Y|Y];
             [eapply Hrr; eassumption | congruence]
         end).
Qed.

Lemma step_inv4c prog s t s' : Inv1 s -> Inv2 s -> Inv4a s -> Inv4c s -> step false prog s t = Some s' -> Inv4c s'.
Proof.
  intros HI HJ HL HN Hs. constructor.
  - eapply step_gonce; eassumption.
  - eapply step_gret; eassumption.
  - eapply step_gcall; eassumption.
  - eapply step_gnocall; eassumption.
  - eapply step_gfwd; eassumption.
Qed.

Lemma init_inv4c : Inv4c init.
Proof. constructor; cbn; intros; try reflexivity; try discriminate. split; [lia | reflexivity]. Qed.

(** ** Everything together, along every schedule *)
Record Full (s : st) : Prop := mkFull {
  f_inv : Inv s; f_1b : Inv1b s; f_4a : Inv4a s; f_4b : Inv4b s; f_4c : Inv4c s }.

Lemma step_full prog s t s' : Full s -> step false prog s t = Some s' -> Full s'.
Proof.
  intros [[HI [HJ HK]] HB HL HM HN] Hs. constructor.
  - eapply step_inv; [|eassumption]. split; [|split]; assumption.
  - eapply step_inv1b; eassumption.
  - eapply step_inv4a; eassumption.
  - eapply step_inv4b; eassumption.
  - eapply step_inv4c; eassumption.
Qed.

Lemma init_full : Full init.
Proof. constructor; [apply init_inv | apply init_inv1b | apply init_inv4a | apply init_inv4b | apply init_inv4c]. Qed.

Lemma run_full prog sch : forall s0 s, Full s0 -> run false prog s0 sch = Some s -> Full s.
Proof.
  induction sch as [|t r IH]; cbn; intros s0 s H0 Hr.
  - inversion Hr; subst. exact H0.
  - destruct (step false prog s0 t) eqn:Hs; [|discriminate]. eapply IH; [|exact Hr]. eapply step_full; eassumption.
Qed.

Lemma reachable_full prog sch s : run false prog init sch = Some s -> Full s.
Proof. apply run_full, init_full. Qed.
