(** C16: the property lemmas, from the invariants of Inv*.v, Tracer.v and Dead.v. *)
From Coq Require Import List Arith NArith Bool Lia.
From Verif Require Import C16.Spec C16.Hist C16.Model C16.Inv C16.Inv2 C16.Inv3 C16.Inv4 C16.Tracer C16.Dead.
Import ListNotations.

(** ** Each transition system only logs its own events *)
Definition is_tracer_ev (e : ev) : bool :=
  match e with
  | ETInstallCall | ETInstallRet | ETracerRet _ | ESpanCall _ _ | ESpanRet _ | ESdkSpan _ => true
  | _ => false
  end.

Lemma step_meter_only prog s t s' : Forall (fun e => is_tracer_ev e = false) (hist s) ->
  step false prog s t = Some s' -> Forall (fun e => is_tracer_ev e = false) (hist s').
Proof.
  intros H Hs. inv_step Hs; simp_st; repeat (apply Forall_app; split); try assumption;
    repeat constructor.
Qed.

Lemma run_meter_only prog sch : forall s0 s, Forall (fun e => is_tracer_ev e = false) (hist s0) ->
  run false prog s0 sch = Some s -> Forall (fun e => is_tracer_ev e = false) (hist s).
Proof.
  induction sch as [|t r IH]; cbn; intros s0 s H0 Hr.
  - inversion Hr; subst. exact H0.
  - destruct (step false prog s0 t) eqn:Hs; [|discriminate]. eapply IH; [|exact Hr]. eapply step_meter_only; eassumption.
Qed.

Lemma tstep_tracer_only prog s t s' : Forall (fun e => is_tracer_ev e = true) (thist s) ->
  tstep prog s t = Some s' -> Forall (fun e => is_tracer_ev e = true) (thist s').
Proof.
  intros H Hs. inv_tstep Hs; simp_tst; repeat (apply Forall_app; split); try assumption;
    repeat constructor.
Qed.

Lemma trun_tracer_only prog sch : forall s0 s, Forall (fun e => is_tracer_ev e = true) (thist s0) ->
  trun prog s0 sch = Some s -> Forall (fun e => is_tracer_ev e = true) (thist s).
Proof.
  induction sch as [|t r IH]; cbn; intros s0 s H0 Hr.
  - inversion Hr; subst. exact H0.
  - destruct (tstep prog s0 t) eqn:Hs; [|discriminate]. eapply IH; [|exact Hr]. eapply tstep_tracer_only; eassumption.
Qed.

Lemma no_tracer_count e h : is_tracer_ev e = true -> Forall (fun x => is_tracer_ev x = false) h -> count e h = 0.
Proof.
  intros He H. induction H as [|x h Hx Hh IH]; [reflexivity|].
  unfold count in *. cbn [filter]. rewrite ev_beq_neq; [exact IH|]. intro; subst. congruence.
Qed.

Lemma no_meter_count e h : is_tracer_ev e = false -> Forall (fun x => is_tracer_ev x = true) h -> count e h = 0.
Proof.
  intros He H. induction H as [|x h Hx Hh IH]; [reflexivity|].
  unfold count in *. cbn [filter]. rewrite ev_beq_neq; [exact IH|]. intro; subst. congruence.
Qed.

Lemma count0_inb e h : count e h = 0 -> inb e h = false.
Proof. intro H. rewrite inb_count, H. reflexivity. Qed.

Lemma inb_after_false e x h : inb x h = false -> inb x (after e h) = false.
Proof. intro H. destruct (inb x (after e h)) eqn:E; [|reflexivity]. apply inb_after_sub in E. congruence. Qed.

(** The clauses about one registration in plain words. *)
Lemma reg_ok_plain r h : reg_ok r h = true ->
  count (ESdkReg r) h <= 1 /\ count (ESdkUnreg r) h <= count (ESdkReg r) h /\
  (In (ERegRet r) h -> In EInstallRet h -> ~ In (EUnregCall r) h ->
   count (ESdkReg r) h = 1 /\ count (ESdkUnreg r) h = 0) /\
  (In (EUnregRet r) (before EInstallCall h) -> count (ESdkReg r) h = 0) /\
  (In (EUnregRet r) h ->
   count (ESdkUnreg r) h = count (ESdkReg r) h /\
   count (ESdkReg r) (after (EUnregRet r) h) = 0 /\ count (ESdkUnreg r) (after (EUnregRet r) h) = 0).
Proof.
  unfold reg_ok, reg_at_most_once, reg_exactly_once, unreg_before_install_never, unreg_not_leaked.
  rewrite !andb_true_iff. intros [[[[A B] C] D] E].
  apply Nat.leb_le in A. apply Nat.leb_le in B. repeat split; try assumption.
  - apply inb_In in H. apply inb_In in H0. rewrite H, H0 in C.
    destruct (inb (EUnregCall r) h) eqn:X; [apply inb_In in X; contradiction|]. cbn in C.
    apply andb_true_iff in C as [C _]. now apply Nat.eqb_eq.
  - apply inb_In in H. apply inb_In in H0. rewrite H, H0 in C.
    destruct (inb (EUnregCall r) h) eqn:X; [apply inb_In in X; contradiction|]. cbn in C.
    apply andb_true_iff in C as [_ C]. now apply Nat.eqb_eq.
  - intro H. apply inb_In in H. rewrite H in D. cbn in D. now apply Nat.eqb_eq.
  - apply inb_In in H. rewrite H in E. cbn in E. rewrite !andb_true_iff in E.
    destruct E as [[E _] _]. now apply Nat.eqb_eq.
  - apply inb_In in H. rewrite H in E. cbn in E. rewrite !andb_true_iff in E.
    destruct E as [[_ E] _]. now apply Nat.eqb_eq.
  - apply inb_In in H. rewrite H in E. cbn in E. rewrite !andb_true_iff in E.
    destruct E as [_ E]. now apply Nat.eqb_eq.
Qed.

(** ** Meter side *)
Section Meter.
  Variable prog : nat -> op.
  Variable sch : list nat.
  Variable s : st.
  Hypothesis Hrun : run false prog init sch = Some s.

  Let HF : Full s := reachable_full prog sch s Hrun.

  Lemma m_reg_ok_nat r : reg_ok #r (hist s) = true.
  Proof.
    destruct HF as [[HI [HJ HK]] HB HL HM HN].
    pose proof (r_tab _ HK r) as Ht. pose proof (h_reg _ HL r) as Hr. pose proof (h_unreg _ HL r) as Hu.
    unfold reg_ok, reg_at_most_once, reg_exactly_once, unreg_before_install_never, unreg_not_leaked.
    rewrite Hr, Hu. repeat (apply andb_true_iff; split).
    - apply Nat.leb_le. destruct (unreg s r); cbn in Ht; lia.
    - apply Nat.leb_le. destruct (unreg s r); cbn in Ht; lia.
    - destruct (inb (ERegRet #r) (hist s)) eqn:E1; [|reflexivity].
      destruct (inb EInstallRet (hist s)) eqn:E2; [|reflexivity].
      destruct (inb (EUnregCall #r) (hist s)) eqn:E3; [reflexivity|]. cbn.
      pose proof (h_regret _ HL r E1) as Hnn. pose proof (h_iret _ HL E2) as Hd.
      assert (Hnil : unreg s r <> RNil /\ unreg s r <> RDirectNil).
      { split; intro X; rewrite (h_nil _ HL r) in E3 by auto; discriminate. }
      destruct (unreg s r) eqn:Eu; cbn in Ht; try tauto;
        try (destruct Ht as [-> ->]; reflexivity).
      exfalso. assert (HInv : Inv s) by (split; [|split]; assumption).
      destruct (local_after_done s r k HInv Hd Eu) as [u Hu'].
      rewrite (h_upc _ HL u r) in E3; [discriminate | rewrite Hu'; reflexivity].
    - destruct (inb (EUnregRet #r) (before EInstallCall (hist s))) eqn:E; [|reflexivity]. cbn.
      destruct (h_early _ HM r E) as [_ X]. rewrite X. reflexivity.
    - destruct (inb (EUnregRet #r) (hist s)) eqn:E; [|reflexivity]. cbn.
      rewrite (h_after_reg _ HM r), (h_after_unreg _ HM r). cbn. rewrite !andb_true_r.
      apply Nat.eqb_eq. destruct (h_unregret _ HL r E) as [X|X]; rewrite X in Ht; cbn in Ht; lia.
  Qed.

  Lemma m_callbacks : CallbacksExactlyOnce (hist s).
  Proof. intro r. rewrite <- (N2Nat.id r). apply m_reg_ok_nat. Qed.

  Lemma m_forwarding : ForwardingAfterInstall (hist s).
  Proof.
    destruct HF as [[HI [HJ HK]] HB HL HM HN].
    pose proof (run_meter_only prog sch init s (Forall_nil _) Hrun) as Honly.
    repeat split.
    - intro n. rewrite <- (N2Nat.id n). unfold rec_at_most_once. apply Nat.leb_le. apply (g_once _ HN).
    - intros i n. rewrite <- (N2Nat.id n), <- (N2Nat.id i). unfold rec_forwarded.
      destruct (inb (ERecCall _ _) (after EInstallRet (hist s))) eqn:E1; [|reflexivity].
      destruct (inb (ERecRet _) (hist s)) eqn:E2; [|reflexivity]. cbn.
      rewrite (g_fwd _ HN _ _ E1 E2). reflexivity.
    - intro n. unfold span_at_most_once. rewrite (no_tracer_count (ESdkSpan n) _ eq_refl Honly). reflexivity.
    - intros t n. unfold span_forwarded.
      rewrite (inb_after_false _ _ _ (count0_inb _ _ (no_tracer_count (ESpanCall t n) _ eq_refl Honly))). reflexivity.
  Qed.

  Lemma m_spec : Spec (hist s).
  Proof. split; [apply m_callbacks | apply m_forwarding]. Qed.

  (** State form: once installation has returned every instrument handle forwards. *)
  Lemma m_forwards_state : inb EInstallRet (hist s) = true ->
    (forall k, mcreated s k = true -> mdel s k = true) /\ (forall i, ist s i = INone \/ forwards s i = true).
  Proof.
    destruct HF as [[HI [HJ HK]] HB HL HM HN]. intro H. apply all_delegated_when_done; [exact HJ|].
    apply (h_iret _ HL H).
  Qed.

  Lemma m_no_orphans : inb EInstallRet (hist s) = true ->
    forall i, inb (EInstRet #i) (hist s) = true -> forwards s i = true.
  Proof.
    intros H i Hi. destruct (m_forwards_state H) as [_ Hall]. destruct (Hall i) as [X|X]; [|exact X].
    exfalso. destruct HF as [_ _ HL _ _]. exact (h_instret _ HL i Hi X).
  Qed.

  Lemma m_deadlock_free : forall t, ~ finished prog s t -> exists u s', step false prog s u = Some s'.
  Proof.
    intros t Ht. destruct HF as [[HI _] _ _ _ _]. exact (unfinished_progress prog s t HI Ht).
  Qed.
End Meter.

(** ** Tracer side *)
Section TracerSide.
  Variable prog : nat -> top.
  Variable sch : list nat.
  Variable s : tst.
  Hypothesis Hrun : trun prog tinit sch = Some s.

  Let HT : TInv s := treachable prog sch s Hrun.

  Lemma t_spec : Spec (thist s).
  Proof.
    pose proof (trun_tracer_only prog sch tinit s (Forall_nil _) Hrun) as Honly.
    assert (Hc : forall e, is_tracer_ev e = false -> count e (thist s) = 0)
      by (intros e He; apply no_meter_count; assumption).
    split; [|repeat split].
    - intro r. unfold reg_ok, reg_at_most_once, reg_exactly_once, unreg_before_install_never, unreg_not_leaked.
      rewrite (Hc (ESdkReg r) eq_refl), (Hc (ESdkUnreg r) eq_refl).
      rewrite (count0_inb _ _ (Hc (ERegRet r) eq_refl)), (count0_inb _ _ (Hc (EUnregRet r) eq_refl)).
      destruct (inb (EUnregRet r) (before EInstallCall (thist s))) eqn:E.
      + apply inb_before_sub in E. rewrite (count0_inb _ _ (Hc (EUnregRet r) eq_refl)) in E. discriminate.
      + reflexivity.
    - intro n. unfold rec_at_most_once. rewrite (Hc (ESdkRec n) eq_refl). reflexivity.
    - intros i n. unfold rec_forwarded.
      rewrite (inb_after_false _ _ _ (count0_inb _ _ (Hc (ERecCall i n) eq_refl))). reflexivity.
    - intro n. rewrite <- (N2Nat.id n). unfold span_at_most_once. apply Nat.leb_le. apply (t_cnt _ HT).
    - intros t n. rewrite <- (N2Nat.id n), <- (N2Nat.id t). unfold span_forwarded.
      destruct (inb (ESpanCall _ _) (after ETInstallRet (thist s))) eqn:E1; [|reflexivity].
      destruct (inb (ESpanRet _) (thist s)) eqn:E2; [|reflexivity]. cbn.
      rewrite (t_fwd _ HT _ _ E1 E2). reflexivity.
  Qed.

  Lemma t_forwards_state : inb ETInstallRet (thist s) = true -> forall x, tdel s x = None \/ tdel s x = Some true.
  Proof.
    intros H x. pose proof (tall_delegated s HT (t_iret _ HT H) x) as X.
    destruct (tdel s x) as [[|]|]; auto. congruence.
  Qed.

  Lemma t_deadlock_free : forall t, ~ tfinished prog s t -> exists u s', tstep prog s u = Some s'.
  Proof. intros t Ht. exact (tunfinished_progress prog s t HT Ht). Qed.
End TracerSide.
