(** C16 proofs (under construction). *)
From Coq Require Import List Arith Bool Lia.
From Verif Require Import C16.Spec C16.Model.
Import ListNotations.
Lemma stub_true : True. Proof. exact I. Qed.
