(** C16 property theorems: global providers forward to the installed SDK without
    loss or deadlock.  Statements only; every proof is [exact] of a lemma of
    Proofs.v / Dead.v / Hist.v.  [run false] is the protocol of the repaired code
    (commit 79987fb), [run true] the protocol as found; schedules [sch] are arbitrary
    lists of thread ids, programs [prog : nat -> op] assign one API call to each of
    any number of threads. *)
From Coq Require Import List Arith NArith Bool.
From Verif Require Import C16.Spec C16.Hist C16.Model C16.Inv C16.Inv4 C16.Dead C16.Tracer C16.Proofs.
Import ListNotations.

(** Once SetMeterProvider has returned, a measurement whose call begins afterwards reaches
    the SDK exactly once, on whatever instrument (obtained before, during or after
    installation); no measurement is ever duplicated; and every instrument handle that
    exists forwards. *)
Theorem c16_forwarding_after_install : forall prog sch s,
  run false prog init sch = Some s ->
  ForwardingAfterInstall (hist s) /\
  (inb EInstallRet (hist s) = true ->
   (forall k, mcreated s k = true -> mdel s k = true) /\
   (forall i, ist s i = INone \/ forwards s i = true)).
Proof. intros prog sch s H. split; [exact (m_forwarding prog sch s H) | exact (m_forwards_state prog sch s H)]. Qed.
Print Assumptions c16_forwarding_after_install.

(** The same for tracers and spans (SetTracerProvider). *)
Theorem c16_tracer_forwarding_after_install : forall prog sch s,
  trun prog tinit sch = Some s ->
  ForwardingAfterInstall (thist s) /\
  (inb ETInstallRet (thist s) = true -> forall x, tdel s x = None \/ tdel s x = Some true).
Proof.
  intros prog sch s H. split; [exact (proj2 (t_spec prog sch s H)) | exact (t_forwards_state prog sch s H)].
Qed.
Print Assumptions c16_tracer_forwarding_after_install.

(** Every registration: registered with the SDK at most once and never unregistered more often;
    exactly once (and still registered) once installation has returned if Unregister was never
    called on it; never, if its Unregister returned before installation began; and once its
    Unregister has returned it is not registered with the SDK and never will be. *)
Theorem c16_callbacks_exactly_once : forall prog sch s,
  run false prog init sch = Some s -> CallbacksExactlyOnce (hist s).
Proof. exact m_callbacks. Qed.
Print Assumptions c16_callbacks_exactly_once.

(** The same, clause by clause, without the boolean packaging. *)
Theorem c16_callbacks_plain : forall prog sch s r,
  run false prog init sch = Some s ->
  let h := hist s in
  count (ESdkReg r) h <= 1 /\ count (ESdkUnreg r) h <= count (ESdkReg r) h /\
  (In (ERegRet r) h -> In EInstallRet h -> ~ In (EUnregCall r) h ->
   count (ESdkReg r) h = 1 /\ count (ESdkUnreg r) h = 0) /\
  (In (EUnregRet r) (before EInstallCall h) -> count (ESdkReg r) h = 0) /\
  (In (EUnregRet r) h ->
   count (ESdkUnreg r) h = count (ESdkReg r) h /\
   count (ESdkReg r) (after (EUnregRet r) h) = 0 /\ count (ESdkUnreg r) (after (EUnregRet r) h) = 0).
Proof. intros prog sch s r H. apply reg_ok_plain. exact (m_callbacks prog sch s H r). Qed.
Print Assumptions c16_callbacks_plain.

(** An instrument whose constructor returned at any time -- in particular while installation
    was in progress, on either side of meter.mtx -- is connected once installation has returned. *)
Theorem c16_no_orphans : forall prog sch s,
  run false prog init sch = Some s -> inb EInstallRet (hist s) = true ->
  forall i, inb (EInstRet (N.of_nat i)) (hist s) = true -> forwards s i = true.
Proof. exact m_no_orphans. Qed.
Print Assumptions c16_no_orphans.

(** No reachable state is stuck: as long as some thread has not finished its call, some
    thread can take a step. *)
Theorem c16_deadlock_free : forall prog sch s,
  run false prog init sch = Some s ->
  forall t, ~ finished prog s t -> exists u s', step false prog s u = Some s'.
Proof. exact m_deadlock_free. Qed.
Print Assumptions c16_deadlock_free.

Theorem c16_tracer_deadlock_free : forall prog sch s,
  trun prog tinit sch = Some s ->
  forall t, ~ tfinished prog s t -> exists u s', tstep prog s u = Some s'.
Proof. exact t_deadlock_free. Qed.
Print Assumptions c16_tracer_deadlock_free.

(** What the theorem above excludes: the protocol as found (registration.setDelegate called
    while holding meter.mtx) reaches a state where no thread can move while Unregister
    (thread 2, holding unregMu, waiting for meter.mtx) and SetMeterProvider (thread 3, holding
    meter.mtx, waiting for unregMu) are both unfinished. *)
Theorem c16_old_protocol_deadlock_reachable :
  exists prog sch s,
    run true prog init sch = Some s /\ (forall u, step true prog s u = None) /\
    pcs s 2 = UWaitM 1 0 /\ pcs s 3 = IRegs 0 [1] [] /\ mlock s 0 = Some 3 /\ ulock s 1 = Some 2.
Proof. exists old_prog, old_sched, old_state. split; [exact old_run | split; [exact old_stuck | exact old_waiting]]. Qed.
Print Assumptions c16_old_protocol_deadlock_reachable.

(** The histories of both transition systems satisfy the checker the harness applies to the
    histories recorded from the implementation, and the checker decides the specification. *)
Theorem c16_model_histories_pass : forall prog sch s,
  run false prog init sch = Some s -> spec_ok (hist s) = true.
Proof. intros prog sch s H. apply spec_ok_iff. exact (m_spec prog sch s H). Qed.
Print Assumptions c16_model_histories_pass.

Theorem c16_tracer_histories_pass : forall prog sch s,
  trun prog tinit sch = Some s -> spec_ok (thist s) = true.
Proof. intros prog sch s H. apply spec_ok_iff. exact (t_spec prog sch s H). Qed.
Print Assumptions c16_tracer_histories_pass.

Theorem c16_checker_sound : forall h, spec_ok h = true <-> Spec h.
Proof. exact spec_ok_iff. Qed.
Print Assumptions c16_checker_sound.

(** ** Non-vacuity *)
(** A complete sequential run: meter, instrument, registration, installation, a measurement,
    Unregister.  Everything reaches the SDK exactly once. *)
Definition ex_prog : nat -> op :=
  prog_of [OpMeter 0; OpInst 0; OpRegister 0; OpInstall; OpRecord 1; OpUnregister 2].
Definition ex_sched : list nat := [0;0;0; 1;1;1; 2;2;2; 3;3;3;3;3;3;3;3;3;3;3;3;3; 4;4; 5;5;5].
Example ex_complete :
  exists s, run false ex_prog init ex_sched = Some s /\
            (forall t, finished ex_prog s t) /\
            inb EInstallRet (hist s) = true /\
            count (ESdkRec 4) (hist s) = 1 /\ count (ESdkReg 2) (hist s) = 1 /\ count (ESdkUnreg 2) (hist s) = 1 /\
            forwards s 1 = true.
Proof.
  eexists. split; [vm_compute; reflexivity|]. split.
  - intro t. do 6 (destruct t as [|t]; [left; reflexivity|]). right. split; [reflexivity | destruct t; reflexivity].
  - vm_compute. repeat split; reflexivity.
Qed.

(** An instrument created while installation is in progress (its constructor takes meter.mtx
    before the installer does) ends up connected. *)
Definition ex2_prog : nat -> op := prog_of [OpMeter 0; OpInst 0; OpInstall].
Definition ex2_sched : list nat := [0;0;0; 2;2; 1; 2;2; 1;1; 2;2;2;2;2;2;2].
Example ex_during_installation :
  exists s, run false ex2_prog init ex2_sched = Some s /\
            hist s = [EInstallCall; EInstRet 1; EInstallRet] /\ forwards s 1 = true.
Proof. eexists. split; [vm_compute; reflexivity|]. vm_compute. split; reflexivity. Qed.

(** The same identity requested twice before installation: one placeholder, two handles, and a
    measurement through each of them arrives after installation. *)
Definition ex3_prog : nat -> op :=
  prog_of [OpMeter 0; OpInst 0; OpInstAgain 0 1; OpInstall; OpRecord 1; OpRecord 2].
Definition ex3_sched : list nat := [0;0;0; 1;1;1; 2;2;2; 3;3;3;3;3;3;3;3;3;3;3; 4;4; 5;5].
Example ex_same_identity_twice :
  exists s, run false ex3_prog init ex3_sched = Some s /\
            ist s 2 = IAlias 1 /\ forwards s 1 = true /\ forwards s 2 = true /\
            count (ESdkRec 4) (hist s) = 1 /\ count (ESdkRec 5) (hist s) = 1.
Proof. eexists. split; [vm_compute; reflexivity|]. vm_compute. repeat split; reflexivity. Qed.

(** Two overlapping SetMeterProvider calls: the one that loses the Once (thread 3) cannot return
    while the winner (thread 2) is still handing over -- it waits at [IOnce] -- so "installation
    returned" ([EInstallRet], whichever call logs it first) always means the hand-over is complete. *)
Definition ex4_prog : nat -> op := prog_of [OpMeter 0; OpInst 0; OpInstall; OpInstall; OpRecord 1].
Example ex_second_installer_waits :
  exists s, run false ex4_prog init [0;0;0; 1;1;1; 2;2;2;2; 3] = Some s /\
            pcs s 3 = IOnce /\ step false ex4_prog s 3 = None /\ inb EInstallRet (hist s) = false /\
            forwards s 1 = false /\
            exists s', run false ex4_prog s [2;2;2;2;2;2;2; 3; 4;4] = Some s' /\
                       count EInstallRet (hist s') = 2 /\ count (ESdkRec 4) (hist s') = 1.
Proof.
  eexists. split; [vm_compute; reflexivity|]. repeat (split; [vm_compute; reflexivity|]).
  eexists. split; [vm_compute; reflexivity|]. vm_compute. split; reflexivity.
Qed.

(** The deadlock-freedom theorem talks about real waiting: here thread 1 waits for meter 0's lock. *)
Example ex_blocked_thread :
  exists s, run false ex2_prog init [0;0;0; 2;2;2;2;2; 1] = Some s /\
            step false ex2_prog s 1 = None /\ ~ finished ex2_prog s 1 /\
            exists s', step false ex2_prog s 2 = Some s'.
Proof.
  eexists. split; [vm_compute; reflexivity|]. split; [vm_compute; reflexivity|]. split.
  - intros [H|[H _]]; vm_compute in H; discriminate.
  - eexists. vm_compute. reflexivity.
Qed.
