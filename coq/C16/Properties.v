From Verif Require Import C16.Spec C16.Model C16.Proofs.
Theorem c16_stub : True. Proof. exact stub_true. Qed.
Print Assumptions c16_stub.
