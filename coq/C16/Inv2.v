(** C16: invariants of the meter-side transition system, part 2: every meter /
    instrument that is not yet delegated is still ahead of the installer. *)
From Coq Require Import List Arith NArith Bool Lia.
From Verif Require Import C16.Spec C16.Hist C16.Model C16.Inv.
Import ListNotations.

(** Meters the installation still has to visit, from the installer's program counter. *)
Definition pend_of (p : pc) (ml : list nat) : list nat :=
  match p with
  | ILockP | IWalk0 => ml
  | IWalk todo => todo
  | IMeter k todo => k :: todo
  | IInsts _ _ todo | IRegs _ _ todo | IReg _ _ _ todo => todo
  | _ => []
  end.
Definition pending_meters (s : st) : list nat :=
  match once s with ONew => mlist s | ODone => [] | ORun u => pend_of (pcs s u) (mlist s) end.

(** Instruments of meter k whose delegate the installer still has to set. *)
Definition pinsts_of (p : pc) (k : nat) : list nat :=
  match p with IInsts k' l _ => if Nat.eqb k' k then l else [] | _ => [] end.
Definition pending_insts (s : st) (k : nat) : list nat :=
  if mdel s k then match once s with ORun u => pinsts_of (pcs s u) k | _ => [] end else imap s k.

Definition early (p : pc) : bool := match p with IOnce | ILockP | IWalk0 => true | _ => false end.

Record Inv2 (s : st) : Prop := mkInv2 {
  m_pdel : pdel s = false -> once s = ONew \/ exists u, once s = ORun u /\ (pcs s u = ILockP \/ pcs s u = IWalk0);
  m_pend : forall k, mcreated s k = true -> mdel s k = false -> In k (pending_meters s);
  m_inst : forall i k, ist s i = IGlobal k false -> In i (pending_insts s k);
  m_icreated : forall i k d, ist s i = IGlobal k d -> mcreated s k = true;
  m_rcreated : forall r k, unreg s r = RLocal k -> mcreated s k = true;
  m_pcs : forall u k, pcs s u = CWait k \/ pcs s u = CHold k \/ pcs s u = GWait k \/ pcs s u = GHold k ->
                      mcreated s k = true;
  m_insts_del : forall u k l todo, pcs s u = IInsts k l todo -> mdel s k = true;
  m_ifresh : forall i, ist s i <> INone -> pcs s i = Done;
  m_alias : forall i j, ist s i = IAlias j -> exists k d, ist s j = IGlobal k d }.

Ltac get_inv2 HJ :=
  pose proof (m_pdel _ HJ) as Hpd; pose proof (m_pend _ HJ) as Hpend; pose proof (m_inst _ HJ) as Hinst;
  pose proof (m_icreated _ HJ) as Hic; pose proof (m_rcreated _ HJ) as Hrc; pose proof (m_pcs _ HJ) as Hmp; pose proof (m_insts_del _ HJ) as Hid; pose proof (m_ifresh _ HJ) as Hif; pose proof (m_alias _ HJ) as Hal.

(** The stepping thread is (or is not) the installer. *)
Ltac ipc_contra :=
  exfalso;
  match goal with
  | Ho : forall u, orun (once ?s) = Some u <-> _, Eo : once ?s = ORun ?t, E : pcs ?s ?t = _ |- _ =>
      let X := fresh in
      assert (X : is_ipc (pcs s t) = true) by (apply Ho; rewrite Eo; reflexivity);
      rewrite E in X; discriminate
  end.
Ltac ipc_once :=
  match goal with
  | Ho : forall u, orun (once ?s) = Some u <-> _, E : pcs ?s ?t = ?P |- _ =>
      lazymatch eval cbn in (is_ipc P) with
      | true =>
          let X := fresh "Eo" in
          assert (X : orun (once s) = Some t) by (apply Ho; rewrite E; reflexivity);
          destruct (once s) eqn:?; try discriminate X; cbn [orun] in X; inversion X; subst; clear X
      end
  end.

Lemma early_keep (o : once_t) (f : nat -> pc) t P :
  (o = ONew \/ exists u, o = ORun u /\ (f u = ILockP \/ f u = IWalk0)) ->
  f t <> ILockP -> f t <> IWalk0 ->
  o = ONew \/ exists u, o = ORun u /\ (upd f t P u = ILockP \/ upd f t P u = IWalk0).
Proof.
  intros [E|[u [E H]]] H1 H2; [left; exact E|]. right. exists u. split; [exact E|].
  destruct (Nat.eq_dec u t) as [->|Hn]; [destruct H; congruence|]. now rewrite upd_other.
Qed.

Lemma step_pdel prog s t s' : Inv1 s -> Inv2 s -> step false prog s t = Some s' ->
  pdel s' = false -> once s' = ONew \/ exists u, once s' = ORun u /\ (pcs s' u = ILockP \/ pcs s' u = IWalk0).
Proof.
  intros HI HJ Hs. get_inv HI. get_inv2 HJ. clear HI HJ. inv_step Hs; try ipc_once; simp_st; intro Hd;
    try discriminate;
    try (right; eexists; split; [first [reflexivity | eassumption]|]; rewrite upd_same; tauto);
    try (apply early_keep; [auto | congruence | congruence]);
    try (exfalso; destruct (Hpd Hd) as [X|[u [X [Y|Y]]]]; congruence).
Qed.

(** pending_meters when a thread other than the installer moves. *)
Lemma pending_other s t P ml : (forall u, orun (once s) = Some u -> u <> t) ->
  match once s with ONew => ml | ODone => [] | ORun u => pend_of (upd (pcs s) t P u) ml end =
  match once s with ONew => ml | ODone => [] | ORun u => pend_of (pcs s u) ml end.
Proof. intro H. destruct (once s) eqn:E; try reflexivity. rewrite upd_other; [reflexivity|]. apply H. reflexivity. Qed.

Ltac not_installer :=
  let u := fresh "u" in let X := fresh in
  intros u X;
  match goal with
  | Ho : forall u, orun (once ?s) = Some u <-> _, E : pcs ?s ?t = _ |- _ =>
      apply Ho in X; intro; subst u; rewrite E in X; discriminate X
  end.

Lemma step_pend prog s t s' : Inv1 s -> Inv2 s -> step false prog s t = Some s' ->
  forall k, mcreated s' k = true -> mdel s' k = false -> In k (pending_meters s').
Proof.
  intros HI HJ Hs. get_inv HI. get_inv2 HJ. clear HI HJ. unfold pending_meters in *.
  inv_step Hs; try ipc_once; simp_st; intros k' Hc Hd;
    try (rewrite pending_other by not_installer; apply Hpend; assumption).
  all: try (try match goal with E : once _ = _ |- _ => rewrite E in * end;
            rewrite ?upd_same in *; upd_cases; try discriminate;
            pose proof (Hpend k' Hc Hd) as X;
            try match goal with E : pcs _ _ = _ |- _ => rewrite E in X end;
            cbn [pend_of] in *;
            first [exact X | destruct X as [X|X]; [congruence | exact X]]).
  apply orb_false_iff in Heqb as [Hpf Hcf].
  assert (Hin : k' = k \/ In k' (match once s with ONew => mlist s | ORun u => pend_of (pcs s u) (mlist s) | ODone => [] end)).
  { destruct (Nat.eq_dec k' k) as [->|Hn]; [left; reflexivity|]. right.
    rewrite upd_other in Hc by assumption. apply Hpend; assumption. }
  destruct (Hpd Hpf) as [E|[u [E Hu']]]; rewrite E in *.
  - apply in_app_iff. destruct Hin; [right; left; congruence | left; assumption].
  - assert (u <> t) by (destruct Hu'; congruence). rewrite upd_other by assumption.
    destruct Hu' as [Hu'|Hu']; rewrite Hu' in *; cbn [pend_of] in *; apply in_app_iff;
      (destruct Hin; [right; left; congruence | left; assumption]).
Qed.

Lemma deleg_global x k d : deleg x = IGlobal k d -> exists d', x = IGlobal k d'.
Proof. destruct x; cbn; intro H; inversion H; subst; eauto. Qed.

Lemma step_mpcs prog s t s' : Inv1 s -> Inv2 s -> step false prog s t = Some s' ->
  forall u k, pcs s' u = CWait k \/ pcs s' u = CHold k \/ pcs s' u = GWait k \/ pcs s' u = GHold k ->
              mcreated s' k = true.
Proof.
  intros HI HJ Hs. get_inv HI. get_inv2 HJ. clear HI HJ.
  inv_step Hs; simp_st; intros u' k' Hu'; upd_cases;
    try reflexivity;
    try (eapply Hmp; eassumption);
    try (destruct Hu' as [X|[X|[X|X]]]; discriminate X);
    try (destruct Hu' as [X|[X|[X|X]]]; inversion X; subst; first [assumption | eapply Hmp; eauto]).
Qed.

Lemma step_icreated prog s t s' : Inv1 s -> Inv2 s -> step false prog s t = Some s' ->
  forall i k d, ist s' i = IGlobal k d -> mcreated s' k = true.
Proof.
  intros HI HJ Hs. get_inv HI. get_inv2 HJ. clear HI HJ.
  inv_step Hs; simp_st; intros i' k' d' Hi'; upd_cases;
    try reflexivity; try discriminate;
    try (eapply Hic; eassumption);
    try (apply deleg_global in Hi' as [d'' Hi']; eapply Hic; eassumption);
    try (inversion Hi'; subst; eapply Hmp; eauto).
Qed.

Lemma step_rcreated prog s t s' : Inv1 s -> Inv2 s -> step false prog s t = Some s' ->
  forall r k, unreg s' r = RLocal k -> mcreated s' k = true.
Proof.
  intros HI HJ Hs. get_inv HI. get_inv2 HJ. clear HI HJ.
  inv_step Hs; simp_st; intros r' k' Hr'; upd_cases;
    try reflexivity; try discriminate;
    try (eapply Hrc; eassumption);
    try (inversion Hr'; subst; eapply Hmp; eauto).
Qed.

Lemma step_insts_del prog s t s' : Inv1 s -> Inv2 s -> step false prog s t = Some s' ->
  forall u k l todo, pcs s' u = IInsts k l todo -> mdel s' k = true.
Proof.
  intros HI HJ Hs. get_inv HI. get_inv2 HJ. clear HI HJ.
  inv_step Hs; simp_st; intros u' k' l' todo' Hu'; upd_cases;
    try reflexivity; try discriminate;
    try (eapply Hid; eassumption);
    try (inversion Hu'; subst; rewrite ?upd_same; first [reflexivity | congruence | eapply Hid; eassumption]).
Qed.

Lemma pinsts_other s t P k : (forall u, orun (once s) = Some u -> u <> t) ->
  match once s with ORun u => pinsts_of (upd (pcs s) t P u) k | _ => [] end =
  match once s with ORun u => pinsts_of (pcs s u) k | _ => [] end.
Proof. intro H. destruct (once s) eqn:E; try reflexivity. rewrite upd_other; [reflexivity|]. apply H. reflexivity. Qed.

Lemma deleg_not_false x k : deleg x <> IGlobal k false.
Proof. destruct x; cbn; congruence. Qed.

Lemma step_minst prog s t s' : Inv1 s -> Inv2 s -> step false prog s t = Some s' ->
  forall i k, ist s' i = IGlobal k false -> In i (pending_insts s' k).
Proof.
  intros HI HJ Hs. get_inv HI. get_inv2 HJ. clear HI HJ. unfold pending_insts in *.
  inv_step Hs; try ipc_once; simp_st; intros i' k' Hi';
    try (rewrite pinsts_other by not_installer; apply Hinst; assumption).
  all: try (try match goal with E : once _ = _ |- _ => rewrite E in * end;
            rewrite ?pinsts_other by not_installer;
            rewrite ?upd_same in *; upd_cases; try discriminate;
            try (exfalso; eapply deleg_not_false; eassumption);
            try match type of Hi' with IGlobal _ _ = _ => inversion Hi'; subst | _ => idtac end;
            try (pose proof (Hinst _ _ Hi') as X;
                 try match goal with E : pcs _ _ = _ |- _ => rewrite E in X end);
            try match goal with E : pcs _ _ = IInsts _ _ _ |- _ => pose proof (Hid _ _ _ _ E) end;
            cbn [pinsts_of] in *; eqb_cases;
            repeat match goal with
                   | |- context [mdel ?s ?k] => destruct (mdel s k) eqn:?
                   | H : context [if mdel ?s ?k then _ else _] |- _ => destruct (mdel s k) eqn:?
                   end;
            try discriminate; try congruence;
            try assumption; try (apply in_or_app; auto; fail);
            try (destruct X as [X|X]; [congruence | assumption]);
            try (apply in_or_app; right; left; reflexivity);
            try (destruct X; fail)).
Qed.

Lemma step_ifresh prog s t s' : Inv1 s -> Inv2 s -> step false prog s t = Some s' ->
  forall i, ist s' i <> INone -> pcs s' i = Done.
Proof.
  intros HI HJ Hs. get_inv HI. get_inv2 HJ. clear HI HJ.
  inv_step Hs; simp_st; intros i' Hi'; upd_cases; try reflexivity; try (apply Hif; assumption);
    try (apply Hif; intro X; apply Hi'; rewrite X; reflexivity);
    try (exfalso; match goal with E : pcs _ ?x = _ |- _ => rewrite Hif in E by congruence; discriminate end);
    try (exfalso; match goal with E : pcs _ ?x = _ |- _ =>
           rewrite Hif in E by (intro X; apply Hi'; rewrite X; reflexivity); discriminate end).
Qed.

Lemma deleg_alias x j : deleg x = IAlias j -> x = IAlias j.
Proof. destruct x; cbn; congruence. Qed.
Lemma deleg_keeps_global x k d : x = IGlobal k d -> exists d', deleg x = IGlobal k d'.
Proof. intros ->. cbn. eauto. Qed.

Lemma step_alias prog s t s' : Inv1 s -> Inv2 s -> step false prog s t = Some s' ->
  forall i j, ist s' i = IAlias j -> exists k d, ist s' j = IGlobal k d.
Proof.
  intros HI HJ Hs. get_inv HI. get_inv2 HJ. clear HI HJ.
  inv_step Hs; simp_st; intros i' j' Hi'; upd_cases; try discriminate;
    try (eapply Hal; eassumption);
    try (apply deleg_alias in Hi'); 
    try (destruct (Hal _ _ Hi') as [kk [dd X]]; first [rewrite X; cbn; eauto; fail | eauto]; fail);
    try (inversion Hi'; subst; eauto; fail);
    try (exfalso; destruct (Hal _ _ Hi') as [kk [dd X]];
         match goal with E : pcs _ ?x = _ |- _ => rewrite Hif in E by congruence; discriminate end);
    try (exfalso; inversion Hi'; subst;
         match goal with E : pcs _ ?x = _ |- _ => rewrite Hif in E by congruence; discriminate end).
Qed.

Lemma step_inv2 prog s t s' : Inv1 s -> Inv2 s -> step false prog s t = Some s' -> Inv2 s'.
Proof.
  intros HI HJ Hs. constructor.
  - eapply step_pdel; eassumption.
  - eapply step_pend; eassumption.
  - eapply step_minst; eassumption.
  - eapply step_icreated; eassumption.
  - eapply step_rcreated; eassumption.
  - eapply step_mpcs; eassumption.
  - eapply step_insts_del; eassumption.
  - eapply step_ifresh; eassumption.
  - eapply step_alias; eassumption.
Qed.

Lemma init_inv2 : Inv2 init.
Proof.
  constructor; cbn; intros; try discriminate; try tauto.
  all: try (left; reflexivity).
  all: try (destruct H as [H|[H|[H|H]]]; discriminate).
Qed.

(** Consequences used by the property theorems. *)
Lemma all_delegated_when_done s : Inv2 s -> once s = ODone ->
  (forall k, mcreated s k = true -> mdel s k = true) /\
  (forall i, ist s i = INone \/ forwards s i = true).
Proof.
  intros HJ Hd. assert (Hm : forall k, mcreated s k = true -> mdel s k = true).
  { intros k Hc. destruct (mdel s k) eqn:E; [reflexivity|].
    pose proof (m_pend _ HJ k Hc E) as X. unfold pending_meters in X. rewrite Hd in X. destruct X. }
  assert (Hg : forall i k, ist s i <> IGlobal k false).
  { intros i k E. pose proof (m_inst _ HJ i k E) as X. unfold pending_insts in X.
    rewrite (Hm k (m_icreated _ HJ i k false E)), Hd in X. destruct X. }
  split; [exact Hm|]. intro i. unfold forwards. destruct (ist s i) as [|k [|]| |j] eqn:E; auto.
  - exfalso. exact (Hg i k E).
  - destruct (m_alias _ HJ i j E) as [k [d X]]. rewrite X. destruct d; auto. exfalso. exact (Hg j k X).
Qed.
