(** C11 model: W3C baggage, byte level.
    Mirrors baggage/baggage.go (Parse, parseMember, parsePropertyInternal,
    replaceInvalidUTF8Sequences, Member.String, Property.String, Baggage.String,
    valueEscape, New, NewMember(Raw), NewKeyValueProperty(Raw), SetMember,
    DeleteMember) and propagation/baggage.go (Inject / Extract), together with
    the Go library functions they lean on (url.PathUnescape, strings.TrimSpace,
    strings.Cut / Split, utf8.ValidString / DecodeRuneInString).
    The code is modelled AS IT IS (see F-C11-1, F-C11-2 in Properties.v).
    Executable definitions only; proofs live in Proofs.v. *)
From Verif Require Import Lib.Base.
Open Scope N_scope.

(** Lengths as binary numbers (limits are 180 / 4096 / 8192). *)
Fixpoint lenN {A} (s : list A) : N :=
  match s with [] => 0 | _ :: r => N.succ (lenN r) end.

Definition is_nil {A} (l : list A) : bool := match l with [] => true | _ => false end.

Definition MAX_MEMBERS : N := 180.
Definition MAX_BYTES_PER_MEMBER : N := 4096.
Definition MAX_BYTES_PER_BAGGAGE : N := 8192.

Definition COMMA : N := 44.     (* listDelimiter "," *)
Definition EQUALS : N := 61.    (* keyValueDelimiter "=" *)
Definition SEMI : N := 59.      (* propertyDelimiter ";" *)
Definition PERCENT : N := 37.

(** *** strings.Cut / strings.Split for a one-byte separator *)
Fixpoint cut (sep : N) (s : bytes) : bytes * bytes * bool :=
  match s with
  | [] => ([], [], false)
  | c :: r => if c =? sep then ([], r, true)
              else let '(a, b, f) := cut sep r in (c :: a, b, f)
  end.

(** strings.Split(s, sep): always at least one piece. *)
Fixpoint split (sep : N) (s : bytes) : list bytes :=
  match s with
  | [] => [[]]
  | c :: r => if c =? sep then [] :: split sep r
              else match split sep r with
                   | p :: ps => (c :: p) :: ps
                   | [] => [[c]]
                   end
  end.

(** strings.Join with a one-byte separator. *)
Fixpoint join (sep : N) (l : list bytes) : bytes :=
  match l with
  | [] => []
  | [x] => x
  | x :: r => x ++ sep :: join sep r
  end.

(** [span p l] = (longest prefix satisfying p, rest). *)
Fixpoint span (p : N -> bool) (l : bytes) : bytes * bytes :=
  match l with
  | c :: r => if p c then let '(a, b) := span p r in (c :: a, b) else ([], l)
  | [] => ([], [])
  end.

(** *** character tables (safeKeyCharset, safeValueCharset) *)
Definition key_char (c : N) : bool :=
  (c =? 33) || ((35 <=? c) && (c <=? 39)) || (c =? 42) || (c =? 43) || (c =? 45) || (c =? 46) ||
  ((48 <=? c) && (c <=? 57)) || ((65 <=? c) && (c <=? 90)) || ((94 <=? c) && (c <=? 122)) ||
  (c =? 124) || (c =? 126).

Definition value_char (c : N) : bool :=
  (c =? 33) || ((35 <=? c) && (c <=? 43)) || ((45 <=? c) && (c <=? 58)) ||
  ((60 <=? c) && (c <=? 91)) || ((93 <=? c) && (c <=? 126)).

(** validateKey / validateValue: range over runes; a rune >= 0x80 (or an
    invalid byte, decoded as U+FFFD) is never in a table, so this is bytewise. *)
Definition validate_key (k : bytes) : bool := negb (is_nil k) && forallb key_char k.
Definition validate_value (v : bytes) : bool := forallb value_char v.

(** *** valueEscape / shouldEscape *)
Definition should_escape (c : N) : bool := (c =? PERCENT) || negb (value_char c).
Definition upperhex (d : N) : N := if d <? 10 then 48 + d else 55 + d.

Fixpoint value_escape (s : bytes) : bytes :=
  match s with
  | [] => []
  | c :: r => if should_escape c
              then PERCENT :: upperhex (c / 16) :: upperhex (c mod 16) :: value_escape r
              else c :: value_escape r
  end.

(** *** url.PathUnescape: error (None) iff some '%' is not followed by two hex
    digits; '+' is kept (path-segment mode). *)
Definition ishex (c : N) : bool :=
  ((48 <=? c) && (c <=? 57)) || ((97 <=? c) && (c <=? 102)) || ((65 <=? c) && (c <=? 70)).
Definition unhex (c : N) : N :=
  if (48 <=? c) && (c <=? 57) then c - 48
  else if (97 <=? c) && (c <=? 102) then c - 97 + 10
  else if (65 <=? c) && (c <=? 70) then c - 65 + 10
  else 0.

Fixpoint path_unescape (s : bytes) : option bytes :=
  match s with
  | [] => Some []
  | c :: r =>
      if c =? PERCENT then
        match r with
        | h1 :: h2 :: r' =>
            if ishex h1 && ishex h2 then
              match path_unescape r' with
              | Some t => Some ((unhex h1 * 16 + unhex h2) :: t)
              | None => None
              end
            else None
        | _ => None
        end
      else match path_unescape r with
           | Some t => Some (c :: t)
           | None => None
           end
  end.

(** *** UTF-8 as Go's unicode/utf8 decodes it.
    [lead a] = (size, lo, hi): encoded size announced by the first byte (0 =
    invalid first byte, 1 = ASCII) and the accept range of the second byte
    (tables [first] and [acceptRanges] of unicode/utf8). *)
Definition lead (a : N) : N * N * N :=
  if a <? 128 then (1, 0, 0)
  else if a <? 194 then (0, 0, 0)
  else if a <? 224 then (2, 128, 191)
  else if a =? 224 then (3, 160, 191)
  else if a <? 237 then (3, 128, 191)
  else if a =? 237 then (3, 128, 159)
  else if a <? 240 then (3, 128, 191)
  else if a =? 240 then (4, 144, 191)
  else if a <? 244 then (4, 128, 191)
  else if a =? 244 then (4, 128, 143)
  else (0, 0, 0).

Definition cont (c : N) : bool := (128 <=? c) && (c <=? 191).
Definition in_range (lo hi b : N) : bool := (lo <=? b) && (b <=? hi).

Definition is2 (a b : N) : bool :=
  let '(sz, lo, hi) := lead a in (sz =? 2) && in_range lo hi b.
Definition is3 (a b c : N) : bool :=
  let '(sz, lo, hi) := lead a in (sz =? 3) && in_range lo hi b && cont c.
Definition is4 (a b c d : N) : bool :=
  let '(sz, lo, hi) := lead a in (sz =? 4) && in_range lo hi b && cont c && cont d.

(** utf8.ValidString *)
Fixpoint valid_string (s : bytes) : bool :=
  match s with
  | [] => true
  | a :: r1 =>
      if a <? 128 then valid_string r1 else
      match r1 with
      | [] => false
      | b :: r2 =>
          if is2 a b then valid_string r2 else
          match r2 with
          | [] => false
          | c :: r3 =>
              if is3 a b c then valid_string r3 else
              match r3 with
              | [] => false
              | d :: r4 => is4 a b c d && valid_string r4
              end
          end
      end
  end.

Definition FFFD : bytes := [239; 191; 189].   (* "�" *)

(** The loop of replaceInvalidUTF8Sequences: DecodeRuneInString; a well-formed
    sequence is written back unchanged (WriteRune re-encodes the same bytes),
    (RuneError, 1) becomes U+FFFD and one byte is skipped. *)
Fixpoint fix_utf8 (s : bytes) : bytes :=
  match s with
  | [] => []
  | a :: r1 =>
      if a <? 128 then a :: fix_utf8 r1 else
      match r1 with
      | [] => FFFD ++ fix_utf8 r1
      | b :: r2 =>
          if is2 a b then a :: b :: fix_utf8 r2 else
          match r2 with
          | [] => FFFD ++ fix_utf8 r1
          | c :: r3 =>
              if is3 a b c then a :: b :: c :: fix_utf8 r3 else
              match r3 with
              | [] => FFFD ++ fix_utf8 r1
              | d :: r4 => if is4 a b c d then a :: b :: c :: d :: fix_utf8 r4
                           else FFFD ++ fix_utf8 r1
              end
          end
      end
  end.

Definition replace_invalid (s : bytes) : bytes :=
  if valid_string s then s else fix_utf8 s.

(** validateBaggageName / validateBaggageValue *)
Definition valid_name (s : bytes) : bool := negb (is_nil s) && valid_string s.

(** *** strings.TrimSpace (unicode.IsSpace on both ends).  White space runes:
    U+0009..000D, U+0020, U+0085, U+00A0, U+1680, U+2000..200A, U+2028, U+2029,
    U+202F, U+205F, U+3000. *)
Definition ascii_space (c : N) : bool := ((9 <=? c) && (c <=? 13)) || (c =? 32).
Definition ws2 (a b : N) : bool := (a =? 194) && ((b =? 133) || (b =? 160)).
Definition ws3 (a b c : N) : bool :=
  ((a =? 225) && (b =? 154) && (c =? 128)) ||
  ((a =? 226) && (b =? 128) && (((128 <=? c) && (c <=? 138)) || (c =? 168) || (c =? 169) || (c =? 175))) ||
  ((a =? 226) && (b =? 129) && (c =? 159)) ||
  ((a =? 227) && (b =? 128) && (c =? 128)).

Fixpoint trim_left (s : bytes) : bytes :=
  match s with
  | [] => []
  | a :: r1 =>
      if ascii_space a then trim_left r1 else
      match r1 with
      | [] => s
      | b :: r2 =>
          if ws2 a b then trim_left r2 else
          match r2 with
          | [] => s
          | c :: r3 => if ws3 a b c then trim_left r3 else s
          end
      end
  end.

(** Same on the reversed string (the last byte comes first). *)
Fixpoint trim_left_rev (s : bytes) : bytes :=
  match s with
  | [] => []
  | c :: r1 =>
      if ascii_space c then trim_left_rev r1 else
      match r1 with
      | [] => s
      | b :: r2 =>
          if ws2 b c then trim_left_rev r2 else
          match r2 with
          | [] => s
          | a :: r3 => if ws3 a b c then trim_left_rev r3 else s
          end
      end
  end.

(* linear-time reversal (List.rev is quadratic) *)
Definition frev (s : bytes) : bytes := rev_append s [].
Definition trim_right (s : bytes) : bytes := frev (trim_left_rev (frev s)).
Definition trim_space (s : bytes) : bytes := trim_right (trim_left s).

(** skipSpace: only ' ' and '\t'. *)
Definition blank (c : N) : bool := (c =? 32) || (c =? 9).
Fixpoint skip_space (s : bytes) : bytes :=
  match s with
  | c :: r => if blank c then skip_space r else s
  | [] => []
  end.

(** *** data *)
Notation property := (bytes * option bytes)%type.            (* key, value if hasValue *)
Notation member := (bytes * bytes * list (bytes * option bytes))%type.     (* key, value, properties *)
Notation bag := (list (bytes * bytes * list (bytes * option bytes))).     (* map: keys unique *)

Definition mkey (m : member) : bytes := fst (fst m).
Definition mval (m : member) : bytes := snd (fst m).
Definition mprops (m : member) : list property := snd m.

(** The zero Property (newInvalidProperty). *)
Definition zero_property : property := ([], None).

(** parsePropertyInternal, behind parseProperty's empty-string case. *)
Definition parse_property (s : bytes) : option property :=
  match s with
  | [] => Some zero_property
  | _ =>
    let '(key, s2) := span key_char (skip_space s) in
    match key with
    | [] => None
    | _ =>
      match skip_space s2 with
      | [] => Some (key, None)
      | c :: s4 =>
          if negb (c =? EQUALS) then None else
          let '(raw, s6) := span value_char (skip_space s4) in
          match skip_space s6 with
          | [] => match path_unescape raw with
                  | None => None
                  | Some u => Some (key, Some (replace_invalid u))
                  end
          | _ => None
          end
      end
    end
  end.

(** the loop over strings.Split(properties, ";") in parseMember: an empty piece (";;" or a trailing
    ";") is skipped (fix 72863c6; before, it was kept as the zero Property - see [parse_props_old]). *)
Fixpoint parse_props (pieces : list bytes) : option (list property) :=
  match pieces with
  | [] => Some []
  | p :: r =>
      match p with
      | [] => parse_props r
      | _ => match parse_property p with
             | None => None
             | Some x => match parse_props r with
                         | None => None
                         | Some xs => Some (x :: xs)
                         end
             end
      end
  end.

(** parseMember *)
Definition parse_member (m : bytes) : option member :=
  if MAX_BYTES_PER_MEMBER <? lenN m then None else
  let '(kv, props_s, found) := cut SEMI m in
  match (if found then parse_props (split SEMI props_s) else Some []) with
  | None => None
  | Some ps =>
      let '(k, v, found2) := cut EQUALS kv in
      if negb found2 then None else
      let key := trim_space k in
      if negb (validate_key key) then None else
      let raw := trim_space v in
      if negb (validate_value raw) then None else
      match path_unescape raw with
      | None => None
      | Some u => Some (key, replace_invalid u, ps)
      end
  end.

(** b[m.key] = item  on a map kept as a list with unique keys. *)
Fixpoint bag_set (b : bag) (m : member) : bag :=
  match b with
  | [] => [m]
  | x :: r => if bytes_eqb (mkey x) (mkey m) then m :: r else x :: bag_set r m
  end.

Fixpoint bag_get (b : bag) (k : bytes) : option member :=
  match b with
  | [] => None
  | x :: r => if bytes_eqb (mkey x) k then Some x else bag_get r k
  end.

Fixpoint parse_members (pieces : list bytes) (acc : bag) : option bag :=
  match pieces with
  | [] => Some acc
  | p :: r => match parse_member p with
              | None => None
              | Some m => parse_members r (bag_set acc m)
              end
  end.

(** Parse *)
Definition parse (s : bytes) : option bag :=
  match s with
  | [] => Some []
  | _ =>
    if MAX_BYTES_PER_BAGGAGE <? lenN s then None else
    match parse_members (split COMMA s) [] with
    | None => None
    | Some b => if MAX_MEMBERS <? lenN b then None else Some b
    end
  end.

(** *** serialisation *)
Definition prop_string (p : property) : bytes :=
  let '(k, ov) := p in
  if negb (validate_key k) then [] else
  match ov with
  | Some v => k ++ EQUALS :: value_escape v
  | None => k
  end.

Definition nonempty (s : bytes) : bool := negb (is_nil s).

Definition props_string (ps : list property) : bytes :=
  join SEMI (filter nonempty (map prop_string ps)).

Definition member_string (m : member) : bytes :=
  let '(k, v, ps) := m in
  if negb (validate_key k) then [] else
  k ++ EQUALS :: value_escape v ++
  (if is_nil ps then [] else SEMI :: props_string ps).

(** Baggage.String in the list's order (the implementation's order is that of
    a Go map; the correspondence compares the member strings as a multiset). *)
Definition member_strings (b : bag) : list bytes := filter nonempty (map member_string b).
Definition baggage_string (b : bag) : bytes := join COMMA (member_strings b).

(** *** constructors *)
Definition prop_valid (p : property) : bool :=
  valid_name (fst p) && match snd p with Some v => valid_string v | None => true end.

(** NewKeyProperty / NewKeyValuePropertyRaw / NewKeyValueProperty *)
Definition new_key_property (k : bytes) : option property :=
  if valid_name k then Some (k, None) else None.
Definition new_kv_property_raw (k v : bytes) : option property :=
  if valid_name k && valid_string v then Some (k, Some v) else None.
Definition new_kv_property (k v : bytes) : option property :=
  if validate_key k && validate_value v then
    match path_unescape v with
    | Some u => new_kv_property_raw k u
    | None => None
    end
  else None.

(** NewMemberRaw / NewMember *)
Definition new_member_raw (k v : bytes) (ps : list property) : option member :=
  if valid_name k && valid_string v && forallb prop_valid ps then Some (k, v, ps) else None.
Definition new_member (k v : bytes) (ps : list property) : option member :=
  if validate_key k && validate_value v then
    match path_unescape v with
    | Some u => new_member_raw k u ps
    | None => None
    end
  else None.

(** New: a zero Member (hasData = false) is [None]. *)
Fixpoint new_fold (ms : list (option member)) (acc : bag) : option bag :=
  match ms with
  | [] => Some acc
  | None :: _ => None
  | Some m :: r => new_fold r (bag_set acc m)
  end.

Definition new (ms : list (option member)) : option bag :=
  match ms with
  | [] => Some []
  | _ =>
    match new_fold ms [] with
    | None => None
    | Some b =>
        if MAX_MEMBERS <? lenN b then None
        else if MAX_BYTES_PER_BAGGAGE <? lenN (baggage_string b) then None
        else Some b
    end
  end.

(** SetMember: (new baggage, error?) ; DeleteMember. *)
Definition set_member (b : bag) (m : option member) : bag * bool :=
  match m with
  | None => (b, true)
  | Some x => (bag_set b x, false)
  end.

Definition delete_member (b : bag) (k : bytes) : bag :=
  filter (fun x => negb (bytes_eqb (mkey x) k)) b.

(** *** propagator: Inject writes the header unless it is empty; Extract keeps
    the parent context (None) on an empty header or a parse error. *)
Definition inject (b : bag) : option bytes :=
  let s := baggage_string b in if is_nil s then None else Some s.

Definition extract (hdr : option bytes) : option bag :=
  match hdr with
  | None => None
  | Some [] => None
  | Some s => parse s
  end.

(** Extract on a context that already carries a baggage: ContextWithBaggage REPLACES it by the
    parsed one; an absent / empty / invalid header leaves the context as it is (second component). *)
Definition extract_into (parent : bag) (hdr : option bytes) : bag * bool :=
  match extract hdr with
  | Some b => (b, false)
  | None => (parent, true)
  end.

(** *** the parser BEFORE fix 72863c6 (F-C11-3): an empty property piece was kept as the zero Property.
    Kept to document the defect (c11_reparse_strict_old_refuted); not used by the correspondence. *)
Fixpoint parse_props_old (pieces : list bytes) : option (list property) :=
  match pieces with
  | [] => Some []
  | p :: r => match parse_property p with
              | None => None
              | Some x => match parse_props_old r with
                          | None => None
                          | Some xs => Some (x :: xs)
                          end
              end
  end.

Definition parse_member_old (m : bytes) : option member :=
  if MAX_BYTES_PER_MEMBER <? lenN m then None else
  let '(kv, props_s, found) := cut SEMI m in
  match (if found then parse_props_old (split SEMI props_s) else Some []) with
  | None => None
  | Some ps =>
      let '(k, v, found2) := cut EQUALS kv in
      if negb found2 then None else
      let key := trim_space k in
      if negb (validate_key key) then None else
      let raw := trim_space v in
      if negb (validate_value raw) then None else
      match path_unescape raw with
      | None => None
      | Some u => Some (key, replace_invalid u, ps)
      end
  end.

Fixpoint parse_members_old (pieces : list bytes) (acc : bag) : option bag :=
  match pieces with
  | [] => Some acc
  | p :: r => match parse_member_old p with
              | None => None
              | Some m => parse_members_old r (bag_set acc m)
              end
  end.

Definition parse_old (s : bytes) : option bag :=
  match s with
  | [] => Some []
  | _ =>
    if MAX_BYTES_PER_BAGGAGE <? lenN s then None else
    match parse_members_old (split COMMA s) [] with
    | None => None
    | Some b => if MAX_MEMBERS <? lenN b then None else Some b
    end
  end.
