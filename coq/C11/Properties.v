(** C11 property theorems.  Statements only, each closed by a lemma of
    Proofs.v; the axiom audit; non-vacuity examples. *)
From Verif Require Import Lib.Base C11.Model C11.Spec C11.Proofs.
Open Scope N_scope.

(** Percent-decoding inverts value escaping: for ALL byte strings. *)
Theorem c11_unescape_escape : forall v : bytes,
  Forall (fun b => b < 256) v -> path_unescape (value_escape v) = Some v.
Proof. exact unescape_escape. Qed.
Print Assumptions c11_unescape_escape.

(** Round trip.  Every baggage with unique token keys, UTF-8 values and
    properties, at most 180 members, whose header is within the size limits
    (8192 bytes in total, 4096 per list-member), parses back to itself, and
    Inject followed by Extract is the identity on it.  (Any order of the
    members: every permutation of [b] satisfies the hypotheses too.) *)
Theorem c11_roundtrip : forall b : list member,
  unique_keys b = true -> forallb member_accepted b = true -> blen b <= LIMIT_MEMBERS ->
  header_within_limits (baggage_string b) = true ->
  parse (baggage_string b) = Some b /\
  extract (inject b) = (if is_nil b then None else Some b).
Proof. exact roundtrip. Qed.
Print Assumptions c11_roundtrip.

(** Extract REPLACES the baggage a context already carries by the parsed header (never merges);
    without a header, or with an empty one, the context is left as it is.  (An invalid header:
    [extract_into parent (Some s) = (parent, true)] whenever [parse s = None], by definition.) *)
Theorem c11_extract_replaces : forall parent b : list member,
  unique_keys b = true -> forallb member_accepted b = true -> blen b <= LIMIT_MEMBERS ->
  header_within_limits (baggage_string b) = true -> b <> [] ->
  extract_into parent (inject b) = (b, false) /\
  extract_into parent None = (parent, true) /\ extract_into parent (Some []) = (parent, true).
Proof. exact extract_into_replaces. Qed.
Print Assumptions c11_extract_replaces.

(** The same, starting from the constructors: members as NewMemberRaw accepts
    them (token keys), put together by New (duplicates: last one wins). *)
Theorem c11_roundtrip_new : forall ms b,
  forallb member_accepted ms = true -> new (map Some ms) = Some b ->
  header_within_limits (baggage_string b) = true ->
  parse (baggage_string b) = Some b /\
  extract (inject b) = (if is_nil b then None else Some b) /\
  same_map b (dedup_last ms).
Proof. exact roundtrip_new. Qed.
Print Assumptions c11_roundtrip_new.

Theorem c11_constructor_accepts : forall k v ps,
  member_accepted (k, v, ps) = true -> new_member_raw k v ps = Some (k, v, ps).
Proof. exact constructor_accepts. Qed.
Print Assumptions c11_constructor_accepts.

(** Parsing arbitrary bytes: on success all values are well-formed UTF-8 and all keys are tokens. *)
Theorem c11_parse_valid_utf8 : forall s b, parse s = Some b ->
  forall m, In m b ->
    Utf8 (value_of m) /\ token (key_of m) = true /\
    forall p v, In p (props_of m) -> snd p = Some v -> Utf8 v.
Proof. exact parse_valid_utf8. Qed.
Print Assumptions c11_parse_valid_utf8.

(** replaceInvalidUTF8Sequences returns well-formed UTF-8 for every input. *)
Theorem c11_replace_invalid_utf8 : forall s, Utf8 (replace_invalid s).
Proof. intro s. apply utf8_b_sound. rewrite <- valid_string_utf8_b. apply replace_invalid_valid. Qed.
Print Assumptions c11_replace_invalid_utf8.

(** Duplicate keys resolve to the last list-member. *)
Theorem c11_parse_last_duplicate_wins : forall s b, parse s = Some b -> s <> [] ->
  exists ms, map parse_member (split COMMA s) = map Some ms /\
             unique_keys b = true /\ same_map b (dedup_last ms).
Proof. exact parse_last_wins. Qed.
Print Assumptions c11_parse_last_duplicate_wins.

(** Parse accepts every non-empty header of at most 8192 bytes whose list-members each parse and resolve
    (duplicates: the last one wins) to at most 180 members - however many list-members there are. *)
Theorem c11_parse_complete : forall s ms,
  s <> [] -> map parse_member (split COMMA s) = map Some ms ->
  lenN s <= MAX_BYTES_PER_BAGGAGE -> lenN (fold_left bag_set ms []) <= MAX_MEMBERS ->
  parse s = Some (fold_left bag_set ms []).
Proof. exact parse_complete. Qed.
Print Assumptions c11_parse_complete.

(** Limits respected by every successful parse. *)
Theorem c11_parse_limits : forall s b, parse s = Some b ->
  header_within_limits s = true /\ blen b <= LIMIT_MEMBERS.
Proof. exact parse_limits. Qed.
Print Assumptions c11_parse_limits.

(** Limits enforced by the constructor: member count and total size.
    (Full statement, which FAILS - see c11_new_member_limit_refuted:
       forall ms b, new ms = Some b -> header_within_limits (baggage_string b) = true,
     i.e. also at most 4096 bytes per list-member.) *)
Theorem c11_new_limits_partial : forall ms b, new ms = Some b ->
  blen b <= LIMIT_MEMBERS /\ blen (baggage_string b) <= LIMIT_TOTAL_BYTES /\
  exists ms', ms = map Some ms' /\ unique_keys b = true /\ same_map b (dedup_last ms').
Proof. exact new_limits. Qed.
Print Assumptions c11_new_limits_partial.

(** ... and New refuses nothing else: header-expressible members whose map has at most 180
    entries and whose header (size computed from the grammar, Spec.header_len) needs at most
    8192 bytes are accepted; the header has exactly that size. *)
Theorem c11_new_accepts : forall ms,
  let b := fold_left bag_set ms [] in
  forallb member_accepted ms = true -> blen b <= LIMIT_MEMBERS -> header_len b <= LIMIT_TOTAL_BYTES ->
  new (map Some ms) = Some b /\ blen (baggage_string b) = header_len b.
Proof.
  intros ms b Ha Hn Hl. split; [now apply new_accepts|].
  rewrite <- lenN_blen. apply baggage_string_len.
  rewrite (forallb_ext_eq _ _ b good_member_accepted). now apply forallb_fold.
Qed.
Print Assumptions c11_new_accepts.

Theorem c11_new_member_limit_refuted :
  exists ms b, new ms = Some b /\ header_within_limits (baggage_string b) = false /\
               parse (baggage_string b) = None.
Proof. exact new_member_limit_refuted. Qed.
Print Assumptions c11_new_member_limit_refuted.

(** Stability under re-serialising and re-parsing, IF the re-serialised form is
    within the limits (this older, weaker form compares modulo Spec.norm; c11_reparse_strict
    below gives exact equality under the same guard).
    (Full statement, which FAILS - see c11_reparse_refuted:
       forall s b, parse s = Some b -> exists b', parse (baggage_string b) = Some b' /\ norm b' = norm b.) *)
Theorem c11_reparse_stable_partial : forall s b, parse s = Some b ->
  header_within_limits (baggage_string b) = true ->
  exists b', parse (baggage_string b) = Some b' /\ norm b' = norm b.
Proof. exact reparse_stable. Qed.
Print Assumptions c11_reparse_stable_partial.

(** Re-parsing, strictly: every baggage that Parse produces, if its header is within the limits, parses
    back to EXACTLY itself (members, values, properties - nothing compared modulo anything), and String()
    drops nothing of it.  (Holds since fix 72863c6: Parse skips empty ';;' property pieces.) *)
Theorem c11_reparse_strict : forall s b, parse s = Some b ->
  header_within_limits (baggage_string b) = true ->
  parse (baggage_string b) = Some b /\ map reser_member b = b.
Proof. exact reparse_strict. Qed.
Print Assumptions c11_reparse_strict.

(** The parser as it was BEFORE the fix ([parse_old]: an empty property piece kept as a zero-valued
    Property) violates it within the limits - F-C11-3, "k=v;;p": the check reports the return of the defect. *)
Theorem c11_reparse_strict_old_refuted :
  exists s b b', parse_old s = Some b /\ header_within_limits (baggage_string b) = true /\
                 parse_old (baggage_string b) = Some b' /\ b' <> b.
Proof. exact reparse_strict_old_refuted. Qed.
Print Assumptions c11_reparse_strict_old_refuted.

(** The percent-encoding constructor: NewMember(k, v, props) succeeds only with a token key, a value of
    baggage-octets whose escapes are well formed and decode to UTF-8, and valid properties; it stores the
    DECODED value; on an escaped value it is NewMemberRaw. *)
Theorem c11_new_member : forall k v ps,
  (forall m, new_member k v ps = Some m ->
     exists u, path_unescape v = Some u /\ m = (k, u, ps) /\ token k = true /\ utf8_b u = true /\
               forallb prop_valid ps = true /\ forallb baggage_octet v = true) /\
  (Forall (fun b => b < 256) v -> token k = true ->
     new_member k (value_escape v) ps = new_member_raw k v ps).
Proof.
  intros k v ps. split; [intros m; apply new_member_inv|].
  intros Hb Hk. apply new_member_escape; [exact Hb|now rewrite validate_key_token].
Qed.
Print Assumptions c11_new_member.

Theorem c11_reparse_refuted :
  exists s b, parse s = Some b /\ header_within_limits s = true /\ parse (baggage_string b) = None.
Proof. exact reparse_refuted. Qed.
Print Assumptions c11_reparse_refuted.

(** Immutability / editing: SetMember and DeleteMember are functions from
    baggage values to new baggage values that denote map update and removal;
    an invalid member leaves the baggage as it is and reports an error. *)
Theorem c11_immutable : forall (b : list member) m k0,
  set_member b None = (b, true) /\
  (snd (set_member b (Some m)) = false /\ set_spec b (fst (set_member b (Some m))) m /\
   (unique_keys b = true -> unique_keys (fst (set_member b (Some m))) = true)) /\
  (delete_spec b (delete_member b k0) k0 /\
   (unique_keys b = true -> unique_keys (delete_member b k0) = true)).
Proof. exact edits_spec. Qed.
Print Assumptions c11_immutable.

(** Every edit script keeps the baggage a map, and keeps every invariant [P]
    of members that the inserted members satisfy. *)
Theorem c11_edits_preserve : forall (P : member -> bool) es b,
  unique_keys b = true -> forallb P b = true -> forallb (edit_ok P) es = true ->
  unique_keys (fold_left apply_edit es b) = true /\ forallb P (fold_left apply_edit es b) = true.
Proof. exact edits_preserve. Qed.
Print Assumptions c11_edits_preserve.

(** The boolean checkers applied to the implementation's observations imply the Prop readings. *)
Theorem c11_checkers_sound :
  (forall s, utf8_b s = true <-> Utf8 s) /\
  (forall a b, map_eqb a b = true -> same_map a b).
Proof. split; [exact utf8_b_iff|exact map_eqb_sound]. Qed.
Print Assumptions c11_checkers_sound.

(** Non-vacuity. *)
Definition ex_bag : list member :=
  [(str "user", hx "c3a9e282ac20f09f9880253b2c3d", [(str "p", Some (hx "e4b8ad3b")); (str "flag", None)]);
   (str "k2", [], [])].
Example ex_roundtrip_hyps :
  unique_keys ex_bag = true /\ forallb member_accepted ex_bag = true /\
  header_within_limits (baggage_string ex_bag) = true /\
  baggage_string ex_bag = str "user=%C3%A9%E2%82%AC%20%F0%9F%98%80%25%3B%2C=;p=%E4%B8%AD%3B;flag,k2=".
Proof. vm_compute. auto. Qed.
Example ex_parse_dups :
  parse (str " a = 1 ;p, b=%zz") = None /\
  parse (hx "c2a061e38080203d2031203b20703d71203b3b722c623d322c613d33") =
    Some [(str "a", str "3", []); (str "b", str "2", [])].
Proof. vm_compute. auto. Qed.
Example ex_escape : path_unescape (value_escape [0; 37; 255; 32; 65]) = Some [0; 37; 255; 32; 65].
Proof. reflexivity. Qed.
Example ex_edit :
  fold_left apply_edit [ESet (Some (str "k2", str "v", [])); EDel (str "user"); ESet None] ex_bag
  = [(str "k2", str "v", [])].
Proof. reflexivity. Qed.

Example ex_reparse_zero :
  parse (str "k=v;;p,z=1;") = Some [(str "k", str "v", [(str "p", None)]); (str "z", str "1", [])] /\
  parse_old (str "k=v;;p,z=1;") = Some [(str "k", str "v", [([], None); (str "p", None)]); (str "z", str "1", [([], None)])] /\
  baggage_string [(str "k", str "v", [(str "p", None)]); (str "z", str "1", [])] = str "k=v;p,z=1" /\
  new_member (str "k") (str "a%20b%C3%A9") [] = Some (str "k", hx "612062c3a9", []) /\
  new_member (str "k") (str "%FF") [] = None /\ new_member (str "k") (str "a b") [] = None.
Proof. vm_compute. repeat split. Qed.
