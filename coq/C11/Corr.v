(** C11 correspondence: evaluates model and spec on what the Go harness observed
    from the implementation (generated case files import this). *)
From Verif Require Import Lib.Base C11.Model C11.Spec.
Open Scope N_scope.

(** A property as handed to the constructors: key, value if any. *)
Inductive edit_op :=
| OSet (k v : bytes) (ps : list property)     (* NewMemberRaw(k, v, props) then SetMember; a rejected member is passed as the zero Member *)
| ODel (k : bytes).

Inductive case :=
(** Parse(s): members (None = error); String() of the result split at ',';
    Parse(String()); Parse of every ','-piece of s on its own (only when the
    whole parse succeeded; [] = not observed); ext: 0 = Extract left the context unchanged,
    1 = extracted baggage equals Parse's result, 2 = differs. *)
| CParse (s : bytes) (o : option (list member)) (pieces_out : list bytes)
         (re : option (list member)) (per : list (option member)) (ext : N)
(** NewMemberRaw on every input (acc = accepted?), New on the accepted ones
    (nb = None on error, else Members()), String() split at ',', Parse(String()),
    Inject then Extract (None = context unchanged). *)
| CRound (ms : list member) (acc : list bool) (nb : option (list member))
         (pieces_out : list bytes) (re ext : option (list member))
(** Start = Parse(start) (b0 its members); per op: error?, members of the
    result, members of the receiver re-read after the call; reread: every version
    (b0 and each result, each stored in its own context) re-read after the last op. *)
| CEdit (start : bytes) (b0 : list member) (ops : list edit_op)
        (obs : list (bool * list member * list member)) (reread : list (list member))
(** NewMember(k, v) -> its Value(), NewKeyValueProperty(k, v) -> its Value(). *)
| CCtor (k v : bytes) (om op : option bytes)
(** Extract with header [hdr] (None = no header) on a context already carrying the baggage [parent]:
    po = Parse(hdr) as observed (None = error / no header), res = members of the baggage in the
    returned context, same = the returned context is the parent context itself. *)
| CExtractInto (parent : list member) (hdr : option bytes) (po : option (list member))
               (res : list member) (same : bool)
(** New on ALL inputs, the ones NewMemberRaw rejected passed as the zero Member (hasData = false) *)
| CNewZero (ms : list member) (acc : list bool) (ok : bool)
(** NewMember(k, v, props...) with a percent-encoded value: the member built (None = error) *)
| CCtorProps (k v : bytes) (ps : list property) (om : option member)
(** bm = members of Parse(hdr); Inject into a carrier that already holds [old] under "baggage"
    (None = fresh carrier); after = the carrier's header split at ',' (None = no header); ext = Extract of it *)
| CInject (hdr : bytes) (bm : list member) (old : option bytes) (after : option (list bytes))
          (ext : option (list member)).

Definition flag (b : bool) (code : N) : list N := if b then [] else [code].

Definition omap_eqb (a b : option (list member)) : bool := option_eqb map_eqb a b.

(** multiset equality of byte strings *)
Fixpoint remove_one (x : bytes) (l : list bytes) : option (list bytes) :=
  match l with
  | [] => None
  | y :: r => if bytes_eqb x y then Some r
              else match remove_one x r with Some r' => Some (y :: r') | None => None end
  end.
Fixpoint perm_eqb (a b : list bytes) : bool :=
  match a with
  | [] => match b with [] => true | _ => false end
  | x :: a' => match remove_one x b with Some b' => perm_eqb a' b' | None => false end
  end.

(** size of the header whose ','-pieces are given *)
Definition total_len (ps : list bytes) : N :=
  fold_right (fun p n => blen p + n) 0 ps + (blen ps - 1).
Definition out_within_limits (ps : list bytes) : bool :=
  (total_len ps <=? LIMIT_TOTAL_BYTES) && forallb (fun p => blen p <=? LIMIT_MEMBER_BYTES) ps.

Fixpoint all_some {A} (l : list (option A)) : option (list A) :=
  match l with
  | [] => Some []
  | Some x :: r => match all_some r with Some r' => Some (x :: r') | None => None end
  | None :: _ => None
  end.

Definition is_some {A} (o : option A) : bool := match o with Some _ => true | None => false end.

(** contains U+FFFD *)
Fixpoint has_fffd (s : bytes) : bool :=
  match s with
  | a :: r => (match r with
               | b :: c :: _ => (a =? 239) && (b =? 191) && (c =? 189)
               | _ => false
               end) || has_fffd r
  | [] => false
  end.
Definition member_has_fffd (m : member) : bool :=
  has_fffd (value_of m) || existsb (fun p => match snd p with Some v => has_fffd v | None => false end) (props_of m).

(** *** Parse *)
Definition model_per (s : bytes) : list (option member) := map parse_member (split COMMA s).

Definition parse_mismatch (s : bytes) (o : option (list member)) (pieces_out : list bytes)
           (re : option (list member)) (per : list (option member)) (ext : N) : bool :=
  let mo := parse s in
  omap_eqb mo o &&
  match mo with
  | None => is_nil pieces_out && (is_nil per || list_eqb (option_eqb member_eqb) (model_per s) per) && (ext =? 0) && negb (is_some re)
  | Some b =>
      perm_eqb (member_strings b) pieces_out &&
      omap_eqb (parse (baggage_string b)) re &&
      (is_nil per || list_eqb (option_eqb member_eqb) (model_per s) per) &&
      (ext =? match extract (Some s) with None => 0 | Some _ => 1 end)
  end.

(** Spec on a successful parse; the re-parse clause separately (it has a known finding). *)
Definition parse_spec (s : bytes) (b : list member) (per : list (option member)) (ext : N) : bool :=
  forallb member_utf8 b && forallb (fun m => token (key_of m)) b && unique_keys b &&
  header_within_limits s && (blen b <=? LIMIT_MEMBERS) &&
  match s with
  | [] => is_nil b && (ext =? 0)
  | _ => match per with
         | [] => true     (* not observed (large inputs with few list-members) *)
         | _ => match all_some per with
                | Some ms => map_eqb b (dedup_last ms)
                | None => false
                end
         end && (ext =? 1)
  end.

(** re-parsing gives back exactly the same members (c11_reparse_strict) *)
Definition reparse_spec (b : list member) (re : option (list member)) : bool :=
  match re with
  | Some b' => map_eqb b' b
  | None => false
  end.

(** F-C11-2: accepted, re-serialised form out of limits because invalid bytes became U+FFFD, re-parse fails. *)
Definition known2 (b : list member) (pieces_out : list bytes) (re : option (list member)) : bool :=
  negb (is_some re) && negb (out_within_limits pieces_out) && existsb member_has_fffd b.

(** *** constructors / round trip *)
Definition model_round (ms : list member) :=
  let made := map (fun m => new_member_raw (key_of m) (value_of m) (props_of m)) ms in
  let accepted := filter (fun o => is_some o) made in
  (map (fun o => is_some o) made, new accepted).

Definition round_mismatch (ms : list member) (acc : list bool) (nb : option (list member))
           (pieces_out : list bytes) (re ext : option (list member)) : bool :=
  let '(macc, mnb) := model_round ms in
  list_eqb Bool.eqb macc acc && omap_eqb mnb nb &&
  match mnb with
  | None => is_nil pieces_out && negb (is_some re) && negb (is_some ext)
  | Some b =>
      perm_eqb (member_strings b) pieces_out &&
      omap_eqb (parse (baggage_string b)) re &&
      omap_eqb (extract (inject b)) ext
  end.

Fixpoint select {A} (l : list A) (keep : list bool) : list A :=
  match l, keep with
  | x :: l', true :: k' => x :: select l' k'
  | _ :: l', false :: k' => select l' k'
  | _, _ => []
  end.

(** Spec on the constructor path, given only inputs and observations.
    1. whatever [member_accepted] describes must be accepted;
    2. New fails only for a baggage that is not header-expressible, has more than 180 members
       or needs more than 8192 bytes; a successful New holds the last member per key, at most 180 members, a
       header of at most 8192 bytes (and list-members of at most 4096: clause
       [round_member_limit], known finding 1);
    3. if moreover all stored members are header-expressible and the header is
       within the limits, Parse(String()) and Extract(Inject()) give the baggage back. *)
Definition round_spec (ms : list member) (acc : list bool) (nb : option (list member))
           (pieces_out : list bytes) (re ext : option (list member)) : bool :=
  Nat.eqb (length acc) (length ms) &&
  forallb (fun x => implb (member_accepted (fst x)) (snd x)) (combine ms acc) &&
  match nb with
  | None =>
      (* New may refuse only what is not header-expressible, too many members, or too large a header *)
      let given := dedup_last (select ms acc) in
      negb (forallb member_accepted given && (blen given <=? LIMIT_MEMBERS) &&
            (header_len given <=? LIMIT_TOTAL_BYTES))
  | Some b =>
      let given := select ms acc in
      map_eqb b (dedup_last given) && (blen b <=? LIMIT_MEMBERS) &&
      (total_len pieces_out <=? LIMIT_TOTAL_BYTES) &&
      (if forallb member_accepted b && out_within_limits pieces_out then
         match b with
         | [] => is_nil pieces_out && omap_eqb re (Some []) && negb (is_some ext)
         | _ => omap_eqb re (Some b) && omap_eqb ext (Some b)
         end
       else true)
  end.

Definition round_member_limit (nb : option (list member)) (pieces_out : list bytes) : bool :=
  match nb with
  | None => true
  | Some _ => forallb (fun p => blen p <=? LIMIT_MEMBER_BYTES) pieces_out
  end.

(** F-C11-1: New succeeded, count and total size fine, a list-member above 4096 bytes, Parse rejects the header. *)
Definition known1 (nb : option (list member)) (pieces_out : list bytes) (re : option (list member)) : bool :=
  is_some nb && (total_len pieces_out <=? LIMIT_TOTAL_BYTES) && negb (is_some re).

(** *** edits *)
Definition op_member (op : edit_op) : option member :=
  match op with
  | OSet k v ps => new_member_raw k v ps
  | ODel _ => None
  end.

Fixpoint model_edits (b : bag) (ops : list edit_op) : list (bool * list member * list member) :=
  match ops with
  | [] => []
  | op :: r =>
      let '(b', err) := match op with
                        | OSet _ _ _ => set_member b (op_member op)
                        | ODel k => (delete_member b k, false)
                        end in
      (err, b', b) :: model_edits b' r
  end.

Definition obs_eqb (x y : bool * list member * list member) : bool :=
  let '(e, r, v) := x in let '(e', r', v') := y in
  Bool.eqb e e' && map_eqb r r' && map_eqb v v'.

(** Spec: judged from consecutive observations only.  A member that
    [member_accepted] describes must be set; a set reports no error exactly when
    the result is the map update; an error leaves the baggage as it was; the
    receiver re-read after the call is the baggage before the call. *)
Fixpoint edits_spec (prev : list member) (ops : list edit_op) (obs : list (bool * list member * list member)) : bool :=
  match ops, obs with
  | [], [] => true
  | op :: r, (err, cur, recv) :: obs' =>
      map_eqb recv prev &&
      match op with
      | OSet k v ps =>
          if err then map_eqb cur prev && negb (member_accepted (k, v, ps))
          else set_ok prev cur (k, v, ps)
      | ODel k => negb err && delete_ok prev cur k
      end && edits_spec cur r obs'
  | _, _ => false
  end.

Definition versions (b0 : list member) (obs : list (bool * list member * list member)) : list (list member) :=
  b0 :: map (fun x => snd (fst x)) obs.

(** *** encoded-value constructors *)
Definition ctor_mismatch (k v : bytes) (om op : option bytes) : bool :=
  option_eqb bytes_eqb (option_map mval (new_member k v [])) om &&
  option_eqb bytes_eqb (match new_kv_property k v with Some (_, Some u) => Some u | _ => None end) op.
Definition ctor_spec (k v : bytes) (om op : option bytes) : bool :=
  match om with Some u => token k && utf8_b u | None => true end &&
  match op with Some u => token k && utf8_b u | None => true end &&
  Bool.eqb (is_some om) (is_some op).

Definition check_case (c : case) : list N :=
  match c with
  | CParse s o pieces_out re per ext =>
      flag (parse_mismatch s o pieces_out re per ext) V_MISMATCH ++
      match o with
      | None =>
          (* duplicates are legal (the last one wins) and the member limit counts the resolved members: a header
             within the byte limits whose list-members each parse and have at most 180 distinct keys may not be rejected *)
          flag (negb (negb (is_nil s) && header_within_limits s && negb (is_nil per) &&
                      match all_some per with
                      | Some ms => blen (dedup_last ms) <=? LIMIT_MEMBERS
                      | None => false
                      end)) V_SPECFAIL
      | Some b =>
          flag (parse_spec s b per ext) V_SPECFAIL ++
          (if reparse_spec b re then []
           else if known2 b pieces_out re then [V_KNOWN 2] else [V_SPECFAIL])
      end
  | CRound ms acc nb pieces_out re ext =>
      flag (round_mismatch ms acc nb pieces_out re ext) V_MISMATCH ++
      flag (round_spec ms acc nb pieces_out re ext) V_SPECFAIL ++
      (if round_member_limit nb pieces_out then []
       else if known1 nb pieces_out re then [V_KNOWN 1] else [V_SPECFAIL])
  | CEdit start b0 ops obs reread =>
      flag (match parse start with
            | None => false
            | Some b => map_eqb b b0 && list_eqb obs_eqb (model_edits b ops) obs
            end) V_MISMATCH ++
      flag (unique_keys b0 && edits_spec b0 ops obs &&
            list_eqb map_eqb (versions b0 obs) reread) V_SPECFAIL
  | CCtor k v om op =>
      flag (ctor_mismatch k v om op) V_MISMATCH ++
      flag (ctor_spec k v om op) V_SPECFAIL
  | CNewZero ms acc ok =>
      let made := map (fun m => new_member_raw (key_of m) (value_of m) (props_of m)) ms in
      flag (list_eqb Bool.eqb (map (fun o => is_some o) made) acc && Bool.eqb (is_some (new made)) ok) V_MISMATCH ++
      (* New refuses a zero (invalid) Member *)
      flag (implb (existsb negb acc) (negb ok)) V_SPECFAIL
  | CCtorProps k v ps om =>
      flag (option_eqb member_eqb (new_member k v ps) om) V_MISMATCH ++
      flag (match om with
            | Some m => token k && bytes_eqb (key_of m) k && utf8_b (value_of m) &&
                        list_eqb prop_eqb (props_of m) ps
            | None => true
            end) V_SPECFAIL
  | CInject hdr bm old after ext =>
      flag (match parse hdr with
            | None => false
            | Some b =>
                map_eqb b bm &&
                match inject b, after with
                | Some _, Some ps => perm_eqb (member_strings b) ps && omap_eqb (parse (baggage_string b)) ext
                | None, _ => option_eqb (list_eqb bytes_eqb) (match old with Some o => Some (pieces 44 o) | None => None end) after
                | _, _ => false
                end
            end) V_MISMATCH ++
      (* a non-empty baggage whose header is within the limits replaces whatever the carrier held and extracts to itself *)
      flag (match bm, after with
            | _ :: _, Some ps => if out_within_limits ps then reparse_spec bm ext else true
            | _ :: _, None => false
            | [], _ => true
            end) V_SPECFAIL
  | CExtractInto parent hdr po res same =>
      flag (let '(b, unchanged) := extract_into parent hdr in
            map_eqb b res && Bool.eqb unchanged same &&
            omap_eqb (match hdr with Some h => parse h | None => None end) po) V_MISMATCH ++
      (* the extracted baggage is the parsed header exactly (never merged with what the context
         carried), within the member limit; without a usable header the context is untouched *)
      flag (match po, hdr with
            | Some b, Some (_ :: _) => map_eqb res b && negb same && (blen res <=? LIMIT_MEMBERS)
            | _, _ => same && map_eqb res parent
            end) V_SPECFAIL
  end.

Definition run (cs : list case) : list (N * N) := index_from 0 check_case cs.
