(** C11 proofs. *)
From Verif Require Import Lib.Base C11.Model C11.Spec.
From Coq Require Import ZifyBool ZifyN ZifyNat.
Open Scope N_scope.

(** ** lengths *)
Lemma lenN_length {A} (s : list A) : lenN s = N.of_nat (length s).
Proof. induction s as [|x s IH]; cbn [lenN length]; [reflexivity|]. rewrite IH. lia. Qed.

Lemma lenN_blen {A} (s : list A) : lenN s = blen s.
Proof. apply lenN_length. Qed.

Lemma lenN_app {A} (a b : list A) : lenN (a ++ b) = lenN a + lenN b.
Proof. rewrite !lenN_length, app_length. lia. Qed.

Lemma is_nil_true {A} (l : list A) : is_nil l = true <-> l = [].
Proof. destruct l; cbn; split; intro H; congruence. Qed.

Lemma is_nil_false {A} (l : list A) : is_nil l = false <-> l <> [].
Proof. destruct l; cbn; split; intro H; congruence. Qed.

(** ** generic list facts *)
Lemma forallb_ext_eq {A} (p q : A -> bool) l : (forall x, p x = q x) -> forallb p l = forallb q l.
Proof. intro H; induction l; cbn; [reflexivity|]. now rewrite H, IHl. Qed.

Lemma forallb_impl {A} (p q : A -> bool) l :
  (forall x, p x = true -> q x = true) -> forallb p l = true -> forallb q l = true.
Proof.
  intro H; induction l as [|x l IH]; cbn; [reflexivity|]. intro E.
  apply andb_true_iff in E as [E1 E2]. now rewrite (H _ E1), IH.
Qed.

Lemma forallb_rev {A} (p : A -> bool) l : forallb p (rev l) = forallb p l.
Proof.
  induction l as [|x l IH]; cbn; [reflexivity|].
  rewrite forallb_app, IH. cbn. now rewrite andb_true_r, andb_comm.
Qed.

Definition no (sep : N) (s : bytes) : bool := forallb (fun c => negb (c =? sep)) s.

Lemma no_app sep a b : no sep (a ++ b) = no sep a && no sep b.
Proof. apply forallb_app. Qed.

Lemma no_of_class (p : N -> bool) sep s :
  p sep = false -> forallb p s = true -> no sep s = true.
Proof.
  intros Hp. apply forallb_impl. intros x Hx.
  destruct (x =? sep) eqn:E; [|reflexivity]. apply N.eqb_eq in E; subst. congruence.
Qed.

(** ** cut / split / join / span *)
Lemma cut_app_sep sep a b : no sep a = true -> cut sep (a ++ sep :: b) = (a, b, true).
Proof.
  induction a as [|c a IH]; cbn; intro H.
  - now rewrite N.eqb_refl.
  - apply andb_true_iff in H as [H1 H2]. apply negb_true_iff in H1. rewrite H1.
    now rewrite IH.
Qed.

Lemma cut_none sep a : no sep a = true -> cut sep a = (a, [], false).
Proof.
  induction a as [|c a IH]; cbn; intro H; [reflexivity|].
  apply andb_true_iff in H as [H1 H2]. apply negb_true_iff in H1. rewrite H1.
  now rewrite IH.
Qed.

Lemma cut_spec sep s :
  match cut sep s with
  | (a, b, true) => s = a ++ sep :: b /\ no sep a = true
  | (a, b, false) => a = s /\ b = [] /\ no sep s = true
  end.
Proof.
  induction s as [|c r IH]; cbn.
  - auto.
  - destruct (c =? sep) eqn:E.
    + apply N.eqb_eq in E; subst. cbn. auto.
    + destruct (cut sep r) as [[a b] f]. destruct f; cbn; rewrite ?E; cbn.
      * destruct IH as [-> H]. auto.
      * destruct IH as [-> [-> H]]. auto.
Qed.

Lemma split_none sep a : no sep a = true -> split sep a = [a].
Proof.
  induction a as [|c a IH]; cbn; intro H; [reflexivity|].
  apply andb_true_iff in H as [H1 H2]. apply negb_true_iff in H1. rewrite H1.
  now rewrite IH.
Qed.

Lemma split_app_sep sep a b : no sep a = true -> split sep (a ++ sep :: b) = a :: split sep b.
Proof.
  induction a as [|c a IH]; cbn; intro H.
  - now rewrite N.eqb_refl.
  - apply andb_true_iff in H as [H1 H2]. apply negb_true_iff in H1. rewrite H1.
    now rewrite IH.
Qed.

Lemma split_nonempty sep s : split sep s <> [].
Proof.
  induction s as [|c s IH]; cbn; [discriminate|].
  destruct (c =? sep); [discriminate|]. destruct (split sep s); [contradiction|discriminate].
Qed.

Lemma split_join sep l :
  l <> [] -> forallb (no sep) l = true -> split sep (join sep l) = l.
Proof.
  induction l as [|x l IH]; [congruence|]. intros _ H.
  cbn in H. apply andb_true_iff in H as [Hx Hl].
  destruct l as [|y l].
  - cbn. now apply split_none.
  - change (join sep (x :: y :: l)) with (x ++ sep :: join sep (y :: l)).
    rewrite split_app_sep by exact Hx. f_equal. apply IH; [discriminate|exact Hl].
Qed.

Lemma split_pieces sep s : split sep s = pieces sep s.
Proof. induction s as [|c s IH]; cbn; [reflexivity|]. now rewrite IH. Qed.

(** concatenating the pieces with the separator gives the string back *)
Lemma join_split sep s : join sep (split sep s) = s.
Proof.
  induction s as [|c s IH]; cbn; [reflexivity|].
  destruct (c =? sep) eqn:E.
  - apply N.eqb_eq in E; subst.
    destruct (split sep s) as [|p ps] eqn:Es; [now apply split_nonempty in Es|].
    change (join sep ([] :: p :: ps)) with ([] ++ sep :: join sep (p :: ps)). now rewrite IH.
  - destruct (split sep s) as [|p ps] eqn:Es; [now apply split_nonempty in Es|].
    destruct ps as [|q ps]; cbn in *; now rewrite <- IH.
Qed.

Lemma span_app_stop p a c b :
  forallb p a = true -> p c = false -> span p (a ++ c :: b) = (a, c :: b).
Proof.
  induction a as [|x a IH]; cbn; intros H Hc.
  - now rewrite Hc.
  - apply andb_true_iff in H as [H1 H2]. rewrite H1. now rewrite IH.
Qed.

Lemma span_all p a : forallb p a = true -> span p a = (a, []).
Proof.
  induction a as [|x a IH]; cbn; intro H; [reflexivity|].
  apply andb_true_iff in H as [H1 H2]. rewrite H1. now rewrite IH.
Qed.

Lemma span_spec p s : forallb p (fst (span p s)) = true /\ s = fst (span p s) ++ snd (span p s).
Proof.
  induction s as [|c s IH]; cbn; [auto|].
  destruct (p c) eqn:E; cbn; [|auto].
  destruct (span p s) as [a b]; cbn in *. rewrite E. destruct IH as [H1 H2]. split; [exact H1|congruence].
Qed.

(** ** hex digits, escape / unescape *)
Definition bytes_ok (v : bytes) : Prop := Forall (fun b => b < 256) v.

Lemma upperhex_ishex d : d < 16 -> ishex (upperhex d) = true.
Proof. unfold ishex, upperhex. intro H. destruct (d <? 10) eqn:E; lia. Qed.

Lemma unhex_upperhex d : d < 16 -> unhex (upperhex d) = d.
Proof.
  unfold unhex, upperhex. intro H. destruct (d <? 10) eqn:E.
  - assert (E1 : (48 <=? 48 + d) && (48 + d <=? 57) = true) by lia. rewrite E1. lia.
  - assert (E1 : (48 <=? 55 + d) && (55 + d <=? 57) = false) by lia.
    assert (E2 : (97 <=? 55 + d) && (55 + d <=? 102) = false) by lia.
    assert (E3 : (65 <=? 55 + d) && (55 + d <=? 70) = true) by lia.
    rewrite E1, E2, E3. lia.
Qed.

Lemma upperhex_value_char d : d < 16 -> value_char (upperhex d) = true.
Proof. unfold value_char, upperhex. intro H. destruct (d <? 10) eqn:E; lia. Qed.

Lemma should_escape_percent c : should_escape c = false -> (c =? PERCENT) = false.
Proof. unfold should_escape. intro H. apply orb_false_iff in H. tauto. Qed.

(** Percent-decoding inverts value escaping, for every byte string. *)
Lemma unescape_escape v : bytes_ok v -> path_unescape (value_escape v) = Some v.
Proof.
  induction 1 as [|c v Hc Hv IH]; [reflexivity|].
  cbn [value_escape]. destruct (should_escape c) eqn:E.
  - cbn [path_unescape]. rewrite N.eqb_refl.
    assert (H1 : c / 16 < 16) by (apply N.div_lt_upper_bound; lia).
    assert (H2 : c mod 16 < 16) by (apply N.mod_lt; lia).
    rewrite (upperhex_ishex _ H1), (upperhex_ishex _ H2). cbn [andb].
    rewrite IH, (unhex_upperhex _ H1), (unhex_upperhex _ H2).
    do 2 f_equal. rewrite (N.div_mod c 16) at 3 by lia. lia.
  - cbn [path_unescape]. rewrite (should_escape_percent _ E), IH. reflexivity.
Qed.

(** The escaped form consists of baggage-octets only. *)
Lemma escape_value_chars v : bytes_ok v -> forallb value_char (value_escape v) = true.
Proof.
  induction 1 as [|c v Hc Hv IH]; [reflexivity|].
  cbn [value_escape]. destruct (should_escape c) eqn:E.
  - cbn [forallb].
    rewrite (upperhex_value_char (c / 16)) by (apply N.div_lt_upper_bound; lia).
    rewrite (upperhex_value_char (c mod 16)) by (apply N.mod_lt; lia).
    rewrite IH. reflexivity.
  - cbn [forallb]. rewrite IH, andb_true_r.
    unfold should_escape in E. apply orb_false_iff in E as [_ E]. now apply negb_false_iff in E.
Qed.

Lemma unhex_lt c : unhex c < 16.
Proof.
  unfold unhex.
  destruct ((48 <=? c) && (c <=? 57)) eqn:E1; [lia|].
  destruct ((97 <=? c) && (c <=? 102)) eqn:E2; [lia|].
  destruct ((65 <=? c) && (c <=? 70)) eqn:E3; lia.
Qed.

(** Decoding yields bytes. *)
Lemma unescape_bytes_ok s u : bytes_ok s -> path_unescape s = Some u -> bytes_ok u.
Proof.
  intro Hs. revert u. remember (length s) as n eqn:Hn.
  revert s Hs Hn. induction n as [n IHn] using lt_wf_ind. intros s Hs Hn u.
  destruct s as [|c r]; cbn [path_unescape].
  - intro H; inversion H; constructor.
  - inversion Hs as [|? ? Hc Hr]; subst. destruct (c =? PERCENT).
    + destruct r as [|h1 [|h2 r']]; try discriminate.
      destruct (ishex h1 && ishex h2) eqn:Eh; [|discriminate].
      destruct (path_unescape r') as [t|] eqn:Et; [|discriminate].
      intro H; inversion H; subst. constructor.
      * pose proof (unhex_lt h1). pose proof (unhex_lt h2). lia.
      * inversion Hr as [|? ? _ Hr2]; subst. inversion Hr2; subst.
        eapply (IHn (length r')); [cbn; lia| |reflexivity|exact Et]. assumption.
    + destruct (path_unescape r) as [t|] eqn:Et; [|discriminate].
      intro H; inversion H; subst. constructor; [exact Hc|].
      eapply (IHn (length r)); [cbn; lia|exact Hr|reflexivity|exact Et].
Qed.

(** ** UTF-8: model (Go's tables) = specification (Unicode Table 3-7) *)
Ltac split_ifs :=
  repeat match goal with
         | |- context [if ?c then _ else _] => destruct c eqn:?
         end.

Lemma is2_row2 a b : is2 a b = row2 a b.
Proof. unfold is2, lead, row2, tail, rng, in_range. split_ifs; cbv beta iota; lia. Qed.
Lemma is3_row3 a b c : is3 a b c = row3 a b c.
Proof. unfold is3, lead, row3, tail, rng, in_range, cont. split_ifs; cbv beta iota; lia. Qed.
Lemma is4_row4 a b c d : is4 a b c d = row4 a b c d.
Proof. unfold is4, lead, row4, tail, rng, in_range, cont. split_ifs; cbv beta iota; lia. Qed.
Lemma lt128_row1 a : (a <? 128) = row1 a.
Proof. unfold row1, rng. lia. Qed.

Lemma valid_string_utf8_b s : valid_string s = utf8_b s.
Proof.
  remember (length s) as n eqn:Hn. revert s Hn.
  induction n as [n IH] using lt_wf_ind. intros s Hn.
  assert (IHs : forall t, (length t < length s)%nat -> valid_string t = utf8_b t).
  { intros t Ht. apply (IH (length t)); [lia|reflexivity]. }
  clear IH Hn.
  destruct s as [|a r1]; [reflexivity|]. cbn [valid_string utf8_b].
  rewrite lt128_row1. destruct (row1 a). { apply IHs. cbn; lia. }
  destruct r1 as [|b r2]; [reflexivity|].
  rewrite is2_row2. destruct (row2 a b). { apply IHs. cbn; lia. }
  destruct r2 as [|c r3]; [reflexivity|].
  rewrite is3_row3. destruct (row3 a b c). { apply IHs. cbn; lia. }
  destruct r3 as [|d r4]; [reflexivity|].
  rewrite is4_row4. f_equal. apply IHs. cbn; lia.
Qed.

(** The decision procedure is sound and complete for [Utf8]. *)
Lemma utf8_b_sound s : utf8_b s = true -> Utf8 s.
Proof.
  remember (length s) as n eqn:Hn. revert s Hn.
  induction n as [n IH] using lt_wf_ind. intros s Hn.
  destruct s as [|a r1]; [constructor|]. cbn [utf8_b].
  destruct (row1 a) eqn:E1.
  { intro H. apply (Utf8_seq [a] r1); [exact E1|].
    apply (IH (length r1)); [subst; cbn; lia|reflexivity|exact H]. }
  destruct r1 as [|b r2]; [discriminate|].
  destruct (row2 a b) eqn:E2.
  { intro H. apply (Utf8_seq [a; b] r2); [exact E2|].
    apply (IH (length r2)); [subst; cbn; lia|reflexivity|exact H]. }
  destruct r2 as [|c r3]; [discriminate|].
  destruct (row3 a b c) eqn:E3.
  { intro H. apply (Utf8_seq [a; b; c] r3); [exact E3|].
    apply (IH (length r3)); [subst; cbn; lia|reflexivity|exact H]. }
  destruct r3 as [|d r4]; [discriminate|].
  intro H. apply andb_true_iff in H as [E4 H].
  apply (Utf8_seq [a; b; c; d] r4); [exact E4|].
  apply (IH (length r4)); [subst; cbn; lia|reflexivity|exact H].
Qed.

Lemma rows_disjoint a :
  (row1 a = true -> forall b c d, row2 a b = false /\ row3 a b c = false /\ row4 a b c d = false) /\
  (forall b, row2 a b = true -> row1 a = false /\ forall b' c d, row3 a b' c = false /\ row4 a b' c d = false) /\
  (forall b c, row3 a b c = true -> row1 a = false /\ forall b', row2 a b' = false) /\
  (forall b c d, row4 a b c d = true -> row1 a = false /\ (forall b', row2 a b' = false) /\ forall b' c', row3 a b' c' = false).
Proof. unfold row1, row2, row3, row4, tail, rng. repeat split; intros; lia. Qed.

Lemma utf8_b_complete s : Utf8 s -> utf8_b s = true.
Proof.
  induction 1 as [|q r Hq Hr IH]; [reflexivity|].
  destruct q as [|a [|b [|c [|d [|e q]]]]]; cbn in Hq; try discriminate; cbn [app utf8_b].
  - now rewrite Hq.
  - destruct (rows_disjoint a) as [_ [H2 _]]. destruct (H2 b Hq) as [-> _]. now rewrite Hq.
  - destruct (rows_disjoint a) as [_ [_ [H3 _]]]. destruct (H3 b c Hq) as [-> H]. now rewrite H, Hq.
  - destruct (rows_disjoint a) as [_ [_ [_ H4]]]. destruct (H4 b c d Hq) as [-> [H H']].
    now rewrite H, H', Hq, IH.
Qed.

Lemma utf8_b_iff s : utf8_b s = true <-> Utf8 s.
Proof. split; [apply utf8_b_sound|apply utf8_b_complete]. Qed.

(** Valid UTF-8 consists of bytes. *)
Lemma utf8_b_bytes_ok s : utf8_b s = true -> bytes_ok s.
Proof.
  intro H. apply utf8_b_sound in H. induction H as [|q r Hq Hr IH]; [constructor|].
  apply Forall_app; split; [|exact IH].
  destruct q as [|a [|b [|c [|d [|e q]]]]]; cbn in Hq; try discriminate;
    unfold row1, row2, row3, row4, tail, rng in Hq; repeat constructor; lia.
Qed.

Lemma fffd_valid x : valid_string (FFFD ++ x) = valid_string x.
Proof. reflexivity. Qed.

(** replaceInvalidUTF8Sequences always returns valid UTF-8. *)
Lemma fix_utf8_valid s : valid_string (fix_utf8 s) = true.
Proof.
  remember (length s) as n eqn:Hn. revert s Hn.
  induction n as [n IH] using lt_wf_ind. intros s Hn.
  assert (IHs : forall t, (length t < length s)%nat -> valid_string (fix_utf8 t) = true).
  { intros t Ht. apply (IH (length t)); [lia|reflexivity]. }
  clear IH Hn.
  destruct s as [|a r1]; [reflexivity|]. cbn [fix_utf8].
  assert (Hbad : valid_string (FFFD ++ fix_utf8 r1) = true).
  { rewrite fffd_valid. apply IHs. cbn; lia. }
  destruct (a <? 128) eqn:E1.
  { cbn [valid_string]. rewrite E1. apply IHs. cbn; lia. }
  destruct r1 as [|b r2]; [exact Hbad|].
  destruct (is2 a b) eqn:E2.
  { cbn [valid_string]. rewrite E1, E2. apply IHs. cbn; lia. }
  destruct r2 as [|c r3]; [exact Hbad|].
  destruct (is3 a b c) eqn:E3.
  { cbn [valid_string]. rewrite E1, E2, E3. apply IHs. cbn; lia. }
  destruct r3 as [|d r4]; [exact Hbad|].
  destruct (is4 a b c d) eqn:E4; [|exact Hbad].
  cbn [valid_string]. rewrite E1, E2, E3, E4. apply IHs. cbn; lia.
Qed.

Lemma replace_invalid_valid s : valid_string (replace_invalid s) = true.
Proof.
  unfold replace_invalid. destruct (valid_string s) eqn:E; [exact E|apply fix_utf8_valid].
Qed.

Lemma replace_invalid_id s : valid_string s = true -> replace_invalid s = s.
Proof. unfold replace_invalid. now intros ->. Qed.

(** ** trimming is the identity on strings of plain (printable ASCII) characters *)
Definition plain (c : N) : bool := (c <? 128) && negb (ascii_space c).

Lemma key_char_plain c : key_char c = true -> plain c = true.
Proof. unfold key_char, plain, ascii_space. lia. Qed.
Lemma value_char_plain c : value_char c = true -> plain c = true.
Proof. unfold value_char, plain, ascii_space. lia. Qed.
Lemma plain_not_blank c : plain c = true -> blank c = false.
Proof. unfold plain, ascii_space, blank. lia. Qed.

Lemma trim_left_plain a r : plain a = true -> trim_left (a :: r) = a :: r.
Proof.
  intro H. cbn [trim_left].
  assert (E : ascii_space a = false) by (unfold plain in H; lia). rewrite E.
  destruct r as [|b r2]; [reflexivity|].
  assert (E2 : ws2 a b = false) by (unfold ws2, plain in *; lia). rewrite E2.
  destruct r2 as [|c r3]; [reflexivity|].
  assert (E3 : ws3 a b c = false) by (unfold ws3, plain in *; lia). now rewrite E3.
Qed.

Lemma trim_left_rev_plain c r : plain c = true -> trim_left_rev (c :: r) = c :: r.
Proof.
  intro H. cbn [trim_left_rev].
  assert (E : ascii_space c = false) by (unfold plain in H; lia). rewrite E.
  destruct r as [|b r2]; [reflexivity|].
  assert (E2 : ws2 b c = false) by (unfold ws2, plain in *; lia). rewrite E2.
  destruct r2 as [|a r3]; [reflexivity|].
  assert (E3 : ws3 a b c = false) by (unfold ws3, plain in *; lia). now rewrite E3.
Qed.

Lemma trim_space_plain s : forallb plain s = true -> trim_space s = s.
Proof.
  intro H. unfold trim_space, trim_right, frev. rewrite <- !rev_alt.
  assert (E : trim_left s = s).
  { destruct s as [|a r]; [reflexivity|]. cbn in H. apply andb_true_iff in H as [H _].
    now apply trim_left_plain. }
  rewrite E. rewrite <- forallb_rev in H.
  destruct (rev s) as [|c r] eqn:Er.
  - cbn. rewrite <- (rev_involutive s), Er. reflexivity.
  - cbn in H. apply andb_true_iff in H as [H _].
    rewrite trim_left_rev_plain by exact H. rewrite <- Er. apply rev_involutive.
Qed.

Lemma skip_space_plain s :
  match s with [] => True | c :: _ => plain c = true end -> skip_space s = s.
Proof.
  destruct s as [|c r]; [reflexivity|]. intro H. cbn. now rewrite (plain_not_blank _ H).
Qed.

(** ** what a member / property must look like for the header to carry it *)
Definition good_prop (p : property) : bool :=
  validate_key (fst p) && match snd p with Some v => valid_string v | None => true end.
Definition is_zero_prop (p : property) : bool :=
  is_nil (fst p) && match snd p with None => true | Some _ => false end.
Definition semi_good_prop (p : property) : bool := good_prop p || is_zero_prop p.

Definition good_member (m : member) : bool :=
  validate_key (mkey m) && valid_string (mval m) && forallb good_prop (mprops m).
Definition semi_good_member (m : member) : bool :=
  validate_key (mkey m) && valid_string (mval m) && forallb semi_good_prop (mprops m).

(** What parsing a serialised property list gives back: the properties that have a string form (a
    lone trailing ';' stands for nothing since fix 72863c6). *)
Definition squash (ps : list property) : list property := filter good_prop ps.
Definition squash_member (m : member) : member := (mkey m, mval m, squash (mprops m)).

Lemma valid_string_bytes_ok v : valid_string v = true -> bytes_ok v.
Proof. rewrite valid_string_utf8_b. apply utf8_b_bytes_ok. Qed.

Lemma validate_key_inv k :
  validate_key k = true -> k <> [] /\ forallb key_char k = true.
Proof.
  unfold validate_key. intro H. apply andb_true_iff in H as [H1 H2].
  apply negb_true_iff, is_nil_false in H1. auto.
Qed.

Lemma key_no sep k : key_char sep = false -> validate_key k = true -> no sep k = true.
Proof. intros Hs H. apply validate_key_inv in H as [_ H]. now apply (no_of_class key_char). Qed.

Lemma escape_no sep v : value_char sep = false -> bytes_ok v -> no sep (value_escape v) = true.
Proof. intros Hs H. apply (no_of_class value_char); [exact Hs|now apply escape_value_chars]. Qed.

Lemma escape_plain v : bytes_ok v -> forallb plain (value_escape v) = true.
Proof.
  intro H. apply (forallb_impl value_char); [apply value_char_plain|now apply escape_value_chars].
Qed.

Lemma key_plain k : validate_key k = true -> forallb plain k = true.
Proof.
  intro H. apply validate_key_inv in H as [_ H].
  apply (forallb_impl key_char); [apply key_char_plain|exact H].
Qed.

(** *** properties *)
Lemma prop_string_good_nonempty p : good_prop p = true -> prop_string p <> [].
Proof.
  destruct p as [k ov]. unfold good_prop, prop_string. cbn [fst snd]. intro H.
  apply andb_true_iff in H as [Hk _]. rewrite Hk. cbn [negb].
  apply validate_key_inv in Hk as [Hk _].
  destruct ov; destruct k; cbn; congruence.
Qed.

Lemma prop_string_zero p : is_zero_prop p = true -> prop_string p = [].
Proof.
  destruct p as [k ov]. unfold is_zero_prop. cbn [fst snd]. intro H.
  apply andb_true_iff in H as [Hk _]. apply is_nil_true in Hk; subst. reflexivity.
Qed.

Lemma good_not_zero p : good_prop p = true -> is_zero_prop p = false.
Proof.
  destruct p as [k ov]. unfold good_prop, is_zero_prop. cbn [fst snd]. intro H.
  apply andb_true_iff in H as [Hk _]. apply validate_key_inv in Hk as [Hk _].
  destruct k; [congruence|reflexivity].
Qed.

Lemma prop_string_no_semi p : good_prop p = true -> no SEMI (prop_string p) = true.
Proof.
  destruct p as [k ov]. unfold good_prop, prop_string. cbn [fst snd]. intro H.
  apply andb_true_iff in H as [Hk Hv]. rewrite Hk. cbn [negb].
  destruct ov as [v|].
  - rewrite no_app. rewrite (key_no SEMI k) by (reflexivity || exact Hk).
    change (no SEMI (EQUALS :: value_escape v)) with (no SEMI (value_escape v)).
    apply escape_no; [reflexivity|now apply valid_string_bytes_ok].
  - now apply key_no.
Qed.

Lemma parse_property_string p :
  good_prop p = true -> parse_property (prop_string p) = Some p.
Proof.
  destruct p as [k ov]. unfold good_prop, prop_string. cbn [fst snd]. intro H.
  apply andb_true_iff in H as [Hk Hv]. rewrite Hk. cbn [negb].
  pose proof (validate_key_inv _ Hk) as [Hne Hkc].
  pose proof (key_plain _ Hk) as Hkp.
  destruct k as [|k0 k']; [congruence|].
  assert (Hp0 : plain k0 = true) by (cbn in Hkp; now apply andb_true_iff in Hkp as [? _]).
  destruct ov as [v|].
  - pose proof (valid_string_bytes_ok _ Hv) as Hb.
    unfold parse_property. cbn [app].
    rewrite skip_space_plain by exact Hp0.
    change (k0 :: k' ++ EQUALS :: value_escape v) with ((k0 :: k') ++ EQUALS :: value_escape v).
    rewrite span_app_stop by (exact Hkc || reflexivity).
    change (skip_space (EQUALS :: value_escape v)) with (EQUALS :: value_escape v).
    cbv beta iota. change (negb (EQUALS =? EQUALS)) with false. cbv beta iota.
    assert (Hs : skip_space (value_escape v) = value_escape v).
    { apply skip_space_plain. pose proof (escape_plain _ Hb) as Hp.
      destruct (value_escape v); [exact I|]. cbn in Hp. now apply andb_true_iff in Hp as [? _]. }
    rewrite Hs, span_all by (now apply escape_value_chars).
    cbn [skip_space]. rewrite unescape_escape by exact Hb.
    now rewrite replace_invalid_id.
  - unfold parse_property.
    rewrite skip_space_plain by exact Hp0.
    rewrite span_all by exact Hkc. reflexivity.
Qed.

Lemma parse_props_strings ps :
  forallb good_prop ps = true -> parse_props (map prop_string ps) = Some ps.
Proof.
  induction ps as [|p ps IH]; [reflexivity|]. cbn [forallb map parse_props]. intro H.
  apply andb_true_iff in H as [Hp Hps]. pose proof (prop_string_good_nonempty _ Hp) as Hn.
  pose proof (parse_property_string _ Hp) as Hpp.
  destruct (prop_string p) as [|c0 s0]; [congruence|]. now rewrite Hpp, IH.
Qed.

Lemma filter_good_good ps : forallb good_prop (filter good_prop ps) = true.
Proof.
  induction ps as [|p ps IH]; [reflexivity|]. cbn. destruct (good_prop p) eqn:E; [|exact IH].
  cbn. now rewrite E.
Qed.

Lemma prop_strings_filter ps :
  forallb semi_good_prop ps = true ->
  filter nonempty (map prop_string ps) = map prop_string (filter good_prop ps).
Proof.
  induction ps as [|p ps IH]; [reflexivity|]. cbn [forallb map filter]. intro H.
  apply andb_true_iff in H as [Hp Hps]. specialize (IH Hps).
  unfold semi_good_prop in Hp. destruct (good_prop p) eqn:Eg.
  - pose proof (prop_string_good_nonempty _ Eg) as Hn.
    unfold nonempty at 1. apply is_nil_false in Hn. rewrite Hn. cbn [negb map]. now rewrite IH.
  - cbn in Hp. rewrite (prop_string_zero _ Hp). cbn. exact IH.
Qed.

(** Parsing the serialised property list. *)
Lemma parse_props_string ps :
  forallb semi_good_prop ps = true ->
  parse_props (split SEMI (props_string ps)) =
  Some (filter good_prop ps).
Proof.
  intro H. unfold props_string. rewrite (prop_strings_filter _ H).
  pose proof (filter_good_good ps) as Hg.
  destruct (filter good_prop ps) as [|p r] eqn:E; [reflexivity|].
  rewrite split_join.
  - now rewrite parse_props_strings by exact Hg.
  - discriminate.
  - clear E. revert Hg. generalize (p :: r). intro l. induction l as [|x l IH]; [reflexivity|].
    cbn. intro Hx. apply andb_true_iff in Hx as [Hx Hl].
    now rewrite prop_string_no_semi, IH.
Qed.

Lemma props_string_no_comma ps :
  forallb semi_good_prop ps = true -> no COMMA (props_string ps) = true.
Proof.
  intro H. unfold props_string. rewrite (prop_strings_filter _ H).
  pose proof (filter_good_good ps) as Hg. revert Hg. generalize (filter good_prop ps).
  intro l. induction l as [|x l IH]; [reflexivity|]. cbn [forallb map]. intro Hx.
  apply andb_true_iff in Hx as [Hx Hl]. specialize (IH Hl).
  assert (Hxc : no COMMA (prop_string x) = true).
  { destruct x as [k ov]. unfold good_prop in Hx. unfold prop_string. cbn [fst snd] in *.
    apply andb_true_iff in Hx as [Hk Hv]. rewrite Hk. cbn [negb]. destruct ov as [v|].
    - rewrite no_app, (key_no COMMA k) by (reflexivity || exact Hk).
      change (no COMMA (EQUALS :: value_escape v)) with (no COMMA (value_escape v)).
      apply escape_no; [reflexivity|now apply valid_string_bytes_ok].
    - now apply key_no. }
  destruct l as [|y l]; [exact Hxc|].
  change (join SEMI (prop_string x :: map prop_string (y :: l)))
    with (prop_string x ++ SEMI :: join SEMI (map prop_string (y :: l))).
  rewrite no_app, Hxc. cbn [andb]. change (no COMMA (SEMI :: ?t)) with (no COMMA t). exact IH.
Qed.

(** *** members *)
Lemma member_string_shape k v ps :
  validate_key k = true ->
  member_string (k, v, ps) =
  (k ++ EQUALS :: value_escape v) ++ (if is_nil ps then [] else SEMI :: props_string ps).
Proof.
  intro Hk. unfold member_string. rewrite Hk. cbn [negb].
  now rewrite <- app_assoc, <- app_comm_cons.
Qed.

Lemma kv_no_semi k v :
  validate_key k = true -> bytes_ok v -> no SEMI (k ++ EQUALS :: value_escape v) = true.
Proof.
  intros Hk Hv. rewrite no_app, (key_no SEMI k) by (reflexivity || exact Hk).
  change (no SEMI (EQUALS :: value_escape v)) with (no SEMI (value_escape v)).
  now apply escape_no.
Qed.

Lemma parse_member_string m :
  semi_good_member m = true ->
  lenN (member_string m) <= MAX_BYTES_PER_MEMBER ->
  parse_member (member_string m) = Some (squash_member m).
Proof.
  destruct m as [[k v] ps]. unfold semi_good_member, squash_member, mkey, mval, mprops. cbn [fst snd].
  intros H Hlen. apply andb_true_iff in H as [H Hps]. apply andb_true_iff in H as [Hk Hv].
  pose proof (valid_string_bytes_ok _ Hv) as Hb.
  unfold parse_member.
  assert (Hl : (MAX_BYTES_PER_MEMBER <? lenN (member_string (k, v, ps))) = false) by lia.
  rewrite Hl. clear Hl Hlen.
  rewrite member_string_shape by exact Hk.
  assert (Hkv : cut EQUALS (k ++ EQUALS :: value_escape v) = (k, value_escape v, true)).
  { apply cut_app_sep. now apply key_no. }
  assert (Htail : forall P : list property,
             (let '(k0, v0, found2) := cut EQUALS (k ++ EQUALS :: value_escape v) in
              if negb found2 then None
              else let key := trim_space k0 in
                   if negb (validate_key key) then None
                   else let raw := trim_space v0 in
                        if negb (validate_value raw) then None
                        else match path_unescape raw with
                             | Some u => Some (key, replace_invalid u, P)
                             | None => None
                             end) = Some (k, v, P)).
  { intro P. rewrite Hkv. cbv beta iota. cbn [negb].
    rewrite (trim_space_plain k) by (now apply key_plain). rewrite Hk. cbn [negb].
    rewrite (trim_space_plain (value_escape v)) by (now apply escape_plain).
    unfold validate_value. rewrite escape_value_chars by exact Hb. cbn [negb].
    rewrite unescape_escape by exact Hb. now rewrite replace_invalid_id. }
  unfold squash. destruct ps as [|p ps'].
  - cbn [is_nil filter]. rewrite app_nil_r.
    rewrite cut_none by (now apply kv_no_semi). cbv beta iota. apply Htail.
  - cbn [is_nil]. rewrite cut_app_sep by (now apply kv_no_semi). cbv beta iota.
    rewrite parse_props_string by exact Hps. apply Htail.
Qed.

Lemma member_string_no_comma m :
  semi_good_member m = true -> no COMMA (member_string m) = true.
Proof.
  destruct m as [[k v] ps]. unfold semi_good_member, mkey, mval, mprops. cbn [fst snd].
  intro H. apply andb_true_iff in H as [H Hps]. apply andb_true_iff in H as [Hk Hv].
  pose proof (valid_string_bytes_ok _ Hv) as Hb.
  rewrite member_string_shape by exact Hk. rewrite !no_app.
  rewrite (key_no COMMA k) by (reflexivity || exact Hk).
  change (no COMMA (EQUALS :: value_escape v)) with (no COMMA (value_escape v)).
  rewrite escape_no by (reflexivity || exact Hb). cbn [andb].
  destruct ps; [reflexivity|]. cbn [is_nil].
  change (no COMMA (SEMI :: ?t)) with (no COMMA t). now apply props_string_no_comma.
Qed.

Lemma member_string_nonempty m : semi_good_member m = true -> member_string m <> [].
Proof.
  destruct m as [[k v] ps]. unfold semi_good_member, mkey, mval, mprops. cbn [fst snd].
  intro H. apply andb_true_iff in H as [H _]. apply andb_true_iff in H as [Hk _].
  rewrite member_string_shape by exact Hk.
  apply validate_key_inv in Hk as [Hk _]. destruct k; [congruence|discriminate].
Qed.

(** ** baggage as a key-unique list *)
Lemma bytes_eqb_sym a b : bytes_eqb a b = bytes_eqb b a.
Proof.
  destruct (bytes_eqb a b) eqn:E.
  - apply bytes_eqb_eq in E; subst. symmetry. apply bytes_eqb_refl.
  - symmetry. apply bytes_eqb_neq. apply bytes_eqb_neq in E. congruence.
Qed.

Lemma bag_get_lookup b k : bag_get b k = lookup b k.
Proof. induction b as [|x b IH]; cbn; [reflexivity|]. now rewrite IH. Qed.

Lemma has_key_app k a b : has_key k (a ++ b) = has_key k a || has_key k b.
Proof. apply existsb_app. Qed.

Lemma has_key_lookup k b : has_key k b = match lookup b k with Some _ => true | None => false end.
Proof.
  induction b as [|x b IH]; cbn; [reflexivity|].
  destruct (bytes_eqb (key_of x) k); [reflexivity|exact IH].
Qed.

Lemma lookup_key b k m : lookup b k = Some m -> key_of m = k.
Proof.
  induction b as [|x b IH]; cbn; [discriminate|].
  destruct (bytes_eqb (key_of x) k) eqn:E; [|exact IH].
  intro H; inversion H; subst. now apply bytes_eqb_eq.
Qed.

Lemma lookup_in b k m : lookup b k = Some m -> In m b.
Proof.
  induction b as [|x b IH]; cbn; [discriminate|].
  destruct (bytes_eqb (key_of x) k); [intro H; inversion H; auto|auto].
Qed.

Lemma unique_keys_app a b :
  unique_keys (a ++ b) = unique_keys a && unique_keys b &&
                         forallb (fun m => negb (has_key (key_of m) b)) a.
Proof.
  induction a as [|x a IH]; cbn [app unique_keys forallb].
  - now rewrite andb_true_r.
  - rewrite IH, has_key_app, negb_orb.
    destruct (has_key (key_of x) a), (has_key (key_of x) b), (unique_keys a), (unique_keys b);
      cbn; try reflexivity; now rewrite ?andb_false_r.
Qed.

Lemma bag_set_fresh b m : has_key (mkey m) b = false -> bag_set b m = b ++ [m].
Proof.
  induction b as [|x b IH]; cbn; [reflexivity|]. intro H.
  apply orb_false_iff in H as [H1 H2].
  change (key_of x) with (mkey x) in H1. rewrite H1. now rewrite IH.
Qed.

Lemma lookup_bag_set b m k :
  lookup (bag_set b m) k = if bytes_eqb (key_of m) k then Some m else lookup b k.
Proof.
  induction b as [|x b IH]; cbn [bag_set lookup].
  - reflexivity.
  - change (mkey x) with (key_of x). change (mkey m) with (key_of m).
    destruct (bytes_eqb (key_of x) (key_of m)) eqn:E.
    + apply bytes_eqb_eq in E. cbn [lookup]. rewrite E.
      destruct (bytes_eqb (key_of m) k); reflexivity.
    + cbn [lookup]. rewrite IH.
      destruct (bytes_eqb (key_of x) k) eqn:E2; [|reflexivity].
      apply bytes_eqb_eq in E2; subst.
      rewrite bytes_eqb_sym in E. now rewrite E.
Qed.

Lemma has_key_bag_set b m k :
  has_key k (bag_set b m) = bytes_eqb (key_of m) k || has_key k b.
Proof.
  rewrite !has_key_lookup, lookup_bag_set. destruct (bytes_eqb (key_of m) k); reflexivity.
Qed.

Lemma unique_keys_bag_set b m : unique_keys b = true -> unique_keys (bag_set b m) = true.
Proof.
  induction b as [|x b IH]; cbn [bag_set unique_keys]; [reflexivity|].
  intro H. apply andb_true_iff in H as [H1 H2].
  change (mkey x) with (key_of x). change (mkey m) with (key_of m).
  destruct (bytes_eqb (key_of x) (key_of m)) eqn:E.
  - apply bytes_eqb_eq in E. cbn [unique_keys]. now rewrite <- E, H1, H2.
  - cbn [unique_keys]. rewrite has_key_bag_set, IH by exact H2.
    rewrite bytes_eqb_sym, E. cbn. now rewrite H1.
Qed.

Lemma forallb_bag_set (P : member -> bool) b m :
  forallb P b = true -> P m = true -> forallb P (bag_set b m) = true.
Proof.
  induction b as [|x b IH]; cbn [bag_set forallb]; intros H Hm.
  - now rewrite Hm.
  - apply andb_true_iff in H as [H1 H2].
    destruct (bytes_eqb (mkey x) (mkey m)); cbn [forallb].
    + now rewrite Hm, H2.
    + now rewrite H1, IH.
Qed.

Lemma lenN_bag_set_le b m : lenN b <= lenN (bag_set b m).
Proof.
  induction b as [|x b IH]; cbn [bag_set lenN]; [lia|].
  destruct (bytes_eqb (mkey x) (mkey m)); cbn [lenN]; lia.
Qed.

(** fold of map updates = last duplicate wins *)
Lemma lookup_dedup_last_cons m r k :
  lookup (dedup_last (m :: r)) k =
  match lookup (dedup_last r) k with
  | Some x => Some x
  | None => if bytes_eqb (key_of m) k then Some m else None
  end.
Proof.
  cbn [dedup_last]. destruct (has_key (key_of m) r) eqn:E.
  - destruct (lookup (dedup_last r) k) eqn:El; [reflexivity|].
    destruct (bytes_eqb (key_of m) k) eqn:Ek; [|reflexivity].
    apply bytes_eqb_eq in Ek; subst. exfalso.
    (* key of m occurs in r, hence in dedup_last r *)
    assert (H : forall l k0, has_key k0 l = true -> lookup (dedup_last l) k0 <> None).
    { clear. induction l as [|x l IH]; cbn; [discriminate|]. intros k0 H.
      destruct (has_key (key_of x) l) eqn:Ex.
      - destruct (bytes_eqb (key_of x) k0) eqn:E0.
        + apply bytes_eqb_eq in E0; subst. now apply IH.
        + cbn in H. now apply IH.
      - cbn [lookup]. destruct (bytes_eqb (key_of x) k0) eqn:E0; [discriminate|].
        cbn in H. now apply IH. }
    now apply (H r (key_of m) E).
  - cbn [lookup]. destruct (bytes_eqb (key_of m) k) eqn:Ek.
    + apply bytes_eqb_eq in Ek; subst.
      assert (H : forall l k0, has_key k0 l = false -> lookup (dedup_last l) k0 = None).
      { clear. induction l as [|x l IH]; cbn; [reflexivity|]. intros k0 H.
        apply orb_false_iff in H as [H1 H2].
        destruct (has_key (key_of x) l); [now apply IH|]. cbn [lookup]. rewrite H1. now apply IH. }
      now rewrite (H r (key_of m) E).
    + destruct (lookup (dedup_last r) k); reflexivity.
Qed.

Lemma lookup_fold_set ms : forall acc k,
  lookup (fold_left bag_set ms acc) k =
  match lookup (dedup_last ms) k with Some x => Some x | None => lookup acc k end.
Proof.
  induction ms as [|m r IH]; intros acc k; [reflexivity|].
  cbn [fold_left]. rewrite IH, lookup_dedup_last_cons, lookup_bag_set.
  destruct (lookup (dedup_last r) k); [reflexivity|].
  destruct (bytes_eqb (key_of m) k); reflexivity.
Qed.

Lemma unique_keys_fold ms : forall acc,
  unique_keys acc = true -> unique_keys (fold_left bag_set ms acc) = true.
Proof.
  induction ms as [|m r IH]; intros acc H; [exact H|]. cbn. apply IH. now apply unique_keys_bag_set.
Qed.

Lemma forallb_fold (P : member -> bool) ms : forall acc,
  forallb P acc = true -> forallb P ms = true -> forallb P (fold_left bag_set ms acc) = true.
Proof.
  induction ms as [|m r IH]; intros acc H Hm; [exact H|]. cbn in *.
  apply andb_true_iff in Hm as [H1 H2]. apply IH; [|exact H2]. now apply forallb_bag_set.
Qed.

Lemma unique_keys_dedup_last l : unique_keys (dedup_last l) = true.
Proof.
  induction l as [|m r IH]; [reflexivity|]. cbn [dedup_last].
  destruct (has_key (key_of m) r) eqn:E; [exact IH|]. cbn [unique_keys]. rewrite IH, andb_true_r.
  apply negb_true_iff. rewrite has_key_lookup.
  destruct (lookup (dedup_last r) (key_of m)) as [m0|] eqn:El; [|reflexivity].
  apply lookup_in in El as Hin. pose proof (lookup_key _ _ _ El) as Hk.
  (* members of dedup_last r are members of r *)
  assert (H : forall l x, In x (dedup_last l) -> In x l).
  { clear. induction l as [|y l IH]; cbn; [auto|]. intros x.
    destruct (has_key (key_of y) l); cbn; intuition. }
  apply H in Hin. rewrite <- Hk in E.
  assert (has_key (key_of m0) r = true).
  { unfold has_key. apply existsb_exists. exists m0. split; [exact Hin|apply bytes_eqb_refl]. }
  congruence.
Qed.

(** ** serialise then parse, whole baggage *)
Lemma squash_member_key m : mkey (squash_member m) = mkey m.
Proof. reflexivity. Qed.

Lemma parse_members_strings b : forall acc,
  forallb semi_good_member b = true ->
  forallb (fun m => lenN (member_string m) <=? MAX_BYTES_PER_MEMBER) b = true ->
  unique_keys (acc ++ b) = true ->
  parse_members (map member_string b) acc = Some (acc ++ map squash_member b).
Proof.
  induction b as [|m b IH]; intros acc Hg Hl Hu; cbn [map parse_members].
  - now rewrite app_nil_r.
  - cbn [forallb] in Hg, Hl. apply andb_true_iff in Hg as [Hg1 Hg2].
    apply andb_true_iff in Hl as [Hl1 Hl2].
    rewrite parse_member_string by (exact Hg1 || lia).
    assert (Hfresh : has_key (mkey (squash_member m)) acc = false).
    { rewrite unique_keys_app in Hu. apply andb_true_iff in Hu as [_ Hu].
      rewrite squash_member_key.
      destruct (has_key (mkey m) acc) eqn:E; [|reflexivity]. exfalso.
      unfold has_key in E. apply existsb_exists in E as [x [Hx Ex]].
      rewrite forallb_forall in Hu. specialize (Hu x Hx). apply negb_true_iff in Hu.
      cbn in Hu. apply orb_false_iff in Hu as [Hu _].
      apply bytes_eqb_eq in Ex. change (key_of m) with (mkey m) in Hu.
      rewrite <- Ex, bytes_eqb_refl in Hu. discriminate. }
    rewrite bag_set_fresh by exact Hfresh.
    rewrite IH; [now rewrite <- app_assoc | exact Hg2 | exact Hl2 |].
    (* uniqueness only depends on keys *)
    rewrite <- app_assoc. cbn [app].
    rewrite unique_keys_app in Hu |- *. cbn [unique_keys] in *.
    change (key_of (squash_member m)) with (key_of m). exact Hu.
Qed.

Lemma member_strings_all b :
  forallb semi_good_member b = true -> member_strings b = map member_string b.
Proof.
  unfold member_strings. induction b as [|m b IH]; [reflexivity|]. cbn [forallb map filter].
  intro H. apply andb_true_iff in H as [H1 H2].
  pose proof (member_string_nonempty _ H1) as Hn. apply is_nil_false in Hn.
  unfold nonempty at 1. rewrite Hn. cbn [negb]. now rewrite IH.
Qed.

Lemma join_nonempty sep x l : x <> [] -> join sep (x :: l) <> [].
Proof. destruct l; cbn; [auto|]. destruct x; [congruence|discriminate]. Qed.

Lemma lenN_map {A B} (f : A -> B) l : lenN (map f l) = lenN l.
Proof. now rewrite !lenN_length, map_length. Qed.

Lemma parse_nonempty s :
  s <> [] ->
  parse s = if MAX_BYTES_PER_BAGGAGE <? lenN s then None
            else match parse_members (split COMMA s) [] with
                 | None => None
                 | Some b => if MAX_MEMBERS <? lenN b then None else Some b
                 end.
Proof. destruct s; [congruence|reflexivity]. Qed.

Lemma parse_baggage_string b :
  forallb semi_good_member b = true -> unique_keys b = true ->
  lenN b <= MAX_MEMBERS ->
  lenN (baggage_string b) <= MAX_BYTES_PER_BAGGAGE ->
  forallb (fun p => lenN p <=? MAX_BYTES_PER_MEMBER) (split COMMA (baggage_string b)) = true ->
  parse (baggage_string b) = Some (map squash_member b).
Proof.
  intros Hg Hu Hn Hlen Hm. unfold baggage_string in *. rewrite member_strings_all in * by exact Hg.
  destruct b as [|m b]; [reflexivity|].
  assert (Hne : join COMMA (map member_string (m :: b)) <> []).
  { cbn [map]. apply join_nonempty. apply member_string_nonempty.
    cbn in Hg. now apply andb_true_iff in Hg as [? _]. }
  assert (Hsplit : split COMMA (join COMMA (map member_string (m :: b))) = map member_string (m :: b)).
  { apply split_join; [discriminate|].
    rewrite forallb_forall. intros x Hx. apply in_map_iff in Hx as [y [<- Hy]].
    apply member_string_no_comma. rewrite forallb_forall in Hg. now apply Hg. }
  rewrite parse_nonempty by exact Hne.
  assert (E1 : (MAX_BYTES_PER_BAGGAGE <? lenN (join COMMA (map member_string (m :: b)))) = false) by lia.
  rewrite E1, Hsplit. rewrite Hsplit in Hm.
  rewrite (parse_members_strings (m :: b) []); [| exact Hg | | exact Hu].
  - cbn [app]. rewrite lenN_map.
    assert (E2 : (MAX_MEMBERS <? lenN (m :: b)) = false) by lia. now rewrite E2.
  - rewrite forallb_forall in Hm |- *. intros x Hx. apply Hm. now apply in_map.
Qed.

(** With properties that all have a string form nothing is squashed. *)
Lemma squash_good ps : forallb good_prop ps = true -> squash ps = ps.
Proof.
  unfold squash. induction ps as [|x l IH]; [reflexivity|].
  cbn. intro H. apply andb_true_iff in H as [H1 H2]. now rewrite H1, IH.
Qed.

Lemma good_semi_good m : good_member m = true -> semi_good_member m = true.
Proof.
  unfold good_member, semi_good_member. intro H. apply andb_true_iff in H as [H Hp].
  rewrite H. cbn. apply (forallb_impl good_prop); [|exact Hp].
  intros p Hg. unfold semi_good_prop. now rewrite Hg.
Qed.

Lemma squash_member_good m : good_member m = true -> squash_member m = m.
Proof.
  destruct m as [[k v] ps]. unfold good_member, squash_member, mkey, mval, mprops. cbn [fst snd].
  intro H. apply andb_true_iff in H as [_ Hp]. now rewrite squash_good.
Qed.

Lemma map_squash_good b : forallb good_member b = true -> map squash_member b = b.
Proof.
  induction b as [|m b IH]; [reflexivity|]. cbn. intro H. apply andb_true_iff in H as [H1 H2].
  now rewrite squash_member_good, IH.
Qed.

(** *** spec vocabulary = model vocabulary *)
Lemma key_char_tchar c : key_char c = tchar c.
Proof. unfold key_char, tchar, digit, alpha, rng. lia. Qed.

Lemma validate_key_token k : validate_key k = token k.
Proof.
  unfold validate_key, token. destruct k as [|c k]; [reflexivity|]. cbn [is_nil negb andb].
  apply forallb_ext_eq, key_char_tchar.
Qed.

Lemma value_char_octet c : value_char c = baggage_octet c.
Proof. unfold value_char, baggage_octet, rng. lia. Qed.

Lemma good_prop_accepted p : good_prop p = prop_accepted p.
Proof.
  unfold good_prop, prop_accepted. rewrite validate_key_token.
  destruct (snd p); [now rewrite valid_string_utf8_b|reflexivity].
Qed.

Lemma good_member_accepted m : good_member m = member_accepted m.
Proof.
  unfold good_member, member_accepted. change (mkey m) with (key_of m).
  change (mval m) with (value_of m). change (mprops m) with (props_of m).
  rewrite validate_key_token, valid_string_utf8_b. f_equal. apply forallb_ext_eq, good_prop_accepted.
Qed.

Lemma limits_split h :
  header_within_limits h = true ->
  lenN h <= MAX_BYTES_PER_BAGGAGE /\
  forallb (fun p => lenN p <=? MAX_BYTES_PER_MEMBER) (split COMMA h) = true.
Proof.
  unfold header_within_limits. intro H. apply andb_true_iff in H as [H1 H2].
  rewrite lenN_blen. split; [unfold MAX_BYTES_PER_BAGGAGE, LIMIT_TOTAL_BYTES in *; lia|].
  rewrite split_pieces. rewrite forallb_forall in H2 |- *. intros x Hx. rewrite lenN_blen. now apply H2.
Qed.

(** Round trip: every baggage the header can carry within the limits. *)
Lemma roundtrip b :
  unique_keys b = true -> forallb member_accepted b = true -> blen b <= LIMIT_MEMBERS ->
  header_within_limits (baggage_string b) = true ->
  parse (baggage_string b) = Some b /\
  extract (inject b) = (if is_nil b then None else Some b).
Proof.
  intros Hu Ha Hn Hl.
  assert (Hg : forallb good_member b = true).
  { rewrite (forallb_ext_eq _ _ b good_member_accepted). exact Ha. }
  assert (Hs : forallb semi_good_member b = true).
  { apply (forallb_impl good_member); [apply good_semi_good|exact Hg]. }
  apply limits_split in Hl as [Hl1 Hl2].
  assert (Hp : parse (baggage_string b) = Some b).
  { rewrite parse_baggage_string; try assumption.
    - now rewrite map_squash_good.
    - rewrite lenN_blen. exact Hn. }
  split; [exact Hp|].
  unfold inject, extract. destruct b as [|m b]; [reflexivity|]. cbn [is_nil].
  destruct (baggage_string (m :: b)) as [|c s] eqn:E.
  - exfalso. unfold baggage_string in E. rewrite member_strings_all in E by exact Hs.
    cbn [map] in E. revert E. apply join_nonempty, member_string_nonempty.
    cbn in Hs. now apply andb_true_iff in Hs as [? _].
  - cbn [is_nil]. exact Hp.
Qed.

(** ** what a successful parse delivers *)
Lemma parse_property_semi_good s p : parse_property s = Some p -> semi_good_prop p = true.
Proof.
  unfold parse_property. destruct s as [|c0 s0]; [intro H; inversion H; reflexivity|].
  pose proof (span_spec key_char (skip_space (c0 :: s0))) as [Hk _].
  destruct (span key_char (skip_space (c0 :: s0))) as [key s2]. cbn [fst] in Hk.
  destruct key as [|k0 k']; [discriminate|].
  assert (Hkey : validate_key (k0 :: k') = true) by (unfold validate_key; now rewrite Hk).
  destruct (skip_space s2) as [|c s4].
  - intro H; inversion H; subst. unfold semi_good_prop, good_prop. cbn [fst snd]. now rewrite Hkey.
  - destruct (negb (c =? EQUALS)); [discriminate|].
    destruct (span value_char (skip_space s4)) as [raw s6].
    destruct (skip_space s6); [|discriminate].
    destruct (path_unescape raw) as [u|]; [|discriminate].
    intro H; inversion H; subst. unfold semi_good_prop, good_prop. cbn [fst snd].
    now rewrite Hkey, replace_invalid_valid.
Qed.

Lemma parse_property_good s p : s <> [] -> parse_property s = Some p -> good_prop p = true.
Proof.
  intros Hs H. pose proof (parse_property_semi_good _ _ H) as Hg. unfold semi_good_prop in Hg.
  destruct (good_prop p) eqn:E; [reflexivity|]. cbn in Hg.
  (* the zero property only comes from the empty piece *)
  unfold parse_property in H. destruct s as [|c0 s0]; [congruence|].
  destruct (span key_char (skip_space (c0 :: s0))) as [key s2]. destruct key as [|k0 k']; [discriminate|].
  destruct (skip_space s2) as [|c s4].
  - inversion H; subst. discriminate.
  - destruct (negb (c =? EQUALS)); [discriminate|].
    destruct (span value_char (skip_space s4)) as [raw s6]. destruct (skip_space s6); [|discriminate].
    destruct (path_unescape raw); [|discriminate]. inversion H; subst. discriminate.
Qed.

Lemma parse_props_good l : forall ps, parse_props l = Some ps -> forallb good_prop ps = true.
Proof.
  induction l as [|x l IH]; cbn [parse_props]; intros ps H.
  - inversion H; reflexivity.
  - destruct x as [|c0 x0]; [now apply IH|].
    destruct (parse_property (c0 :: x0)) as [p|] eqn:Ep; [|discriminate].
    destruct (parse_props l) as [ps'|]; [|discriminate]. inversion H; subst.
    assert (Hne : c0 :: x0 <> []) by discriminate.
    cbn. rewrite (parse_property_good _ _ Hne Ep). now apply IH.
Qed.

Lemma parse_props_semi_good l : forall ps,
  parse_props l = Some ps -> forallb semi_good_prop ps = true.
Proof.
  intros ps H. apply (forallb_impl good_prop); [|now apply (parse_props_good l)].
  intros p Hp. unfold semi_good_prop. now rewrite Hp.
Qed.

Lemma parse_member_inv p m :
  parse_member p = Some m -> semi_good_member m = true /\ lenN p <= MAX_BYTES_PER_MEMBER.
Proof.
  unfold parse_member. destruct (MAX_BYTES_PER_MEMBER <? lenN p) eqn:El; [discriminate|].
  destruct (cut SEMI p) as [[kv props_s] found].
  destruct (if found then parse_props (split SEMI props_s) else Some []) as [ps|] eqn:Ep; [|discriminate].
  assert (Hps : forallb semi_good_prop ps = true).
  { destruct found; [now apply (parse_props_semi_good _ _ Ep)|]. inversion Ep; reflexivity. }
  destruct (cut EQUALS kv) as [[k v] found2].
  destruct found2; cbn [negb]; [|discriminate].
  destruct (validate_key (trim_space k)) eqn:Ek; cbn [negb]; [|discriminate].
  destruct (validate_value (trim_space v)); cbn [negb]; [|discriminate].
  destruct (path_unescape (trim_space v)) as [u|]; [|discriminate].
  intro H; inversion H; subst. split; [|lia].
  unfold semi_good_member, mkey, mval, mprops. cbn [fst snd].
  now rewrite Ek, replace_invalid_valid, Hps.
Qed.

Lemma parse_members_inv pieces : forall acc b,
  parse_members pieces acc = Some b ->
  exists ms, map parse_member pieces = map Some ms /\ b = fold_left bag_set ms acc.
Proof.
  induction pieces as [|p r IH]; cbn [parse_members]; intros acc b H.
  - inversion H; subst. now exists [].
  - destruct (parse_member p) as [m|] eqn:Em; [|discriminate].
    apply IH in H as [ms [H1 H2]]. exists (m :: ms). cbn. now rewrite Em, H1.
Qed.

Lemma parse_inv s b :
  parse s = Some b ->
  lenN s <= MAX_BYTES_PER_BAGGAGE /\ lenN b <= MAX_MEMBERS /\
  ((s = [] /\ b = []) \/
   exists ms, map parse_member (split COMMA s) = map Some ms /\ b = fold_left bag_set ms []).
Proof.
  destruct s as [|c s]; [intro H; inversion H; subst; cbn; repeat split; try lia; auto|].
  rewrite parse_nonempty by discriminate.
  destruct (MAX_BYTES_PER_BAGGAGE <? lenN (c :: s)) eqn:E1; [discriminate|].
  destruct (parse_members (split COMMA (c :: s)) []) as [b0|] eqn:Ep; [|discriminate].
  destruct (MAX_MEMBERS <? lenN b0) eqn:E2; [discriminate|].
  intro H; inversion H; subst. repeat split; try lia. right. now apply parse_members_inv.
Qed.

Lemma map_some_inv {A} (f : bytes -> option A) l ms :
  map f l = map Some ms -> Forall2 (fun p m => f p = Some m) l ms.
Proof.
  revert ms. induction l as [|x l IH]; intros [|m ms] H; cbn in H; try discriminate; constructor.
  - now inversion H.
  - apply IH. now inversion H.
Qed.

Lemma parsed_members_semi_good l ms :
  map parse_member l = map Some ms -> forallb semi_good_member ms = true.
Proof.
  intro H. apply map_some_inv in H. induction H as [|p m l ms Hp _ IH]; [reflexivity|].
  cbn. apply parse_member_inv in Hp as [Hp _]. now rewrite Hp, IH.
Qed.

Lemma parsed_pieces_small l ms :
  map parse_member l = map Some ms -> forallb (fun p => lenN p <=? MAX_BYTES_PER_MEMBER) l = true.
Proof.
  intro H. apply map_some_inv in H. induction H as [|p m l ms Hp _ IH]; [reflexivity|].
  cbn. apply parse_member_inv in Hp as [_ Hp]. rewrite IH, andb_true_r. lia.
Qed.

Lemma parse_semi_good s b : parse s = Some b -> forallb semi_good_member b = true.
Proof.
  intro H. apply parse_inv in H as [_ [_ [[_ ->]|[ms [H1 ->]]]]]; [reflexivity|].
  apply forallb_fold; [reflexivity|]. now apply (parsed_members_semi_good _ _ H1).
Qed.

Lemma parse_unique s b : parse s = Some b -> unique_keys b = true.
Proof.
  intro H. apply parse_inv in H as [_ [_ [[_ ->]|[ms [H1 ->]]]]]; [reflexivity|].
  now apply unique_keys_fold.
Qed.

Lemma semi_good_prop_utf8 p : semi_good_prop p = true -> prop_utf8 p = true.
Proof.
  destruct p as [k ov]. unfold semi_good_prop, good_prop, is_zero_prop, prop_utf8. cbn [fst snd].
  destruct ov as [v|]; [|reflexivity]. rewrite andb_false_r, orb_false_r. intro H.
  apply andb_true_iff in H as [_ H]. now rewrite <- valid_string_utf8_b.
Qed.

Lemma semi_good_member_utf8 m :
  semi_good_member m = true -> member_utf8 m = true /\ token (key_of m) = true.
Proof.
  unfold semi_good_member, member_utf8. intro H. apply andb_true_iff in H as [H Hp].
  apply andb_true_iff in H as [Hk Hv].
  change (mval m) with (value_of m) in Hv. rewrite valid_string_utf8_b in Hv. rewrite Hv.
  change (mkey m) with (key_of m) in Hk. rewrite validate_key_token in Hk. split; [|exact Hk].
  cbn. apply (forallb_impl semi_good_prop); [apply semi_good_prop_utf8|exact Hp].
Qed.

(** Values (of members and of properties) delivered by a successful parse are UTF-8; keys are tokens. *)
Lemma parse_valid_utf8 s b :
  parse s = Some b ->
  forall m, In m b ->
    Utf8 (value_of m) /\ token (key_of m) = true /\
    forall p v, In p (props_of m) -> snd p = Some v -> Utf8 v.
Proof.
  intros H m Hm. apply parse_semi_good in H. rewrite forallb_forall in H.
  specialize (H m Hm). apply semi_good_member_utf8 in H as [H Hk].
  unfold member_utf8 in H. apply andb_true_iff in H as [Hv Hp].
  split; [now apply utf8_b_sound|]. split; [exact Hk|].
  intros p v Hin Hs. rewrite forallb_forall in Hp. specialize (Hp p Hin).
  unfold prop_utf8 in Hp. rewrite Hs in Hp. now apply utf8_b_sound.
Qed.

(** Limits: a successful parse saw at most 8192 bytes, list-members of at most
    4096 bytes, and yields at most 180 members. *)
Lemma parse_limits s b :
  parse s = Some b ->
  header_within_limits s = true /\ blen b <= LIMIT_MEMBERS.
Proof.
  intro H. apply parse_inv in H as [H1 [H2 H3]]. rewrite <- !lenN_blen. split; [|exact H2].
  unfold header_within_limits. rewrite <- lenN_blen, <- split_pieces.
  assert (E : (lenN s <=? LIMIT_TOTAL_BYTES) = true)
    by (unfold MAX_BYTES_PER_BAGGAGE, LIMIT_TOTAL_BYTES in *; lia).
  rewrite E. cbn [andb].
  destruct H3 as [[-> _]|[ms [Hm _]]]; [reflexivity|].
  apply parsed_pieces_small in Hm. rewrite forallb_forall in Hm |- *.
  intros x Hx. rewrite <- lenN_blen. now apply Hm.
Qed.

(** Duplicates: the result is the map in which, of the list-members with equal
    keys, the right-most one wins; every list-member was individually parsed. *)
Lemma parse_last_wins s b :
  parse s = Some b -> s <> [] ->
  exists ms, map parse_member (split COMMA s) = map Some ms /\
             unique_keys b = true /\ same_map b (dedup_last ms).
Proof.
  intros H Hs. pose proof (parse_unique _ _ H) as Hu.
  apply parse_inv in H as [_ [_ [[-> _]|[ms [H1 ->]]]]]; [congruence|].
  exists ms. repeat split; [exact H1|exact Hu|]. intro k. rewrite lookup_fold_set.
  destruct (lookup (dedup_last ms) k); reflexivity.
Qed.

(** ** re-serialising and re-parsing *)
Lemma real_is_good p : semi_good_prop p = true -> real_prop p = good_prop p.
Proof.
  destruct p as [k ov]. unfold semi_good_prop, good_prop, is_zero_prop, real_prop. cbn [fst snd].
  intro H. destruct k as [|c k]; [cbn; reflexivity|]. cbn [is_nil andb orb] in H.
  rewrite orb_false_r in H. cbn [negb]. now rewrite H.
Qed.

Lemma filter_real_squash ps :
  forallb semi_good_prop ps = true -> filter real_prop (squash ps) = filter real_prop ps.
Proof.
  intro H. unfold squash.
  assert (E : filter real_prop ps = filter good_prop ps).
  { apply filter_ext_in. intros a Ha. apply real_is_good. rewrite forallb_forall in H. now apply H. }
  rewrite E. transitivity (filter good_prop (filter good_prop ps)).
  - apply filter_ext_in. intros a Ha. apply real_is_good.
    apply filter_In in Ha as [_ Ha]. unfold semi_good_prop. now rewrite Ha.
  - clear. induction ps as [|x l IH]; [reflexivity|]. cbn. destruct (good_prop x) eqn:Ex; [|exact IH].
    cbn. now rewrite Ex, IH.
Qed.

Lemma norm_squash b : forallb semi_good_member b = true -> norm (map squash_member b) = norm b.
Proof.
  unfold norm. induction b as [|m b IH]; [reflexivity|]. cbn [forallb map]. intro H.
  apply andb_true_iff in H as [H1 H2]. rewrite IH by exact H2. f_equal.
  destruct m as [[k v] ps]. unfold norm_member, squash_member, key_of, value_of, props_of, mkey, mval, mprops.
  cbn [fst snd]. f_equal. apply filter_real_squash.
  unfold semi_good_member, mprops in H1. cbn [snd] in H1. now apply andb_true_iff in H1 as [_ ?].
Qed.

Lemma reparse_stable s b :
  parse s = Some b -> header_within_limits (baggage_string b) = true ->
  exists b', parse (baggage_string b) = Some b' /\ norm b' = norm b.
Proof.
  intros H Hl. pose proof (parse_semi_good _ _ H) as Hg. pose proof (parse_unique _ _ H) as Hu.
  apply parse_inv in H as [_ [Hn _]]. apply limits_split in Hl as [Hl1 Hl2].
  exists (map squash_member b). split; [now apply parse_baggage_string|now apply norm_squash].
Qed.

(** ** the constructor *)
Lemma new_fold_inv ms : forall acc b,
  new_fold ms acc = Some b -> exists ms', ms = map Some ms' /\ b = fold_left bag_set ms' acc.
Proof.
  induction ms as [|[m|] r IH]; cbn [new_fold]; intros acc b H.
  - inversion H; subst. now exists [].
  - apply IH in H as [ms' [-> ->]]. now exists (m :: ms').
  - discriminate.
Qed.

Lemma new_inv ms b :
  new ms = Some b ->
  lenN b <= MAX_MEMBERS /\ lenN (baggage_string b) <= MAX_BYTES_PER_BAGGAGE /\
  exists ms', ms = map Some ms' /\ b = fold_left bag_set ms' [].
Proof.
  unfold new. destruct ms as [|x r].
  - intro H; inversion H; subst. cbn. repeat split; try lia. now exists [].
  - destruct (new_fold (x :: r) []) as [b0|] eqn:E; [|discriminate].
    destruct (MAX_MEMBERS <? lenN b0) eqn:E1; [discriminate|].
    destruct (MAX_BYTES_PER_BAGGAGE <? lenN (baggage_string b0)) eqn:E2; [discriminate|].
    intro H; inversion H; subst. repeat split; try lia. now apply new_fold_inv.
Qed.

Lemma new_limits ms b :
  new ms = Some b ->
  blen b <= LIMIT_MEMBERS /\ blen (baggage_string b) <= LIMIT_TOTAL_BYTES /\
  exists ms', ms = map Some ms' /\ unique_keys b = true /\ same_map b (dedup_last ms').
Proof.
  intro H. apply new_inv in H as [H1 [H2 [ms' [-> ->]]]]. rewrite <- !lenN_blen.
  repeat split; [exact H1|exact H2|]. exists ms'. repeat split.
  - now apply unique_keys_fold.
  - intro k. rewrite lookup_fold_set. destruct (lookup (dedup_last ms') k); reflexivity.
Qed.

Lemma roundtrip_new ms b :
  forallb member_accepted ms = true -> new (map Some ms) = Some b ->
  header_within_limits (baggage_string b) = true ->
  parse (baggage_string b) = Some b /\
  extract (inject b) = (if is_nil b then None else Some b) /\
  same_map b (dedup_last ms).
Proof.
  intros Ha Hn Hl. apply new_inv in Hn as [H1 [H2 [ms' [Hm ->]]]].
  assert (ms' = ms) as ->.
  { clear -Hm. revert ms' Hm. induction ms as [|x l IH]; intros [|y l'] H; cbn in H; try discriminate; [reflexivity|].
    inversion H; subst. f_equal. now apply IH. }
  assert (Hr := roundtrip (fold_left bag_set ms [])).
  destruct Hr as [Hp He].
  - now apply unique_keys_fold.
  - now apply forallb_fold.
  - now rewrite <- lenN_blen.
  - exact Hl.
  - repeat split; [exact Hp|exact He|]. intro k. rewrite lookup_fold_set.
    destruct (lookup (dedup_last ms) k); reflexivity.
Qed.

(** ASCII strings are valid UTF-8, so token keys are acceptable names. *)
Lemma ascii_valid s : forallb (fun c => c <? 128) s = true -> valid_string s = true.
Proof.
  induction s as [|c s IH]; [reflexivity|]. cbn [forallb valid_string]. intro H.
  apply andb_true_iff in H as [H1 H2]. rewrite H1. now apply IH.
Qed.

Lemma token_valid_name k : token k = true -> valid_name k = true.
Proof.
  rewrite <- validate_key_token. intro H. apply validate_key_inv in H as [Hn Hk].
  unfold valid_name. apply is_nil_false in Hn. rewrite Hn. cbn [negb andb].
  apply ascii_valid. apply (forallb_impl key_char); [|exact Hk].
  intros c Hc. unfold key_char in Hc. lia.
Qed.

Lemma accepted_prop_valid p : prop_accepted p = true -> prop_valid p = true.
Proof.
  unfold prop_accepted, prop_valid. intro H. apply andb_true_iff in H as [Hk Hv].
  rewrite (token_valid_name _ Hk). cbn [andb]. destruct (snd p); [now rewrite valid_string_utf8_b|reflexivity].
Qed.

(** Everything [member_accepted] describes is accepted by NewMemberRaw. *)
Lemma constructor_accepts k v ps :
  member_accepted (k, v, ps) = true -> new_member_raw k v ps = Some (k, v, ps).
Proof.
  unfold member_accepted, key_of, value_of, props_of. cbn [fst snd]. intro H.
  apply andb_true_iff in H as [H Hp]. apply andb_true_iff in H as [Hk Hv].
  unfold new_member_raw. rewrite (token_valid_name _ Hk), valid_string_utf8_b, Hv. cbn [andb].
  assert (E : forallb prop_valid ps = true).
  { apply (forallb_impl prop_accepted); [apply accepted_prop_valid|exact Hp]. }
  now rewrite E.
Qed.

(** ** editing *)
Lemma lookup_delete b k0 k :
  lookup (delete_member b k0) k = if bytes_eqb k0 k then None else lookup b k.
Proof.
  unfold delete_member. induction b as [|x b IH]; cbn [filter lookup].
  - destruct (bytes_eqb k0 k); reflexivity.
  - change (mkey x) with (key_of x). destruct (bytes_eqb (key_of x) k0) eqn:E; cbn [negb].
    + apply bytes_eqb_eq in E; subst. rewrite IH. destruct (bytes_eqb (key_of x) k); reflexivity.
    + cbn [lookup]. rewrite IH. destruct (bytes_eqb (key_of x) k) eqn:E2; [|reflexivity].
      apply bytes_eqb_eq in E2; subst. rewrite bytes_eqb_sym in E. now rewrite E.
Qed.

Lemma has_key_filter (f : member -> bool) k b : has_key k (filter f b) = true -> has_key k b = true.
Proof.
  unfold has_key. rewrite !existsb_exists. intros [x [Hx E]]. apply filter_In in Hx as [Hx _]. eauto.
Qed.

Lemma unique_keys_filter (f : member -> bool) b : unique_keys b = true -> unique_keys (filter f b) = true.
Proof.
  induction b as [|x b IH]; [reflexivity|]. cbn [unique_keys filter]. intro H.
  apply andb_true_iff in H as [H1 H2]. destruct (f x); [|now apply IH].
  cbn [unique_keys]. rewrite IH by exact H2. rewrite andb_true_r.
  apply negb_true_iff. apply negb_true_iff in H1.
  destruct (has_key (key_of x) (filter f b)) eqn:E; [|reflexivity].
  apply has_key_filter in E. congruence.
Qed.

Lemma edits_spec b m k0 :
  set_member b None = (b, true) /\
  (snd (set_member b (Some m)) = false /\ set_spec b (fst (set_member b (Some m))) m /\
   (unique_keys b = true -> unique_keys (fst (set_member b (Some m))) = true)) /\
  (delete_spec b (delete_member b k0) k0 /\
   (unique_keys b = true -> unique_keys (delete_member b k0) = true)).
Proof.
  split; [reflexivity|]. split.
  - cbn. split; [reflexivity|]. split; [intro k; apply lookup_bag_set|apply unique_keys_bag_set].
  - split; [intro k; apply lookup_delete|apply unique_keys_filter].
Qed.

(** Arbitrary edit scripts keep the representation a map, and every
    intermediate baggage stays what the header can carry if the inserted members are. *)
Inductive edit := ESet (m : option member) | EDel (k : bytes).
Definition apply_edit (b : bag) (e : edit) : bag :=
  match e with
  | ESet m => fst (set_member b m)
  | EDel k => delete_member b k
  end.
Definition edit_ok (P : member -> bool) (e : edit) : bool :=
  match e with ESet (Some m) => P m | _ => true end.

Lemma edits_preserve (P : member -> bool) es : forall b,
  unique_keys b = true -> forallb P b = true -> forallb (edit_ok P) es = true ->
  unique_keys (fold_left apply_edit es b) = true /\ forallb P (fold_left apply_edit es b) = true.
Proof.
  induction es as [|e es IH]; intros b Hu Hp He; [auto|]. cbn [fold_left forallb] in *.
  apply andb_true_iff in He as [He1 He2]. apply IH; [| |exact He2].
  - destruct e as [[m|]|k]; cbn; [now apply unique_keys_bag_set|exact Hu|now apply unique_keys_filter].
  - destruct e as [[m|]|k]; cbn; [now apply forallb_bag_set|exact Hp|].
    unfold delete_member. rewrite forallb_forall in Hp |- *. intros x Hx. apply filter_In in Hx as [Hx _]. auto.
Qed.

(** ** soundness of the decidable comparisons used on observations *)
Lemma prop_eqb_eq p q : prop_eqb p q = true -> p = q.
Proof.
  destruct p as [k ov], q as [k' ov']. unfold prop_eqb. cbn [fst snd]. intro H.
  apply andb_true_iff in H as [H1 H2]. apply bytes_eqb_eq in H1; subst.
  destruct ov, ov'; cbn in H2; try discriminate; [|reflexivity].
  apply bytes_eqb_eq in H2; now subst.
Qed.

Lemma props_eqb_eq ps qs : list_eqb prop_eqb ps qs = true -> ps = qs.
Proof.
  revert qs. induction ps as [|p ps IH]; intros [|q qs] H; cbn in H; try discriminate; [reflexivity|].
  apply andb_true_iff in H as [H1 H2]. apply prop_eqb_eq in H1. apply IH in H2. now subst.
Qed.

Lemma member_eqb_eq m n : member_eqb m n = true -> m = n.
Proof.
  destruct m as [[k v] ps], n as [[k' v'] ps']. unfold member_eqb, key_of, value_of, props_of. cbn [fst snd].
  intro H. apply andb_true_iff in H as [H H3]. apply andb_true_iff in H as [H1 H2].
  apply bytes_eqb_eq in H1, H2. apply props_eqb_eq in H3. now subst.
Qed.

Lemma submap_lookup a b k m : submap_b a b = true -> lookup a k = Some m -> lookup b k = Some m.
Proof.
  unfold submap_b. rewrite forallb_forall. intros H Hl.
  pose proof (lookup_in _ _ _ Hl) as Hin. pose proof (lookup_key _ _ _ Hl) as Hk.
  specialize (H m Hin). rewrite Hk in H.
  destruct (lookup b k) as [m'|]; cbn in H; [|discriminate]. apply member_eqb_eq in H. now subst.
Qed.

Lemma map_eqb_sound a b : map_eqb a b = true -> same_map a b.
Proof.
  unfold map_eqb. intro H. apply andb_true_iff in H as [H Hba]. apply andb_true_iff in H as [_ Hab].
  intro k. destruct (lookup a k) as [m|] eqn:Ea.
  - symmetry. now apply (submap_lookup a b).
  - destruct (lookup b k) as [m'|] eqn:Eb; [|reflexivity].
    apply (submap_lookup b a k m' Hba) in Eb. congruence.
Qed.

(** ** recorded findings: the full-strength statements fail *)
Definition big_value : bytes := N.iter 5000 (cons 97) [].
Definition ff_header : bytes := [107; 61] ++ N.iter 1000 (fun t => 37 :: 70 :: 70 :: t) [].

(** F-C11-1: New accepts a member whose serialised form exceeds 4096 bytes; Parse rejects that header. *)
Lemma new_member_limit_refuted :
  exists ms b, new ms = Some b /\ header_within_limits (baggage_string b) = false /\
               parse (baggage_string b) = None.
Proof.
  exists [new_member_raw [107] big_value []]. eexists. split; [vm_compute; reflexivity|].
  split; vm_compute; reflexivity.
Qed.

(** F-C11-2: Parse accepts "k=%FF%FF…" (1000 times); the re-serialised form
    (each byte became U+FFFD, nine bytes escaped) is rejected. *)
Lemma reparse_refuted :
  exists s b, parse s = Some b /\ header_within_limits s = true /\ parse (baggage_string b) = None.
Proof.
  exists ff_header. eexists. split; [vm_compute; reflexivity|]. split; vm_compute; reflexivity.
Qed.

(** ** header size, and what New must accept *)
Lemma escape_len v : lenN (value_escape v) = escaped_len v.
Proof.
  induction v as [|c v IH]; [reflexivity|]. cbn [value_escape escaped_len fold_right].
  change (fold_right _ 0 v) with (escaped_len v). rewrite <- IH, <- value_char_octet.
  unfold should_escape, PERCENT. destruct (c =? 37), (value_char c); cbn [orb negb andb lenN]; lia.
Qed.

Lemma sep_join_len sep (l : list bytes) :
  l <> [] -> lenN (sep :: join sep l) = fold_right (fun x n => 1 + lenN x + n) 0 l.
Proof.
  induction l as [|x l IH]; [congruence|]. intros _. destruct l as [|y l].
  - cbn [join fold_right lenN]. lia.
  - change (join sep (x :: y :: l)) with (x ++ sep :: join sep (y :: l)).
    cbn [lenN fold_right]. rewrite lenN_app, IH by discriminate. cbn [fold_right]. lia.
Qed.

Lemma join_len sep (l : list bytes) :
  lenN (join sep l) = fold_right (fun x n => lenN x + n) 0 l + (lenN l - 1).
Proof.
  destruct l as [|x l]; [reflexivity|].
  assert (H := sep_join_len sep (x :: l)). cbn [lenN] in *. specialize (H ltac:(discriminate)).
  assert (E : forall l0 : list bytes, fold_right (fun x n => 1 + lenN x + n) 0 l0
                 = fold_right (fun x n => lenN x + n) 0 l0 + lenN l0).
  { induction l0 as [|y l0 IH0]; cbn [fold_right lenN]; [reflexivity|]. rewrite IH0. lia. }
  rewrite E in H. cbn [lenN fold_right] in *. lia.
Qed.

Lemma prop_string_len p : good_prop p = true -> lenN (prop_string p) = prop_len p.
Proof.
  destruct p as [k ov]. unfold good_prop, prop_string, prop_len. cbn [fst snd]. intro H.
  apply andb_true_iff in H as [Hk _]. rewrite Hk. cbn [negb]. rewrite <- lenN_blen.
  destruct ov as [v|]; [|lia]. rewrite lenN_app. cbn [lenN]. rewrite escape_len. lia.
Qed.

Lemma props_suffix_len ps :
  forallb good_prop ps = true ->
  lenN (if is_nil ps then [] else SEMI :: props_string ps) = fold_right (fun p n => 1 + prop_len p + n) 0 ps.
Proof.
  intro H. destruct ps as [|p ps']; [reflexivity|]. cbn [is_nil]. set (l := p :: ps') in *.
  unfold props_string.
  assert (Hs : forallb semi_good_prop l = true).
  { apply (forallb_impl good_prop); [|exact H]. intros x Hx. unfold semi_good_prop. now rewrite Hx. }
  rewrite (prop_strings_filter _ Hs).
  assert (E : filter good_prop l = l).
  { clear -H. induction l as [|x l IH]; [reflexivity|]. cbn in *. apply andb_true_iff in H as [H1 H2].
    now rewrite H1, IH. }
  rewrite E, sep_join_len by discriminate.
  clear -H. induction l as [|x l IH]; [reflexivity|]. cbn [map fold_right forallb] in *.
  apply andb_true_iff in H as [H1 H2]. now rewrite IH, prop_string_len.
Qed.

Lemma member_string_len m : good_member m = true -> lenN (member_string m) = member_len m.
Proof.
  destruct m as [[k v] ps]. unfold good_member, member_len, mkey, mval, mprops, key_of, value_of, props_of.
  cbn [fst snd]. intro H. apply andb_true_iff in H as [H Hp]. apply andb_true_iff in H as [Hk _].
  rewrite member_string_shape by exact Hk. rewrite !lenN_app. cbn [lenN].
  rewrite props_suffix_len by exact Hp. rewrite escape_len, <- lenN_blen. lia.
Qed.

Lemma baggage_string_len b : forallb good_member b = true -> lenN (baggage_string b) = header_len b.
Proof.
  intro H. unfold baggage_string, header_len.
  rewrite member_strings_all by (apply (forallb_impl good_member); [apply good_semi_good|exact H]).
  rewrite join_len, lenN_map, <- lenN_blen. f_equal.
  induction b as [|m b IH]; [reflexivity|]. cbn [map fold_right forallb] in *.
  apply andb_true_iff in H as [H1 H2]. now rewrite IH, member_string_len.
Qed.

Lemma new_fold_some ms : forall acc, new_fold (map Some ms) acc = Some (fold_left bag_set ms acc).
Proof. induction ms as [|m r IH]; intro acc; [reflexivity|]. cbn. apply IH. Qed.

(** New accepts every list of header-expressible members whose map has at most
    180 entries and needs at most 8192 bytes. *)
Lemma new_accepts ms :
  let b := fold_left bag_set ms [] in
  forallb member_accepted ms = true -> blen b <= LIMIT_MEMBERS -> header_len b <= LIMIT_TOTAL_BYTES ->
  new (map Some ms) = Some b.
Proof.
  intros b Ha Hn Hl.
  assert (Hg : forallb good_member b = true).
  { rewrite (forallb_ext_eq _ _ b good_member_accepted). now apply forallb_fold. }
  unfold new. destruct ms as [|m r]; [reflexivity|]. cbn [map].
  change (Some m :: map Some r) with (map Some (m :: r)). rewrite new_fold_some. fold b.
  rewrite <- lenN_blen in Hn. rewrite <- (baggage_string_len b Hg) in Hl.
  assert (E1 : (MAX_MEMBERS <? lenN b) = false) by (unfold MAX_MEMBERS, LIMIT_MEMBERS in *; lia).
  assert (E2 : (MAX_BYTES_PER_BAGGAGE <? lenN (baggage_string b)) = false)
    by (unfold MAX_BYTES_PER_BAGGAGE, LIMIT_TOTAL_BYTES in *; lia).
  now rewrite E1, E2.
Qed.

(** Extract replaces whatever baggage the context carried. *)
Lemma extract_into_replaces (parent b : list member) :
  unique_keys b = true -> forallb member_accepted b = true -> blen b <= LIMIT_MEMBERS ->
  header_within_limits (baggage_string b) = true -> b <> [] ->
  extract_into parent (inject b) = (b, false) /\
  extract_into parent None = (parent, true) /\ extract_into parent (Some []) = (parent, true).
Proof.
  intros Hu Ha Hn Hl Hne. destruct (roundtrip b Hu Ha Hn Hl) as [_ He].
  unfold extract_into. rewrite He. destruct b; [congruence|]. repeat split.
Qed.

(** ** re-parsing, strictly (the parser no longer keeps zero-valued entries: fix 72863c6) *)
Lemma parse_member_good p m : parse_member p = Some m -> good_member m = true.
Proof.
  unfold parse_member. destruct (MAX_BYTES_PER_MEMBER <? lenN p); [discriminate|].
  destruct (cut SEMI p) as [[kv props_s] found].
  destruct (if found then parse_props (split SEMI props_s) else Some []) as [ps|] eqn:Ep; [|discriminate].
  assert (Hps : forallb good_prop ps = true).
  { destruct found; [now apply (parse_props_good _ _ Ep)|]. inversion Ep; reflexivity. }
  destruct (cut EQUALS kv) as [[k v] found2]. destruct found2; cbn [negb]; [|discriminate].
  destruct (validate_key (trim_space k)) eqn:Ek; cbn [negb]; [|discriminate].
  destruct (validate_value (trim_space v)); cbn [negb]; [|discriminate].
  destruct (path_unescape (trim_space v)) as [u|]; [|discriminate].
  intro H; inversion H; subst. unfold good_member, mkey, mval, mprops. cbn [fst snd].
  now rewrite Ek, replace_invalid_valid, Hps.
Qed.

Lemma parse_good s b : parse s = Some b -> forallb good_member b = true.
Proof.
  intro H. apply parse_inv in H as [_ [_ [[_ ->]|[ms [H1 ->]]]]]; [reflexivity|].
  apply forallb_fold; [reflexivity|]. apply map_some_inv in H1.
  induction H1 as [|p m l ms Hp _ IH]; [reflexivity|]. cbn. now rewrite (parse_member_good _ _ Hp), IH.
Qed.

(** Every baggage that Parse produces re-serialises (within the limits) to a header that parses back to exactly it. *)
Lemma reparse_strict s b :
  parse s = Some b -> header_within_limits (baggage_string b) = true ->
  parse (baggage_string b) = Some b /\ map reser_member b = b.
Proof.
  intros H Hl. pose proof (parse_good _ _ H) as Hg. pose proof (parse_semi_good _ _ H) as Hs.
  pose proof (parse_unique _ _ H) as Hu. pose proof (parse_inv _ _ H) as [_ [Hn _]].
  pose proof (limits_split _ Hl) as [Hl1 Hl2]. split.
  - rewrite parse_baggage_string by assumption. now rewrite map_squash_good.
  - rewrite <- (map_squash_good b Hg) at 2. clear -Hs. induction b as [|m b IH]; [reflexivity|].
    cbn [forallb map] in *. apply andb_true_iff in Hs as [H1 H2]. rewrite IH by exact H2. f_equal.
    destruct m as [[k v] ps]. unfold reser_member, squash_member, squash, resurvive, key_of, value_of, props_of, mkey, mval, mprops.
    cbn [fst snd]. f_equal. apply filter_ext_in. intros a Ha. apply real_is_good.
    unfold semi_good_member, mprops in H1. cbn [snd] in H1. apply andb_true_iff in H1 as [_ H1].
    rewrite forallb_forall in H1. now apply H1.
Qed.

(** The parser as it was before the fix violates this: F-C11-3 (fixed). *)
Lemma reparse_strict_old_refuted :
  exists s b b', parse_old s = Some b /\ header_within_limits (baggage_string b) = true /\
                 parse_old (baggage_string b) = Some b' /\ b' <> b.
Proof.
  exists (str "k=v;;p"). eexists. eexists. split; [vm_compute; reflexivity|].
  split; [vm_compute; reflexivity|]. split; [vm_compute; reflexivity|discriminate].
Qed.

(** The percent-encoding constructor agrees with the raw one on escaped values. *)
Lemma new_member_escape k v ps :
  bytes_ok v -> validate_key k = true -> new_member k (value_escape v) ps = new_member_raw k v ps.
Proof.
  intros Hb Hk. unfold new_member. unfold validate_value. rewrite Hk, escape_value_chars by exact Hb.
  cbn [andb]. now rewrite unescape_escape.
Qed.

Lemma new_member_inv k v ps m :
  new_member k v ps = Some m ->
  exists u, path_unescape v = Some u /\ m = (k, u, ps) /\ token k = true /\ utf8_b u = true /\
            forallb prop_valid ps = true /\ forallb baggage_octet v = true.
Proof.
  unfold new_member. destruct (validate_key k) eqn:Hk; cbn [andb]; [|discriminate].
  destruct (validate_value v) eqn:Hv; [|discriminate].
  destruct (path_unescape v) as [u|] eqn:Hu; [|discriminate].
  unfold new_member_raw. destruct (valid_name k); cbn [andb]; [|discriminate].
  destruct (valid_string u) eqn:Hs; cbn [andb]; [|discriminate].
  destruct (forallb prop_valid ps) eqn:Hp; [|discriminate].
  intro H; inversion H; subst. exists u.
  split; [reflexivity|]. split; [reflexivity|]. split; [now rewrite <- validate_key_token|].
  split; [now rewrite <- valid_string_utf8_b|]. split; [reflexivity|].
  unfold validate_value in Hv. rewrite <- Hv. apply forallb_ext_eq. intro c. symmetry. apply value_char_octet.
Qed.

(** ** Parse accepts: duplicates never cause a rejection, the member limit counts the resolved members *)
Lemma parse_members_all pieces : forall ms acc,
  map parse_member pieces = map Some ms -> parse_members pieces acc = Some (fold_left bag_set ms acc).
Proof.
  induction pieces as [|p r IH]; intros [|m ms] acc H; cbn in H; try discriminate; [reflexivity|].
  cbn [parse_members fold_left]. assert (E : parse_member p = Some m) by now inversion H.
  rewrite E. apply IH. now inversion H.
Qed.

Lemma parse_complete s ms :
  s <> [] -> map parse_member (split COMMA s) = map Some ms ->
  lenN s <= MAX_BYTES_PER_BAGGAGE -> lenN (fold_left bag_set ms []) <= MAX_MEMBERS ->
  parse s = Some (fold_left bag_set ms []).
Proof.
  intros Hs Hm Hl Hn. rewrite parse_nonempty by exact Hs.
  assert (E1 : (MAX_BYTES_PER_BAGGAGE <? lenN s) = false) by lia. rewrite E1.
  rewrite (parse_members_all _ _ _ Hm).
  assert (E2 : (MAX_MEMBERS <? lenN (fold_left bag_set ms [])) = false) by lia. now rewrite E2.
Qed.
