(** C11 specification: what the property demands of baggage, written against
    the W3C Baggage recommendation, RFC 7230 (token), the Unicode standard
    (Table 3-7, well-formed UTF-8 byte sequences) and the abstract reading of a
    baggage as a finite map from keys to (value, properties).  This file does
    not mention the model. *)
From Verif Require Import Lib.Base.
Open Scope N_scope.

Notation property := (bytes * option bytes)%type.          (* key, value if present *)
Notation member := (bytes * bytes * list (bytes * option bytes))%type.   (* key, value, properties *)

Definition key_of (m : member) : bytes := fst (fst m).
Definition value_of (m : member) : bytes := snd (fst m).
Definition props_of (m : member) : list property := snd m.

Definition blen {A} (s : list A) : N := N.of_nat (length s).

(** ** Limits of the W3C recommendation *)
Definition LIMIT_MEMBERS : N := 180.
Definition LIMIT_MEMBER_BYTES : N := 4096.
Definition LIMIT_TOTAL_BYTES : N := 8192.

(** The list-members of a header: the maximal pieces between commas. *)
Fixpoint pieces (sep : N) (s : bytes) : list bytes :=
  match s with
  | [] => [[]]
  | c :: r => if c =? sep then [] :: pieces sep r
              else match pieces sep r with
                   | p :: ps => (c :: p) :: ps
                   | [] => [[c]]
                   end
  end.

Definition header_within_limits (h : bytes) : bool :=
  (blen h <=? LIMIT_TOTAL_BYTES) && forallb (fun p => blen p <=? LIMIT_MEMBER_BYTES) (pieces 44 h).

(** ** Well-formed UTF-8 (Unicode 15, Table 3-7) *)
Definition rng (lo hi c : N) : bool := (lo <=? c) && (c <=? hi).
Definition tail (c : N) : bool := rng 128 191 c.

Definition row1 (a : N) : bool := rng 0 127 a.
Definition row2 (a b : N) : bool := rng 194 223 a && tail b.
Definition row3 (a b c : N) : bool :=
  ((a =? 224) && rng 160 191 b && tail c) ||
  (rng 225 236 a && tail b && tail c) ||
  ((a =? 237) && rng 128 159 b && tail c) ||
  (rng 238 239 a && tail b && tail c).
Definition row4 (a b c d : N) : bool :=
  ((a =? 240) && rng 144 191 b && tail c && tail d) ||
  (rng 241 243 a && tail b && tail c && tail d) ||
  ((a =? 244) && rng 128 143 b && tail c && tail d).

(** One well-formed encoded scalar value. *)
Definition wf_seq (q : bytes) : bool :=
  match q with
  | [a] => row1 a
  | [a; b] => row2 a b
  | [a; b; c] => row3 a b c
  | [a; b; c; d] => row4 a b c d
  | _ => false
  end.

(** A string is UTF-8 iff it is a concatenation of well-formed sequences. *)
Inductive Utf8 : bytes -> Prop :=
| Utf8_nil : Utf8 []
| Utf8_seq q r : wf_seq q = true -> Utf8 r -> Utf8 (q ++ r).

(** Decision procedure (soundness and completeness w.r.t. [Utf8] are proved). *)
Fixpoint utf8_b (s : bytes) : bool :=
  match s with
  | [] => true
  | a :: r1 =>
      if row1 a then utf8_b r1 else
      match r1 with
      | [] => false
      | b :: r2 =>
          if row2 a b then utf8_b r2 else
          match r2 with
          | [] => false
          | c :: r3 =>
              if row3 a b c then utf8_b r3 else
              match r3 with
              | [] => false
              | d :: r4 => row4 a b c d && utf8_b r4
              end
          end
      end
  end.

(** ** Keys: RFC 7230 token *)
Definition alpha (c : N) : bool := rng 65 90 c || rng 97 122 c.
Definition digit (c : N) : bool := rng 48 57 c.
(* "!" / "#" / "$" / "%" / "&" / "'" / "*" / "+" / "-" / "." / "^" / "_" / "`" / "|" / "~" / DIGIT / ALPHA *)
Definition tchar (c : N) : bool :=
  (c =? 33) || (c =? 35) || (c =? 36) || (c =? 37) || (c =? 38) || (c =? 39) || (c =? 42) ||
  (c =? 43) || (c =? 45) || (c =? 46) || (c =? 94) || (c =? 95) || (c =? 96) || (c =? 124) ||
  (c =? 126) || digit c || alpha c.
Definition token (k : bytes) : bool :=
  match k with [] => false | _ => forallb tchar k end.

(** baggage-octet = %x21 / %x23-2B / %x2D-3A / %x3C-5B / %x5D-7E *)
Definition baggage_octet (c : N) : bool :=
  (c =? 33) || rng 35 43 c || rng 45 58 c || rng 60 91 c || rng 93 126 c.

(** ** What the constructor is documented to accept, as far as the header can
    carry it: token keys, UTF-8 values, properties with token keys and UTF-8 values. *)
Definition prop_accepted (p : property) : bool :=
  token (fst p) && match snd p with Some v => utf8_b v | None => true end.
Definition member_accepted (m : member) : bool :=
  token (key_of m) && utf8_b (value_of m) && forallb prop_accepted (props_of m).

(** What a successful parse must deliver: UTF-8 values (also in properties). *)
Definition prop_utf8 (p : property) : bool :=
  match snd p with Some v => utf8_b v | None => true end.
Definition member_utf8 (m : member) : bool :=
  utf8_b (value_of m) && forallb prop_utf8 (props_of m).

(** ** Size of the header that carries a baggage (W3C: key "=" value *(";" property),
    list-members joined by ","; every octet that is not a baggage-octet, and '%', is
    percent-encoded as three octets). *)
Definition escaped_len (v : bytes) : N :=
  fold_right (fun c n => (if baggage_octet c && negb (c =? 37) then 1 else 3) + n) 0 v.
Definition prop_len (p : property) : N :=
  blen (fst p) + match snd p with Some v => 1 + escaped_len v | None => 0 end.
Definition member_len (m : member) : N :=
  blen (key_of m) + 1 + escaped_len (value_of m) + fold_right (fun p n => 1 + prop_len p + n) 0 (props_of m).
Definition header_len (b : list member) : N :=
  fold_right (fun m n => member_len m + n) 0 b + (blen b - 1).

(** ** Baggage as a finite map *)
Fixpoint lookup (b : list member) (k : bytes) : option member :=
  match b with
  | [] => None
  | m :: r => if bytes_eqb (key_of m) k then Some m else lookup r k
  end.

Definition has_key (k : bytes) (l : list member) : bool :=
  existsb (fun m => bytes_eqb (key_of m) k) l.

Fixpoint unique_keys (l : list member) : bool :=
  match l with
  | [] => true
  | m :: r => negb (has_key (key_of m) r) && unique_keys r
  end.

(** Two member lists denote the same map. *)
Definition same_map (a b : list member) : Prop := forall k, lookup a k = lookup b k.

(** "Duplicate keys resolve to the last one": of several list-members with the
    same key only the right-most survives. *)
Fixpoint dedup_last (l : list member) : list member :=
  match l with
  | [] => []
  | m :: r => if has_key (key_of m) r then dedup_last r else m :: dedup_last r
  end.

(** Decidable equality of members and of maps given as key-unique lists. *)
Definition prop_eqb (p q : property) : bool :=
  bytes_eqb (fst p) (fst q) && option_eqb bytes_eqb (snd p) (snd q).
Definition member_eqb (m n : member) : bool :=
  bytes_eqb (key_of m) (key_of n) && bytes_eqb (value_of m) (value_of n) &&
  list_eqb prop_eqb (props_of m) (props_of n).
Definition submap_b (a b : list member) : bool :=
  forallb (fun m => option_eqb member_eqb (lookup b (key_of m)) (Some m)) a.
Definition map_eqb (a b : list member) : bool :=
  unique_keys a && unique_keys b && submap_b a b && submap_b b a.

(** ** Phantom properties.  An empty piece between two ';' is kept by the parser
    as the zero-valued Property (the API's "invalid property" value); it is not
    a property of the member and is never serialised.  Comparisons of parsed
    members are made modulo such entries. *)
Definition real_prop (p : property) : bool :=
  negb (match fst p with [] => true | _ => false end).
Definition norm_member (m : member) : member :=
  (key_of m, value_of m, filter real_prop (props_of m)).
Definition norm (b : list member) : list member := map norm_member b.

(** What String() can carry of a member: the properties with a non-empty key (a zero-valued entry is
    not written). *)
Definition resurvive (ps : list property) : list property := filter real_prop ps.
Definition reser_member (m : member) : member := (key_of m, value_of m, resurvive (props_of m)).
Definition has_zero_prop (m : member) : bool := existsb (fun p => negb (real_prop p)) (props_of m).

(** ** Editing: a baggage is a value; SetMember / DeleteMember denote map
    update and removal. *)
Definition set_spec (b b' : list member) (m : member) : Prop :=
  forall k, lookup b' k = if bytes_eqb (key_of m) k then Some m else lookup b k.
Definition delete_spec (b b' : list member) (k0 : bytes) : Prop :=
  forall k, lookup b' k = if bytes_eqb k0 k then None else lookup b k.

Definition set_ok (b b' : list member) (m : member) : bool :=
  map_eqb b' (m :: filter (fun x => negb (bytes_eqb (key_of x) (key_of m))) b).
Definition delete_ok (b b' : list member) (k0 : bytes) : bool :=
  map_eqb b' (filter (fun x => negb (bytes_eqb (key_of x) k0)) b).
