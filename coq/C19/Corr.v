(** C19 correspondence: evaluates model and spec on what the Go harness observed
    from sdk/resource (generated case files import this). *)
From Verif Require Import Lib.Base C05.Types C05.Spec C05.Model C19.Spec C19.Model.
Open Scope N_scope.

(** How the harness built an operand. *)
Inductive rdesc :=
| RNil                                       (* a nil Resource pointer *)
| REmpty                                     (* resource.Empty() *)
| RNew (schema : bytes) (input : list kv).   (* NewWithAttributes(schema, input...) ; NewSchemaless when schema = "" *)

Definition model_res (d : rdesc) : option res :=
  match d with
  | RNil => None
  | REmpty => Some empty_res
  | RNew s i => Some (new_with_attributes s i)
  end.

(** What is observed of a resource: Attributes(), SchemaURL(). *)
Definition robs : Type := (list kv * bytes)%type.
Definition robs_eqb (a b : robs) : bool := kvs_eqb (fst a) (fst b) && bytes_eqb (snd a) (snd b).
Definition obs_of (r : option res) : robs := (oattrs r, oschema r).

(** A scripted detector: absent (nil Detector), or returns a resource and an error class
    (0 nil, 1 wraps ErrPartialResource, 2 any other error). *)
Inductive ddesc := DAbsent | DRet (d : rdesc) (e : N).
Definition model_det (d : ddesc) : det :=
  match d with
  | DAbsent => {| d_absent := true; d_res := None; d_err := DNil |}
  | DRet r e => {| d_absent := false; d_res := model_res r;
                   d_err := if e =? 0 then DNil else if e =? 1 then DPartial else DOther |}
  end.

Inductive case :=
| CBuild (d : rdesc) (o : robs)
| CMerge2 (da db : rdesc) (oa ob om : robs) (err : N)                      (* err: 0 nil, 1 conflict, 2 other *)
| CMerge3 (da db dc : rdesc) (oa ob oc l r : robs) (errl errr : N)         (* l = (a+b)+c, r = a+(b+c) *)
| CEqual (da db : rdesc) (oa ob : robs) (eq12 eq21 key12 : bool)
| CEnv (attrs_env svc_env : bytes) (intent : option (list (bytes * bytes) * bytes)) (o : robs) (err : N)
                                                                            (* err: 0 nil, 1 partial, 2 other *)
| CDetect (s0 : bytes) (ds : list ddesc) (dobs : list robs) (o : robs) (conflict partial : bool) (errs : list bool).

Definition flag (b : bool) (code : N) : list N := if b then [] else [code].

Definition merr_code (e : merr) : N := match e with MOk => 0 | MConflict => 1 end.

(** Generic invariants of any resource observation: sorted, duplicate-free, only valid key-values. *)
Definition robs_wf (o : robs) : bool := sorted_unique_b (fst o) && forallb valid_kv (fst o).

Definition input_of (d : rdesc) : list kv := match d with RNew _ i => i | _ => [] end.
Definition schema_of (d : rdesc) : bytes := match d with RNew s _ => s | _ => [] end.

Definition merge2_spec (oa ob om : robs) (err : N) : bool :=
  robs_wf om && union_ok (fst oa) (fst ob) (fst om) &&
  schema_ok (snd oa) (snd ob) (snd om) (err =? 1) && (err <? 2).

Definition accepted_d (d : ddesc) : bool := match d with DRet _ e => e <? 2 | DAbsent => false end.
Definition errored_d (d : ddesc) : bool := match d with DRet _ e => negb (e =? 0) | DAbsent => false end.
Definition partial_d (d : ddesc) : bool := match d with DRet _ e => e =? 1 | DAbsent => false end.

Fixpoint accepted_obs (ds : list ddesc) (os : list robs) : list (list kv) :=
  match ds, os with
  | d :: ds', o :: os' => if accepted_d d then fst o :: accepted_obs ds' os' else accepted_obs ds' os'
  | _, _ => []
  end.

Fixpoint accepted_schemas (ds : list ddesc) (os : list robs) : list bytes :=
  match ds, os with
  | d :: ds', o :: os' => if accepted_d d then snd o :: accepted_schemas ds' os' else accepted_schemas ds' os'
  | _, _ => []
  end.

Fixpoint has_edet (es : list etag) (i : N) : bool :=
  match es with
  | [] => false
  | EDet j :: r => (i =? j) || has_edet r i
  | EConflict :: r => has_edet r i
  end.

Definition mk_pairs (ps : list (bytes * bytes)) (svc : bytes) : list kv :=
  map (fun p => (fst p, VStr (snd p))) ps ++ match svc with [] => [] | _ => [(SERVICE_NAME, VStr svc)] end.

Definition check_case (c : case) : list N :=
  match c with
  | CBuild d o =>
      flag (robs_eqb o (obs_of (model_res d))) V_MISMATCH ++
      flag (robs_wf o && from_attrs_ok (input_of d) (fst o) && bytes_eqb (snd o) (schema_of d)) V_SPECFAIL
  | CMerge2 da db oa ob om err =>
      let '(m, e) := merge (model_res da) (model_res db) in
      flag (robs_eqb oa (obs_of (model_res da)) && robs_eqb ob (obs_of (model_res db)) &&
            robs_eqb om (obs_of m) && (err =? merr_code e)) V_MISMATCH ++
      flag (merge2_spec oa ob om err) V_SPECFAIL ++
      flag (let '(m', e') := merge (Some {| r_attrs := fst oa; r_schema := snd oa |}) (Some {| r_attrs := fst ob; r_schema := snd ob |}) in
            negb (robs_wf oa && robs_wf ob) || merge2_spec oa ob (obs_of m') (merr_code e')) V_MODELSPEC
  | CMerge3 da db dc oa ob oc l r errl errr =>
      let a := model_res da in let b := model_res db in let c := model_res dc in
      let '(ab, e1) := merge a b in let '(ab_c, e2) := merge ab c in
      let '(bc, e3) := merge b c in let '(a_bc, e4) := merge a bc in
      flag (robs_eqb l (obs_of ab_c) && robs_eqb r (obs_of a_bc) &&
            (errl =? N.max (merr_code e1) (merr_code e2)) && (errr =? N.max (merr_code e3) (merr_code e4))) V_MISMATCH ++
      flag (kvs_eqb (fst l) (fst r) && robs_wf l &&
            later_wins_ok [fst oa; fst ob; fst oc] (fst l) && (errl <? 2) && (errr <? 2) &&
            Bool.eqb (bytes_eqb (snd l) (snd r)) (schema_assoc_cond (snd oa) (snd ob) (snd oc))) V_SPECFAIL
  | CEqual da db oa ob eq12 eq21 key12 =>
      let e := res_equal (model_res da) (model_res db) in
      flag (Bool.eqb eq12 e && Bool.eqb eq21 (res_equal (model_res db) (model_res da)) &&
            Bool.eqb key12 (res_key_hit (model_res da) (model_res db))) V_MISMATCH ++
      flag (Bool.eqb eq12 key12 && Bool.eqb eq12 eq21 &&
            (if forallb (fun x => value_regular (snd x)) (fst oa ++ fst ob)
             then Bool.eqb eq12 (kvs_eqb (fst oa) (fst ob)) else true)) V_SPECFAIL
  | CEnv a s intent o err =>
      let '(m, perr) := from_env a s in
      flag (robs_eqb o (obs_of m) && (err =? if perr then 1 else 0)) V_MISMATCH ++
      flag (robs_wf o && is_empty (snd o) && (err <? 2) &&
            forallb (fun x => vtype (snd x) =? 4) (fst o) &&
            match intent with
            | Some (ps, svc) => from_attrs_ok (mk_pairs ps svc) (fst o) && (err =? 0)
            | None => true
            end) V_SPECFAIL
  | CDetect s0 ds dobs o conflict partial errs =>
      let '(m, es) := detect s0 (map model_det ds) in
      flag (robs_eqb o (obs_of (Some m)) && Bool.eqb conflict (existsb is_conflict es) &&
            list_eqb Bool.eqb errs (map (has_edet es) (map N.of_nat (seq 0 (length ds)))) &&
            list_eqb robs_eqb dobs (map (fun d => match d with DRet r _ => obs_of (model_res r) | DAbsent => ([], []) end) ds)) V_MISMATCH ++
      flag (robs_wf o && later_wins_ok (accepted_obs ds dobs) (fst o) &&
            list_eqb Bool.eqb errs (map errored_d ds) &&
            Bool.eqb partial (existsb partial_d ds) &&
            detect_schema_ok s0 (accepted_schemas ds dobs) (snd o) conflict) V_SPECFAIL
  end.

Definition run (cs : list case) : list (N * N) := index_from 0 check_case cs.
