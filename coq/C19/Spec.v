(** C19 specification: resource merging as a right-biased union with schema-URL
    rules, construction from attribute lists and from the environment, detector
    folding.  Stated over what a user observes (Attributes, SchemaURL, error
    class) -- written against the property text; imports only the C05 vocabulary
    and C05's specification vocabulary (assoc / last_assoc / SortedUnique). *)
From Verif Require Import Lib.Base C05.Types C05.Spec.
Open Scope N_scope.

(** [b] over [a]: b's binding wins. *)
Definition over (b a : option value) : option value := match b with Some v => Some v | None => a end.

(** Attributes of Merge(a, b): exactly the union, b's value on shared keys. *)
Definition UnionRightBiased (a b m : list kv) : Prop :=
  SortedUnique m /\ forall k, assoc k m = over (assoc k b) (assoc k a).

(** Schema URL of Merge(a, b) and whether a conflict error is reported. *)
Definition SchemaRule (sa sb s : bytes) (conflict : bool) : Prop :=
  (sa = [] -> s = sb /\ conflict = false) /\
  (sb = [] -> s = sa /\ conflict = false) /\
  (sa = sb -> s = sa /\ conflict = false) /\
  (sa <> [] -> sb <> [] -> sa <> sb -> s = [] /\ conflict = true).

(** A key-value a resource may hold: defined key, valid value type. *)
Definition valid_kv (x : kv) : bool :=
  match fst x with [] => false | _ => true end && negb (vtype (snd x) =? 0).

(** Resource built from an attribute list: the valid last bindings, nothing else. *)
Definition FromAttrs (input out : list kv) : Prop :=
  SortedUnique out /\ forall k, assoc k out = selected valid_kv true k input.

(** The mapping denoted by a sequence of attribute lists applied in order (later wins). *)
Definition later_wins (ls : list (list kv)) (k : bytes) : option value := last_assoc k (concat ls).

(** service.name *)
Definition SERVICE_NAME : bytes := str "service.name".

(** Decidable readings for the implementation's observations. *)
Definition union_ok (a b m : list kv) : bool :=
  sorted_unique_b m &&
  forallb (fun k => optv_eqb (assoc k m) (over (assoc k b) (assoc k a))) (keys_of a ++ keys_of b ++ keys_of m).

Definition is_empty (s : bytes) : bool := match s with [] => true | _ => false end.

Definition schema_ok (sa sb s : bytes) (conflict : bool) : bool :=
  if is_empty sa then bytes_eqb s sb && negb conflict
  else if is_empty sb then bytes_eqb s sa && negb conflict
  else if bytes_eqb sa sb then bytes_eqb s sa && negb conflict
  else is_empty s && conflict.

Definition from_attrs_ok (input out : list kv) : bool :=
  sorted_unique_b out &&
  forallb (fun k => optv_eqb (assoc k out) (selected valid_kv true k input)) (keys_of input ++ keys_of out).

Definition later_wins_ok (ls : list (list kv)) (out : list kv) : bool :=
  sorted_unique_b out &&
  forallb (fun k => optv_eqb (assoc k out) (later_wins ls k)) (keys_of (concat ls) ++ keys_of out).

(** Schema URL of a detector fold: the merge rule applied left to right, starting from the configured
    URL; once two non-empty URLs differ the conflict is remembered and the final URL is empty. *)
Definition schema_step (acc : bytes * bool) (sb : bytes) : bytes * bool :=
  let '(sa, c) := acc in
  if is_empty sa then (sb, c)
  else if is_empty sb then (sa, c)
  else if bytes_eqb sa sb then (sa, c)
  else ([], true).
Definition schema_fold (s0 : bytes) (l : list bytes) : bytes * bool := fold_left schema_step l (s0, false).
Definition detect_schema_ok (s0 : bytes) (l : list bytes) (s : bytes) (conflict : bool) : bool :=
  let '(e, c) := schema_fold s0 l in Bool.eqb conflict c && bytes_eqb s (if c then [] else e).

(** Exactly when the schema URL of a triple does not depend on the grouping. *)
Definition schema_assoc_cond (sa sb sc : bytes) : bool :=
  is_empty sa || is_empty sb || is_empty sc || bytes_eqb sa sc.
