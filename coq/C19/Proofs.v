(** C19 proofs. *)
From Verif Require Import Lib.Base C05.Types C05.Spec C05.Model C05.Proofs C19.Spec C19.Model.
From Coq Require Import Permutation.
Open Scope N_scope.

(** Resources the API can build: attributes sorted, duplicate-free, all valid. *)
Definition wf_res (r : res) : Prop := SortedUnique (r_attrs r) /\ forallb kv_valid (r_attrs r) = true.
Definition wf_ores (o : option res) : Prop := match o with Some r => wf_res r | None => True end.

Lemma kv_valid_is_spec x : kv_valid x = valid_kv x.
Proof. reflexivity. Qed.

Lemma ns_set_filtered l f : ns_set (new_set_filtered l (Some f)) = filter f (new_set l).
Proof. destruct l; reflexivity. Qed.

Lemma forallb_filter_id {A} (f : A -> bool) l : forallb f l = true -> filter f l = l.
Proof.
  induction l as [|x r IH]; cbn; [auto|]. intro H. apply andb_true_iff in H as [H1 H2].
  rewrite H1. f_equal. auto.
Qed.

Lemma forallb_filter {A} (f : A -> bool) l : forallb f (filter f l) = true.
Proof. apply forallb_forall. intros x Hx. now apply filter_In in Hx. Qed.

Lemma new_schemaless_attrs l : r_attrs (new_schemaless l) = filter kv_valid (new_set l).
Proof. unfold new_schemaless. cbn. apply ns_set_filtered. Qed.

Lemma new_schemaless_wf l : wf_res (new_schemaless l).
Proof.
  split; rewrite new_schemaless_attrs.
  - apply filter_sorted_unique. apply new_set_sorted_unique.
  - apply forallb_filter.
Qed.

Lemma new_with_attributes_wf u l : wf_res (new_with_attributes u l).
Proof. exact (new_schemaless_wf l). Qed.

(** A well-formed attribute list is rebuilt unchanged. *)
Lemma new_schemaless_fixpoint l :
  SortedUnique l -> forallb kv_valid l = true -> r_attrs (new_schemaless l) = l.
Proof.
  intros H1 H2. rewrite new_schemaless_attrs, new_set_fixpoint by auto. now apply forallb_filter_id.
Qed.

Lemma new_schemaless_from_attrs l : FromAttrs l (r_attrs (new_schemaless l)).
Proof.
  split; [apply new_schemaless_wf|]. intro k. unfold new_schemaless. cbn [r_attrs].
  destruct (new_set_last_wins l (Some kv_valid) k) as [H _]. exact H.
Qed.

(** * Merge *)
Lemma merge_iter_nil_l b : merge_iter [] b = b.
Proof. destruct b; reflexivity. Qed.

Lemma merge_iter_valid a b :
  forallb kv_valid a = true -> forallb kv_valid b = true -> forallb kv_valid (merge_iter a b) = true.
Proof.
  intros Ha Hb. apply forallb_forall. intros x Hx. apply merge_iter_in in Hx as [Hx|Hx].
  - eapply forallb_forall in Ha; eauto.
  - eapply forallb_forall in Hb; eauto.
Qed.

Lemma merge_some ra rb : exists r e, merge (Some ra) (Some rb) = (Some r, e) /\
  r_attrs r = r_attrs (new_schemaless (merge_iter (r_attrs rb) (r_attrs ra))).
Proof.
  unfold merge. destruct (is_empty (r_schema ra)); [eexists; eexists; split; reflexivity|].
  destruct (is_empty (r_schema rb)); [eexists; eexists; split; reflexivity|].
  destruct (bytes_eqb (r_schema ra) (r_schema rb)); eexists; eexists; split; reflexivity.
Qed.

Lemma merge_attrs a b : wf_ores a -> wf_ores b ->
  oattrs (fst (merge a b)) = merge_iter (oattrs b) (oattrs a).
Proof.
  destruct a as [ra|], b as [rb|]; cbn [oattrs wf_ores]; intros Ha Hb.
  - destruct (merge_some ra rb) as (r & e & -> & Hr). cbn. rewrite Hr.
    destruct Ha as [Ha1 Ha2], Hb as [Hb1 Hb2].
    apply new_schemaless_fixpoint; [apply (merge_iter_spec _ _ Hb1 Ha1) | now apply merge_iter_valid].
  - cbn. now rewrite merge_iter_nil_l.
  - cbn. now rewrite merge_iter_nil_r.
  - reflexivity.
Qed.

Lemma merge_wf a b : wf_ores a -> wf_ores b ->
  wf_ores (fst (merge a b)) /\ fst (merge a b) <> None.
Proof.
  destruct a as [ra|], b as [rb|]; cbn [wf_ores]; intros Ha Hb.
  - destruct (merge_some ra rb) as (r & e & E & Hr). rewrite E. cbn. split; [|discriminate].
    destruct (new_schemaless_wf (merge_iter (r_attrs rb) (r_attrs ra))) as [W1 W2].
    unfold wf_res. rewrite Hr. auto.
  - cbn. split; [auto|discriminate].
  - cbn. split; [auto|discriminate].
  - cbn. split; [|discriminate]. split; [exact I|reflexivity].
Qed.

Lemma wf_oattrs a : wf_ores a -> SortedUnique (oattrs a) /\ forallb kv_valid (oattrs a) = true.
Proof. destruct a; cbn; [auto|]. intros _. split; [exact I|reflexivity]. Qed.

Lemma merge_union a b : wf_ores a -> wf_ores b ->
  UnionRightBiased (oattrs a) (oattrs b) (oattrs (fst (merge a b))).
Proof.
  intros Ha Hb. rewrite merge_attrs by auto.
  apply wf_oattrs in Ha as [Ha _]. apply wf_oattrs in Hb as [Hb _].
  exact (merge_iter_spec _ _ Hb Ha).
Qed.

Lemma is_empty_spec s : C19.Model.is_empty s = true <-> s = [].
Proof. destruct s; cbn; split; congruence. Qed.

Definition conflict_of (e : merr) : bool := match e with MConflict => true | MOk => false end.

Lemma merge_schema a b :
  SchemaRule (oschema a) (oschema b) (oschema (fst (merge a b))) (conflict_of (snd (merge a b))).
Proof.
  unfold SchemaRule. destruct a as [ra|], b as [rb|]; cbn [oschema merge fst snd conflict_of].
  - destruct (C19.Model.is_empty (r_schema ra)) eqn:E1.
    { apply is_empty_spec in E1. cbn. rewrite E1. repeat split; auto; congruence. }
    destruct (C19.Model.is_empty (r_schema rb)) eqn:E2.
    { apply is_empty_spec in E2. cbn. rewrite E2. repeat split; auto; try congruence.
      all: intros H; rewrite H in E1; discriminate. }
    assert (N1 : r_schema ra <> []) by (intro H; rewrite H in E1; discriminate).
    assert (N2 : r_schema rb <> []) by (intro H; rewrite H in E2; discriminate).
    destruct (bytes_eqb (r_schema ra) (r_schema rb)) eqn:E3.
    { apply bytes_eqb_eq in E3. cbn. repeat split; auto; congruence. }
    apply bytes_eqb_neq in E3. cbn. repeat split; auto; congruence.
  - repeat split; auto; try congruence.
  - repeat split; auto; try congruence.
  - repeat split; auto; congruence.
Qed.

(** Merging with nil or the empty resource, on either side, changes nothing and reports no error. *)
Definition is_unit (e : option res) : Prop := e = None \/ e = Some empty_res.

Lemma merge_identity a e : wf_ores a -> is_unit e ->
  (oattrs (fst (merge a e)) = oattrs a /\ oschema (fst (merge a e)) = oschema a /\ snd (merge a e) = MOk) /\
  (oattrs (fst (merge e a)) = oattrs a /\ oschema (fst (merge e a)) = oschema a /\ snd (merge e a) = MOk).
Proof.
  intros Ha He.
  assert (We : wf_ores e) by (destruct He as [->| ->]; cbn; [exact I | split; [exact I|reflexivity]]).
  assert (Ae : oattrs e = []) by (destruct He as [->| ->]; reflexivity).
  assert (Se : oschema e = []) by (destruct He as [->| ->]; reflexivity).
  split.
  - split; [rewrite merge_attrs by auto; rewrite Ae; apply merge_iter_nil_l|].
    destruct (merge_schema a e) as (H1 & H2 & _). rewrite Se in H2. destruct (H2 eq_refl) as [S C].
    split; auto. destruct (snd (merge a e)); [reflexivity|discriminate].
  - split; [rewrite merge_attrs by auto; rewrite Ae; apply merge_iter_nil_r|].
    destruct (merge_schema e a) as (H1 & _). rewrite Se in H1. destruct (H1 eq_refl) as [S C].
    split; auto. destruct (snd (merge e a)); [reflexivity|discriminate].
Qed.

Lemma over_assoc x y z : over x (over y z) = over (over x y) z.
Proof. destruct x, y, z; reflexivity. Qed.

Lemma merge_iter_assoc a b c : SortedUnique a -> SortedUnique b -> SortedUnique c ->
  merge_iter c (merge_iter b a) = merge_iter (merge_iter c b) a.
Proof.
  intros Ha Hb Hc.
  destruct (merge_iter_spec _ _ Hb Ha) as [S1 A1]. destruct (merge_iter_spec _ _ Hc Hb) as [S2 A2].
  destruct (merge_iter_spec _ _ Hc S1) as [S3 A3]. destruct (merge_iter_spec _ _ S2 Ha) as [S4 A4].
  apply sorted_unique_ext; auto. intro k. rewrite A3, A4, A1, A2.
  destruct (assoc k c), (assoc k b), (assoc k a); reflexivity.
Qed.

(** Associativity on attributes, for all operands (nil, empty, any schema URLs, conflicts included). *)
Lemma merge_assoc_attrs a b c : wf_ores a -> wf_ores b -> wf_ores c ->
  oattrs (fst (merge (fst (merge a b)) c)) = oattrs (fst (merge a (fst (merge b c)))).
Proof.
  intros Ha Hb Hc.
  destruct (merge_wf a b Ha Hb) as [Wab _]. destruct (merge_wf b c Hb Hc) as [Wbc _].
  rewrite !merge_attrs by auto.
  apply wf_oattrs in Ha as [Ha _]. apply wf_oattrs in Hb as [Hb _]. apply wf_oattrs in Hc as [Hc _].
  now apply merge_iter_assoc.
Qed.

Lemma merge_iter_idem a : SortedUnique a -> merge_iter a a = a.
Proof.
  intro H. destruct (merge_iter_spec _ _ H H) as [S A]. apply sorted_unique_ext; auto.
  intro k. rewrite A. now destruct (assoc k a).
Qed.

Lemma merge_idempotent r : wf_res r -> merge (Some r) (Some r) = (Some r, MOk).
Proof.
  intros [H1 H2]. destruct r as [at_ sc]. cbn [r_attrs r_schema] in *. unfold merge. cbn [r_attrs r_schema].
  assert (E : new_with_attributes sc (merge_iter at_ at_) = {| r_attrs := at_; r_schema := sc |}).
  { unfold new_with_attributes. f_equal. rewrite merge_iter_idem by auto. now apply new_schemaless_fixpoint. }
  destruct (C19.Model.is_empty sc); [now rewrite E|]. rewrite bytes_eqb_refl. now rewrite E.
Qed.

(** Attributes are never lost to a schema conflict: every binding of a or b is looked up in the result. *)
Lemma merge_keeps_all a b k v : wf_ores a -> wf_ores b ->
  In (k, v) (oattrs b) \/ (In (k, v) (oattrs a) /\ assoc k (oattrs b) = None) ->
  In (k, v) (oattrs (fst (merge a b))).
Proof.
  intros Ha Hb H. destruct (merge_union a b Ha Hb) as [S A].
  apply assoc_some_in_iff; auto. rewrite A.
  apply wf_oattrs in Ha as [Ha _]. apply wf_oattrs in Hb as [Hb _].
  destruct H as [H|[H1 H2]].
  - apply (assoc_some_in_iff _ _ _ Hb) in H. now rewrite H.
  - rewrite H2. cbn. now apply assoc_some_in_iff.
Qed.

(** * Equal / Equivalent *)
Lemma res_equal_key_hit a b : res_equal a b = res_key_hit a b.
Proof. reflexivity. Qed.

Lemma res_equal_regular a b : wf_ores a -> wf_ores b ->
  kvs_regular (oattrs a) = true -> kvs_regular (oattrs b) = true ->
  (res_equal a b = true <-> oattrs a = oattrs b).
Proof.
  intros _ _ Ra Rb. unfold res_equal. rewrite distinct_eq_char.
  apply kvs_regular_canon in Ra as [Ca Na]. apply kvs_regular_canon in Rb as [Cb Nb].
  rewrite Ca, Cb. tauto.
Qed.

(** * detect *)
Definition accepted (d : det) : bool :=
  negb (d_absent d) && match d_err d with DOther => false | _ => true end.
Definition errored (d : det) : bool :=
  negb (d_absent d) && match d_err d with DNil => false | _ => true end.

Fixpoint error_indices (ds : list det) (i : N) : list N :=
  match ds with
  | [] => []
  | d :: r => (if errored d then [i] else []) ++ error_indices r (i + 1)
  end.

Fixpoint edets (es : list etag) : list N :=
  match es with
  | [] => []
  | EDet i :: r => i :: edets r
  | EConflict :: r => edets r
  end.

Lemma edets_app a b : edets (a ++ b) = edets a ++ edets b.
Proof. induction a as [|[i|] a IH]; cbn; congruence. Qed.

Lemma last_assoc_over k a b : NoDup (map fst b) ->
  last_assoc k (a ++ b) = over (assoc k b) (last_assoc k a).
Proof. intro H. rewrite last_assoc_app, last_assoc_unique by auto. reflexivity. Qed.

Lemma detect_step_assoc cur d x me k rest :
  wf_res cur -> wf_ores (d_res d) -> merge (Some cur) (d_res d) = (Some x, me) ->
  last_assoc k (r_attrs x ++ rest) = last_assoc k (r_attrs cur ++ oattrs (d_res d) ++ rest).
Proof.
  intros Hc Hd EM. rewrite !last_assoc_app. destruct (last_assoc k rest); auto.
  pose proof (merge_union (Some cur) (d_res d) Hc Hd) as [SU AU]. rewrite EM in SU, AU. cbn [fst oattrs] in SU, AU.
  destruct (wf_oattrs _ Hd) as [Sd _]. destruct Hc as [Sc _].
  rewrite (last_assoc_unique k (r_attrs x)) by now apply SortedUnique_nodup.
  rewrite (last_assoc_unique k (oattrs (d_res d))) by now apply SortedUnique_nodup.
  rewrite (last_assoc_unique k (r_attrs cur)) by now apply SortedUnique_nodup.
  rewrite AU. reflexivity.
Qed.

Lemma detect_loop_spec ds : forall cur i, wf_res cur -> Forall (fun d => wf_ores (d_res d)) ds ->
  let out := detect_loop cur ds i in
  wf_res (fst out) /\
  (forall k, assoc k (r_attrs (fst out)) =
             last_assoc k (r_attrs cur ++ concat (map (fun d => oattrs (d_res d)) (filter accepted ds)))) /\
  edets (snd out) = error_indices ds i.
Proof.
  induction ds as [|d r IH]; intros cur i Hc Hds.
  - cbn. split; auto. split; auto. intro k. rewrite app_nil_r. symmetry.
    apply last_assoc_unique, SortedUnique_nodup, Hc.
  - inversion Hds as [|? ? Hd Hr]; subst. cbn [detect_loop filter error_indices].
    unfold accepted, errored. destruct (d_absent d); cbn [negb andb].
    { apply IH; auto. }
    destruct (d_err d) eqn:E.
    + (* DNil *)
      destruct (merge (Some cur) (d_res d)) as [m me] eqn:EM.
      assert (Wm : wf_ores m /\ m <> None) by (pose proof (merge_wf (Some cur) (d_res d) Hc Hd) as W; now rewrite EM in W).
      destruct m as [x|]; [|destruct Wm as [_ Wm]; congruence]. destruct Wm as [Wx _].
      specialize (IH x (i + 1) Wx Hr). destruct (detect_loop x r (i + 1)) as [out es]. cbn [fst snd] in *.
      destruct IH as (I1 & I2 & I3). split; auto. split.
      * intro k. rewrite I2. cbn [map concat]. eapply detect_step_assoc; eauto.
      * cbn [app]. rewrite edets_app. destruct me; cbn; auto.
    + (* DPartial *)
      destruct (merge (Some cur) (d_res d)) as [m me] eqn:EM.
      assert (Wm : wf_ores m /\ m <> None) by (pose proof (merge_wf (Some cur) (d_res d) Hc Hd) as W; now rewrite EM in W).
      destruct m as [x|]; [|destruct Wm as [_ Wm]; congruence]. destruct Wm as [Wx _].
      specialize (IH x (i + 1) Wx Hr). destruct (detect_loop x r (i + 1)) as [out es]. cbn [fst snd] in *.
      destruct IH as (I1 & I2 & I3). split; auto. split.
      * intro k. rewrite I2. cbn [map concat]. eapply detect_step_assoc; eauto.
      * cbn [app edets]. rewrite edets_app. destruct me; cbn; now rewrite I3.
    + (* DOther *)
      specialize (IH cur (i + 1) Hc Hr). destruct (detect_loop cur r (i + 1)) as [out es]. cbn [fst snd] in *.
      destruct IH as (I1 & I2 & I3). split; auto. split; auto. cbn. now rewrite I3.
Qed.

Lemma detect_spec s0 ds : Forall (fun d => wf_ores (d_res d)) ds ->
  let out := detect s0 ds in
  wf_res (fst out) /\
  (forall k, assoc k (r_attrs (fst out)) =
             later_wins (map (fun d => oattrs (d_res d)) (filter accepted ds)) k) /\
  edets (snd out) = error_indices ds 0 /\
  (existsb is_conflict (snd out) = true -> r_schema (fst out) = []).
Proof.
  intro H. unfold detect.
  assert (W0 : wf_res {| r_attrs := []; r_schema := s0 |}) by (split; [exact I|reflexivity]).
  pose proof (detect_loop_spec ds _ 0 W0 H) as L.
  destruct (detect_loop {| r_attrs := []; r_schema := s0 |} ds 0) as [out es]. cbn [fst snd] in *.
  destruct L as (L1 & L2 & L3). cbn [r_attrs app] in L2. unfold later_wins.
  destruct (existsb is_conflict es); cbn [fst snd r_attrs r_schema]; repeat split; auto; try apply L1; discriminate.
Qed.

(** * Environment *)

(** Percent-encoding of a byte string: bytes selected by [must], and always '%', become %XX. *)
Definition hexdig (v : N) : N := if v <? 10 then v + 48 else v + 55.
Definition pct (c : N) : bytes := [37; hexdig (c / 16); hexdig (c mod 16)].
Definition pct_encode (must : N -> bool) (v : bytes) : bytes :=
  flat_map (fun c => if must c || (c =? 37) then pct c else [c]) v.

(** A byte that may stay literal inside a value: printable ASCII, not space, not '%' and not ','. *)
Definition literal_ok (c : N) : bool := (33 <=? c) && (c <=? 126) && negb (c =? 37) && negb (c =? 44).
(** A byte of a key that needs no trimming and no cutting: printable, not space, not '=' and not ','. *)
Definition key_byte (c : N) : bool := (33 <=? c) && (c <=? 126) && negb (c =? 61) && negb (c =? 44).

Lemma hexdig_ishex v : v < 16 -> ishex (hexdig v) = true /\ unhex (hexdig v) = v.
Proof.
  intro H. assert (E : v = N.of_nat (N.to_nat v)) by lia.
  remember (N.to_nat v) as n eqn:En. assert (Hn : (n < 16)%nat) by lia. subst v. clear - Hn.
  do 16 (destruct n as [|n]; [vm_compute; auto|]). lia.
Qed.

Definition printable (c : N) : bool := (33 <=? c) && (c <=? 126).

Lemma hexdig_printable v : v < 16 -> printable (hexdig v) = true /\ hexdig v <> 44 /\ hexdig v <> 61.
Proof.
  intro H. assert (E : v = N.of_nat (N.to_nat v)) by lia.
  remember (N.to_nat v) as n eqn:En. assert (Hn : (n < 16)%nat) by lia. subst v. clear - Hn.
  do 16 (destruct n as [|n]; [vm_compute; repeat split; discriminate|]). lia.
Qed.

Lemma path_unescape_cons c r :
  path_unescape (c :: r) =
  if c =? 37 then
    match r with
    | a :: b :: r' =>
        if ishex a && ishex b
        then match path_unescape r' with Some t => Some ((16 * unhex a + unhex b) :: t) | None => None end
        else None
    | _ => None
    end
  else match path_unescape r with Some t => Some (c :: t) | None => None end.
Proof. reflexivity. Qed.

Lemma path_unescape_pct3 a b r :
  path_unescape (37 :: a :: b :: r) =
  if ishex a && ishex b
  then match path_unescape r with Some t => Some ((16 * unhex a + unhex b) :: t) | None => None end
  else None.
Proof. reflexivity. Qed.

(** Percent-decoding inverts percent-encoding, for every byte string and every choice of escaped bytes. *)
Lemma path_unescape_pct must v : Forall (fun c => c < 256) v ->
  path_unescape (pct_encode must v) = Some v.
Proof.
  induction 1 as [|c v Hc Hv IH]; [reflexivity|].
  unfold pct_encode in *. cbn [flat_map].
  destruct (must c || (c =? 37)) eqn:E.
  - change (pct c ++ ?r) with (37 :: hexdig (c / 16) :: hexdig (c mod 16) :: r). rewrite path_unescape_pct3.
    assert (H1 : c / 16 < 16) by (apply N.div_lt_upper_bound; lia).
    assert (H2 : c mod 16 < 16) by (apply N.mod_lt; lia).
    destruct (hexdig_ishex _ H1) as [A1 A2]. destruct (hexdig_ishex _ H2) as [B1 B2].
    rewrite A1, B1, A2, B2, IH. cbn [andb]. do 2 f_equal.
    rewrite (N.div_mod c 16) at 3 by lia. reflexivity.
  - apply orb_false_iff in E as [_ E]. cbn [app]. rewrite path_unescape_cons, E, IH. reflexivity.
Qed.

(** Trimming leaves alone any string that starts and ends with a printable non-space ASCII byte. *)
Definition head_not (c : N) (p : bytes) : Prop := match p with x :: _ => x <> c | [] => False end.

Lemma strip_any_none ps c r : Forall (head_not c) ps -> strip_any ps (c :: r) = None.
Proof.
  induction 1 as [|p ps Hp Hps IH]; [reflexivity|]. cbn [strip_any].
  destruct p as [|x p']; [destruct Hp|]. cbn [strip_prefix]. cbn in Hp.
  apply N.eqb_neq in Hp. now rewrite Hp.
Qed.

Lemma strip_any_nil ps : Forall (fun p => p <> []) ps -> strip_any ps [] = None.
Proof. induction 1 as [|p ps Hp _ IH]; [reflexivity|]. destruct p; [congruence|]. exact IH. Qed.

Definition head_outside (p : bytes) : bool :=
  match p with x :: _ => (x <=? 32) || (128 <=? x) | [] => false end.

Lemma head_outside_not c p : printable c = true -> head_outside p = true -> head_not c p.
Proof.
  destruct p as [|x p]; [discriminate|]. unfold printable. cbn. intros H1 H2 ->.
  apply andb_true_iff in H1 as [H1 H1']. apply N.leb_le in H1, H1'.
  apply orb_true_iff in H2 as [H2|H2]; apply N.leb_le in H2; lia.
Qed.

Lemma trim_with_id ps fuel s : forallb head_outside ps = true ->
  match s with [] => True | c :: _ => printable c = true end -> trim_with ps fuel s = s.
Proof.
  intros Hps Hs. destruct fuel as [|f]; [reflexivity|]. cbn [trim_with].
  assert (Hne : Forall (fun p => p <> []) ps).
  { apply Forall_forall. intros p Hp. eapply forallb_forall in Hps; eauto. destruct p; [discriminate|congruence]. }
  destruct s as [|c r].
  - now rewrite strip_any_nil.
  - rewrite strip_any_none; auto. apply Forall_forall. intros p Hp.
    eapply forallb_forall in Hps; eauto. now apply head_outside_not.
Qed.

Lemma space_heads : forallb head_outside space_seqs = true /\ forallb head_outside (map (@rev N) space_seqs) = true.
Proof. split; vm_compute; reflexivity. Qed.

Lemma trim_space_printable s : forallb printable s = true -> trim_space s = s.
Proof.
  intro H. unfold trim_space, trim_left, trim_right. destruct space_heads as [S1 S2].
  rewrite (trim_with_id _ _ s S1) by (destruct s; [exact I | cbn in H; now apply andb_true_iff in H as [H _]]).
  rewrite trim_with_id; auto; [apply rev_involutive|].
  assert (Hr : forallb printable (rev s) = true).
  { apply forallb_forall. intros x Hx. apply in_rev in Hx. eapply forallb_forall in H; eauto. }
  destruct (rev s); [exact I | cbn in Hr; now apply andb_true_iff in Hr as [Hr _]].
Qed.

Lemma cut_at k rest : Forall (fun c => c <> 61) k -> cut 61 (k ++ 61 :: rest) = (k, rest, true).
Proof.
  induction 1 as [|c k Hc Hk IH]; [reflexivity|]. cbn [app cut].
  apply N.eqb_neq in Hc. now rewrite Hc, IH.
Qed.

Lemma split_on_none s : Forall (fun c => c <> 44) s -> split_on 44 s = [s].
Proof.
  induction 1 as [|c s Hc Hs IH]; [reflexivity|]. cbn [split_on].
  apply N.eqb_neq in Hc. now rewrite Hc, IH.
Qed.

Lemma pct_encode_bytes must v : Forall (fun c => c < 256) v ->
  (forall c, In c v -> must c = false -> c <> 37 -> literal_ok c = true) ->
  forallb printable (pct_encode must v) = true /\ Forall (fun c => c <> 44) (pct_encode must v).
Proof.
  induction 1 as [|c v Hc Hv IH]; intro Hl; [split; [reflexivity|constructor]|].
  destruct IH as [I1 I2]; [intros; apply Hl; cbn; auto|].
  unfold pct_encode in *. cbn [flat_map]. destruct (must c || (c =? 37)) eqn:E.
  - assert (H1 : c / 16 < 16) by (apply N.div_lt_upper_bound; lia).
    assert (H2 : c mod 16 < 16) by (apply N.mod_lt; lia).
    destruct (hexdig_printable _ H1) as (A1 & A2 & _). destruct (hexdig_printable _ H2) as (B1 & B2 & _).
    change (pct c ++ ?r) with (37 :: hexdig (c / 16) :: hexdig (c mod 16) :: r).
    cbn [forallb]. rewrite A1, B1, I1. split; [reflexivity|].
    repeat constructor; auto. discriminate.
  - apply orb_false_iff in E as [E1 E2]. specialize (Hl c (or_introl eq_refl) E1 (proj1 (N.eqb_neq _ _) E2)).
    unfold literal_ok in Hl. repeat (apply andb_true_iff in Hl as [Hl ?]).
    cbn [app forallb]. unfold printable at 1. rewrite Hl, I1.
    match goal with H : (c <=? 126) = true |- _ => rewrite H end. split; [reflexivity|].
    constructor; auto. match goal with H : negb (c =? 44) = true |- _ => apply negb_true_iff, N.eqb_neq in H; exact H end.
Qed.

Lemma new_schemaless_single k v : k <> [] -> vtype v <> 0 ->
  new_schemaless [(k, v)] = {| r_attrs := [(k, v)]; r_schema := [] |}.
Proof.
  intros Hk Hv. unfold new_schemaless. f_equal. rewrite ns_set_filtered.
  change (new_set [(k, v)]) with [(k, v)]. cbn [filter].
  assert (E : kv_valid (k, v) = true).
  { unfold kv_valid. cbn [fst snd]. destruct k; [congruence|]. apply N.eqb_neq in Hv. now rewrite Hv. }
  now rewrite E.
Qed.

(** OTEL_RESOURCE_ATTRIBUTES = k "=" pct-encode(v) yields exactly k -> v, for every byte string v. *)
Lemma env_percent_lossless must k v :
  k <> [] -> forallb key_byte k = true -> Forall (fun c => c < 256) v ->
  (forall c, In c v -> must c = false -> c <> 37 -> literal_ok c = true) ->
  construct_ot_resources (k ++ [61] ++ pct_encode must v) =
  ({| r_attrs := [(k, VStr v)]; r_schema := [] |}, false).
Proof.
  intros Hk Hkb Hv Hl. destruct (pct_encode_bytes must v Hv Hl) as [P1 P2].
  assert (K1 : forallb printable k = true /\ Forall (fun c => c <> 61) k /\ Forall (fun c => c <> 44) k).
  { clear - Hkb. induction k as [|c k IH]; [repeat split; constructor|].
    cbn in Hkb. apply andb_true_iff in Hkb as [Hc Hk]. destruct (IH Hk) as (I1 & I2 & I3).
    unfold key_byte in Hc. repeat (apply andb_true_iff in Hc as [Hc ?]).
    cbn [forallb]. unfold printable at 1. rewrite Hc, I1.
    repeat match goal with H : negb (_ =? _) = true |- _ => apply negb_true_iff, N.eqb_neq in H end.
    match goal with H : (c <=? 126) = true |- _ => rewrite H end. repeat split; auto. }
  destruct K1 as (K1 & K2 & K3).
  unfold construct_ot_resources. cbn [app].
  destruct (k ++ 61 :: pct_encode must v) as [|c0 s0] eqn:Es; [destruct k; discriminate|]. rewrite <- Es.
  rewrite split_on_none by (apply Forall_app; split; auto; constructor; [discriminate|auto]).
  cbn [map somes existsb]. unfold env_pair. rewrite cut_at by auto.
  rewrite !trim_space_printable by auto. rewrite path_unescape_pct by auto.
  cbn [somes existsb]. rewrite new_schemaless_single; auto. discriminate.
Qed.

(** * fromEnv *)
Lemma construct_wf s : wf_res (fst (construct_ot_resources s)).
Proof.
  unfold construct_ot_resources. destruct s; cbn [fst]; [split; [exact I|reflexivity]|apply new_schemaless_wf].
Qed.

Lemma service_name_key_eq : SERVICE_NAME_KEY = SERVICE_NAME.
Proof. reflexivity. Qed.

Lemma from_env_service_name a s : trim_space s <> [] ->
  let r := fst (from_env a s) in
  assoc SERVICE_NAME (oattrs r) = Some (VStr (trim_space s)) /\
  (forall k, k <> SERVICE_NAME ->
     assoc k (oattrs r) = assoc k (r_attrs (fst (construct_ot_resources (trim_space a))))).
Proof.
  intro Hs. unfold from_env. destruct (trim_space s) as [|c0 n0] eqn:En; [congruence|].
  rewrite andb_false_r. cbn [C19.Model.is_empty].
  pose proof (construct_wf (trim_space a)) as W.
  destruct (construct_ot_resources (trim_space a)) as [r2 perr]. cbn [fst] in *.
  rewrite new_schemaless_single by (try discriminate; cbn; discriminate).
  set (r1 := {| r_attrs := [(SERVICE_NAME_KEY, VStr (c0 :: n0))]; r_schema := [] |}).
  assert (W1 : wf_ores (Some r1)) by (split; [split; [intros ? []|exact I]|reflexivity]).
  destruct (merge_union (Some r2) (Some r1) W W1) as [_ A]. cbn [oattrs] in A. cbn zeta. split.
  - rewrite A. unfold r1. cbn [r_attrs assoc]. now rewrite service_name_key_eq, bytes_eqb_refl.
  - intros k Hk. rewrite A. unfold r1. cbn [r_attrs assoc]. rewrite service_name_key_eq.
    apply bytes_eqb_neq in Hk. now rewrite Hk.
Qed.

Lemma from_env_no_service_name a s : trim_space s = [] ->
  oattrs (fst (from_env a s)) = r_attrs (fst (construct_ot_resources (trim_space a))) /\
  snd (from_env a s) = snd (construct_ot_resources (trim_space a)).
Proof.
  intro Hs. unfold from_env. rewrite Hs. cbn [C19.Model.is_empty]. rewrite andb_true_r.
  destruct (trim_space a) as [|c0 a0] eqn:Ea; [split; reflexivity|]. cbn [C19.Model.is_empty].
  destruct (construct_ot_resources (c0 :: a0)) as [r2 perr]. split; reflexivity.
Qed.

Lemma from_env_valid a s : forall x, In x (oattrs (fst (from_env a s))) -> valid_kv x = true.
Proof.
  assert (W : wf_ores (fst (from_env a s))).
  { unfold from_env. destruct (C19.Model.is_empty (trim_space a) && C19.Model.is_empty (trim_space s)).
    - split; [exact I|reflexivity].
    - pose proof (construct_wf (trim_space a)) as W. destruct (construct_ot_resources (trim_space a)) as [r2 perr].
      cbn [fst] in *. apply merge_wf; auto. destruct (C19.Model.is_empty (trim_space s)); [exact I|apply new_schemaless_wf]. }
  apply wf_oattrs in W as [_ W]. intros x Hx. eapply forallb_forall in W; eauto.
Qed.

(** * Decidable readings are sound *)
Lemma union_ok_sound a b m : union_ok a b m = true -> UnionRightBiased a b m.
Proof.
  unfold union_ok, UnionRightBiased, keys_of. intro H. apply andb_true_iff in H as [H1 H2].
  split; [now apply sorted_unique_b_spec|].
  eapply (forall_keys_sound (fun k => assoc k m)); [|exact H2].
  intros k Hk. assert (Ha : assoc k a = None) by (apply assoc_none; intro; apply Hk, in_or_app; auto).
  assert (Hb : assoc k b = None) by (apply assoc_none; intro; apply Hk, in_or_app; right; apply in_or_app; auto).
  rewrite Ha, Hb. split; auto. apply assoc_none; intro; apply Hk, in_or_app; right; apply in_or_app; auto.
Qed.

Lemma spec_is_empty s : C19.Spec.is_empty s = true <-> s = [].
Proof. destruct s; cbn; split; congruence. Qed.

Lemma schema_ok_sound sa sb s c : schema_ok sa sb s c = true -> SchemaRule sa sb s c.
Proof.
  unfold schema_ok, SchemaRule.
  destruct (C19.Spec.is_empty sa) eqn:E1.
  { apply spec_is_empty in E1. subst sa. intro H. apply andb_true_iff in H as [H1 H2].
    apply bytes_eqb_eq in H1. apply negb_true_iff in H2. subst. repeat split; auto; congruence. }
  assert (N1 : sa <> []) by (intro H; subst; discriminate).
  destruct (C19.Spec.is_empty sb) eqn:E2.
  { apply spec_is_empty in E2. subst sb. intro H. apply andb_true_iff in H as [H1 H2].
    apply bytes_eqb_eq in H1. apply negb_true_iff in H2. subst. repeat split; auto; congruence. }
  assert (N2 : sb <> []) by (intro H; subst; discriminate).
  destruct (bytes_eqb sa sb) eqn:E3.
  { apply bytes_eqb_eq in E3. subst sb. intro H. apply andb_true_iff in H as [H1 H2].
    apply bytes_eqb_eq in H1. apply negb_true_iff in H2. subst. repeat split; auto; congruence. }
  apply bytes_eqb_neq in E3. intro H. apply andb_true_iff in H as [H1 H2].
  apply spec_is_empty in H1. subst. repeat split; auto; congruence.
Qed.

Lemma from_attrs_ok_sound input out : from_attrs_ok input out = true -> FromAttrs input out.
Proof.
  unfold from_attrs_ok, FromAttrs, keys_of. intro H. apply andb_true_iff in H as [H1 H2].
  split; [now apply sorted_unique_b_spec|].
  eapply (forall_keys_sound (fun k => assoc k out)); [|exact H2].
  intros k Hk. split.
  - apply assoc_none; intro; apply Hk, in_or_app; auto.
  - apply selected_none; intro; apply Hk, in_or_app; auto.
Qed.

(** * A whole OTEL_RESOURCE_ATTRIBUTES list rendered from key/value pairs is read back as those pairs *)
Definition render_pair (must : N -> bool) (p : bytes * bytes) : bytes :=
  fst p ++ [61] ++ pct_encode must (snd p).
Definition clean_pair (must : N -> bool) (p : bytes * bytes) : Prop :=
  fst p <> [] /\ forallb key_byte (fst p) = true /\ Forall (fun c => c < 256) (snd p) /\
  (forall c, In c (snd p) -> must c = false -> c <> 37 -> literal_ok c = true).

Lemma split_on_cons_item x rest : Forall (fun c => c <> 44) x ->
  split_on 44 (x ++ 44 :: rest) = x :: split_on 44 rest.
Proof.
  induction 1 as [|c x Hc Hx IH]; [reflexivity|]. cbn [app split_on].
  apply N.eqb_neq in Hc. now rewrite Hc, IH.
Qed.

Lemma render_pair_facts must p : clean_pair must p ->
  Forall (fun c => c <> 44) (render_pair must p) /\ env_pair (render_pair must p) = Some (fst p, VStr (snd p)) /\
  render_pair must p <> [].
Proof.
  intros (Hk & Hkb & Hv & Hl). destruct p as [k v]. cbn [fst snd] in *. unfold render_pair. cbn [fst snd].
  destruct (pct_encode_bytes must v Hv Hl) as [P1 P2].
  assert (K1 : forallb printable k = true /\ Forall (fun c => c <> 61) k /\ Forall (fun c => c <> 44) k).
  { clear - Hkb. induction k as [|c k IH]; [repeat split; constructor|].
    cbn in Hkb. apply andb_true_iff in Hkb as [Hc Hk]. destruct (IH Hk) as (I1 & I2 & I3).
    unfold key_byte in Hc. repeat (apply andb_true_iff in Hc as [Hc ?]).
    cbn [forallb]. unfold printable at 1. rewrite Hc, I1.
    repeat match goal with H : negb (_ =? _) = true |- _ => apply negb_true_iff, N.eqb_neq in H end.
    match goal with H : (c <=? 126) = true |- _ => rewrite H end. repeat split; auto. }
  destruct K1 as (K1 & K2 & K3). split; [|split].
  - apply Forall_app. split; auto. constructor; [discriminate|auto].
  - unfold env_pair. cbn [app]. rewrite cut_at by auto.
    rewrite !trim_space_printable by auto. now rewrite path_unescape_pct.
  - destruct k; [congruence|discriminate].
Qed.

Lemma split_on_join must l : Forall (clean_pair must) l -> l <> [] ->
  split_on 44 (join [44] (map (render_pair must) l)) = map (render_pair must) l.
Proof.
  induction 1 as [|p l Hp Hl IH]; [congruence|]. intros _.
  destruct (render_pair_facts must p Hp) as (F1 & _ & _).
  destruct l as [|q l].
  - cbn [map join]. now apply split_on_none.
  - change (join [44] (map (render_pair must) (p :: q :: l))) with
      (render_pair must p ++ 44 :: join [44] (map (render_pair must) (q :: l))).
    rewrite split_on_cons_item by auto. rewrite IH by discriminate. reflexivity.
Qed.

Lemma env_pairs_read_back must l : Forall (clean_pair must) l ->
  somes (map env_pair (map (render_pair must) l)) = map (fun p => (fst p, VStr (snd p))) l /\
  existsb (fun o : option kv => match o with None => true | Some _ => false end)
          (map env_pair (map (render_pair must) l)) = false.
Proof.
  induction 1 as [|p l Hp Hl [IH1 IH2]]; [split; reflexivity|].
  destruct (render_pair_facts must p Hp) as (_ & F2 & _). cbn [map]. rewrite F2. cbn [somes existsb].
  now rewrite IH1, IH2.
Qed.

Lemma join_nonnil must p l : clean_pair must p -> join [44] (map (render_pair must) (p :: l)) <> [].
Proof.
  intro Hp. destruct (render_pair_facts must p Hp) as (_ & _ & F3).
  destruct l; cbn [map join]; [exact F3|]. destruct (render_pair must p); [congruence|discriminate].
Qed.

Lemma env_list_roundtrip must l : Forall (clean_pair must) l ->
  construct_ot_resources (join [44] (map (render_pair must) l)) =
  (new_schemaless (map (fun p => (fst p, VStr (snd p))) l), false).
Proof.
  intro H. destruct l as [|p l]; [reflexivity|].
  unfold construct_ot_resources.
  destruct (join [44] (map (render_pair must) (p :: l))) eqn:E.
  - exfalso. inversion H; subst. eapply join_nonnil; eauto.
  - rewrite <- E, split_on_join by (auto; discriminate).
    destruct (env_pairs_read_back must (p :: l) H) as [-> ->]. reflexivity.
Qed.

(** * Schema URL of a detector fold *)
Lemma merge_schema_step a b :
  (oschema (fst (merge a b)), conflict_of (snd (merge a b))) = schema_step (oschema a, false) (oschema b).
Proof.
  unfold schema_step. destruct a as [ra|], b as [rb|]; cbn [oschema merge fst snd conflict_of C19.Spec.is_empty].
  - change (C19.Spec.is_empty (r_schema ra)) with (C19.Model.is_empty (r_schema ra)).
    change (C19.Spec.is_empty (r_schema rb)) with (C19.Model.is_empty (r_schema rb)).
    destruct (C19.Model.is_empty (r_schema ra)); [reflexivity|].
    destruct (C19.Model.is_empty (r_schema rb)); [reflexivity|].
    destruct (bytes_eqb (r_schema ra) (r_schema rb)); reflexivity.
  - destruct (C19.Spec.is_empty (r_schema ra)) eqn:E; [|reflexivity]. apply spec_is_empty in E. now rewrite E.
  - reflexivity.
  - reflexivity.
Qed.

Lemma schema_step_flag sa c sb :
  schema_step (sa, c) sb = (fst (schema_step (sa, false) sb), c || snd (schema_step (sa, false) sb)).
Proof.
  unfold schema_step. destruct (C19.Spec.is_empty sa); [now rewrite orb_false_r|].
  destruct (C19.Spec.is_empty sb); [now rewrite orb_false_r|].
  destruct (bytes_eqb sa sb); cbn; [now rewrite orb_false_r | now rewrite orb_true_r].
Qed.

Lemma detect_loop_schema ds : forall cur i c0, wf_res cur -> Forall (fun d => wf_ores (d_res d)) ds ->
  (r_schema (fst (detect_loop cur ds i)), c0 || existsb is_conflict (snd (detect_loop cur ds i))) =
  fold_left schema_step (map (fun d => oschema (d_res d)) (filter accepted ds)) (r_schema cur, c0).
Proof.
  induction ds as [|d r IH]; intros cur i c0 Hc Hds; [cbn; now rewrite orb_false_r|].
  inversion Hds as [|? ? Hd Hr]; subst. cbn [detect_loop filter]. unfold accepted.
  destruct (d_absent d); cbn [negb andb]; [now apply IH|].
  assert (Step : forall e, e <> DOther -> d_err d = e ->
    (r_schema (fst (let '(m, me) := merge (Some cur) (d_res d) in
       let cur' := match m with Some x => x | None => cur end in
       let '(out, es) := detect_loop cur' r (i + 1) in
       (out, match e with DNil => [] | _ => [EDet i] end ++ match me with MConflict => [EConflict] | MOk => [] end ++ es))),
     c0 || existsb is_conflict (snd (let '(m, me) := merge (Some cur) (d_res d) in
       let cur' := match m with Some x => x | None => cur end in
       let '(out, es) := detect_loop cur' r (i + 1) in
       (out, match e with DNil => [] | _ => [EDet i] end ++ match me with MConflict => [EConflict] | MOk => [] end ++ es)))) =
    fold_left schema_step (map (fun d => oschema (d_res d)) (filter accepted r)) (schema_step (r_schema cur, c0) (oschema (d_res d)))).
  { intros e He _. pose proof (merge_schema_step (Some cur) (d_res d)) as MS.
    pose proof (merge_wf (Some cur) (d_res d) Hc Hd) as [Wm Nm].
    destruct (merge (Some cur) (d_res d)) as [m me]. cbn [fst snd oschema] in *.
    destruct m as [x|]; [|congruence].
    specialize (IH x (i + 1) (c0 || conflict_of me) Wm Hr).
    destruct (detect_loop x r (i + 1)) as [out es]. cbn [fst snd] in *.
    rewrite schema_step_flag, <- MS. cbn [fst snd oschema]. rewrite <- IH. f_equal.
    rewrite !existsb_app. destruct e; try congruence; destruct me; cbn; now rewrite ?orb_false_r, ?orb_true_r, ?orb_assoc. }
  destruct (d_err d) eqn:E; cbn [map fold_left].
  - apply (Step DNil); [discriminate|reflexivity].
  - apply (Step DPartial); [discriminate|reflexivity].
  - specialize (IH cur (i + 1) c0 Hc Hr). destruct (detect_loop cur r (i + 1)) as [out es]. cbn [fst snd] in *. exact IH.
Qed.

Lemma detect_schema s0 ds : Forall (fun d => wf_ores (d_res d)) ds ->
  let '(e, c) := schema_fold s0 (map (fun d => oschema (d_res d)) (filter accepted ds)) in
  existsb is_conflict (snd (detect s0 ds)) = c /\ r_schema (fst (detect s0 ds)) = if c then [] else e.
Proof.
  intro H. unfold schema_fold, detect.
  assert (W0 : wf_res {| r_attrs := []; r_schema := s0 |}) by (split; [exact I|reflexivity]).
  pose proof (detect_loop_schema ds _ 0 false W0 H) as L. cbn [r_schema orb] in L.
  destruct (detect_loop {| r_attrs := []; r_schema := s0 |} ds 0) as [out es]. cbn [fst snd] in L.
  destruct (fold_left schema_step _ (s0, false)) as [e c]. inversion L as [[L1 L2]]. cbn [snd].
  split; [reflexivity|]. destruct (existsb is_conflict es); reflexivity.
Qed.

(** * Schema URL of a triple: for which URLs the grouping does not matter *)
Definition schema2 (x y : bytes) : bytes := fst (schema_step (x, false) y).

Lemma merge_oschema a b : oschema (fst (merge a b)) = schema2 (oschema a) (oschema b).
Proof. unfold schema2. now rewrite <- merge_schema_step. Qed.

Lemma schema2_nil_l y : schema2 [] y = y.
Proof. reflexivity. Qed.
Lemma schema2_nil_r x : schema2 x [] = x.
Proof. destruct x; reflexivity. Qed.
Lemma schema2_ne x y : x <> [] -> y <> [] -> schema2 x y = if bytes_eqb x y then x else [].
Proof. intros Hx Hy. destruct x; [congruence|]. destruct y; [congruence|]. unfold schema2, schema_step. cbn [C19.Spec.is_empty]. now destruct (bytes_eqb _ _). Qed.

Lemma schema2_assoc_iff x y z :
  schema2 (schema2 x y) z = schema2 x (schema2 y z) <-> schema_assoc_cond x y z = true.
Proof.
  unfold schema_assoc_cond.
  destruct (C19.Spec.is_empty x) eqn:Ex; [apply spec_is_empty in Ex; subst; cbn [orb]; rewrite !schema2_nil_l; tauto|].
  destruct (C19.Spec.is_empty y) eqn:Ey; [apply spec_is_empty in Ey; subst; cbn [orb]; rewrite schema2_nil_l, schema2_nil_r; tauto|].
  destruct (C19.Spec.is_empty z) eqn:Ez; [apply spec_is_empty in Ez; subst; cbn [orb]; rewrite !schema2_nil_r; tauto|].
  cbn [orb].
  assert (Nx : x <> []) by (intro H; subst; discriminate).
  assert (Ny : y <> []) by (intro H; subst; discriminate).
  assert (Nz : z <> []) by (intro H; subst; discriminate).
  rewrite (schema2_ne x y Nx Ny), (schema2_ne y z Ny Nz).
  destruct (bytes_eqb x y) eqn:Exy, (bytes_eqb y z) eqn:Eyz.
  - apply bytes_eqb_eq in Exy, Eyz. subst. rewrite (schema2_ne z z Nz Nz), bytes_eqb_refl. tauto.
  - apply bytes_eqb_eq in Exy. subst y. rewrite (schema2_ne x z Nx Nz), Eyz, schema2_nil_r.
    split; [intro H; symmetry in H; contradiction | discriminate].
  - apply bytes_eqb_eq in Eyz. subst z. rewrite schema2_nil_l, (schema2_ne x y Nx Ny), Exy.
    split; [intro H; contradiction | discriminate].
  - rewrite schema2_nil_l, schema2_nil_r. destruct (bytes_eqb x z) eqn:Exz.
    + apply bytes_eqb_eq in Exz. split; [reflexivity | intros _; congruence].
    + apply bytes_eqb_neq in Exz. split; [intro H; symmetry in H; contradiction | discriminate].
Qed.

(** Merge is associative on the schema URL exactly for these triples (no well-formedness needed). *)
Lemma merge_schema_assoc_iff a b c :
  oschema (fst (merge (fst (merge a b)) c)) = oschema (fst (merge a (fst (merge b c)))) <->
  schema_assoc_cond (oschema a) (oschema b) (oschema c) = true.
Proof. rewrite !merge_oschema. apply schema2_assoc_iff. Qed.
