(** C19 model: sdk/resource.  A Resource is an attribute set (C05 model) plus a
    schema URL; a nil *Resource is [None].  Mirrors resource.go (NewSchemaless,
    NewWithAttributes, Merge, Equal/Equivalent), env.go (fromEnv.Detect,
    constructOTResources), auto.go (detect) and config.go (WithAttributes as a
    detector).  Executable definitions only. *)
From Verif Require Import Lib.Base C05.Types C05.Model.
Open Scope N_scope.

Record res := { r_attrs : list kv; r_schema : bytes }.
Definition empty_res : res := {| r_attrs := []; r_schema := [] |}.

(** KeyValue.Valid: Key.Defined (non-empty) and Value.Type() != INVALID. *)
Definition kv_valid (x : kv) : bool :=
  match fst x with [] => false | _ => true end && negb (vtype (snd x) =? 0).

(** NewSchemaless: NewSetWithFiltered(attrs, Valid); an empty result is the empty resource. *)
Definition new_schemaless (attrs : list kv) : res :=
  {| r_attrs := ns_set (new_set_filtered attrs (Some kv_valid)); r_schema := [] |}.

Definition new_with_attributes (url : bytes) (attrs : list kv) : res :=
  {| r_attrs := r_attrs (new_schemaless attrs); r_schema := url |}.

Inductive merr := MOk | MConflict.

Definition is_empty (s : bytes) : bool := match s with [] => true | _ => false end.

(** Merge(a, b): merge-iterate b over a (b's values win), rebuild, then the schema URL cases. *)
Definition merge (a b : option res) : option res * merr :=
  match a, b with
  | None, None => (Some empty_res, MOk)
  | None, Some _ => (b, MOk)
  | Some _, None => (a, MOk)
  | Some ra, Some rb =>
      let combine := merge_iter (r_attrs rb) (r_attrs ra) in
      if is_empty (r_schema ra) then (Some (new_with_attributes (r_schema rb) combine), MOk)
      else if is_empty (r_schema rb) then (Some (new_with_attributes (r_schema ra) combine), MOk)
      else if bytes_eqb (r_schema ra) (r_schema rb) then (Some (new_with_attributes (r_schema ra) combine), MOk)
      else (Some (new_schemaless combine), MConflict)
  end.

(** Observables of a possibly-nil resource. *)
Definition oattrs (r : option res) : list kv := match r with Some x => r_attrs x | None => [] end.
Definition oschema (r : option res) : bytes := match r with Some x => r_schema x | None => [] end.

(** Equal / Equivalent: the attribute sets' Distincts (the schema URL takes no part). *)
Definition res_equal (a b : option res) : bool := distinct_eq (oattrs a) (oattrs b).
Definition res_key_hit (a b : option res) : bool := distinct_eq (oattrs a) (oattrs b).

(** *** env.go *)

(** strings.Split(s, sep) for a one-byte separator ("" gives [""]). *)
Fixpoint split_on (sep : N) (s : bytes) : list bytes :=
  match s with
  | [] => [[]]
  | c :: r => if c =? sep then [] :: split_on sep r
              else match split_on sep r with
                   | p :: ps => (c :: p) :: ps
                   | [] => [[c]]
                   end
  end.

(** strings.Cut(s, sep): (before, after, found). *)
Fixpoint cut (sep : N) (s : bytes) : bytes * bytes * bool :=
  match s with
  | [] => ([], [], false)
  | c :: r => if c =? sep then ([], r, true)
              else let '(a, b, f) := cut sep r in (c :: a, b, f)
  end.

(** unicode.IsSpace, as UTF-8 byte sequences (strings.TrimSpace strips exactly these
    from both ends; a malformed sequence is not a space). *)
Definition space_seqs : list bytes :=
  [[9]; [10]; [11]; [12]; [13]; [32]; [194; 133]; [194; 160]; [225; 154; 128];
   [226; 128; 128]; [226; 128; 129]; [226; 128; 130]; [226; 128; 131]; [226; 128; 132]; [226; 128; 133];
   [226; 128; 134]; [226; 128; 135]; [226; 128; 136]; [226; 128; 137]; [226; 128; 138];
   [226; 128; 168]; [226; 128; 169]; [226; 128; 175]; [226; 129; 159]; [227; 128; 128]].

Fixpoint strip_prefix (p s : bytes) : option bytes :=
  match p, s with
  | [], _ => Some s
  | x :: p', y :: s' => if x =? y then strip_prefix p' s' else None
  | _ :: _, [] => None
  end.

Fixpoint strip_any (ps : list bytes) (s : bytes) : option bytes :=
  match ps with
  | [] => None
  | p :: r => match strip_prefix p s with Some s' => Some s' | None => strip_any r s end
  end.

Fixpoint trim_with (ps : list bytes) (fuel : nat) (s : bytes) : bytes :=
  match fuel with
  | O => s
  | S f => match strip_any ps s with Some s' => trim_with ps f s' | None => s end
  end.

Definition trim_left (s : bytes) : bytes := trim_with space_seqs (length s) s.
Definition trim_right (s : bytes) : bytes := rev (trim_with (map (@rev N) space_seqs) (length s) (rev s)).
Definition trim_space (s : bytes) : bytes := trim_right (trim_left s).

(** url.PathUnescape: every %XX (two hex digits) becomes a byte; a stray % is an error; '+' stays. *)
Definition ishex (c : N) : bool :=
  ((48 <=? c) && (c <=? 57)) || ((97 <=? c) && (c <=? 102)) || ((65 <=? c) && (c <=? 70)).
Definition unhex (c : N) : N :=
  if c <=? 57 then c - 48 else if 97 <=? c then c - 87 else c - 55.

Fixpoint path_unescape (s : bytes) : option bytes :=
  match s with
  | [] => Some []
  | c :: r =>
      if c =? 37 then
        match r with
        | a :: b :: r' =>
            if ishex a && ishex b
            then match path_unescape r' with Some t => Some ((16 * unhex a + unhex b) :: t) | None => None end
            else None
        | _ => None
        end
      else match path_unescape r with Some t => Some (c :: t) | None => None end
  end.

(** One "k=v" item of OTEL_RESOURCE_ATTRIBUTES: [None] = no '=' (reported as missing value). *)
Definition env_pair (p : bytes) : option kv :=
  let '(k, v, found) := cut 61 p in
  if found then
    let key := trim_space k in
    let val := match path_unescape (trim_space v) with Some t => t | None => v end in
    Some (key, VStr val)
  else None.

Fixpoint somes {A} (l : list (option A)) : list A :=
  match l with
  | [] => []
  | Some x :: r => x :: somes r
  | None :: r => somes r
  end.

(** constructOTResources(s): (resource, partial-resource error?) *)
Definition construct_ot_resources (s : bytes) : res * bool :=
  match s with
  | [] => (empty_res, false)
  | _ => let items := map env_pair (split_on 44 s) in
         (new_schemaless (somes items), existsb (fun o => match o with None => true | Some _ => false end) items)
  end.

Definition SERVICE_NAME_KEY : bytes := str "service.name".

(** fromEnv.Detect with OTEL_RESOURCE_ATTRIBUTES = [attrs_env], OTEL_SERVICE_NAME = [svc_env]. *)
Definition from_env (attrs_env svc_env : bytes) : option res * bool :=
  let attrs := trim_space attrs_env in
  let svc := trim_space svc_env in
  if is_empty attrs && is_empty svc then (Some empty_res, false)
  else
    let r1 := if is_empty svc then None else Some (new_schemaless [(SERVICE_NAME_KEY, VStr svc)]) in
    let '(r2, perr) := construct_ot_resources attrs in
    (fst (merge (Some r2) r1), perr).

(** *** auto.go: detect.  A scripted detector: nil, or returns (resource, error class). *)
Inductive derr := DNil | DPartial | DOther.
Record det := { d_absent : bool; d_res : option res; d_err : derr }.

Inductive etag := EDet (i : N) | EConflict.

Fixpoint detect_loop (cur : res) (ds : list det) (i : N) : res * list etag :=
  match ds with
  | [] => (cur, [])
  | d :: r =>
      if d_absent d then detect_loop cur r (i + 1)
      else match d_err d with
           | DOther => let '(out, es) := detect_loop cur r (i + 1) in (out, EDet i :: es)
           | e =>
               let '(m, me) := merge (Some cur) (d_res d) in
               let cur' := match m with Some x => x | None => cur end in
               let '(out, es) := detect_loop cur' r (i + 1) in
               (out, match e with DNil => [] | _ => [EDet i] end ++
                     match me with MConflict => [EConflict] | MOk => [] end ++ es)
           end
  end.

Definition is_conflict (e : etag) : bool := match e with EConflict => true | _ => false end.

(** detect(ctx, &Resource{schemaURL: s0}, detectors): New(WithSchemaURL(s0), WithDetectors(...)); Detect is s0 = "". *)
Definition detect (s0 : bytes) (ds : list det) : res * list etag :=
  let '(out, es) := detect_loop {| r_attrs := []; r_schema := s0 |} ds 0 in
  (if existsb is_conflict es then {| r_attrs := r_attrs out; r_schema := [] |} else out, es).
