(** C19 property theorems: statements closed by lemmas of Proofs.v, axiom audit,
    non-vacuity examples.  All quantify over every (well-formed = API-constructible)
    resource, nil included, every attribute list, every byte string, every detector list. *)
From Verif Require Import Lib.Base C05.Types C05.Spec C05.Model C05.Proofs C19.Spec C19.Model C19.Proofs.
Open Scope N_scope.

(** Every resource the constructors build is well formed, so the theorems below apply to it. *)
Theorem c19_constructed_wf : forall url input,
  wf_res (new_schemaless input) /\ wf_res (new_with_attributes url input) /\ wf_res empty_res.
Proof. intros. split; [apply new_schemaless_wf|]. split; [apply new_with_attributes_wf|]. split; [exact I|reflexivity]. Qed.
Print Assumptions c19_constructed_wf.

Theorem c19_merge_closed : forall a b, wf_ores a -> wf_ores b ->
  wf_ores (fst (merge a b)) /\ fst (merge a b) <> None.
Proof. exact merge_wf. Qed.
Print Assumptions c19_merge_closed.

(** Merge(a, b) holds exactly the union of the attributes, b's value on shared keys. *)
Theorem c19_merge_union_right_biased : forall a b, wf_ores a -> wf_ores b ->
  UnionRightBiased (oattrs a) (oattrs b) (oattrs (fst (merge a b))).
Proof. exact merge_union. Qed.
Print Assumptions c19_merge_union_right_biased.

(** nil and the empty resource are two-sided identities (attributes, schema URL, no error). *)
Theorem c19_merge_identity : forall a e, wf_ores a -> is_unit e ->
  (oattrs (fst (merge a e)) = oattrs a /\ oschema (fst (merge a e)) = oschema a /\ snd (merge a e) = MOk) /\
  (oattrs (fst (merge e a)) = oattrs a /\ oschema (fst (merge e a)) = oschema a /\ snd (merge e a) = MOk).
Proof. exact merge_identity. Qed.
Print Assumptions c19_merge_identity.

(** Associative on attributes, whatever the schema URLs (conflicts included) and nil operands. *)
Theorem c19_merge_assoc_attrs : forall a b c, wf_ores a -> wf_ores b -> wf_ores c ->
  oattrs (fst (merge (fst (merge a b)) c)) = oattrs (fst (merge a (fst (merge b c)))).
Proof. exact merge_assoc_attrs. Qed.
Print Assumptions c19_merge_assoc_attrs.

(** The schema URL of a triple is independent of the grouping exactly when one of the URLs is empty or
    the outer two are equal; for every other triple (three non-empty URLs, first <> third) the two
    groupings give different URLs.  No well-formedness needed. *)
Theorem c19_schema_assoc_iff : forall a b c,
  oschema (fst (merge (fst (merge a b)) c)) = oschema (fst (merge a (fst (merge b c)))) <->
  schema_assoc_cond (oschema a) (oschema b) (oschema c) = true.
Proof. exact merge_schema_assoc_iff. Qed.
Print Assumptions c19_schema_assoc_iff.

Theorem c19_schema_assoc_refuted : exists a b c,
  oschema (fst (merge (fst (merge a b)) c)) <> oschema (fst (merge a (fst (merge b c)))).
Proof.
  exists (Some (new_with_attributes (str "x") [])), (Some (new_with_attributes (str "y") [])), (Some (new_with_attributes (str "z") [])).
  vm_compute. discriminate.
Qed.
Print Assumptions c19_schema_assoc_refuted.

Theorem c19_merge_idempotent : forall r, wf_res r -> merge (Some r) (Some r) = (Some r, MOk).
Proof. exact merge_idempotent. Qed.
Print Assumptions c19_merge_idempotent.

(** Schema URL: the non-empty one, the common one, or empty with a conflict error; holds for all
    operands (no well-formedness needed), and a conflict never costs an attribute. *)
Theorem c19_schema_cases : forall a b,
  SchemaRule (oschema a) (oschema b) (oschema (fst (merge a b))) (conflict_of (snd (merge a b))).
Proof. exact merge_schema. Qed.
Print Assumptions c19_schema_cases.

Theorem c19_merge_never_loses_attributes : forall a b k v, wf_ores a -> wf_ores b ->
  In (k, v) (oattrs b) \/ (In (k, v) (oattrs a) /\ assoc k (oattrs b) = None) ->
  In (k, v) (oattrs (fst (merge a b))).
Proof. exact merge_keeps_all. Qed.
Print Assumptions c19_merge_never_loses_attributes.

(** A resource built from an attribute list holds exactly the valid last bindings. *)
Theorem c19_valid_keys_only : forall input,
  FromAttrs input (r_attrs (new_schemaless input)) /\
  forallb valid_kv (r_attrs (new_schemaless input)) = true.
Proof. intro input. split; [apply new_schemaless_from_attrs | apply new_schemaless_wf]. Qed.
Print Assumptions c19_valid_keys_only.

(** OTEL_RESOURCE_ATTRIBUTES "k=" ++ percent-encoding of v yields k -> v, for every byte string v and
    every choice of which bytes to escape (as long as the literal ones are printable, not '%' or ','). *)
Theorem c19_env_percent_lossless : forall must k v,
  k <> [] -> forallb key_byte k = true -> Forall (fun c => c < 256) v ->
  (forall c, In c v -> must c = false -> c <> 37 -> literal_ok c = true) ->
  construct_ot_resources (k ++ [61] ++ pct_encode must v) =
  ({| r_attrs := [(k, VStr v)]; r_schema := [] |}, false).
Proof. exact env_percent_lossless. Qed.
Print Assumptions c19_env_percent_lossless.

(** A whole list: any number of clean pairs joined by ',' is read back as the resource built from
    those pairs (duplicates resolved last-wins), with no error. *)
Theorem c19_env_list_roundtrip : forall must l, Forall (clean_pair must) l ->
  construct_ot_resources (join [44] (map (render_pair must) l)) =
  (new_schemaless (map (fun p => (fst p, VStr (snd p))) l), false).
Proof. exact env_list_roundtrip. Qed.
Print Assumptions c19_env_list_roundtrip.

Theorem c19_percent_decode_inverts_encode : forall must v, Forall (fun c => c < 256) v ->
  path_unescape (pct_encode must v) = Some v.
Proof. exact path_unescape_pct. Qed.
Print Assumptions c19_percent_decode_inverts_encode.

(** OTEL_SERVICE_NAME (trimmed, non-empty) is service.name whatever OTEL_RESOURCE_ATTRIBUTES says; all
    other keys come from OTEL_RESOURCE_ATTRIBUTES; without it the attributes are those of the list. *)
Theorem c19_service_name_precedence : forall a s,
  (trim_space s <> [] ->
     assoc SERVICE_NAME (oattrs (fst (from_env a s))) = Some (VStr (trim_space s)) /\
     forall k, k <> SERVICE_NAME ->
       assoc k (oattrs (fst (from_env a s))) = assoc k (r_attrs (fst (construct_ot_resources (trim_space a))))) /\
  (trim_space s = [] ->
     oattrs (fst (from_env a s)) = r_attrs (fst (construct_ot_resources (trim_space a))) /\
     snd (from_env a s) = snd (construct_ot_resources (trim_space a))) /\
  (forall x, In x (oattrs (fst (from_env a s))) -> valid_kv x = true).
Proof.
  intros a s. split; [apply from_env_service_name|]. split; [apply from_env_no_service_name | apply from_env_valid].
Qed.
Print Assumptions c19_service_name_precedence.

(** detect: the attributes are those of the accepted detectors (no error, or a partial-resource
    error) applied in order, later ones winning; detectors failing otherwise are skipped; every
    detector error is collected; a schema conflict leaves the schema URL empty. *)
Theorem c19_detect_later_wins : forall s0 ds, Forall (fun d => wf_ores (d_res d)) ds ->
  let out := detect s0 ds in
  wf_res (fst out) /\
  (forall k, assoc k (r_attrs (fst out)) =
             later_wins (map (fun d => oattrs (d_res d)) (filter accepted ds)) k) /\
  edets (snd out) = error_indices ds 0 /\
  (existsb is_conflict (snd out) = true -> r_schema (fst out) = []).
Proof. exact detect_spec. Qed.
Print Assumptions c19_detect_later_wins.

(** ... and its schema URL is the merge rule folded over the accepted detectors' URLs, starting from the
    configured one; empty as soon as two non-empty URLs differed (and exactly then a conflict is reported). *)
Theorem c19_detect_schema : forall s0 ds, Forall (fun d => wf_ores (d_res d)) ds ->
  let '(e, c) := schema_fold s0 (map (fun d => oschema (d_res d)) (filter accepted ds)) in
  existsb is_conflict (snd (detect s0 ds)) = c /\ r_schema (fst (detect s0 ds)) = if c then [] else e.
Proof. exact detect_schema. Qed.
Print Assumptions c19_detect_schema.

(** Equal is agreement of the Equivalent() identities; on regular values it is equality of attributes. *)
Theorem c19_equal_same_identity : forall a b,
  res_equal a b = res_key_hit a b /\
  (wf_ores a -> wf_ores b -> kvs_regular (oattrs a) = true -> kvs_regular (oattrs b) = true ->
   (res_equal a b = true <-> oattrs a = oattrs b)).
Proof. intros a b. split; [reflexivity | apply res_equal_regular]. Qed.
Print Assumptions c19_equal_same_identity.

Theorem c19_checkers_sound :
  (forall a b m, union_ok a b m = true -> UnionRightBiased a b m) /\
  (forall sa sb s c, schema_ok sa sb s c = true -> SchemaRule sa sb s c) /\
  (forall input out, from_attrs_ok input out = true -> FromAttrs input out).
Proof. split; [exact union_ok_sound|]. split; [exact schema_ok_sound | exact from_attrs_ok_sound]. Qed.
Print Assumptions c19_checkers_sound.

(** Non-vacuity. *)
Definition ex_a : res := new_with_attributes (str "https://a") [(str "k", VStr (str "1")); (str "", VStr (str "dropped")); (str "j", VInt 7)].
Definition ex_b : res := new_with_attributes (str "https://b") [(str "k", VStr (str "2")); (str "z", VInvalid); (str "m", VBool true)].
Example ex_merge_conflict :
  merge (Some ex_a) (Some ex_b) =
  (Some {| r_attrs := [(str "j", VInt 7); (str "k", VStr (str "2")); (str "m", VBool true)]; r_schema := [] |}, MConflict).
Proof. vm_compute. reflexivity. Qed.
Example ex_wf : wf_res ex_a /\ wf_res ex_b /\ r_attrs ex_a <> [] /\ is_unit None /\ is_unit (Some empty_res).
Proof.
  split; [apply new_with_attributes_wf|]. split; [apply new_with_attributes_wf|].
  split; [discriminate|]. split; [now left | now right].
Qed.
Example ex_env :
  from_env (str " a=1%2C2 , b = x%ZZ,novalue,service.name=ignored,  =v") (str " svc ") =
  (Some {| r_attrs := [(str "a", VStr (str "1,2")); (str "b", VStr (str " x%ZZ")); (str "service.name", VStr (str "svc"))];
           r_schema := [] |}, true).
Proof. vm_compute. reflexivity. Qed.
Definition ex_must (c : N) : bool := (c <? 33) || (126 <? c) || (c =? 44).
Definition ex_v : bytes := [0; 255; 37; 44; 61; 32; 97].
Example ex_lossless_hyps :
  (forall c, In c ex_v -> ex_must c = false -> c <> 37 -> literal_ok c = true) /\ Forall (fun c => c < 256) ex_v /\
  pct_encode ex_must ex_v = str "%00%FF%25%2C=%20a".
Proof.
  split; [|split; [unfold ex_v; repeat (apply Forall_cons; [reflexivity|]); apply Forall_nil|vm_compute; reflexivity]]. intros c H Hm H37. unfold ex_v in H. cbn [In] in H.
  repeat (destruct H as [<-|H]; [vm_compute in Hm; try discriminate Hm; try congruence; reflexivity|]). destruct H.
Qed.
Example ex_detect :
  let ds := [ {| d_absent := false; d_res := Some ex_a; d_err := DNil |};
              {| d_absent := true; d_res := None; d_err := DNil |};
              {| d_absent := false; d_res := Some ex_b; d_err := DOther |};
              {| d_absent := false; d_res := Some ex_b; d_err := DPartial |} ] in
  detect [] ds =
  ({| r_attrs := [(str "j", VInt 7); (str "k", VStr (str "2")); (str "m", VBool true)]; r_schema := [] |},
   [EDet 2; EDet 3; EConflict]).
Proof. vm_compute. reflexivity. Qed.
