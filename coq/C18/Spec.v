(** C18 specification: what a scrape must expose for an instrument, stated on
    inputs and observations only (instrument name, unit, kind, exporter options,
    attribute sets, SDK data points / exposed family name, label pairs, buckets).
    Nothing here refers to C18.Model. *)
From Coq Require Import Permutation Sorted.
From Verif Require Import Lib.Base C18.Str.
Open Scope N_scope.

(** ** alphabets *)
Definition alpha (c : N) : bool := ((65 <=? c) && (c <=? 90)) || ((97 <=? c) && (c <=? 122)).
Definition digit (c : N) : bool := (48 <=? c) && (c <=? 57).

(** Instrument names admitted by the metrics API: [[A-Za-z][A-Za-z0-9_.\-/]{0,254}]. *)
Definition api_rest_char (c : N) : bool :=
  alpha c || digit c || (c =? 95) || (c =? 46) || (c =? 45) || (c =? 47).
Definition api_name (s : bytes) : bool :=
  match s with
  | [] => false
  | c :: r => alpha c && forallb api_rest_char r && (length r <=? 254)%nat
  end.

(** Prometheus legacy metric names [[a-zA-Z_:][a-zA-Z0-9_:]*] and label names [[a-zA-Z_][a-zA-Z0-9_]*]. *)
Definition name_first (c : N) : bool := alpha c || (c =? 95) || (c =? 58).
Definition name_rest (c : N) : bool := name_first c || digit c.
Definition metric_name_legal (s : bytes) : bool :=
  match s with [] => false | c :: r => name_first c && forallb name_rest r end.

Definition label_first (c : N) : bool := alpha c || (c =? 95).
Definition label_rest (c : N) : bool := label_first c || digit c.
Definition label_name_legal (s : bytes) : bool :=
  match s with [] => false | c :: r => label_first c && forallb label_rest r end.

(** A delimiter: anything that is not a letter, a digit or a colon. *)
Definition delimiter (c : N) : bool := negb (alpha c || digit c || (c =? 58)).

(** Sanitisation as the OpenTelemetry -> Prometheus compatibility rules word it:
    every character outside the legal alphabet (a leading digit included) becomes '_'. *)
Definition sanitise (s : list N) : bytes :=
  match s with
  | [] => []
  | c :: r => (if name_first c then c else 95) :: map (fun c => if name_rest c then c else 95) r
  end.

(** ** unit words (UCUM code -> Prometheus unit word) *)
Definition unit_words : list (bytes * bytes) :=
  [ (str "d", str "days"); (str "h", str "hours"); (str "min", str "minutes"); (str "s", str "seconds");
    (str "ms", str "milliseconds"); (str "us", str "microseconds"); (str "ns", str "nanoseconds");
    (str "By", str "bytes"); (str "KiBy", str "kibibytes"); (str "MiBy", str "mebibytes");
    (str "GiBy", str "gibibytes"); (str "TiBy", str "tibibytes"); (str "KBy", str "kilobytes");
    (str "MBy", str "megabytes"); (str "GBy", str "gigabytes"); (str "TBy", str "terabytes");
    (str "m", str "meters"); (str "V", str "volts"); (str "A", str "amperes"); (str "J", str "joules");
    (str "W", str "watts"); (str "g", str "grams"); (str "Cel", str "celsius"); (str "Hz", str "hertz");
    (str "1", str "ratio"); (str "%", str "percent") ].

Definition unit_word (u : bytes) : option bytes :=
  match find (fun p => bytes_eqb (fst p) u) unit_words with
  | Some p => Some (snd p)
  | None => None
  end.

(** ** names *)
Record name_input := {
  ni_utf8 : bool;             (* UTF-8 name validation: names are exposed unescaped *)
  ni_no_units : bool;         (* WithoutUnits *)
  ni_no_total : bool;         (* WithoutCounterSuffixes *)
  ni_ns : option (list N);    (* WithNamespace *)
  ni_name : bytes;
  ni_unit : bytes;
  ni_counter : bool           (* monotonic sum *)
}.

Definition TOTAL : bytes := str "total".
Definition U_TOTAL : bytes := str "_total".

(** The configured namespace prefix: sanitised, exactly one '_' between it and the name. *)
Definition spec_ns (i : name_input) : bytes :=
  match ni_ns i with
  | None => []
  | Some ns =>
      let ns := if ni_utf8 i then ns else sanitise ns in
      if has_suffix ns [95] then ns else ns ++ [95]
  end.

Definition spec_word (i : name_input) : option bytes :=
  if ni_no_units i then None else unit_word (ni_unit i).

Definition adds_total (i : name_input) : bool := ni_counter i && negb (ni_no_total i).

(** What must end the exposed name: the unit word, then the counter suffix, as configured. *)
Definition spec_tail (i : name_input) : bytes :=
  (match spec_word i with Some w => w | None => [] end) ++ (if adds_total i then U_TOTAL else []).

(** The unit part appended to [b]: nothing when [b] already ends with the unit word. *)
Definition unit_part (i : name_input) (b : bytes) : bytes :=
  match spec_word i with
  | Some w => if has_suffix b w then [] else 95 :: w
  | None => []
  end.

Definition last_clean (s : bytes) : bool :=
  match rev s with [] => false | c :: _ => negb (delimiter c) end.

(** [Some x] when [n = x ++ [d] ++ "total"] for a delimiter [d] (the name already carries the counter suffix). *)
Definition carried_total (n : bytes) : option bytes :=
  if has_suffix n TOTAL then
    match rev (firstn (length n - 5) n) with
    | d :: rx => if delimiter d then Some (rev rx) else None
    | [] => None
    end
  else None.

(** The clauses on the exposed name [r]:
    - legal under legacy validation;
    - starts with the namespace;
    - ends with the unit word followed by [_total], as configured;
    - nothing doubled: a name already carrying [<delimiter>total] gets exactly one [_total], after the
      unit; a name already ending with the unit word gets no second one; and on every name of the plain
      shapes (not a counter, or ending in a letter / digit and not in "total") the result is exactly
      namespace ++ name ++ unit part ++ counter suffix. *)
Definition name_legal_ok (i : name_input) (r : bytes) : bool := ni_utf8 i || metric_name_legal r.
Definition name_prefix_ok (i : name_input) (r : bytes) : bool := has_prefix r (spec_ns i).
Definition name_tail_ok (i : name_input) (r : bytes) : bool := has_suffix r (spec_tail i).
Definition name_exact_ok (i : name_input) (r : bytes) : bool :=
  let n := if ni_utf8 i then ni_name i else sanitise (ni_name i) in
  let ns := spec_ns i in
  if adds_total i then
    match carried_total n with
    | Some x => bytes_eqb r (ns ++ x ++ unit_part i (ns ++ x) ++ U_TOTAL)
    | None =>
        if negb (has_suffix n TOTAL) && last_clean n
        then bytes_eqb r (ns ++ n ++ unit_part i (ns ++ n) ++ U_TOTAL)
        else true
    end
  else bytes_eqb r (ns ++ n ++ unit_part i (ns ++ n)).

Definition name_ok (i : name_input) (r : bytes) : bool :=
  name_legal_ok i r && name_prefix_ok i r && name_tail_ok i r && name_exact_ok i r.

(** Family type per instrument kind (0 counter, 1 up-down counter, 2 gauge, 3 histogram):
    dto.MetricType COUNTER = 0, GAUGE = 1, HISTOGRAM = 4. *)
Definition type_ok (kind ftype : N) : bool :=
  match kind with
  | 0 => ftype =? 0
  | 1 | 2 => ftype =? 1
  | _ => ftype =? 4
  end.

(** ** labels *)
Definition attr := (bytes * bytes)%type.

Definition san_vals (k : bytes) (input : list attr) : list bytes :=
  map snd (filter (fun kv => bytes_eqb (sanitise (fst kv)) k) input).

Definition key_plain (k : bytes) : bool :=
  negb (Nat.eqb (length k) 0) && negb (existsb (N.eqb 58) k).

(** Legacy validation: label names strictly increasing (so pairwise distinct), every attribute key
    represented by its sanitised form, every label the sorted ';'-join of the values of all attributes
    sanitising to it, every label name legal (for keys that are non-empty and free of ':').
    UTF-8 validation: the labels are the attributes. *)
Definition labels_ok (utf8 : bool) (input out : list attr) : bool :=
  if utf8 then
    (length input =? length out)%nat &&
    forallb (fun kv => existsb (fun kv' => bytes_eqb (fst kv) (fst kv') && bytes_eqb (snd kv) (snd kv')) out) input
  else
    strictly_sorted (map fst out) &&
    forallb (fun kv => existsb (bytes_eqb (sanitise (fst kv))) (map fst out)) input &&
    forallb (fun kv => let vs := san_vals (fst kv) input in
                       negb (Nat.eqb (length vs) 0) && bytes_eqb (snd kv) (join [59] (isort vs))) out &&
    (negb (forallb (fun kv => key_plain (fst kv)) input) || forallb (fun kv => label_name_legal (fst kv)) out).

(** Prop reading of the legacy clause. *)
Definition Labels_merged (input out : list attr) : Prop :=
  NoDup (map fst out) /\
  (forall k, In k (map fst out) <-> exists kv, In kv input /\ sanitise (fst kv) = k) /\
  (forall k v, In (k, v) out ->
     exists vs, Permutation vs (san_vals k input) /\ Sorted leb_rel vs /\ v = join [59] vs) /\
  ((forall kv, In kv input -> key_plain (fst kv) = true) ->
   forall kv, In kv out -> label_name_legal (fst kv) = true).

(** ** histograms *)
Fixpoint sum_n (l : list N) : N := match l with [] => 0 | c :: r => c + sum_n r end.

(** Exposed bucket k (upper bound [bounds_k]) holds the sum of the first k+1 bucket counts; the sample
    count (the +Inf bucket) is the data point's count and the sum of all bucket counts; the sum is the sum. *)
Definition hist_ok (bounds : list Z) (counts : list N) (count : N) (sum : Z)
                   (obuckets : list (Z * N)) (ocount : N) (osum : Z) : bool :=
  list_eqb Z.eqb (map fst obuckets) bounds &&
  list_eqb N.eqb (map snd obuckets)
                 (map (fun k => sum_n (firstn (S k) counts)) (seq 0 (length bounds))) &&
  (ocount =? count) && (ocount =? sum_n counts) && (osum =? sum)%Z.

Definition Hist_cumulative (bounds : list Z) (counts : list N) (obuckets : list (Z * N)) (ocount : N) : Prop :=
  map fst obuckets = bounds /\
  (forall k, (k < length bounds)%nat -> nth k (map snd obuckets) 0 = sum_n (firstn (S k) counts)) /\
  ocount = sum_n counts.

(** ** exponential histograms: the exposed native-histogram buckets (index -> count, positive and negative
    range separately) are the SDK's buckets with the index shifted by one; empty buckets do not matter. *)
Definition nonzero (l : list (Z * N)) : list (Z * N) := filter (fun p => negb (snd p =? 0)) l.

Definition expo_expected (offset : Z) (counts : list N) : list (Z * N) :=
  combine (map (fun i => (offset + 1 + Z.of_nat i)%Z) (seq 0 (length counts))) counts.

Definition bucket_eqb (p q : Z * N) : bool := (fst p =? fst q)%Z && (snd p =? snd q).

Definition expo_side_ok (offset : Z) (counts : list N) (obs : list (Z * N)) : bool :=
  list_eqb bucket_eqb (nonzero obs) (nonzero (expo_expected offset counts)).

Definition expo_ok (scale : Z) (zero_count : N) (poff : Z) (pcounts : list N) (noff : Z) (ncounts : list N)
                   (count : N) (sum : Z)
                   (oschema : Z) (ozero : N) (opos oneg : list (Z * N)) (ocount : N) (osum : Z) : bool :=
  (oschema =? scale)%Z && (ozero =? zero_count) && expo_side_ok poff pcounts opos && expo_side_ok noff ncounts oneg &&
  (ocount =? count) && (osum =? sum)%Z.

(** ** info series *)
Definition info_ok (no_target no_scope : bool) (target_present scope_present : bool) : bool :=
  Bool.eqb target_present (negb no_target) && Bool.eqb scope_present (negb no_scope).

(** ** exemplars (a judge on the exporter's output; there is no theorem about exemplars).
    An SDK exemplar: the attributes the view filtered out (keys as code points) and the measured value; an
    exposed exemplar: its label pairs and value.  Prometheus limits an exemplar's labels to 128 runes in total
    (trace_id and span_id included, 63 runes); when some exemplar of a data point cannot be represented, the
    series is exposed without exemplars.  Otherwise at least one exemplar is exposed and every exposed one
    carries the span's trace_id / span_id, the value of one of the SDK's exemplars and exactly that exemplar's
    filtered attributes under sanitised names. *)
Definition sdk_ex := (list attr * Z)%type.
Definition out_ex := (list attr * Z)%type.

Definition ex_runes (e : sdk_ex) : nat :=
  fold_right (fun kv n => (length (fst kv) + length (snd kv) + n)%nat) 63%nat (fst e).

Definition ex_unrepresentable (e : sdk_ex) : bool :=
  (128 <? ex_runes e)%nat || negb (forallb (fun kv => label_name_legal (sanitise (fst kv))) (fst e)).

Definition has_label (k v : bytes) (l : list attr) : bool :=
  existsb (fun kv => bytes_eqb (fst kv) k && bytes_eqb (snd kv) v) l.

Definition out_ex_ok (tid sid : bytes) (pex : list sdk_ex) (e : out_ex) : bool :=
  has_label (str "trace_id") tid (fst e) && has_label (str "span_id") sid (fst e) &&
  existsb (fun x => (snd x =? snd e)%Z &&
                    forallb (fun kv => has_label (sanitise (fst kv)) (snd kv) (fst e)) (fst x) &&
                    Nat.eqb (length (fst e)) (length (fst x) + 2)) pex.

Definition exemplars_ok (tid sid : bytes) (pex : list sdk_ex) (sex : list out_ex) : bool :=
  match pex with
  | [] => match sex with [] => true | _ => false end
  | _ => if existsb ex_unrepresentable pex
         then match sex with [] => true | _ => false end
         else match sex with [] => false | _ => forallb (out_ex_ok tid sid pex) sex end
  end.
