(** C18 model: the name / label / bucket translation of the Prometheus exporter
    (/repo/exporters/prometheus/exporter.go, config.go) as executable Gallina.
    Definitions only.  Strings are [list N]: bytes, and code points where the Go
    code ranges over runes ([model.EscapeName]); for the ASCII names admitted by
    the metrics API the two coincide. *)
From Verif Require Import Lib.Base C18.Str.
Open Scope N_scope.

(** ** characters *)
Definition is_lower (c : N) : bool := (97 <=? c) && (c <=? 122).
Definition is_upper (c : N) : bool := (65 <=? c) && (c <=? 90).
Definition is_digit (c : N) : bool := (48 <=? c) && (c <=? 57).
Definition UNDERSCORE : N := 95.
Definition COLON : N := 58.

(** exporter.go [convertsToUnderscore] *)
Definition converts_to_underscore (c : N) : bool :=
  negb (is_lower c) && negb (is_upper c) && negb (c =? COLON) && negb (is_digit c).

(** prometheus/common model/metric.go [isValidLegacyRune(b, i)] ([first] = (i == 0)) *)
Definition valid_legacy_rune (c : N) (first : bool) : bool :=
  is_lower c || is_upper c || (c =? UNDERSCORE) || (c =? COLON) || (is_digit c && negb first).

Fixpoint all_valid_legacy (first : bool) (s : list N) : bool :=
  match s with
  | [] => true
  | c :: r => valid_legacy_rune c first && all_valid_legacy false r
  end.

(** [IsValidLegacyMetricName] *)
Definition is_valid_legacy_metric_name (s : list N) : bool :=
  match s with [] => false | _ => all_valid_legacy true s end.

Fixpoint escape_from (first : bool) (s : list N) : bytes :=
  match s with
  | [] => []
  | c :: r => (if valid_legacy_rune c first then c else UNDERSCORE) :: escape_from false r
  end.

(** [model.EscapeName(name, UnderscoreEscaping)]: empty and already valid names are
    returned as they are, otherwise every invalid rune becomes one underscore. *)
Definition escape_name (s : list N) : bytes :=
  match s with
  | [] => []
  | _ => if is_valid_legacy_metric_name s then s else escape_from true s
  end.

(** ** unit suffixes (exporter.go [unitSuffixes]) *)
Definition unit_suffixes : list (bytes * bytes) :=
  [ (str "d", str "days"); (str "h", str "hours"); (str "min", str "minutes");
    (str "s", str "seconds"); (str "ms", str "milliseconds"); (str "us", str "microseconds");
    (str "ns", str "nanoseconds");
    (str "By", str "bytes"); (str "KiBy", str "kibibytes"); (str "MiBy", str "mebibytes");
    (str "GiBy", str "gibibytes"); (str "TiBy", str "tibibytes"); (str "KBy", str "kilobytes");
    (str "MBy", str "megabytes"); (str "GBy", str "gigabytes"); (str "TBy", str "terabytes");
    (str "m", str "meters"); (str "V", str "volts"); (str "A", str "amperes");
    (str "J", str "joules"); (str "W", str "watts"); (str "g", str "grams");
    (str "Cel", str "celsius"); (str "Hz", str "hertz"); (str "1", str "ratio");
    (str "%", str "percent") ].

Fixpoint lookup (k : bytes) (t : list (bytes * bytes)) : option bytes :=
  match t with
  | [] => None
  | (k', v) :: r => if bytes_eqb k k' then Some v else lookup k r
  end.

Definition unit_suffix (u : bytes) : option bytes := lookup u unit_suffixes.

(** ** configuration (config.go) *)
Record config := {
  utf8 : bool;                      (* model.NameValidationScheme == UTF8Validation (process global) *)
  without_units : bool;             (* WithoutUnits *)
  without_counter_suffixes : bool;  (* WithoutCounterSuffixes *)
  ns_opt : option (list N);         (* WithNamespace argument, None = option not given *)
  without_scope_info : bool;        (* WithoutScopeInfo *)
  without_target_info : bool        (* WithoutTargetInfo *)
}.

Definition COUNTER_SUFFIX : bytes := str "total".

(** config.go [WithNamespace]: escape (legacy scheme only), then make sure of one trailing '_'. *)
Definition namespace_of (c : config) : bytes :=
  match ns_opt c with
  | None => []
  | Some ns =>
      let ns := if utf8 c then ns else escape_name ns in
      if has_suffix ns [UNDERSCORE] then ns else ns ++ [UNDERSCORE]
  end.

(** ** getName *)
Inductive outcome := Crash | Name (b : bytes).

(** [s[i]]: an index outside [0, len) is a run-time panic. *)
Definition index_byte (s : bytes) (i : Z) : option N :=
  if (i <? 0)%Z then None else nth_error s (Z.to_nat i).

(** The counter branch: trim the "total" suffix, then one trailing delimiter.
    [guard] is the [len(name) > 0 &&] of the repaired code (commit 92e3033); with
    [guard = false] this is the code as it was (F-C18-1). *)
Definition trim_counter (guard : bool) (name : bytes) : outcome :=
  let name := trim_suffix name COUNTER_SUFFIX in
  let n := Z.of_nat (length name) in
  if guard && negb (0 <? n)%Z then Name name
  else
    match index_byte name (n - 1) with
    | None => Crash
    | Some b => if converts_to_underscore b then Name (firstn (length name - 1) name) else Name name
    end.

Definition get_name_gen (guard : bool) (c : config) (name unit : bytes) (is_counter : bool) : outcome :=
  let name := if utf8 c then name else escape_name name in
  let add_counter_suffix := negb (without_counter_suffixes c) && is_counter in
  match (if add_counter_suffix then trim_counter guard name else Name name) with
  | Crash => Crash
  | Name name =>
      let name := namespace_of c ++ name in
      let name :=
        match unit_suffix unit with
        | Some suffix =>
            if negb (without_units c) && negb (has_suffix name suffix)
            then name ++ [UNDERSCORE] ++ suffix else name
        | None => name
        end in
      Name (if add_counter_suffix then name ++ [UNDERSCORE] ++ COUNTER_SUFFIX else name)
  end.

(** The code in /repo (repaired). *)
Definition get_name := get_name_gen true.

(** ** metric type (exporter.go [metricType]); instrument kinds as the harness numbers them *)
Inductive kind := KCounter | KUpDown | KGauge | KHistogram.
Definition is_counter (k : kind) : bool := match k with KCounter => true | _ => false end.
(** dto.MetricType: COUNTER = 0, GAUGE = 1, HISTOGRAM = 4 *)
Definition family_type (k : kind) : N :=
  match k with KCounter => 0 | KUpDown => 1 | KGauge => 1 | KHistogram => 4 end.

(** ** getAttrs *)
Definition attr := (bytes * bytes)%type.   (* key, emitted value *)

Definition vals_of (k : bytes) (l : list attr) : list bytes :=
  map snd (filter (fun kv => bytes_eqb (fst kv) k) l).

Definition SEMI : bytes := [59].

(** Legacy scheme: [keysMap] is a Go map from escaped key to the values of the
    attributes with that escaped key, appended in iteration order; the model keeps
    its extension (key set, and per key the sub-sequence of values).  Each value
    list is sorted and joined with ';'.  Go's map order is unobservable: the
    label pairs come out of client_golang sorted by name, and so does this list.
    UTF-8 scheme: keys and values as they are. *)
Definition get_attrs (utf8_scheme : bool) (l : list attr) : list attr :=
  if utf8_scheme then l
  else
    let esc := map (fun kv => (escape_name (fst kv), snd kv)) l in
    map (fun k => (k, join SEMI (isort (vals_of k esc)))) (isort (nodup bytes_dec (map fst esc))).

(** client_golang [checkLabelName] as used by [NewDesc] (modelled, not verified):
    a valid name under the active scheme that does not start with "__".  Under the
    UTF-8 scheme validity is "non-empty valid UTF-8", assumed of the keys here. *)
Definition label_name_legacy (s : bytes) : bool :=
  match s with
  | [] => false
  | c :: r => (is_lower c || is_upper c || (c =? UNDERSCORE)) &&
              forallb (fun c => is_lower c || is_upper c || (c =? UNDERSCORE) || is_digit c) r
  end.

Definition check_label_name (utf8_scheme : bool) (s : bytes) : bool :=
  (if utf8_scheme then negb (Nat.eqb (length s) 0) else label_name_legacy s) &&
  negb (has_prefix s [UNDERSCORE; UNDERSCORE]).

(** A data point whose label set [NewDesc] rejects is reported to otel.Handle and
    left out of the scrape. *)
Definition point_exposed (utf8_scheme : bool) (labels : list attr) : bool :=
  forallb (fun kv => check_label_name utf8_scheme (fst kv)) labels.

(** ** addHistogramMetric: cumulative buckets.
    [for i, bound := range dp.Bounds { cum += dp.BucketCounts[i]; buckets[bound] = cum }]:
    [None] is the index-out-of-range panic when there are fewer counts than bounds. *)
Fixpoint cumulate (acc : N) (bounds : list Z) (counts : list N) : option (list (Z * N)) :=
  match bounds with
  | [] => Some []
  | b :: bs =>
      match counts with
      | [] => None
      | c :: cs =>
          match cumulate (acc + c) bs cs with
          | None => None
          | Some r => Some ((b, acc + c) :: r)
          end
      end
  end.

(** What a histogram data point exposes: explicit buckets, sample count (the +Inf bucket), sum. *)
Definition expose_hist (bounds : list Z) (counts : list N) (count : N) (sum : Z)
  : option (list (Z * N) * N * Z) :=
  match cumulate 0 bounds counts with
  | None => None
  | Some bs => Some (bs, count, sum)
  end.

(** ** addExponentialHistogramMetric: [buckets[int(Offset)+i+1] = Counts[i]] (Prometheus native histograms index
    buckets by their upper boundary, OpenTelemetry by the lower one), for the positive and for the negative range. *)
Fixpoint expo_buckets (offset : Z) (counts : list N) : list (Z * N) :=
  match counts with
  | [] => []
  | c :: r => ((offset + 1)%Z, c) :: expo_buckets (offset + 1)%Z r
  end.

(** ** info series and scope labels *)
Definition has_target_info (c : config) : bool := negb (without_target_info c).
Definition has_scope_info (c : config) : bool := negb (without_scope_info c).
Definition scope_labels (c : config) (scope_name scope_version : bytes) : option (bytes * bytes) :=
  if without_scope_info c then None else Some (scope_name, scope_version).

(** createInfoMetric / createScopeInfoMetric: the info series exists iff NewDesc accepts its label names;
    otherwise one error goes to otel.Handle, target_info is switched off for good, and a scope whose info
    metric cannot be built is skipped altogether (none of its instruments is exposed). *)
Definition info_labels_ok (utf8_scheme : bool) (attrs : list attr) : bool :=
  point_exposed utf8_scheme (get_attrs utf8_scheme attrs).

(** ** addExemplars (monotonic sums and explicit-bucket histograms).  [attributesToLabels] escapes every filtered
    attribute key with EscapeName (whatever the validation scheme) and adds trace_id (32 hex digits) and span_id
    (16); client_golang's newExemplar (modelled, not verified) rejects a label name that fails checkLabelName and a
    label set of more than 128 runes in total.  One rejected exemplar makes NewMetricWithExemplars fail: the
    error goes to otel.Handle and the metric is exposed without exemplars.  (Filtered keys are assumed distinct
    after escaping, values ASCII: rune counts are list lengths.) *)
Definition EXEMPLAR_MAX_RUNES : nat := 128.
Definition EXEMPLAR_ID_RUNES : nat := 8 + 32 + 7 + 16.

Definition exemplar_runes (filtered : list attr) : nat :=
  fold_right (fun kv n => (length (escape_name (fst kv)) + length (snd kv) + n)%nat) EXEMPLAR_ID_RUNES filtered.

Definition exemplar_rejected (utf8_scheme : bool) (filtered : list attr) : bool :=
  negb (forallb (fun kv => check_label_name utf8_scheme (escape_name (fst kv))) filtered) ||
  (EXEMPLAR_MAX_RUNES <? exemplar_runes filtered)%nat.
