(** C18 property theorems: statements closed by lemmas of Proofs.v, the axiom
    audit, and non-vacuity examples.

    Quantification: instrument names are byte lists satisfying [api_name] (the grammar
    [[A-Za-z][A-Za-z0-9_.\-/]{0,254}] of the metrics API; several clauses hold for every byte list and
    are stated so), units are arbitrary byte lists (in the table or not), [config] ranges over every
    combination of WithoutUnits / WithoutCounterSuffixes / WithNamespace(any string) / WithoutScopeInfo /
    WithoutTargetInfo and both name-validation schemes. *)
From Coq Require Import Permutation Sorted.
From Verif Require Import Lib.Base C18.Str C18.Model C18.Spec C18.Proofs.
Open Scope N_scope.

(** getName never indexes out of range, for any bytes at all (F-C18-1 repaired). *)
Theorem c18_name_total : forall c name unit cnt, get_name c name unit cnt <> Crash.
Proof. exact name_never_crashes. Qed.
Print Assumptions c18_name_total.

(** The code before the repair crashed exactly on the counters whose escaped name is "total". *)
Theorem c18_name_total_unguarded_refuted :
  get_name_gen false default_config (str "total") [] true = Crash /\
  forall n, trim_counter false n = Crash <-> trim_suffix n COUNTER_SUFFIX = [].
Proof. split; [apply unguarded_total_crashes | exact trim_counter_unguarded_crash]. Qed.
Print Assumptions c18_name_total_unguarded_refuted.

(** Under legacy validation the exposed name matches [[a-zA-Z_:][a-zA-Z0-9_:]*]. *)
Theorem c18_name_legal : forall c name unit cnt,
  api_name name = true -> utf8 c = false ->
  exists r, get_name c name unit cnt = Name r /\ metric_name_legal r = true.
Proof. exact name_legal_api. Qed.
Print Assumptions c18_name_legal.

(** The exposed name starts with the namespace, ends with the unit word followed by [_total] as
    configured, and nothing is doubled: a name already carrying [<delimiter>total] gets exactly one
    [_total] placed after the unit, a name already ending with the unit word gets no second one, and on
    the plain shapes the result is exactly namespace ++ name ++ unit part ++ counter suffix
    (Spec.name_exact_ok).  For every byte list.  What the code does NOT guarantee (and the
    specification therefore does not ask): "total" is trimmed without looking for a delimiter
    ("subtotal" is exposed as "sub_total"), and a name merely ending in the letters of the unit word
    ("fooseconds") counts as carrying the unit. *)
Theorem c18_name_suffixes : forall c name unit cnt r,
  get_name c name unit cnt = Name r ->
  let i := mk_input c name unit cnt in
  name_prefix_ok i r = true /\ name_tail_ok i r = true /\ name_exact_ok i r = true.
Proof. exact name_suffix_clauses. Qed.
Print Assumptions c18_name_suffixes.

(** All name clauses as the one boolean the correspondence run applies to the real exporter's output. *)
Theorem c18_name_spec : forall c name unit cnt,
  api_name name = true ->
  exists r, get_name c name unit cnt = Name r /\ name_ok (mk_input c name unit cnt) r = true.
Proof. intros c name unit cnt H. apply name_ok_model. right. now apply api_name_nonempty. Qed.
Print Assumptions c18_name_spec.

(** The model of EscapeName (underscore escaping) is the specification's sanitisation, on every rune list. *)
Theorem c18_escape_is_sanitise : forall s, escape_name s = sanitise s.
Proof. exact escape_name_sanitise. Qed.
Print Assumptions c18_escape_is_sanitise.

(** Labels under legacy validation: label names pairwise distinct; exactly the sanitised attribute keys;
    each label is the sorted ';'-join of the values of all attributes sanitising to it; legal label
    names [[a-zA-Z_][a-zA-Z0-9_]*] for keys that are non-empty and free of ':'.  For every attribute list. *)
Theorem c18_labels_legal_merged : forall l,
  Labels_merged l (get_attrs false l) /\ labels_ok false l (get_attrs false l) = true.
Proof. intros l. split; [apply labels_merged_model | apply get_attrs_labels_ok]. Qed.
Print Assumptions c18_labels_legal_merged.

(** ... independent of the order in which the attributes are iterated. *)
Theorem c18_labels_order_independent : forall l l',
  Permutation l l' -> get_attrs false l = get_attrs false l'.
Proof. exact get_attrs_perm. Qed.
Print Assumptions c18_labels_order_independent.

(** The label-name clause without its guard is false (known finding F-C18-2): the key "a:b" is
    exposed as the label name "a:b", which NewDesc rejects, so the data point is not scraped. *)
Theorem c18_labels_legal_colon_refuted :
  exists k v, k <> [] /\
    let out := get_attrs false [(k, v)] in
    forallb (fun kv => label_name_legal (fst kv)) out = false /\ point_exposed false out = false.
Proof. exact labels_colon_refuted. Qed.
Print Assumptions c18_labels_legal_colon_refuted.

(** The boolean label checker implies the Prop reading (it is what judges the implementation's output). *)
Theorem c18_labels_checker_sound : forall input out,
  labels_ok false input out = true -> Labels_merged input out.
Proof. exact labels_ok_sound. Qed.
Print Assumptions c18_labels_checker_sound.

(** Histograms: for any bounds and any bucket counts with one count more than bounds (the SDK's shape)
    and count = sum of the bucket counts, no index is out of range, exposed bucket k holds
    sum_{j<=k} counts_j, the +Inf bucket (sample count) is the total, and no bucket exceeds it. *)
Theorem c18_histogram_cumulative : forall bounds counts count sum,
  length counts = S (length bounds) -> count = sum_n counts ->
  exists bs, expose_hist bounds counts count sum = Some (bs, count, sum) /\
             Hist_cumulative bounds counts bs count /\
             (forall k, (k < length bounds)%nat -> nth k (map snd bs) 0 <= count).
Proof. exact hist_cumulative. Qed.
Print Assumptions c18_histogram_cumulative.

Theorem c18_histogram_checker_sound : forall bounds counts count sum obs ocount osum,
  hist_ok bounds counts count sum obs ocount osum = true ->
  Hist_cumulative bounds counts obs ocount /\ ocount = count /\ osum = sum.
Proof. exact hist_ok_sound. Qed.
Print Assumptions c18_histogram_checker_sound.

(** Exponential histograms, positive and negative range alike: for every offset and every count list, the
    exposed bucket i has index offset + i + 1 and the SDK's count i, and the boolean judge applied to the real
    exporter's output accepts the model's. *)
Theorem c18_expo_buckets : forall offset counts,
  (forall i, (i < length counts)%nat ->
     nth i (expo_buckets offset counts) (0%Z, 0) = ((offset + 1 + Z.of_nat i)%Z, nth i counts 0)) /\
  length (expo_buckets offset counts) = length counts /\
  expo_side_ok offset counts (expo_buckets offset counts) = true.
Proof.
  intros offset counts. split; [intros i Hi; now apply expo_buckets_nth|]. split; [|apply expo_side_model].
  rewrite expo_buckets_expected. unfold expo_expected. rewrite combine_length, map_length, seq_length. apply Nat.min_id.
Qed.
Print Assumptions c18_expo_buckets.

(** ** Non-vacuity *)
Definition ex_cfg : config :=
  {| utf8 := false; without_units := false; without_counter_suffixes := false;
     ns_opt := Some (str "my.ns"); without_scope_info := false; without_target_info := false |}.

Example ex_api_names :
  api_name (str "http.server.request-duration/total") = true /\ api_name (str "total") = true /\
  api_name (str "_total") = false /\ api_name (str "9x") = false /\
  api_name (repeat 97 255) = true /\ api_name (repeat 97 256) = false.
Proof. vm_compute. repeat split. Qed.

Example ex_names :
  get_name ex_cfg (str "http.request.duration_total") (str "ms") true = Name (str "my_ns_http_request_duration_milliseconds_total") /\
  get_name ex_cfg (str "http.request.seconds.total") (str "s") true = Name (str "my_ns_http_request_seconds_total") /\
  get_name default_config (str "total") (str "s") true = Name (str "_seconds_total") /\
  get_name default_config (str "x_total") (str "By") true = Name (str "x_bytes_total") /\
  get_name default_config (str "subtotal") [] true = Name (str "sub_total") /\
  get_name default_config (str "fooseconds") (str "s") false = Name (str "fooseconds") /\
  get_name default_config (str "a.b-c/d") (str "unknown") false = Name (str "a_b_c_d").
Proof. vm_compute. repeat split. Qed.

Example ex_name_ok :
  name_ok (mk_input ex_cfg (str "http.request.duration_total") (str "ms") true)
          (str "my_ns_http_request_duration_milliseconds_total") = true /\
  name_ok (mk_input ex_cfg (str "http.request.duration_total") (str "ms") true)
          (str "my_ns_http_request_duration_total_milliseconds") = false /\
  name_ok (mk_input default_config (str "lat_seconds") (str "s") false) (str "lat_seconds_seconds") = false.
Proof. vm_compute. repeat split. Qed.

Example ex_labels :
  get_attrs false [(str "a-b", str "y"); (str "a.b", str "x"); (str "a_b", str "w"); (str "1z", str "v")]
  = [(str "_z", str "v"); (str "a_b", str "w;x;y")] /\
  labels_ok false [(str "a-b", str "y"); (str "a.b", str "x")] [(str "a_b", str "y;x")] = false.
Proof. vm_compute. split; reflexivity. Qed.

Example ex_hist :
  expose_hist [1; 2; 5]%Z [1; 1; 0; 1] 3 76 = Some ([(1%Z, 1); (2%Z, 2); (5%Z, 2)], 3, 76%Z) /\
  hist_ok [1; 2; 5]%Z [1; 1; 0; 1] 3 76 [(1%Z, 1); (2%Z, 1); (5%Z, 0)] 3 76 = false.
Proof. vm_compute. split; reflexivity. Qed.

Example ex_expo :
  expo_buckets (-3) [2; 0; 5] = [((-2)%Z, 2); ((-1)%Z, 0); (0%Z, 5)] /\
  expo_side_ok (-3) [2; 0; 5] [((-2)%Z, 2); (0%Z, 5)] = true /\
  expo_side_ok (-3) [2; 0; 5] [((-3)%Z, 2); ((-1)%Z, 5)] = false.
Proof. vm_compute. repeat split. Qed.
