(** C18 correspondence: evaluates model and spec on the scrapes the Go harness
    observed from the real exporter (generated case files import this). *)
From Verif Require Import Lib.Base C18.Str C18.Model C18.Spec C18.Proofs.
Open Scope N_scope.

(** Numbers are exact dyadic values scaled by the harness (value * 8 as an integer). *)
Inductive value :=
| VNum (z : Z)
| VHist (bounds : list Z) (counts : list N) (count : N) (sum : Z)
| VExpo (scale : Z) (zero_count : N) (poff : Z) (pcounts : list N) (noff : Z) (ncounts : list N) (count : N) (sum : Z).
(** [OExpo]: schema, zero count, positive and negative buckets decoded from the spans / deltas of the exposed
    native histogram as (index, count), sample count, sum. *)
Inductive ovalue :=
| ONum (z : Z)
| OHist (buckets : list (Z * N)) (count : N) (sum : Z)
| OExpo (schema : Z) (zero_count : N) (pos neg : list (Z * N)) (count : N) (sum : Z).

(** An SDK data point (from a ManualReader on the same provider): attributes in set order, value. *)
Definition point := (list Model.attr * value)%type.
(** An exposed series: label pairs (sorted by name, scope labels taken out), scope labels, value. *)
Definition oseries := (list Model.attr * option (bytes * bytes) * ovalue)%type.

Inductive case :=
| CScrape (utf8 no_units no_total : bool) (ns : option (list N)) (no_scope no_target : bool)
          (name unit : bytes) (kind : N) (scope_name scope_ver : bytes)
          (res scope_attrs : list Model.attr)      (* resource attributes; scope attributes incl. name and version, in set order *)
          (pts : list point)
          (gather_err : bool) (nerr : N) (target scope_info : bool)
          (fam : option (bytes * N * list oseries))
          (* exemplars: expected trace_id / span_id (hex), per SDK point its exemplars (filtered attributes, value),
             per exposed series its exemplars (labels, value); both lists aligned with [pts] / the series of [fam] *)
          (tid sid : bytes) (pexs : list (list sdk_ex)) (oexs : list (list out_ex))
          (* WithResourceAsConstantLabels: the resource attributes the filter keeps (set order), and per exposed series
             the labels that came from them *)
          (const_in : list Model.attr) (oconst : list (list Model.attr))
          (cb_errors : N)   (* observable callbacks that fail during the scrape (they observe nothing): one handled error each *)
(** Several meters with the same name / version that differ only in their attributes: per meter its attributes
    + name + version (set order), and the label sets of all otel_scope_info series of the scrape. *)
| CScopeInfos (utf8 : bool) (inputs outs : list (list Model.attr))
(** One instrument name on several meters with these descriptions: number of families, Gather error, the
    family's help text. *)
| CHelp (descs : list bytes) (gather_err : bool) (nfam : nat) (help : bytes) (trials oks : nat)
(** Reserved scope labels: the meter's real name / version, the keys of its attributes, the labels of its
    otel_scope_info series, the scope labels of its data series. *)
| CScopeName (utf8 : bool) (real_name real_ver : bytes) (keys : list bytes)
             (info_labels : list Model.attr) (series_scopes : list (option (bytes * bytes)))
(** A second instrument with the SAME name and unit but another kind (same or another scope): the families that
    carry its series (name, type, number of series). *)
| CCompanion (utf8 no_units no_total : bool) (ns : option (list N)) (name unit : bytes) (kind2 : N)
             (fams : list (bytes * N * nat))
| CAttrs (utf8 : bool) (input out : list Model.attr).   (* target_info labels of a resource *)

Definition flag (b : bool) (code : N) : list N := if b then [] else [code].

Definition attr_eqb (a b : Model.attr) : bool := bytes_eqb (fst a) (fst b) && bytes_eqb (snd a) (snd b).
Definition attrs_eqb := list_eqb attr_eqb.

Definition ovalue_eqb (a b : ovalue) : bool :=
  match a, b with
  | ONum x, ONum y => (x =? y)%Z
  | OHist b1 c1 s1, OHist b2 c2 s2 =>
      list_eqb (fun p q => (fst p =? fst q)%Z && (snd p =? snd q)) b1 b2 && (c1 =? c2) && (s1 =? s2)%Z
  | OExpo a z p n c su, OExpo a' z' p' n' c' su' =>
      (a =? a')%Z && (z =? z') && list_eqb bucket_eqb (nonzero p) (nonzero p') &&
      list_eqb bucket_eqb (nonzero n) (nonzero n') && (c =? c') && (su =? su')%Z
  | _, _ => false
  end.

Definition scope_eqb (a b : option (bytes * bytes)) : bool :=
  option_eqb (fun p q => bytes_eqb (fst p) (fst q) && bytes_eqb (snd p) (snd q)) a b.

Definition oseries_eqb (a b : oseries) : bool :=
  let '(la, sa, va) := a in let '(lb, sb, vb) := b in
  attrs_eqb la lb && scope_eqb sa sb && ovalue_eqb va vb.

Definition kind_of (k : N) : kind :=
  match k with 0 => KCounter | 1 => KUpDown | 2 => KGauge | _ => KHistogram end.

(** ** model side *)
Definition model_value (v : value) : option ovalue :=
  match v with
  | VNum z => Some (ONum z)
  | VHist bounds counts count sum =>
      match expose_hist bounds counts count sum with
      | Some (bs, c, s) => Some (OHist bs c s)
      | None => None
      end
  | VExpo scale zc poff pcounts noff ncounts count sum =>
      Some (OExpo scale zc (expo_buckets poff pcounts) (expo_buckets noff ncounts) count sum)
  end.

(** client_golang's NewConstNativeHistogram accepts schemas -4..8 only (modelled, not verified); the SDK's
    exponential histograms have scales up to 20 (the default MaxScale): such a data point is reported to
    otel.Handle ("invalid native histogram schema") and left out of the scrape (known finding F-C18-3). *)
Definition bad_schema (v : value) : bool :=
  match v with VExpo sc _ _ _ _ _ _ _ => (sc >? 8)%Z || (sc <? -4)%Z | _ => false end.

(** [Some (Some s)]: exposed as [s]; [Some None]: rejected by NewDesc and reported; [None]: crash. *)
Definition model_series (c : config) (sn sv : bytes) (p : point) : option (option oseries) :=
  let labels := get_attrs (utf8 c) (fst p) in
  if point_exposed (utf8 c) labels && negb (bad_schema (snd p)) then
    match model_value (snd p) with
    | Some ov => Some (Some (labels, scope_labels c sn sv, ov))
    | None => None
    end
  else Some None.

Fixpoint collect (l : list (option (option oseries))) : option (list oseries * N) :=
  match l with
  | [] => Some ([], 0)
  | None :: _ => None
  | Some x :: r =>
      match collect r with
      | None => None
      | Some (ss, d) => match x with Some s => Some (s :: ss, d) | None => Some (ss, d + 1) end
      end
  end.

(** addExemplars runs for monotonic sums and explicit-bucket histograms only. *)
Definition ex_eligible (kind : N) (v : value) : bool :=
  match v with
  | VNum _ => (kind =? 0)
  | VHist _ _ _ _ => true
  | VExpo _ _ _ _ _ _ _ _ => false
  end.

Definition model_ex_errors (c : config) (kind : N) (pts : list point) (pexs : list (list sdk_ex)) : N :=
  N.of_nat (length (filter (fun pp =>
    let p := fst pp in
    point_exposed (utf8 c) (get_attrs (utf8 c) (fst p)) && negb (bad_schema (snd p)) && ex_eligible kind (snd p) &&
    existsb (fun e => exemplar_rejected (utf8 c) (fst e)) (snd pp)) (combine pts pexs))).

Definition model_matches (c : config) (name unit : bytes) (kind : N) (sn sv : bytes)
    (res scope_attrs : list Model.attr) (pts : list point) (pexs : list (list sdk_ex))
    (gather_err : bool) (nerr : N) (target scope_info : bool)
    (fam : option (bytes * N * list oseries)) (cb_errors : N) : bool :=
  let target_ok := info_labels_ok (utf8 c) res in
  let scope_ok := without_scope_info c || info_labels_ok (utf8 c) scope_attrs in
  let terr := if has_target_info c && negb target_ok then 1 else 0 in
  negb gather_err && Bool.eqb target (has_target_info c && target_ok) &&
  if scope_ok then
    match get_name c name unit (is_counter (kind_of kind)), collect (map (model_series c sn sv) pts) with
    | Name n, Some (ms, dropped) =>
        (nerr =? dropped + terr + model_ex_errors c kind pts pexs + cb_errors) && Bool.eqb scope_info (has_scope_info c) &&
        match fam with
        | None => match ms with [] => true | _ => false end
        | Some (fname, ftype, os) =>
            bytes_eqb n fname && (family_type (kind_of kind) =? ftype) &&
            (length ms =? length os)%nat && forallb (fun s => existsb (oseries_eqb s) os) ms
        end
    | _, _ => false
    end
  else (* the scope info metric cannot be built: the scope is skipped, one error is reported *)
    (nerr =? 1 + terr + cb_errors) && negb scope_info && match fam with None => true | Some _ => false end.

(** ** spec side (no model function below this line) *)
Definition value_ok (v : value) (o : ovalue) : bool :=
  match v, o with
  | VNum z, ONum z' => (z =? z')%Z
  | VHist bounds counts count sum, OHist bs c s => hist_ok bounds counts count sum bs c s
  | VExpo scale zc poff pcounts noff ncounts count sum, OExpo osch oz opos oneg oc os =>
      expo_ok scale zc poff pcounts noff ncounts count sum osch oz opos oneg oc os
  | _, _ => false
  end.

Definition scope_ok (no_scope : bool) (sn sv : bytes) (o : option (bytes * bytes)) : bool :=
  match o with
  | None => no_scope
  | Some (n, v) => negb no_scope && bytes_eqb n sn && bytes_eqb v sv
  end.

Definition series_ok (utf8 no_scope : bool) (sn sv : bytes) (p : point) (s : oseries) : bool :=
  let '(labels, sc, ov) := s in
  labels_ok utf8 (fst p) labels && scope_ok no_scope sn sv sc && value_ok (snd p) ov.

(** Known finding F-C18-2: a data point one of whose attribute keys does not give a valid Prometheus
    label name although it is a valid attribute key: it contains ':' (kept by the metric-name escaping
    under legacy validation) or its exposed form starts with the reserved "__". *)
Definition known_key (utf8 : bool) (k : bytes) : bool :=
  if utf8 then has_prefix k [95; 95]
  else existsb (N.eqb 58) k || has_prefix (sanitise k) [95; 95].
Definition known_point (utf8 : bool) (p : point) : bool := existsb (fun kv => known_key utf8 (fst kv)) (fst p).

Definition known_attrs (utf8 : bool) (l : list Model.attr) : bool := existsb (fun kv => known_key utf8 (fst kv)) l.

Definition check_case (c : case) : list N :=
  match c with
  | CScrape utf8 no_units no_total ns no_scope no_target name unit kind sn sv res scope_attrs pts gerr nerr target scope_info fam
            tid sid pexs oexs const_in oconst cb_errors =>
      let cfg := {| Model.utf8 := utf8; without_units := no_units; without_counter_suffixes := no_total;
                    ns_opt := ns; without_scope_info := no_scope; without_target_info := no_target |} in
      let inp := {| ni_utf8 := utf8; ni_no_units := no_units; ni_no_total := no_total; ni_ns := ns;
                    ni_name := name; ni_unit := unit; ni_counter := (kind =? 0) |} in
      let good := filter (fun p => negb (known_point utf8 p) && negb (bad_schema (snd p))) pts in
      let bad := filter (known_point utf8) pts in
      let bad3 := filter (fun p => negb (known_point utf8 p) && bad_schema (snd p)) pts in
      let os := match fam with Some (_, _, os) => os | None => [] end in
      let covered p := existsb (series_ok utf8 no_scope sn sv p) os in
      (* F-C18-2 on the resource / the scope: target_info is not exposed / the whole scope is skipped *)
      let res_known := negb no_target && known_attrs utf8 res && negb target in
      let scope_known := negb no_scope && known_attrs utf8 scope_attrs && negb scope_info &&
                         match fam with None => true | Some _ => false end in
      let terr := if negb no_target && negb target then 1 else 0 in
      let oss := combine os oexs in
      (* exemplar judge: the series of an eligible point carries acceptable exemplars *)
      let ex_ok pp := negb (ex_eligible kind (snd (fst pp))) || negb (covered (fst pp)) ||
                      existsb (fun ss => series_ok utf8 no_scope sn sv (fst pp) (fst ss) &&
                                         exemplars_ok tid sid (snd pp) (snd ss)) oss in
      let xerr := N.of_nat (length (filter (fun pp => ex_eligible kind (snd (fst pp)) && covered (fst pp) &&
                                                      existsb ex_unrepresentable (snd pp)) (combine pts pexs))) in
      flag (model_matches cfg name unit kind sn sv res scope_attrs pts pexs gerr nerr target scope_info fam cb_errors &&
            Nat.eqb (length oconst) (length os) && forallb (attrs_eqb (get_attrs utf8 const_in)) oconst) V_MISMATCH ++
      flag (negb gerr && (Bool.eqb target (negb no_target) || res_known) &&
            if scope_known then (nerr =? 1 + terr + cb_errors)
            else
              Bool.eqb scope_info (negb no_scope) &&
              match fam with
              | None => match good with [] => true | _ => false end
              | Some (fname, ftype, _) => name_ok inp fname && type_ok kind ftype
              end &&
              forallb covered good &&
              forallb (fun s => existsb (fun p => series_ok utf8 no_scope sn sv p s) pts) os &&
              (length os <=? length pts)%nat &&
              (N.of_nat (length os) + nerr =? N.of_nat (length pts) + terr + xerr + cb_errors) &&
              Nat.eqb (length pexs) (length pts) && Nat.eqb (length oexs) (length os) &&
              (* every series carries exactly the configured constant resource labels *)
              Nat.eqb (length oconst) (length os) && forallb (labels_ok utf8 const_in) oconst &&
              forallb ex_ok (combine pts pexs)) V_SPECFAIL ++
      flag (negb res_known && negb scope_known && (scope_known || forallb covered bad)) (V_KNOWN 2) ++
      flag (scope_known || forallb covered bad3) (V_KNOWN 3)
  | CScopeInfos utf8 inputs outs =>
      flag (Nat.eqb (length inputs) (length outs) &&
            forallb (fun i => existsb (attrs_eqb (get_attrs utf8 i)) outs) inputs) V_MISMATCH ++
      flag (Nat.eqb (length inputs) (length outs) &&
            forallb (fun i => existsb (labels_ok utf8 i) outs) inputs &&
            forallb (fun o => existsb (fun i => labels_ok utf8 i o) inputs) outs) V_SPECFAIL
  | CHelp descs gerr nfam help trials oks =>
      let has_empty := existsb (fun d => match d with [] => true | _ => false end) descs in
      let has_nonempty := existsb (fun d => match d with [] => false | _ => true end) descs in
      (* one family with one help text, one of the descriptions given; no Gather error *)
      let ok := negb gerr && (Nat.eqb nfam 0 || (Nat.eqb nfam 1 && existsb (bytes_eqb help) descs)) in
      if has_empty && has_nonempty then
        (* Which meter is seen first is a map order, drawn anew for each of [trials] fresh exporters scraped once each.
           Every order failing is a violation; known finding F-C18-4 is "some orders fail (an empty description seen
           first), at least one succeeds". *)
        if Nat.eqb oks 0 then [V_SPECFAIL]
        else if (oks <? trials)%nat || negb ok then (if gerr || (oks <? trials)%nat then [V_KNOWN 4] else [V_SPECFAIL])
        else []
      else if ok then [] else [V_SPECFAIL]
  | CScopeName utf8 real_name real_ver keys info_labels series_scopes =>
      let reserved k := bytes_eqb k (str "otel_scope_name") || bytes_eqb k (str "otel_scope_version") in
      let label k := match find (fun kv => bytes_eqb (fst kv) k) info_labels with Some kv => Some (snd kv) | None => None end in
      let info_ok := option_eqb bytes_eqb (label (str "otel_scope_name")) (Some real_name) &&
                     option_eqb bytes_eqb (label (str "otel_scope_version")) (Some real_ver) in
      let series_ok := forallb (fun o => match o with
                                         | Some (n, v) => bytes_eqb n real_name && bytes_eqb v real_ver
                                         | None => false end) series_scopes in
      (* known finding F-C18-5: under legacy validation an attribute key that only SANITISES to a reserved scope
         label is merged into it *)
      let known := negb utf8 && existsb (fun k => negb (reserved k) && reserved (sanitise k)) keys && series_ok in
      if info_ok && series_ok then [] else if known then [V_KNOWN 5] else [V_SPECFAIL]
  | CCompanion utf8 no_units no_total ns name unit kind2 fams =>
      let cfg := {| Model.utf8 := utf8; without_units := no_units; without_counter_suffixes := no_total;
                    ns_opt := ns; without_scope_info := false; without_target_info := false |} in
      let inp := {| ni_utf8 := utf8; ni_no_units := no_units; ni_no_total := no_total; ni_ns := ns;
                    ni_name := name; ni_unit := unit; ni_counter := (kind2 =? 0) |} in
      match fams with
      | [(fname, ftype, n)] =>
          flag (match get_name cfg name unit (is_counter (kind_of kind2)) with
                | Name m => bytes_eqb m fname && (family_type (kind_of kind2) =? ftype)
                | Crash => false end) V_MISMATCH ++
          flag (name_ok inp fname && type_ok kind2 ftype && Nat.eqb n 1) V_SPECFAIL
      | _ => [V_MISMATCH; V_SPECFAIL]   (* the second instrument is not exposed as exactly one family *)
      end
  | CAttrs utf8 input out =>
      flag (attrs_eqb (get_attrs utf8 input) out) V_MISMATCH ++
      flag (labels_ok utf8 input out) V_SPECFAIL
  end.

Definition run (cs : list case) : list (N * N) := index_from 0 check_case cs.
