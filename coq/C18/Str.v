(** Byte-string utilities shared by the C18 model and specification (neutral:
    neither the model of the exporter nor the property): prefix / suffix tests,
    Go's bytewise string order, insertion sort, [strings.Join].  Strings are
    [list N] (bytes, or code points where a Go loop ranges over runes). *)
From Coq Require Import Permutation Sorted.
From Verif Require Import Lib.Base.
Open Scope N_scope.

(** ** prefix / suffix *)
Fixpoint has_prefix (s p : bytes) {struct p} : bool :=
  match p, s with
  | [], _ => true
  | c :: p', d :: s' => (c =? d) && has_prefix s' p'
  | _ :: _, [] => false
  end.

Definition has_suffix (s suf : bytes) : bool := has_prefix (rev s) (rev suf).

(** [strings.TrimSuffix] *)
Definition trim_suffix (s suf : bytes) : bytes :=
  if has_suffix s suf then firstn (length s - length suf) s else s.

Lemma has_prefix_spec s p : has_prefix s p = true <-> exists r, s = p ++ r.
Proof.
  revert s; induction p as [|c p IH]; intros s; cbn.
  - split; [exists s; reflexivity | reflexivity].
  - destruct s as [|d s]; [split; [discriminate | intros [r H]; discriminate]|].
    rewrite andb_true_iff, N.eqb_eq, IH. split.
    + intros [-> [r ->]]. now exists r.
    + intros [r H]. inversion H; subst. split; [reflexivity | now exists r].
Qed.

Lemma has_suffix_spec s suf : has_suffix s suf = true <-> exists a, s = a ++ suf.
Proof.
  unfold has_suffix. rewrite has_prefix_spec. split.
  - intros [r H]. exists (rev r). apply (f_equal (@rev N)) in H.
    rewrite rev_involutive, rev_app_distr, rev_involutive in H. exact H.
  - intros [a ->]. exists (rev a). now rewrite rev_app_distr.
Qed.

Lemma has_suffix_app a suf : has_suffix (a ++ suf) suf = true.
Proof. apply has_suffix_spec. now exists a. Qed.

Lemma has_suffix_app_r a b suf : has_suffix b suf = true -> has_suffix (a ++ b) suf = true.
Proof.
  intros H. apply has_suffix_spec in H as [c ->]. apply has_suffix_spec.
  exists (a ++ c). now rewrite app_assoc.
Qed.

Lemma has_prefix_app p r : has_prefix (p ++ r) p = true.
Proof. apply has_prefix_spec. now exists r. Qed.

Lemma trim_suffix_app a suf : trim_suffix (a ++ suf) suf = a.
Proof.
  unfold trim_suffix. rewrite has_suffix_app, app_length, Nat.add_sub.
  rewrite firstn_app, Nat.sub_diag, firstn_all. cbn. apply app_nil_r.
Qed.

Lemma trim_suffix_none s suf : has_suffix s suf = false -> trim_suffix s suf = s.
Proof. unfold trim_suffix. now intros ->. Qed.

Lemma trim_suffix_cases s suf :
  (exists a, s = a ++ suf /\ trim_suffix s suf = a) \/
  (has_suffix s suf = false /\ trim_suffix s suf = s).
Proof.
  destruct (has_suffix s suf) eqn:E.
  - left. apply has_suffix_spec in E as [a ->]. exists a. split; [reflexivity | apply trim_suffix_app].
  - right. split; [reflexivity | now apply trim_suffix_none].
Qed.

(** ** Go's string order (bytewise lexicographic) *)
Fixpoint bytes_leb (a b : bytes) : bool :=
  match a, b with
  | [], _ => true
  | _ :: _, [] => false
  | x :: a', y :: b' => if x <? y then true else if y <? x then false else bytes_leb a' b'
  end.

Lemma bytes_leb_total a b : bytes_leb a b = true \/ bytes_leb b a = true.
Proof.
  revert b; induction a as [|x a IH]; intros [|y b]; cbn; auto.
  destruct (N.ltb_spec x y), (N.ltb_spec y x); auto; try lia.
Qed.

Lemma bytes_leb_antisym a b : bytes_leb a b = true -> bytes_leb b a = true -> a = b.
Proof.
  revert b; induction a as [|x a IH]; intros [|y b]; cbn; auto; try discriminate.
  destruct (N.ltb_spec x y), (N.ltb_spec y x); try discriminate; try lia.
  intros H1 H2. assert (x = y) by lia. subst. f_equal. now apply IH.
Qed.

Lemma bytes_leb_trans a b c : bytes_leb a b = true -> bytes_leb b c = true -> bytes_leb a c = true.
Proof.
  revert b c; induction a as [|x a IH]; intros [|y b] [|z c]; cbn; auto; try discriminate.
  destruct (N.ltb_spec x y), (N.ltb_spec y z), (N.ltb_spec y x), (N.ltb_spec z y),
    (N.ltb_spec x z), (N.ltb_spec z x); try discriminate; try lia; auto.
  apply IH.
Qed.

Lemma bytes_leb_refl a : bytes_leb a a = true.
Proof. destruct (bytes_leb_total a a); assumption. Qed.

(** ** insertion sort ([slices.Sort] on strings: the sorted result is unique) *)
Fixpoint insert (x : bytes) (l : list bytes) : list bytes :=
  match l with
  | [] => [x]
  | y :: r => if bytes_leb x y then x :: l else y :: insert x r
  end.

Definition isort (l : list bytes) : list bytes := fold_right insert [] l.

Lemma insert_comm x y l : insert x (insert y l) = insert y (insert x l).
Proof.
  induction l as [|z r IH]; cbn.
  - destruct (bytes_leb x y) eqn:A, (bytes_leb y x) eqn:B; auto.
    + now rewrite (bytes_leb_antisym _ _ A B).
    + destruct (bytes_leb_total x y); congruence.
  - destruct (bytes_leb y z) eqn:Y, (bytes_leb x z) eqn:X; cbn.
    + destruct (bytes_leb x y) eqn:A, (bytes_leb y x) eqn:B; rewrite ?X, ?Y; auto.
      * now rewrite (bytes_leb_antisym _ _ A B).
      * destruct (bytes_leb_total x y); congruence.
    + rewrite Y. destruct (bytes_leb x y) eqn:A.
      * rewrite (bytes_leb_trans _ _ _ A Y) in X. discriminate.
      * now rewrite X.
    + rewrite X. destruct (bytes_leb y x) eqn:B.
      * rewrite (bytes_leb_trans _ _ _ B X) in Y. discriminate.
      * now rewrite Y.
    + rewrite X, Y. now rewrite IH.
Qed.

Lemma isort_cons x l : isort (x :: l) = insert x (isort l).
Proof. reflexivity. Qed.

Lemma isort_perm l l' : Permutation l l' -> isort l = isort l'.
Proof.
  induction 1; rewrite ?isort_cons; auto.
  - now rewrite IHPermutation.
  - apply insert_comm.
  - congruence.
Qed.

Lemma insert_perm x l : Permutation (insert x l) (x :: l).
Proof.
  induction l as [|y r IH]; cbn; auto.
  destruct (bytes_leb x y); auto.
  rewrite IH. apply perm_swap.
Qed.

Lemma isort_permutation l : Permutation (isort l) l.
Proof.
  induction l as [|x l IH]; [constructor|].
  rewrite isort_cons, insert_perm. now constructor.
Qed.

Definition leb_rel (a b : bytes) : Prop := bytes_leb a b = true.

Lemma insert_sorted x l : Sorted leb_rel l -> Sorted leb_rel (insert x l).
Proof.
  induction 1 as [|y r Hs IH Hh]; cbn.
  - repeat constructor.
  - destruct (bytes_leb x y) eqn:E.
    + constructor; [now constructor | now constructor].
    + constructor; [exact IH|].
      assert (Hyx : leb_rel y x) by (destruct (bytes_leb_total x y); [congruence | assumption]).
      destruct r as [|z r']; cbn; [now constructor|].
      destruct (bytes_leb x z); constructor; auto. now inversion Hh.
Qed.

Lemma isort_sorted l : Sorted leb_rel (isort l).
Proof. induction l; [constructor | rewrite isort_cons; now apply insert_sorted]. Qed.

(** ** [strings.Join] *)
Fixpoint join (sep : bytes) (l : list bytes) : bytes :=
  match l with
  | [] => []
  | [a] => a
  | a :: r => a ++ sep ++ join sep r
  end.

(** strictly increasing keys (hence pairwise distinct) *)
Definition bytes_ltb (a b : bytes) : bool := bytes_leb a b && negb (bytes_eqb a b).

Fixpoint strictly_sorted (l : list bytes) : bool :=
  match l with
  | x :: ((y :: _) as r) => bytes_ltb x y && strictly_sorted r
  | _ => true
  end.

Lemma strictly_sorted_cons x y r :
  strictly_sorted (x :: y :: r) = bytes_ltb x y && strictly_sorted (y :: r).
Proof. reflexivity. Qed.

Definition bytes_dec : forall a b : bytes, {a = b} + {a <> b} := list_eq_dec N.eq_dec.

Lemma filter_perm {A} (f : A -> bool) l l' : Permutation l l' -> Permutation (filter f l) (filter f l').
Proof.
  induction 1; cbn; auto.
  - destruct (f x); auto.
  - destruct (f x), (f y); auto. apply perm_swap.
  - etransitivity; eauto.
Qed.

Lemma sorted_strongly l : Sorted leb_rel l -> StronglySorted leb_rel l.
Proof.
  apply Sorted_StronglySorted. intros a b c. apply bytes_leb_trans.
Qed.

(** A sorted list without duplicates is strictly sorted. *)
Lemma sorted_nodup_strict l : Sorted leb_rel l -> NoDup l -> strictly_sorted l = true.
Proof.
  induction 1 as [|x r Hs IH Hh]; intros Hn; [reflexivity|].
  inversion Hn as [|? ? Hni Hn']; subst.
  destruct r as [|y r']; [reflexivity|].
  rewrite strictly_sorted_cons, IH by assumption. rewrite andb_true_r.
  unfold bytes_ltb. inversion Hh; subst. unfold leb_rel in *. rewrite H0. cbn.
  destruct (bytes_eqb x y) eqn:E; [|reflexivity].
  apply bytes_eqb_eq in E. subst. exfalso. apply Hni. now left.
Qed.

Lemma strictly_sorted_nodup l : strictly_sorted l = true -> NoDup l.
Proof.
  intros H.
  assert (Hs : StronglySorted (fun a b => bytes_ltb a b = true) l).
  { apply Sorted_StronglySorted.
    - intros a b c. unfold bytes_ltb. rewrite !andb_true_iff, !negb_true_iff.
      intros [A1 A2] [B1 B2]. split; [eapply bytes_leb_trans; eauto|].
      apply bytes_eqb_neq. intros ->. apply bytes_eqb_neq in A2. apply A2.
      now apply bytes_leb_antisym.
    - induction l as [|x [|y r] IH]; [constructor | repeat constructor |].
      rewrite strictly_sorted_cons in H. apply andb_true_iff in H as [H1 H2].
      constructor; [now apply IH | now constructor]. }
  induction Hs as [|x r Hs IH Hf]; constructor.
  - intros Hin. rewrite Forall_forall in Hf. specialize (Hf _ Hin).
    unfold bytes_ltb in Hf. rewrite bytes_eqb_refl, andb_false_r in Hf. discriminate.
  - apply IH. destruct r as [|y r']; [reflexivity|].
    rewrite strictly_sorted_cons in H. now apply andb_true_iff in H as [_ H].
Qed.
