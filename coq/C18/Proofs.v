(** C18 lemmas. *)
From Coq Require Import Permutation Sorted.
From Verif Require Import Lib.Base C18.Str C18.Model C18.Spec.
Open Scope N_scope.

(** * Alphabets of model and specification agree *)
Ltac chars :=
  unfold valid_legacy_rune, converts_to_underscore, is_lower, is_upper, is_digit, UNDERSCORE, COLON,
    name_rest, name_first, label_rest, label_first, delimiter, alpha, digit;
  repeat match goal with
         | |- context [?a <=? ?b] => destruct (N.leb_spec a b)
         | |- context [?a =? ?b] => destruct (N.eqb_spec a b)
         end; cbn; try reflexivity; try lia.

Lemma valid_first c : valid_legacy_rune c true = name_first c.
Proof. chars. Qed.
Lemma valid_rest c : valid_legacy_rune c false = name_rest c.
Proof. chars. Qed.
Lemma converts_delimiter c : converts_to_underscore c = delimiter c.
Proof. chars. Qed.
Lemma name_first_rest c : name_first c = true -> name_rest c = true.
Proof. unfold name_rest. now intros ->. Qed.
Lemma underscore_first : name_first 95 = true. Proof. reflexivity. Qed.
Lemma underscore_rest : name_rest 95 = true. Proof. reflexivity. Qed.

(** * EscapeName is the sanitisation of the specification *)
Lemma escape_from_valid first s : all_valid_legacy first s = true -> escape_from first s = s.
Proof.
  revert first; induction s as [|c r IH]; intros first H; [reflexivity|].
  cbn in *. apply andb_true_iff in H as [H1 H2]. now rewrite H1, IH.
Qed.

Lemma escape_from_false s : escape_from false s = map (fun c => if name_rest c then c else 95) s.
Proof. induction s as [|c r IH]; [reflexivity|]. cbn. now rewrite valid_rest, IH. Qed.

Lemma escape_from_true s : escape_from true s = sanitise s.
Proof. destruct s as [|c r]; [reflexivity|]. cbn. now rewrite valid_first, escape_from_false. Qed.

Lemma escape_name_sanitise s : escape_name s = sanitise s.
Proof.
  destruct s as [|c r]; [reflexivity|].
  unfold escape_name, is_valid_legacy_metric_name.
  destruct (all_valid_legacy true (c :: r)) eqn:E.
  - rewrite <- escape_from_true. symmetry. now apply escape_from_valid.
  - apply escape_from_true.
Qed.

(** * Legal names *)
Definition all_rest (s : bytes) : Prop := forallb name_rest s = true.
Definition starts_ok (s : bytes) : bool := match s with [] => true | c :: _ => name_first c end.

Lemma legal_iff s : metric_name_legal s = true <-> s <> [] /\ starts_ok s = true /\ all_rest s.
Proof.
  destruct s as [|c r]; cbn.
  - split; [discriminate | intros [H _]; congruence].
  - unfold all_rest. cbn. rewrite !andb_true_iff. split.
    + intros [H1 H2]. repeat split; auto; [discriminate | now apply name_first_rest].
    + intros [_ [H1 [_ H2]]]. auto.
Qed.

Lemma all_rest_app a b : all_rest a -> all_rest b -> all_rest (a ++ b).
Proof. unfold all_rest. rewrite forallb_app. now intros -> ->. Qed.

Lemma all_rest_app_inv a b : all_rest (a ++ b) -> all_rest a /\ all_rest b.
Proof. unfold all_rest. rewrite forallb_app. apply andb_true_iff. Qed.

Lemma all_rest_rev a : all_rest a -> all_rest (rev a).
Proof.
  unfold all_rest. rewrite !forallb_forall. intros H x Hx. apply H. now apply in_rev.
Qed.

Lemma all_rest_firstn n a : all_rest a -> all_rest (firstn n a).
Proof.
  intros H. rewrite <- (firstn_skipn n a) in H. now apply all_rest_app_inv in H.
Qed.

Lemma all_rest_sanitise s : all_rest (sanitise s).
Proof.
  destruct s as [|c r]; [reflexivity|]. unfold all_rest. cbn. apply andb_true_iff. split.
  - destruct (name_first c) eqn:E; [now apply name_first_rest | reflexivity].
  - rewrite forallb_forall. intros x Hx. apply in_map_iff in Hx as [y [<- _]].
    destruct (name_rest y) eqn:E; [exact E | reflexivity].
Qed.

Lemma starts_ok_sanitise s : starts_ok (sanitise s) = true.
Proof. destruct s as [|c r]; [reflexivity|]. cbn. destruct (name_first c) eqn:E; [exact E | reflexivity]. Qed.

Lemma sanitise_nil s : sanitise s = [] -> s = [].
Proof. destruct s; [reflexivity | discriminate]. Qed.

Lemma starts_ok_app a b : starts_ok a = true -> (a = [] -> starts_ok b = true) -> starts_ok (a ++ b) = true.
Proof. destruct a; cbn; auto. Qed.

Lemma starts_ok_prefix a b : starts_ok (a ++ b) = true -> starts_ok a = true.
Proof. destruct a; cbn; auto. Qed.

Lemma all_rest_trim s suf : all_rest s -> all_rest (trim_suffix s suf).
Proof. unfold trim_suffix. destruct (has_suffix s suf); [apply all_rest_firstn | auto]. Qed.

Lemma starts_ok_trim s suf : starts_ok s = true -> starts_ok (trim_suffix s suf) = true.
Proof.
  intros H. destruct (trim_suffix_cases s suf) as [[a [-> ->]] | [_ ->]]; [|exact H].
  now apply starts_ok_prefix in H.
Qed.

(** * The counter branch never crashes; closed form *)
Definition strip_delim (t : bytes) : bytes :=
  match rev t with
  | c :: r => if converts_to_underscore c then rev r else t
  | [] => t
  end.

Lemma strip_delim_snoc x d : strip_delim (x ++ [d]) = if converts_to_underscore d then x else x ++ [d].
Proof. unfold strip_delim. rewrite rev_app_distr. cbn. now rewrite rev_involutive. Qed.

Lemma trim_counter_eq n : trim_counter true n = Name (strip_delim (trim_suffix n COUNTER_SUFFIX)).
Proof.
  unfold trim_counter. set (t := trim_suffix n COUNTER_SUFFIX). clearbody t.
  destruct t as [|a t'] using rev_ind; [reflexivity|]. clear IHt'.
  rewrite strip_delim_snoc.
  rewrite app_length. cbn [length]. rewrite Nat.add_1_r.
  replace (true && negb (0 <? Z.of_nat (S (length t')))%Z) with false
    by (symmetry; apply andb_false_iff; right; apply negb_false_iff; apply Z.ltb_lt; lia).
  unfold index_byte.
  replace (Z.of_nat (S (length t')) - 1 <? 0)%Z with false by (symmetry; apply Z.ltb_ge; lia).
  replace (Z.to_nat (Z.of_nat (S (length t')) - 1)) with (length t' + 0)%nat by lia.
  rewrite nth_error_app2 by lia. replace (length t' + 0 - length t')%nat with 0%nat by lia. cbn [nth_error].
  destruct (converts_to_underscore a); [|reflexivity].
  replace (S (length t') - 1)%nat with (length t' + 0)%nat by lia.
  rewrite firstn_app_2. cbn. now rewrite app_nil_r.
Qed.

(** The unguarded code crashes exactly when nothing is left after trimming "total". *)
Lemma trim_counter_unguarded_crash n :
  trim_counter false n = Crash <-> trim_suffix n COUNTER_SUFFIX = [].
Proof.
  unfold trim_counter. set (t := trim_suffix n COUNTER_SUFFIX). clearbody t. cbn [andb].
  destruct t as [|a t'] using rev_ind.
  - cbn. split; auto.
  - clear IHt'. split; [|intros H; destruct t'; discriminate].
    unfold index_byte. rewrite app_length. cbn [length]. rewrite Nat.add_1_r.
    replace (Z.of_nat (S (length t')) - 1 <? 0)%Z with false by (symmetry; apply Z.ltb_ge; lia).
    replace (Z.to_nat (Z.of_nat (S (length t')) - 1)) with (length t' + 0)%nat by lia.
    rewrite nth_error_app2 by lia. replace (length t' + 0 - length t')%nat with 0%nat by lia. cbn [nth_error].
    destruct (converts_to_underscore a); discriminate.
Qed.

Definition adds (c : config) (cnt : bool) : bool := negb (without_counter_suffixes c) && cnt.
Definition esc_name (c : config) (name : bytes) : bytes := if utf8 c then name else escape_name name.
Definition stem (c : config) (name : bytes) (cnt : bool) : bytes :=
  if adds c cnt then strip_delim (trim_suffix (esc_name c name) COUNTER_SUFFIX) else esc_name c name.
Definition upart (c : config) (unit base : bytes) : bytes :=
  match unit_suffix unit with
  | Some w => if negb (without_units c) && negb (has_suffix base w) then UNDERSCORE :: w else []
  | None => []
  end.
Definition tpart (c : config) (cnt : bool) : bytes :=
  if adds c cnt then UNDERSCORE :: COUNTER_SUFFIX else [].

Lemma get_name_closed c name unit cnt :
  get_name c name unit cnt =
  Name ((namespace_of c ++ stem c name cnt) ++ upart c unit (namespace_of c ++ stem c name cnt) ++ tpart c cnt).
Proof.
  unfold get_name, get_name_gen, stem, upart, tpart, adds, esc_name.
  destruct (negb (without_counter_suffixes c) && cnt) eqn:A.
  - rewrite trim_counter_eq.
    destruct (unit_suffix unit) as [w|]; [|now rewrite app_nil_l].
    destruct (negb (without_units c) && negb (has_suffix _ w)); [|now rewrite app_nil_l].
    now rewrite <- !app_assoc.
  - destruct (unit_suffix unit) as [w|]; [|now rewrite !app_nil_r].
    destruct (negb (without_units c) && negb (has_suffix _ w)); [|now rewrite !app_nil_r].
    now rewrite app_nil_r.
Qed.

Lemma name_never_crashes c name unit cnt : get_name c name unit cnt <> Crash.
Proof. rewrite get_name_closed. discriminate. Qed.

(** * Bridging configuration and specification input *)
Definition mk_input (c : config) (name unit : bytes) (cnt : bool) : name_input :=
  {| ni_utf8 := utf8 c; ni_no_units := without_units c; ni_no_total := without_counter_suffixes c;
     ni_ns := ns_opt c; ni_name := name; ni_unit := unit; ni_counter := cnt |}.

Lemma lookup_find u t :
  lookup u t = match find (fun p => bytes_eqb (fst p) u) t with Some p => Some (snd p) | None => None end.
Proof.
  induction t as [|[k v] r IH]; [reflexivity|]. cbn.
  destruct (bytes_eqb u k) eqn:E.
  - apply bytes_eqb_eq in E. subst. now rewrite bytes_eqb_refl.
  - destruct (bytes_eqb k u) eqn:E'; [|exact IH].
    apply bytes_eqb_eq in E'. subst. now rewrite bytes_eqb_refl in E.
Qed.

Lemma unit_tables_agree u : unit_suffix u = unit_word u.
Proof. unfold unit_suffix, unit_word. rewrite lookup_find. reflexivity. Qed.

Lemma namespace_spec c name unit cnt : namespace_of c = spec_ns (mk_input c name unit cnt).
Proof.
  unfold namespace_of, spec_ns. cbn. destruct (ns_opt c) as [ns|]; [|reflexivity].
  destruct (utf8 c); [reflexivity|]. now rewrite escape_name_sanitise.
Qed.

Lemma adds_spec c name unit cnt : adds c cnt = adds_total (mk_input c name unit cnt).
Proof. unfold adds, adds_total. cbn. apply andb_comm. Qed.

Lemma esc_name_spec c name : esc_name c name = if utf8 c then name else sanitise name.
Proof. unfold esc_name. now rewrite escape_name_sanitise. Qed.

Lemma upart_spec c name unit cnt b : upart c unit b = unit_part (mk_input c name unit cnt) b.
Proof.
  unfold upart, unit_part, spec_word. cbn [ni_no_units ni_unit mk_input]. rewrite unit_tables_agree.
  destruct (without_units c); cbn [negb andb].
  - now destruct (unit_word unit).
  - destruct (unit_word unit) as [w|]; [|reflexivity]. now destruct (has_suffix b w).
Qed.

Lemma tpart_spec c name unit cnt :
  tpart c cnt = if adds_total (mk_input c name unit cnt) then U_TOTAL else [].
Proof. unfold tpart. now rewrite (adds_spec c name unit cnt). Qed.

(** * Clause: namespace prefix *)
Lemma name_prefix c name unit cnt r :
  get_name c name unit cnt = Name r -> name_prefix_ok (mk_input c name unit cnt) r = true.
Proof.
  rewrite get_name_closed. intros H. inversion H; subst. unfold name_prefix_ok.
  rewrite <- (namespace_spec c name unit cnt), <- !app_assoc. apply has_prefix_app.
Qed.

(** * Clause: ends with the unit word then _total *)
Lemma upart_ends c unit b w :
  unit_suffix unit = Some w -> without_units c = false -> has_suffix (b ++ upart c unit b) w = true.
Proof.
  intros Hw Hu. unfold upart. rewrite Hw, Hu. cbn.
  destruct (has_suffix b w) eqn:E; cbn.
  - now rewrite app_nil_r.
  - apply has_suffix_spec. exists (b ++ [UNDERSCORE]). now rewrite <- app_assoc.
Qed.

Lemma name_tail c name unit cnt r :
  get_name c name unit cnt = Name r -> name_tail_ok (mk_input c name unit cnt) r = true.
Proof.
  rewrite get_name_closed. intros H. inversion H; subst. clear H. unfold name_tail_ok, spec_tail.
  rewrite (tpart_spec c name unit cnt). set (t := if adds_total _ then U_TOTAL else []).
  set (b := namespace_of c ++ stem c name cnt).
  unfold spec_word. cbn [ni_no_units ni_unit mk_input].
  destruct (without_units c) eqn:Hu.
  - rewrite app_assoc. apply has_suffix_app.
  - rewrite <- unit_tables_agree. destruct (unit_suffix unit) as [w|] eqn:Hw.
    + pose proof (upart_ends c unit b w Hw Hu) as He. apply has_suffix_spec in He as [a Ha].
      rewrite app_assoc, Ha. apply has_suffix_spec. exists a. now rewrite <- app_assoc.
    + rewrite app_assoc. apply has_suffix_app.
Qed.

(** * Clause: nothing doubled / exact result on the plain shapes *)
Lemma carried_total_spec n x :
  carried_total n = Some x -> exists d, delimiter d = true /\ n = x ++ [d] ++ TOTAL.
Proof.
  unfold carried_total. destruct (has_suffix n TOTAL) eqn:E; [|discriminate].
  apply has_suffix_spec in E as [a ->].
  rewrite app_length. change (length TOTAL) with 5%nat. rewrite Nat.add_sub.
  rewrite firstn_app, Nat.sub_diag, firstn_all. cbn [firstn]. rewrite app_nil_r.
  destruct (rev a) as [|d rx] eqn:R; [discriminate|].
  destruct (delimiter d) eqn:D; [|discriminate]. intros H. inversion H; subst.
  exists d. split; [exact D|].
  apply (f_equal (@rev N)) in R. rewrite rev_involutive in R. cbn in R. rewrite R.
  now rewrite <- app_assoc.
Qed.

Lemma stem_carried c name cnt x d :
  adds c cnt = true -> delimiter d = true -> esc_name c name = x ++ [d] ++ TOTAL -> stem c name cnt = x.
Proof.
  intros Ha Hd He. unfold stem. rewrite Ha, He.
  change COUNTER_SUFFIX with TOTAL. rewrite app_assoc, trim_suffix_app, strip_delim_snoc.
  now rewrite converts_delimiter, Hd.
Qed.

Lemma last_clean_strip n : last_clean n = true -> strip_delim n = n.
Proof.
  unfold last_clean, strip_delim. destruct (rev n) as [|c r]; [discriminate|].
  rewrite converts_delimiter. now intros ->%negb_true_iff.
Qed.

Lemma stem_plain c name cnt :
  adds c cnt = true -> has_suffix (esc_name c name) TOTAL = false -> last_clean (esc_name c name) = true ->
  stem c name cnt = esc_name c name.
Proof.
  intros Ha Hs Hl. unfold stem. rewrite Ha. change COUNTER_SUFFIX with TOTAL.
  rewrite trim_suffix_none by exact Hs. now apply last_clean_strip.
Qed.

Lemma name_exact c name unit cnt r :
  get_name c name unit cnt = Name r -> name_exact_ok (mk_input c name unit cnt) r = true.
Proof.
  rewrite get_name_closed. intros H. inversion H; subst. clear H. unfold name_exact_ok.
  rewrite <- (adds_spec c name unit cnt), <- (namespace_spec c name unit cnt).
  cbn [ni_utf8 ni_name mk_input]. rewrite <- esc_name_spec.
  rewrite (tpart_spec c name unit cnt), <- (adds_spec c name unit cnt).
  destruct (adds c cnt) eqn:Ha.
  - destruct (carried_total (esc_name c name)) as [x|] eqn:Hc.
    + apply carried_total_spec in Hc as [d [Hd Hn]].
      rewrite (stem_carried c name cnt x d Ha Hd Hn), (upart_spec c name unit cnt), <- !app_assoc.
      apply bytes_eqb_refl.
    + destruct (negb (has_suffix (esc_name c name) TOTAL) && last_clean (esc_name c name)) eqn:Hp; [|reflexivity].
      apply andb_true_iff in Hp as [Hs%negb_true_iff Hl].
      rewrite (stem_plain c name cnt Ha Hs Hl), (upart_spec c name unit cnt), <- !app_assoc.
      apply bytes_eqb_refl.
  - unfold stem. rewrite Ha, app_nil_r, (upart_spec c name unit cnt), <- !app_assoc. apply bytes_eqb_refl.
Qed.

(** * Clause: legal under legacy validation *)
Lemma all_rest_strip t : all_rest t -> all_rest (strip_delim t).
Proof.
  intros H. unfold strip_delim. destruct (rev t) as [|c r] eqn:R; [exact H|].
  destruct (converts_to_underscore c); [|exact H].
  apply all_rest_rev in H. rewrite R in H. apply all_rest_rev.
  unfold all_rest in *. cbn in H. now apply andb_true_iff in H as [_ H].
Qed.

Lemma starts_ok_strip t : starts_ok t = true -> starts_ok (strip_delim t) = true.
Proof.
  intros H. destruct t as [|a t'] using rev_ind; [reflexivity|].
  rewrite strip_delim_snoc. destruct (converts_to_underscore a); [|exact H].
  now apply starts_ok_prefix in H.
Qed.

Lemma all_rest_unit_words : Forall (fun p => all_rest (snd p)) unit_suffixes.
Proof. repeat constructor. Qed.

Lemma lookup_in u t w : lookup u t = Some w -> In (u, w) t.
Proof.
  induction t as [|[k v] r IH]; [discriminate|]. cbn.
  destruct (bytes_eqb u k) eqn:E.
  - apply bytes_eqb_eq in E. subst. intros H. inversion H. now left.
  - intros H. right. now apply IH.
Qed.

Lemma all_rest_upart c unit b : all_rest (upart c unit b).
Proof.
  unfold upart. destruct (unit_suffix unit) as [w|] eqn:E; [|reflexivity].
  destruct (negb (without_units c) && negb (has_suffix b w)); [|reflexivity].
  apply lookup_in in E. pose proof all_rest_unit_words as Hf. rewrite Forall_forall in Hf.
  specialize (Hf _ E). cbn in Hf. unfold all_rest in *. cbn. exact Hf.
Qed.

Lemma starts_ok_upart c unit b : starts_ok (upart c unit b) = true.
Proof.
  unfold upart. destruct (unit_suffix unit) as [w|]; [|reflexivity].
  destruct (negb (without_units c) && negb (has_suffix b w)); reflexivity.
Qed.

Lemma namespace_legacy c :
  utf8 c = false ->
  all_rest (namespace_of c) /\ starts_ok (namespace_of c) = true /\
  (ns_opt c <> None -> namespace_of c <> []).
Proof.
  intros Hu. unfold namespace_of. rewrite Hu. destruct (ns_opt c) as [ns|].
  - rewrite escape_name_sanitise. destruct (has_suffix (sanitise ns) [UNDERSCORE]) eqn:E.
    + split; [apply all_rest_sanitise|]. split; [apply starts_ok_sanitise|].
      intros _ Hn. rewrite Hn in E. discriminate.
    + split; [apply all_rest_app; [apply all_rest_sanitise | reflexivity]|].
      split.
      * apply starts_ok_app; [apply starts_ok_sanitise | reflexivity].
      * intros _ Hn. apply app_eq_nil in Hn as [_ Hn]. discriminate.
  - repeat split; congruence.
Qed.

Lemma name_legal c name unit cnt r :
  utf8 c = false -> name <> [] ->
  get_name c name unit cnt = Name r -> metric_name_legal r = true.
Proof.
  intros Hu Hne. rewrite get_name_closed. intros H. inversion H; subst. clear H.
  destruct (namespace_legacy c Hu) as [Hns1 [Hns2 Hns3]].
  assert (He1 : all_rest (esc_name c name)) by (rewrite esc_name_spec, Hu; apply all_rest_sanitise).
  assert (He2 : starts_ok (esc_name c name) = true) by (rewrite esc_name_spec, Hu; apply starts_ok_sanitise).
  assert (He3 : esc_name c name <> []).
  { rewrite esc_name_spec, Hu. intros E. now apply sanitise_nil in E. }
  assert (Hs1 : all_rest (stem c name cnt)).
  { unfold stem. destruct (adds c cnt); [|exact He1]. now apply all_rest_strip, all_rest_trim. }
  assert (Hs2 : starts_ok (stem c name cnt) = true).
  { unfold stem. destruct (adds c cnt); [|exact He2]. now apply starts_ok_strip, starts_ok_trim. }
  assert (Ht1 : all_rest (tpart c cnt)) by (unfold tpart; destruct (adds c cnt); reflexivity).
  assert (Ht2 : starts_ok (tpart c cnt) = true) by (unfold tpart; destruct (adds c cnt); reflexivity).
  apply legal_iff. repeat split.
  - (* non-empty *)
    intros E. apply app_eq_nil in E as [E1 E2]. apply app_eq_nil in E1 as [_ E1].
    apply app_eq_nil in E2 as [_ E2]. unfold stem in E1. unfold tpart in E2.
    destruct (adds c cnt); [discriminate | contradiction].
  - (* first character *)
    apply starts_ok_app.
    + apply starts_ok_app; [exact Hns2 | intros _; exact Hs2].
    + intros _. apply starts_ok_app; [apply starts_ok_upart | intros _; exact Ht2].
  - repeat apply all_rest_app; auto. apply all_rest_upart.
Qed.

(** All clauses at once. *)
Lemma name_ok_model c name unit cnt :
  utf8 c = true \/ name <> [] ->
  exists r, get_name c name unit cnt = Name r /\ name_ok (mk_input c name unit cnt) r = true.
Proof.
  intros Hg. pose proof (get_name_closed c name unit cnt) as Hc. eexists. split; [exact Hc|].
  unfold name_ok. rewrite (name_prefix _ _ _ _ _ Hc), (name_tail _ _ _ _ _ Hc), (name_exact _ _ _ _ _ Hc).
  rewrite !andb_true_r. unfold name_legal_ok. cbn [ni_utf8 mk_input].
  destruct (utf8 c) eqn:Hu; [reflexivity|]. cbn.
  destruct Hg as [Hg|Hg]; [discriminate|]. eapply name_legal; eauto.
Qed.

Lemma api_name_nonempty s : api_name s = true -> s <> [].
Proof. destruct s; [discriminate | discriminate]. Qed.

(** * Labels *)
Lemma vals_of_san k l :
  vals_of k (map (fun kv => (escape_name (fst kv), snd kv)) l) = san_vals k l.
Proof.
  unfold vals_of, san_vals. induction l as [|[a v] r IH]; [reflexivity|].
  cbn. rewrite escape_name_sanitise. destruct (bytes_eqb (sanitise a) k); cbn; now rewrite IH.
Qed.

Definition esc_attrs (l : list Model.attr) : list Model.attr := map (fun kv => (escape_name (fst kv), snd kv)) l.
Definition model_keys (l : list Model.attr) : list bytes := isort (nodup bytes_dec (map fst (esc_attrs l))).

Lemma get_attrs_legacy l :
  get_attrs false l = map (fun k => (k, join [59] (isort (san_vals k l)))) (model_keys l).
Proof.
  unfold get_attrs, model_keys, esc_attrs. apply map_ext. intros k. now rewrite vals_of_san.
Qed.

Lemma get_attrs_keys l : map fst (get_attrs false l) = model_keys l.
Proof. rewrite get_attrs_legacy, map_map. cbn. apply map_id. Qed.

Lemma model_keys_in l k : In k (model_keys l) <-> exists kv, In kv l /\ sanitise (fst kv) = k.
Proof.
  unfold model_keys, esc_attrs. split.
  - intros H. apply (Permutation_in _ (isort_permutation _)) in H. apply nodup_In in H.
    rewrite map_map in H. cbn in H. apply in_map_iff in H as [kv [E Hin]].
    exists kv. split; [exact Hin|]. now rewrite <- escape_name_sanitise.
  - intros [kv [Hin E]]. apply (Permutation_in _ (Permutation_sym (isort_permutation _))).
    apply nodup_In. rewrite map_map. cbn. apply in_map_iff. exists kv.
    split; [now rewrite escape_name_sanitise | exact Hin].
Qed.

Lemma model_keys_strict l : strictly_sorted (model_keys l) = true.
Proof.
  unfold model_keys. apply sorted_nodup_strict; [apply isort_sorted|].
  eapply Permutation_NoDup; [apply Permutation_sym, isort_permutation | apply NoDup_nodup].
Qed.

Lemma san_vals_nonempty k l : (exists kv, In kv l /\ sanitise (fst kv) = k) -> san_vals k l <> [].
Proof.
  intros [kv [Hin E]]. unfold san_vals. intros Hn.
  assert (Hf : In kv (filter (fun kv0 => bytes_eqb (sanitise (fst kv0)) k) l)).
  { apply filter_In. split; [exact Hin | now apply bytes_eqb_eq]. }
  destruct (filter _ l); [contradiction | discriminate].
Qed.

Lemma first_label c : name_first c = true -> 58 <> c -> label_first c = true.
Proof. intros H1 H2. revert H1. chars. Qed.
Lemma rest_label c : name_rest c = true -> 58 <> c -> label_rest c = true.
Proof. intros H1 H2. revert H1. chars. Qed.

Lemma sanitise_plain_label k : key_plain k = true -> label_name_legal (sanitise k) = true.
Proof.
  unfold key_plain. rewrite andb_true_iff, !negb_true_iff. intros [Hl Hc].
  destruct k as [|c r]; [discriminate|]. cbn [existsb] in Hc. apply orb_false_iff in Hc as [Hc1 Hc2].
  cbn. apply andb_true_iff. split.
  - apply N.eqb_neq in Hc1. destruct (name_first c) eqn:E; [now apply first_label | reflexivity].
  - rewrite forallb_forall. intros x Hx. apply in_map_iff in Hx as [y [<- Hy]].
    assert (Hy58 : (58 =? y) = false).
    { destruct (58 =? y) eqn:E; [|reflexivity]. rewrite <- Hc2. symmetry. apply existsb_exists. now exists y. }
    apply N.eqb_neq in Hy58. destruct (name_rest y) eqn:E; [now apply rest_label | reflexivity].
Qed.

Lemma get_attrs_labels_ok l : labels_ok false l (get_attrs false l) = true.
Proof.
  unfold labels_ok. rewrite get_attrs_keys. rewrite model_keys_strict. cbn [andb].
  apply andb_true_iff. split; [apply andb_true_iff; split|].
  - rewrite forallb_forall. intros kv Hin. apply existsb_exists. exists (sanitise (fst kv)).
    split; [|apply bytes_eqb_refl]. apply model_keys_in. now exists kv.
  - rewrite get_attrs_legacy, forallb_forall. intros kv Hin. apply in_map_iff in Hin as [k [<- Hk]]. cbn.
    apply model_keys_in in Hk. apply san_vals_nonempty in Hk.
    rewrite bytes_eqb_refl, andb_true_r. apply negb_true_iff.
    destruct (san_vals k l); [contradiction | reflexivity].
  - destruct (forallb (fun kv => key_plain (fst kv)) l) eqn:Hp; [|reflexivity]. cbn [negb orb].
    rewrite forallb_forall in *. intros kv Hin. rewrite get_attrs_legacy in Hin.
    apply in_map_iff in Hin as [k [<- Hk]]. cbn. apply model_keys_in in Hk as [kv [Hin <-]].
    apply sanitise_plain_label. now apply Hp.
Qed.

(** The boolean checker (the one applied to the implementation's observation) implies the Prop reading. *)
Lemma labels_ok_sound input out : labels_ok false input out = true -> Labels_merged input out.
Proof.
  unfold labels_ok. rewrite !andb_true_iff. intros [[[Hs Hc] Hv] Hl].
  rewrite forallb_forall in Hc, Hv.
  assert (Hout : forall k v, In (k, v) out ->
            san_vals k input <> [] /\ v = join [59] (isort (san_vals k input))).
  { intros k v Hin. specialize (Hv _ Hin). cbn in Hv. apply andb_true_iff in Hv as [H1 H2].
    apply bytes_eqb_eq in H2. split; [|exact H2]. intros E. rewrite E in H1. discriminate. }
  repeat split.
  - now apply strictly_sorted_nodup.
  - intros Hk. apply in_map_iff in Hk as [[k' v] [E Hin]]. cbn in E. subst k'.
    destruct (Hout _ _ Hin) as [Hne _]. unfold san_vals in Hne.
    destruct (filter (fun kv => bytes_eqb (sanitise (fst kv)) k) input) as [|kv f] eqn:F; [contradiction|].
    assert (Hf : In kv (filter (fun kv => bytes_eqb (sanitise (fst kv)) k) input)) by (rewrite F; now left).
    apply filter_In in Hf as [Hf1 Hf2]. exists kv. split; [exact Hf1 | now apply bytes_eqb_eq].
  - intros [kv [Hin E]]. specialize (Hc _ Hin). apply existsb_exists in Hc as [x [Hx Hx']].
    apply bytes_eqb_eq in Hx'. subst k. subst x. exact Hx.
  - intros k v Hin. destruct (Hout _ _ Hin) as [_ Hv']. exists (isort (san_vals k input)).
    split; [apply isort_permutation|]. split; [apply isort_sorted | exact Hv'].
  - intros Hp kv Hin. apply orb_true_iff in Hl as [Hl|Hl].
    + apply negb_true_iff in Hl. exfalso.
      assert (forallb (fun kv => key_plain (fst kv)) input = true) by (apply forallb_forall; intros; now apply Hp).
      congruence.
    + rewrite forallb_forall in Hl. now apply Hl.
Qed.

Lemma labels_merged_model l : Labels_merged l (get_attrs false l).
Proof. apply labels_ok_sound, get_attrs_labels_ok. Qed.

(** Independent of the order in which the attributes are presented. *)
Lemma model_keys_perm l l' : Permutation l l' -> model_keys l = model_keys l'.
Proof.
  intros H. unfold model_keys. apply isort_perm. apply NoDup_Permutation; try apply NoDup_nodup.
  intros x. rewrite !nodup_In. unfold esc_attrs.
  split; apply Permutation_in; repeat apply Permutation_map; [exact H | now apply Permutation_sym].
Qed.

Lemma san_vals_perm k l l' : Permutation l l' -> Permutation (san_vals k l) (san_vals k l').
Proof. intros H. unfold san_vals. now apply Permutation_map, filter_perm. Qed.

Lemma get_attrs_perm l l' : Permutation l l' -> get_attrs false l = get_attrs false l'.
Proof.
  intros H. rewrite !get_attrs_legacy, (model_keys_perm _ _ H). apply map_ext. intros k.
  now rewrite (isort_perm _ _ (san_vals_perm k _ _ H)).
Qed.

(** * Histograms *)
Lemma cumulate_spec bounds : forall acc counts,
  (length bounds <= length counts)%nat ->
  exists bs, cumulate acc bounds counts = Some bs /\ map fst bs = bounds /\
    forall k, (k < length bounds)%nat -> nth k (map snd bs) 0 = acc + sum_n (firstn (S k) counts).
Proof.
  induction bounds as [|b bs IH]; intros acc counts Hl.
  - exists []. repeat split. intros k Hk. cbn in Hk. lia.
  - destruct counts as [|c cs]; [cbn in Hl; lia|]. cbn in Hl.
    destruct (IH (acc + c) cs ltac:(lia)) as [r [Hr [Hf Hn]]].
    exists ((b, acc + c) :: r). cbn [cumulate]. rewrite Hr. repeat split.
    + cbn. now rewrite Hf.
    + intros k Hk. destruct k as [|k].
      * cbn. lia.
      * cbn [map snd nth]. rewrite Hn by (cbn in Hk; lia).
        change (firstn (S (S k)) (c :: cs)) with (c :: firstn (S k) cs). cbn [sum_n]. lia.
Qed.

Lemma cumulate_crash bounds : forall acc counts,
  (length counts < length bounds)%nat -> cumulate acc bounds counts = None.
Proof.
  induction bounds as [|b bs IH]; intros acc counts Hl; [cbn in Hl; lia|].
  destruct counts as [|c cs]; [reflexivity|]. cbn in *. now rewrite IH by lia.
Qed.

Lemma sum_n_app a b : sum_n (a ++ b) = sum_n a + sum_n b.
Proof. induction a as [|x a IH]; cbn; [reflexivity | rewrite IH; lia]. Qed.

Lemma hist_cumulative bounds counts count sum :
  length counts = S (length bounds) -> count = sum_n counts ->
  exists bs, expose_hist bounds counts count sum = Some (bs, count, sum) /\
             Hist_cumulative bounds counts bs count /\
             (forall k, (k < length bounds)%nat -> nth k (map snd bs) 0 <= count).
Proof.
  intros Hl Hc. destruct (cumulate_spec bounds 0 counts ltac:(lia)) as [bs [Hb [Hf Hn]]].
  exists bs. unfold expose_hist. rewrite Hb. split; [reflexivity|]. split.
  - repeat split; [exact Hf | | exact Hc]. intros k Hk. now rewrite Hn.
  - intros k Hk. rewrite Hn by exact Hk. rewrite Hc.
    rewrite <- (firstn_skipn (S k) counts) at 2. rewrite sum_n_app. lia.
Qed.

Lemma list_eqb_N a b : list_eqb N.eqb a b = true -> a = b.
Proof. apply list_eqb_eq. intros x y. apply N.eqb_eq. Qed.
Lemma list_eqb_Z a b : list_eqb Z.eqb a b = true -> a = b.
Proof. apply list_eqb_eq. intros x y. apply Z.eqb_eq. Qed.

Lemma nth_map_in {A B} (f : A -> B) l : forall k d d',
  (k < length l)%nat -> nth k (map f l) d = f (nth k l d').
Proof.
  induction l as [|a l IH]; intros [|k] d d' H; cbn in *; try lia; auto. apply IH. lia.
Qed.

(** The boolean histogram checker implies the Prop reading. *)
Lemma hist_ok_sound bounds counts count sum obs ocount osum :
  hist_ok bounds counts count sum obs ocount osum = true ->
  Hist_cumulative bounds counts obs ocount /\ ocount = count /\ osum = sum.
Proof.
  unfold hist_ok. rewrite !andb_true_iff. intros [[[[H1 H2] H3] H4] H5].
  apply list_eqb_Z in H1. apply list_eqb_N in H2. apply N.eqb_eq in H3, H4. apply Z.eqb_eq in H5.
  repeat split; auto. intros k Hk. rewrite H2.
  rewrite (nth_map_in _ _ k 0 0%nat) by (rewrite seq_length; exact Hk). now rewrite seq_nth.
Qed.

(** * The defects, as witnesses *)
(** F-C18-1 (repaired): without the length guard a counter named "total" indexes name[-1]. *)
Definition default_config : config :=
  {| utf8 := false; without_units := false; without_counter_suffixes := false; ns_opt := None;
     without_scope_info := false; without_target_info := false |}.

Lemma unguarded_total_crashes :
  get_name_gen false default_config (str "total") [] true = Crash /\
  get_name default_config (str "total") [] true = Name (str "_total").
Proof. split; vm_compute; reflexivity. Qed.

(** F-C18-2 (known): ':' survives the escaping of an attribute key but is not legal in a label name. *)
Lemma labels_colon_refuted :
  exists k v, k <> [] /\
    let out := get_attrs false [(k, v)] in
    forallb (fun kv => label_name_legal (fst kv)) out = false /\ point_exposed false out = false.
Proof. exists (str "a:b"), (str "x"). split; [discriminate|]. split; vm_compute; reflexivity. Qed.

Lemma name_legal_api : forall c name unit cnt,
  api_name name = true -> utf8 c = false ->
  exists r, get_name c name unit cnt = Name r /\ metric_name_legal r = true.
Proof.
  intros c name unit cnt Hn Hu. exists ((namespace_of c ++ stem c name cnt) ++
    upart c unit (namespace_of c ++ stem c name cnt) ++ tpart c cnt).
  split; [apply get_name_closed|].
  apply (name_legal c name unit cnt _ Hu (api_name_nonempty _ Hn) (get_name_closed c name unit cnt)).
Qed.

Lemma name_suffix_clauses : forall c name unit cnt r,
  get_name c name unit cnt = Name r ->
  let i := mk_input c name unit cnt in
  name_prefix_ok i r = true /\ name_tail_ok i r = true /\ name_exact_ok i r = true.
Proof.
  intros c name unit cnt r H. cbv zeta.
  split; [eapply name_prefix; eauto|]. split; [eapply name_tail; eauto | eapply name_exact; eauto].
Qed.

(** * Exponential histograms *)
Lemma expo_buckets_expected counts : forall offset, expo_buckets offset counts = expo_expected offset counts.
Proof.
  unfold expo_expected. induction counts as [|c r IH]; intros offset; [reflexivity|].
  cbn [expo_buckets length seq map combine]. f_equal.
  - f_equal. lia.
  - rewrite IH. f_equal. rewrite <- seq_shift, map_map. apply map_ext. intros i. lia.
Qed.

Lemma expo_buckets_nth counts : forall offset i,
  (i < length counts)%nat ->
  nth i (expo_buckets offset counts) (0%Z, 0) = ((offset + 1 + Z.of_nat i)%Z, nth i counts 0).
Proof.
  induction counts as [|c r IH]; intros offset i Hi; [cbn in Hi; lia|].
  destruct i as [|i]; cbn [expo_buckets nth].
  - f_equal. lia.
  - rewrite IH by (cbn in Hi; lia). f_equal. lia.
Qed.

Lemma expo_side_model offset counts : expo_side_ok offset counts (expo_buckets offset counts) = true.
Proof.
  unfold expo_side_ok. rewrite expo_buckets_expected. apply list_eqb_eq; [|reflexivity].
  intros [a b] [c d]. unfold bucket_eqb. cbn. rewrite andb_true_iff, Z.eqb_eq, N.eqb_eq. split.
  - intros [-> ->]. reflexivity.
  - intros H. inversion H. auto.
Qed.
