(** C13 correspondence: evaluates model and spec on the cases the Go harness observed from
    the real exporters (generated files import this).

    Verdict codes per case: 1 = the model's payload differs from a decoded payload;
    2 = a decoded payload violates the specification (or the HTTP and gRPC payloads differ);
    3 = the model's own payload violates the specification relaxed by the shapes present;
    100+k = the case is an instance of known finding F-C13-k and satisfies the specification
    once exactly that finding is overlooked. *)
From Verif Require Import Lib.Base C13.Types C13.Model C13.Spec.
Open Scope N_scope.

Definition tobs := list (pb_resource * list (pb_scope * list pb_span)).
Definition lobs := list (pb_resource * list (pb_scope * list pb_lrec)).

Inductive case :=
| CTrace (rs : list resource) (ss : list scope) (items : list (nat * nat * span))
         (wire : tobs) (http grpc : option tobs)            (* [None]: identical to [wire] *)
| CLog (rs : list resource) (ss : list scope) (items : list (nat * nat * lrec))
       (http : lobs) (grpc : option lobs)                   (* [None]: identical to [http] *)
| CMetric (rm : rmetrics) (http : pb_rmetrics) (grpc : option pb_rmetrics)
| CZipkin (l : list zspan) (obs : option (list zobs)).

Definition resolve {B} (rs : list resource) (ss : list scope) (items : list (nat * nat * B)) : list (item B) :=
  map (fun t => mkItem (nth (fst (fst t)) rs (mkRes [] [])) (nth (snd (fst t)) ss (mkScope [] [] [] [] false)) (snd t)) items.

(** Resource groups come out of a Go map: payloads are compared up to the order of the resource
    groups (and of the scope groups inside them); the order of the items is significant. *)
Fixpoint remove_first {A} (eq : A -> A -> bool) (x : A) (l : list A) : option (list A) :=
  match l with
  | [] => None
  | y :: r => if eq x y then Some r else option_map (cons y) (remove_first eq x r)
  end.
Fixpoint perm_eqb {A} (eq : A -> A -> bool) (a b : list A) : bool :=
  match a with
  | [] => is_nil b
  | x :: a' => match remove_first eq x b with Some b' => perm_eqb eq a' b' | None => false end
  end.
Definition groups_eqb {P} (D : forall a b : P, {a = b} + {a <> b})
  : list (pb_resource * list (pb_scope * list P)) -> list (pb_resource * list (pb_scope * list P)) -> bool :=
  perm_eqb (fun a b => eqb_of pb_resource_eq_dec (fst a) (fst b) &&
                       perm_eqb (eqb_of (pair_eq_dec pb_scope_eq_dec (list_eq_dec D))) (snd a) (snd b)).
Definition tobs_eqb : tobs -> tobs -> bool := groups_eqb pb_span_eq_dec.
Definition lobs_eqb : lobs -> lobs -> bool := groups_eqb pb_lrec_eq_dec.
Definition mobs_eqb : pb_rmetrics -> pb_rmetrics -> bool := eqb_of pb_rmetrics_eq_dec.
Definition zobs_eqb : option (list zobs) -> option (list zobs) -> bool := eqb_of (opt_eq_dec (list_eq_dec zobs_eq_dec)).

(** ** The input shapes of the recorded findings (narrow, over the input only) *)
Definition mem (k : N) (ks : list N) : bool := existsb (N.eqb k) ks.
Definition lax_of (ks : list N) : laxity := mkLax (mem 3 ks) (mem 4 ks) (mem 5 ks).

(** (F-C13-1 link tracestate and F-C13-2 log dropped count are repaired in /repo: codes 1 and 2 are
    retired; their old failing inputs stay in the harness's fixed corpus and are judged like any other case.) *)
(** F-C13-3: two resources of the batch with equal attributes and different schema URLs *)
Definition shape_schema_twins {B} (l : list (item B)) : bool :=
  existsb (fun x => existsb (fun y => eqb_of attrs_eq_dec (r_attrs (it_res x)) (r_attrs (it_res y)) &&
                                      negb (eqb_of bytes_eq_dec (r_schema (it_res x)) (r_schema (it_res y)))) l) l.
(** F-C13-4: a log value of kind Empty (body, attribute value, or nested) *)
Definition shape_empty_value (l : list (item lrec)) : bool :=
  existsb (fun x => has_empty (lr_body (it_body x)) || existsb (fun kv => has_empty (snd kv)) (lr_attrs (it_body x))) l.
(** F-C13-5: an exponential-histogram point with a non-zero zero threshold *)
Definition shape_zero_threshold (rm : rmetrics) : bool :=
  existsb (fun sm => existsb (fun m => match m_data m with
                                       | MExp l _ => existsb (fun p => negb (ep_zero_threshold p =? 0)) l
                                       | _ => false end) (snd sm)) (snd rm).

Definition flag (b : bool) (code : N) : list N := if b then [] else [code].

(** [judge spec shapes]: nothing when the property holds as stated; otherwise the known findings
    that explain the failure (each one really needed), or a plain specification failure. *)
Definition judge (spec : laxity -> bool) (shapes : list (N * bool)) : list N :=
  if spec strict then [] else
  let present := map fst (filter snd shapes) in
  if negb (is_nil present) && spec (lax_of present) then
    let needed := filter (fun k => negb (spec (lax_of (filter (fun j => negb (j =? k)) present)))) present in
    map V_KNOWN (if is_nil needed then present else needed)
  else [V_SPECFAIL].
Definition present_of (shapes : list (N * bool)) : list N := map fst (filter snd shapes).

Definition opt_or {A} (o : option A) (d : A) : A := match o with Some a => a | None => d end.

Definition check_case (c : case) : list N :=
  match c with
  | CTrace rs ss items wire http grpc =>
      let l := resolve rs ss items in
      let m := spans_pb l in
      let h := opt_or http wire in
      let g := opt_or grpc wire in
      let shapes := [(3, shape_schema_twins l)] in
      flag (tobs_eqb m wire && tobs_eqb m h && tobs_eqb m g) V_MISMATCH ++
      judge (fun lx => trace_spec lx l wire && trace_spec lx l h && trace_spec lx l g && tobs_eqb h g) shapes ++
      flag (trace_spec (lax_of (present_of shapes)) l m) V_MODELSPEC
  | CLog rs ss items http grpc =>
      let l := resolve rs ss items in
      let m := logs_pb l in
      let g := opt_or grpc http in
      let shapes := [(3, shape_schema_twins l); (4, shape_empty_value l)] in
      flag (lobs_eqb m http && lobs_eqb m g) V_MISMATCH ++
      judge (fun lx => log_spec lx l http && log_spec lx l g && lobs_eqb http g) shapes ++
      flag (log_spec (lax_of (present_of shapes)) l m) V_MODELSPEC
  | CMetric rm http grpc =>
      let m := rm_pb rm in
      let g := opt_or grpc http in
      let shapes := [(5, shape_zero_threshold rm)] in
      flag (mobs_eqb m http && mobs_eqb m g) V_MISMATCH ++
      judge (fun lx => metric_spec lx rm http && metric_spec lx rm g && mobs_eqb http g) shapes ++
      flag (metric_spec (lax_of (present_of shapes)) rm m) V_MODELSPEC
  | CZipkin l obs =>
      flag (zobs_eqb (zipkin_batch l) obs) V_MISMATCH ++
      flag (zipkin_spec l obs) V_SPECFAIL ++
      flag (zipkin_spec l (zipkin_batch l)) V_MODELSPEC
  end.

Definition run (cs : list case) : list (N * N) := index_from 0 check_case cs.
