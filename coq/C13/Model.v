(** C13 model: the transform code of the OTLP exporters and of the Zipkin exporter as
    executable Gallina functions from abstract telemetry to the abstract protobuf tree
    (definitions only).  Follows the code AS IT IS, recorded defects included
    (F-C13-1 link tracestate and F-C13-2 log dropped count are repaired in /repo, commits fd654da and
    c7bf84f, and modelled in their fixed form):

    - Spans / ResourceLogs key resource groups by Resource.Equivalent(), i.e. by the
      attribute set only: the schema URL of the first resource seen wins   (F-C13-3)
    - LogAttrValue sends a log.Value of KindEmpty as the string "INVALID"  (F-C13-4)
    - ExponentialHistogramDataPoints does not set zero_threshold           (F-C13-5)

    /repo anchors: exporters/otlp/otlptrace/internal/tracetransform/{span,attribute,resource,
    instrumentation}.go; exporters/otlp/otlpmetric/otlpmetric{http,grpc}/internal/transform/
    {metricdata,attribute}.go; exporters/otlp/otlplog/otlplog{http,grpc}/internal/transform/log.go;
    exporters/zipkin/model.go (+ zipkin-go model.SpanModel.MarshalJSON for the JSON rendering). *)
From Verif Require Import Lib.Base C13.Types.
Open Scope N_scope.

(** * Attribute values (attribute.go: Value, KeyValues, Iterator) *)
Definition value_pb (v : aval) : pval :=
  match v with
  | ABool b => PBool b
  | AInt z => PInt z
  | AF64 x => PF64 x
  | AStr s => PStr s
  | ABools l => PArr (map PBool l)
  | AInts l => PArr (map PInt l)
  | AF64s l => PArr (map PF64 l)
  | AStrs l => PArr (map PStr l)
  end.
Definition kv_pb (a : kv) : pkv := (fst a, value_pb (snd a)).
Definition attrs_pb (l : list kv) : list pkv := map kv_pb l.

(** * Log values (log.go: LogAttrValue, LogAttrs, LogAttrValues) *)
Definition INVALID : bytes := str "INVALID".
Fixpoint lval_pb (v : lval) : pval :=
  match v with
  | LEmpty => PStr INVALID                       (* the switch's default branch *)
  | LBool b => PBool b
  | LInt z => PInt z
  | LF64 x => PF64 x
  | LStr s => PStr s
  | LBytes s => PBytes s
  | LSlice l => PArr (map lval_pb l)
  | LMap l => PKvs (map (fun kv => (fst kv, lval_pb (snd kv))) l)
  end.
Definition lattrs_pb (l : list (bytes * lval)) : list pkv := map (fun kv => (fst kv, lval_pb (snd kv))) l.

(** * Scalars *)
(** uint64(max(0, t.UnixNano())) *)
Definition time_nano (t : Z) : N := Z.to_N (Z.max 0 t).
(** clampUint32 *)
Definition clamp32 (v : Z) : N :=
  if (v <? 0)%Z then 0 else if (4294967295 <? v)%Z then 4294967295 else Z.to_N v.
(** spanKind: trace.SpanKind -> Span_SpanKind *)
Definition kind_pb (k : N) : N :=
  match k with 1 => 1 | 2 => 2 | 3 => 3 | 4 => 4 | 5 => 5 | _ => 0 end.
(** status: codes.Code (0 Unset, 1 Error, 2 Ok) -> Status_StatusCode (0 UNSET, 1 OK, 2 ERROR) *)
Definition status_pb (c : N) : N :=
  match c with 2 => 1 | 1 => 2 | _ => 0 end.
(** buildSpanFlags: CONTEXT_HAS_IS_REMOTE (0x100) | CONTEXT_IS_REMOTE (0x200) *)
Definition flags_pb (remote : bool) : N := if remote then 768 else 256.
Definition all_zero (b : bytes) : bool := forallb (N.eqb 0) b.
(** an id that is only set when valid *)
Definition id_if_valid (b : bytes) : bytes := if all_zero b then [] else b.

(** * Spans (span.go) *)
Definition event_pb (e : event) : pb_event :=
  mkPEvent (time_nano (ev_time e)) (ev_name e) (attrs_pb (ev_attrs e)) (clamp32 (ev_dropped e)).
Definition link_pb (l : link) : pb_link :=
  mkPLink (ln_trace l) (ln_span l) (ln_tstate l) (attrs_pb (ln_attrs l))
          (clamp32 (ln_dropped l)) (flags_pb (ln_remote l)).
Definition span_pb (s : span) : pb_span :=
  mkPSpan (sp_trace s) (sp_span s) (sp_tstate s) (id_if_valid (sp_parent s)) (flags_pb (sp_parent_remote s))
          (sp_name s) (kind_pb (sp_kind s)) (time_nano (sp_start s)) (time_nano (sp_end s))
          (attrs_pb (sp_attrs s)) (clamp32 (sp_dropped_attrs s))
          (map event_pb (sp_events s)) (clamp32 (sp_dropped_events s))
          (map link_pb (sp_links s)) (clamp32 (sp_dropped_links s))
          (sp_status_msg s) (status_pb (sp_status s)).

Definition res_pb (r : resource) : pb_resource := mkPRes (attrs_pb (r_attrs r)) (r_schema r).
Definition scope_pb (s : scope) : pb_scope :=
  mkPScope (sc_name s) (sc_version s) (attrs_pb (sc_attrs s)) (sc_schema s).

(** * Grouping (Spans, ResourceLogs): first-seen order; a resource group is keyed by the
      resource's attribute set ([Resource.Equivalent()]), a scope group by that key and the
      whole instrumentation.Scope value.  A group remembers the item that created it (its
      header is rendered from that item) and its items in arrival order. *)
Section Group.
  Context {B : Type}.
  Definition same_res (a b : item B) : bool := eqb_of attrs_eq_dec (r_attrs (it_res a)) (r_attrs (it_res b)).
  Definition same_scope (a b : item B) : bool := eqb_of scope_eq_dec (it_scope a) (it_scope b).
  Definition sgroup := (item B * list (item B))%type.
  Definition rgroup := (item B * list sgroup)%type.
  Fixpoint ins_scope (x : item B) (sgs : list sgroup) : list sgroup :=
    match sgs with
    | [] => [(x, [x])]
    | (g, xs) :: r => if same_scope g x then (g, xs ++ [x]) :: r else (g, xs) :: ins_scope x r
    end.
  Fixpoint ins_res (x : item B) (gs : list rgroup) : list rgroup :=
    match gs with
    | [] => [(x, [(x, [x])])]
    | (f, sgs) :: r => if same_res f x then (f, ins_scope x sgs) :: r else (f, sgs) :: ins_res x r
    end.
  Definition group (l : list (item B)) : list rgroup := fold_left (fun gs x => ins_res x gs) l [].

  Context {P : Type} (body_pb : B -> P).
  Definition render (gs : list rgroup) : list (pb_resource * list (pb_scope * list P)) :=
    map (fun rg => (res_pb (it_res (fst rg)),
                    map (fun sg => (scope_pb (it_scope (fst sg)), map (fun x => body_pb (it_body x)) (snd sg)))
                        (snd rg))) gs.
End Group.

(** tracetransform.Spans (the order of the resource groups comes out of a Go map; the
    harness sorts them by first appearance) *)
Definition spans_pb (l : list (item span)) : list (pb_resource * list (pb_scope * list pb_span)) :=
  render span_pb (group l).

(** * Log records (log.go: LogRecord, SeverityNumber, ResourceLogs) *)
Definition sev_pb (s : Z) : N := if ((1 <=? s) && (s <=? 24))%Z then Z.to_N s else 0.
Definition lrec_pb (r : lrec) : pb_lrec :=
  mkPLrec (time_nano (lr_time r)) (time_nano (lr_observed r)) (sev_pb (lr_sev r)) (lr_sev_text r)
          (lval_pb (lr_body r)) (lattrs_pb (lr_attrs r))
          (clamp32 (lr_dropped r))
          (lr_flags r) (id_if_valid (lr_trace r)) (id_if_valid (lr_span r)) (lr_event r).
Definition logs_pb (l : list (item lrec)) : list (pb_resource * list (pb_scope * list pb_lrec)) :=
  render lrec_pb (group l).

(** * Metrics (metricdata.go) *)
Definition num_f64 (v : num) : N := match v with NI z => f64_of_Z z | NF x => x end.
Definition num_pb (v : num) : pnum := match v with NI z => PNI z | NF x => PNF x end.
(** Temporality: metricdata (1 cumulative, 2 delta) -> AggregationTemporality (1 delta, 2 cumulative) *)
Definition temp_pb (t : N) : option N := match t with 1 => Some 2 | 2 => Some 1 | _ => None end.

Definition exemplar_pb (e : exemplar) : pb_exemplar :=
  mkPEx (attrs_pb (ex_attrs e)) (time_nano (ex_time e)) (num_pb (ex_value e)) (ex_span e) (ex_trace e).
Definition dpoint_pb (d : dpoint) : pb_ndp :=
  mkPNdp (attrs_pb (dp_attrs d)) (time_nano (dp_start d)) (time_nano (dp_time d)) (num_pb (dp_value d))
         (map exemplar_pb (dp_ex d)).
Definition hpoint_pb (h : hpoint) : pb_hdp :=
  mkPHdp (attrs_pb (hp_attrs h)) (time_nano (hp_start h)) (time_nano (hp_time h)) (hp_count h)
         (Some (num_f64 (hp_sum h))) (hp_counts h) (hp_bounds h) (map exemplar_pb (hp_ex h))
         (option_map num_f64 (hp_min h)) (option_map num_f64 (hp_max h)).
Definition epoint_pb (p : epoint) : pb_edp :=
  mkPEdp (attrs_pb (ep_attrs p)) (time_nano (ep_start p)) (time_nano (ep_time p)) (ep_count p)
         (Some (num_f64 (ep_sum p))) (ep_scale p) (ep_zero_count p) (ep_pos_off p) (ep_pos p)
         (ep_neg_off p) (ep_neg p) (map exemplar_pb (ep_ex p))
         (option_map num_f64 (ep_min p)) (option_map num_f64 (ep_max p))
         0 (* zero_threshold is never set *).
Definition qpoint_pb (q : qpoint) : pb_sdp :=
  mkPSdp (attrs_pb (qp_attrs q)) (time_nano (qp_start q)) (time_nano (qp_time q)) (qp_count q) (qp_sum q)
         (qp_quantiles q).
(** [None]: the metric is dropped (unknown temporality), an error is reported. *)
Definition mdata_pb (d : mdata) : option pb_mdata :=
  match d with
  | MGauge l => Some (PGauge (map dpoint_pb l))
  | MSum l t mono => option_map (fun t' => PSum (map dpoint_pb l) t' mono) (temp_pb t)
  | MHist l t => option_map (PHist (map hpoint_pb l)) (temp_pb t)
  | MExp l t => option_map (PExp (map epoint_pb l)) (temp_pb t)
  | MSummary l => Some (PSummary (map qpoint_pb l))
  | MNone => None                                  (* errUnknownAggregation: dropped *)
  end.
Definition metric_pb (m : metric) : option pb_metric :=
  option_map (mkPMetric (m_name m) (m_desc m) (m_unit m)) (mdata_pb (m_data m)).
Fixpoint keep_some {A} (l : list (option A)) : list A :=
  match l with [] => [] | Some a :: r => a :: keep_some r | None :: r => keep_some r end.
Definition metrics_pb (ms : list metric) : list pb_metric := keep_some (map metric_pb ms).
Definition rm_pb (rm : rmetrics) : pb_rmetrics :=
  (res_pb (fst rm), map (fun sm => (scope_pb (fst sm), metrics_pb (snd sm))) (snd rm)).

(** * Zipkin (model.go + zipkin-go SpanModel.MarshalJSON) *)
Definition hexdig (n : N) : N := if n <? 10 then 48 + n else 87 + n.
Definition hex_bytes (b : bytes) : bytes := flat_map (fun x => [hexdig (x / 16); hexdig (x mod 16)]) b.
(** toZipkinTraceID + TraceID.String: the high half is omitted when it is zero. *)
Definition zk_trace_hex (t : bytes) : bytes :=
  let hi := firstn 8 t in
  if all_zero hi then hex_bytes (skipn 8 t) else hex_bytes t.
(** toZipkinKind + Kind JSON strings *)
Definition zk_kind (k : N) : bytes :=
  match k with
  | 2 => str "SERVER" | 3 => str "CLIENT" | 4 => str "PRODUCER" | 5 => str "CONSUMER" | _ => []
  end.
Definition ascii_lower (b : bytes) : bytes := map (fun c => if (65 <=? c) && (c <=? 90) then c + 32 else c) b.
(** Timestamp: absent for the zero time, an error before 1970-01-01T00:00:01Z, else rounded to us. *)
Definition zk_timestamp (t : option Z) : option N :=
  match t with
  | None => Some 0
  | Some ns => if (ns <? 1000000000)%Z then None else Some (Z.to_N ((ns + 500) / 1000))
  end.
(** Duration: error when negative, sub-microsecond reported as 1 us, else rounded to us. *)
Definition zk_duration (d : Z) : option N :=
  if (d <? 0)%Z then None
  else if (d =? 0)%Z then Some 0
  else if (d <? 1000)%Z then Some 1
  else Some (Z.to_N ((d + 500) / 1000)).
Definition zipkin_span (s : zspan) : option zobs :=
  match zk_timestamp (zs_start s), zk_duration (zs_dur s) with
  | Some ts, Some d =>
      Some (mkZobs (zk_trace_hex (zs_trace s)) (hex_bytes (zs_span s))
                   (if all_zero (zs_parent s) then None else Some (hex_bytes (zs_parent s)))
                   (ascii_lower (zs_name s)) (zk_kind (zs_kind s)) ts d)
  | _, _ => None
  end.
(** One JSON array per batch: a single span that cannot be rendered fails the whole export. *)
Fixpoint all_some {A} (l : list (option A)) : option (list A) :=
  match l with
  | [] => Some []
  | Some a :: r => option_map (cons a) (all_some r)
  | None :: _ => None
  end.
(** An empty batch sends no request at all. *)
Definition zipkin_batch (l : list zspan) : option (list zobs) :=
  match l with [] => None | _ => all_some (map zipkin_span l) end.
