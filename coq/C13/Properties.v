(** C13 property theorems.  Statements only, each closed by [exact] of a lemma from
    Proofs.v (or a short combination), followed by the axiom audit; non-vacuity examples at the end.

    Naming: [_partial] = proved under a named guard that excludes a recorded defect of /repo;
    [_as_is] = what holds of the code as it stands (the defect overlooked by the stated laxity);
    [_refuted] = the full-strength statement fails, with a witness.
    Recorded defects: F-C13-3 resources that differ only in schema URL, F-C13-4 Empty log values,
    F-C13-5 exponential-histogram zero threshold.  (F-C13-1 link tracestate and F-C13-2 log dropped count
    are repaired in /repo - fd654da, c7bf84f -: the span and log field theorems hold without those guards.) *)
From Coq Require Import Permutation.
From Verif Require Import Lib.Base C13.Types C13.Model C13.Spec C13.Proofs.
Open Scope N_scope.

(** ** Grouping: every batch, any number of resources and scopes, any interleaving *)

(** Flattening the grouped output is a permutation of the batch (every item exactly once); resource
    groups have pairwise distinct keys, scope groups inside one resource group pairwise distinct
    scopes; every group is non-empty, starts with the item that created it, and holds exactly the
    batch items with its keys, in batch order. *)
Theorem c13_group_partition : forall (B : Type) (l : list (item B)),
  Permutation (flat (group l)) l /\
  NoDup (map gkey (group l)) /\
  forall f sgs, In (f, sgs) (group l) ->
    hd_error (map fst sgs) = Some f /\ NoDup (map skey sgs) /\
    forall g xs, In (g, xs) sgs ->
      rkey g = rkey f /\ hd_error xs = Some g /\ xs = filter (sel f g) l.
Proof. intros B l. split; [apply group_perm | apply group_structure]. Qed.
Print Assumptions c13_group_partition.

(** Each item sits in a group whose resource has its attributes and whose scope is its scope. *)
Theorem c13_group_membership : forall (B : Type) (l : list (item B)) f sgs g xs x,
  In (f, sgs) (group l) -> In (g, xs) sgs -> In x xs ->
  In x l /\ In g l /\ r_attrs (it_res x) = r_attrs (it_res f) /\ r_attrs (it_res g) = r_attrs (it_res f) /\
  it_scope x = it_scope g.
Proof. exact @group_membership. Qed.
Print Assumptions c13_group_membership.

(** Under its own resource, schema URL included - provided no two resources of the batch have
    equal attributes and different schema URLs (F-C13-3). *)
Theorem c13_group_own_resource_partial : forall (B : Type) (l : list (item B)) f sgs g xs x,
  schema_consistent l -> In (f, sgs) (group l) -> In (g, xs) sgs -> In x xs ->
  it_res x = it_res f /\ it_scope x = it_scope g.
Proof. exact @group_own_resource. Qed.
Print Assumptions c13_group_own_resource_partial.

Theorem c13_group_own_resource_refuted :
  exists (l : list (item N)) f sgs g xs x,
    In (f, sgs) (group l) /\ In (g, xs) sgs /\ In x xs /\ it_res x <> it_res f.
Proof. exact group_own_resource_refuted. Qed.
Print Assumptions c13_group_own_resource_refuted.

(** ** Values *)

(** The eight attribute types: decoding the AnyValue gives the value back, up to the element type
    of an empty slice (an OTLP array has none); the mapping is injective on everything else. *)
Theorem c13_value_typed : forall v,
  val_of_pb (value_pb v) = Some (canon_val v) /\
  (empty_slice v = false -> canon_val v = v) /\
  forall v', empty_slice v = false -> empty_slice v' = false -> value_pb v = value_pb v' -> v = v'.
Proof. intros v. split; [apply val_roundtrip | split; [apply canon_val_id | apply value_pb_inj]]. Qed.
Print Assumptions c13_value_typed.

(** Nested log values (any depth, by induction over the value tree) survive and map injectively -
    provided no Empty value occurs (F-C13-4). *)
Theorem c13_log_value_typed_partial : forall v,
  has_empty v = false ->
  lval_of_pb (lval_pb v) = v /\ forall v', has_empty v' = false -> lval_pb v = lval_pb v' -> v = v'.
Proof. intros v H. split; [now apply lval_roundtrip | intros v' H'; now apply lval_pb_inj]. Qed.
Print Assumptions c13_log_value_typed_partial.

Theorem c13_log_value_typed_as_is : forall v, lval_of_pb (lval_pb v) = fill_empty v.
Proof. exact lval_roundtrip_as_is. Qed.
Print Assumptions c13_log_value_typed_as_is.

Theorem c13_log_value_typed_refuted : exists a b, lval_pb a = lval_pb b /\ a <> b.
Proof. exists LEmpty, (LStr (str "INVALID")). exact lval_pb_empty_collides. Qed.
Print Assumptions c13_log_value_typed_refuted.

(** ** Span fields *)

(** Decoding the protobuf span gives back ids, tracestate, parent (and its remoteness), name,
    kind, times, attributes, events, links (tracestate included), status and dropped counts - within
    the range guards (non-negative Unix nanos, counts below 2^32, enums in range). *)
Theorem c13_span_fields : forall s,
  span_guard s = true -> span_of_pb (span_pb s) = Some (canon_span s).
Proof. exact span_roundtrip. Qed.
Print Assumptions c13_span_fields.

(** ** Log record fields *)

(** All fields, the dropped-attribute count included - for records without Empty values (F-C13-4). *)
Theorem c13_log_fields_partial : forall r,
  lrec_guard r = true -> lrec_clean r -> lrec_of_pb (lrec_pb r) = r.
Proof. exact lrec_roundtrip. Qed.
Print Assumptions c13_log_fields_partial.

Theorem c13_log_fields_as_is : forall r, lrec_guard r = true -> lrec_of_pb (lrec_pb r) = norm_lrec lax_F4 r.
Proof. exact lrec_roundtrip_as_is. Qed.
Print Assumptions c13_log_fields_as_is.

Theorem c13_log_fields_refuted : exists r, lrec_guard r = true /\ lrec_of_pb (lrec_pb r) <> r.
Proof. exact lrec_empty_refuted. Qed.
Print Assumptions c13_log_fields_refuted.

(** ** Metric fields *)

(** A metric with a known temporality and non-negative Unix nanos is sent, and decoding gives back
    name, description, unit, aggregation kind, temporality, monotonicity and every data point
    (attributes, times, int/double values, counts, bucket layouts, extrema, sums as doubles,
    exemplars) - the zero threshold of exponential histograms aside (F-C13-5). *)
Theorem c13_metric_fields_as_is : forall m,
  metric_valid m = true -> metric_guard m = true ->
  exists p, metric_pb m = Some p /\ metric_of_pb p = Some (canon_metric lax_F5 m).
Proof. exact metric_roundtrip_as_is. Qed.
Print Assumptions c13_metric_fields_as_is.

Theorem c13_metric_fields_partial : forall m,
  metric_valid m = true -> metric_guard m = true -> no_zero_threshold m ->
  exists p, metric_pb m = Some p /\ metric_of_pb p = Some (canon_metric strict m).
Proof. intros m V G Z. rewrite <- (canon_metric_strict m Z). now apply metric_roundtrip_as_is. Qed.
Print Assumptions c13_metric_fields_partial.

(** int64 sums, minima and maxima travel as doubles: exactly, for magnitudes up to 2^53. *)
Theorem c13_metric_int_as_double_exact : forall z : Z,
  (Z.abs z <= 2 ^ 53)%Z -> f64_to_Z (f64_of_Z z) = Some z.
Proof. exact f64_exact. Qed.
Print Assumptions c13_metric_int_as_double_exact.

(** A metric with an unknown temporality is not sent (the exporter reports an error). *)
Theorem c13_metric_invalid_dropped : forall m, metric_valid m = false -> metric_pb m = None.
Proof. exact metric_invalid_dropped. Qed.
Print Assumptions c13_metric_invalid_dropped.

(** ** The clauses end to end: the specification's reading of the decoded payload, for every batch *)

(** Traces: every span exactly once, under its own resource and scope, identical fields. *)
Theorem c13_traces_faithful_partial : forall l : list (item span),
  (forall x, In x l -> span_guard (it_body x) = true) ->
  schema_consistent l -> canon_separated l ->
  trace_spec strict l (spans_pb l) = true.
Proof. exact trace_faithful. Qed.
Print Assumptions c13_traces_faithful_partial.

Theorem c13_traces_faithful_as_is : forall l : list (item span),
  (forall x, In x l -> span_guard (it_body x) = true) -> canon_separated l ->
  trace_spec lax_F3 l (spans_pb l) = true.
Proof. exact trace_faithful_as_is. Qed.
Print Assumptions c13_traces_faithful_as_is.

Theorem c13_traces_faithful_refuted :
  exists l, (forall x, In x l -> span_guard (it_body x) = true) /\ trace_spec strict l (spans_pb l) = false /\
            trace_spec lax_F3 l (spans_pb l) = true.
Proof. exact trace_schema_twins_refuted. Qed.
Print Assumptions c13_traces_faithful_refuted.

(** Logs. *)
Theorem c13_logs_faithful_partial : forall l : list (item lrec),
  (forall x, In x l -> lrec_guard (it_body x) = true /\ lrec_clean (it_body x)) ->
  schema_consistent l -> canon_separated l ->
  log_spec strict l (logs_pb l) = true.
Proof. exact log_faithful. Qed.
Print Assumptions c13_logs_faithful_partial.

Theorem c13_logs_faithful_as_is : forall l : list (item lrec),
  (forall x, In x l -> lrec_guard (it_body x) = true) -> canon_separated l ->
  log_spec lax_F34 l (logs_pb l) = true.
Proof. exact log_faithful_as_is. Qed.
Print Assumptions c13_logs_faithful_as_is.

Theorem c13_logs_faithful_refuted :
  (exists l, (forall x, In x l -> lrec_guard (it_body x) = true) /\ log_spec strict l (logs_pb l) = false /\
             log_spec (mkLax false true false) l (logs_pb l) = true) /\
  (exists l, (forall x, In x l -> lrec_guard (it_body x) = true) /\ log_spec strict l (logs_pb l) = false /\
             log_spec (mkLax true false false) l (logs_pb l) = true).
Proof. exact log_refuted. Qed.
Print Assumptions c13_logs_faithful_refuted.

(** Metrics: same resource, the scopes in order, under each scope exactly the valid metrics in order. *)
Theorem c13_metrics_faithful_partial : forall rm : rmetrics,
  (forall sm, In sm (snd rm) -> forallb metric_guard (snd sm) = true) ->
  (forall sm m, In sm (snd rm) -> In m (snd sm) -> no_zero_threshold m) ->
  metric_spec strict rm (rm_pb rm) = true.
Proof. exact metric_faithful. Qed.
Print Assumptions c13_metrics_faithful_partial.

Theorem c13_metrics_faithful_as_is : forall rm : rmetrics,
  (forall sm, In sm (snd rm) -> forallb metric_guard (snd sm) = true) ->
  metric_spec lax_F5 rm (rm_pb rm) = true.
Proof. exact metric_faithful_as_is. Qed.
Print Assumptions c13_metrics_faithful_as_is.

Definition ex_epoint (zt : N) : epoint := mkEp [] 10 20 4 None None (NF 0) 3 1 (-2) [1; 0; 2] 4 [1] zt [].
Definition ex_rm (zt : N) : rmetrics :=
  (mkRes [] [], [(mkScope (str "lib") [] [] [] false, [mkMetric (str "e") [] [] (MExp [ex_epoint zt] 2)])]).
Theorem c13_metrics_faithful_refuted :
  exists rm, (forall sm, In sm (snd rm) -> forallb metric_guard (snd sm) = true) /\
             metric_spec strict rm (rm_pb rm) = false /\ metric_spec lax_F5 rm (rm_pb rm) = true.
Proof.
  exists (ex_rm 4602678819172646912). split; [|split; vm_compute; reflexivity].
  intros sm [<-|[]]. reflexivity.
Qed.
Print Assumptions c13_metrics_faithful_refuted.

(** The judged grouping predicate [groups_ok] means what the property says (a statement about
    Spec.v alone): a decoded payload that passes it (plain equality on items and resources) has one
    group per resource; every item of every group is a batch item under a resource and a scope equal to
    its own; and for every resource and scope the groups carrying that scope hold together exactly
    the batch's items of that resource and scope (nothing lost, nothing duplicated).  A scope may
    be split over several groups: OTLP allows it, and the code does it for a scope whose empty
    attribute set is spelled both as the zero attribute.Set and as attribute.NewSet(). *)
Theorem c13_spec_grouping_adequate : forall (B : Type) (D : forall a b : B, {a = b} + {a <> b}) (picky : B -> bool)
    (l : list (item B)) (o : list (resource * list (scope * list B))),
  groups_ok (eqb_of D) (eqb_of resource_eq_dec) picky l o = true ->
  NoDup (map fst o) /\
  (forall R sgs S xs b, In (R, sgs) o -> In (S, xs) sgs -> In b xs ->
     exists x, In x l /\ it_body x = b /\ it_res x = R /\ it_scope x = S) /\
  (forall R sgs S xs, In (R, sgs) o -> In (S, xs) sgs ->
     Permutation (gather S sgs) (members (eqb_of resource_eq_dec) R S l)) /\
  (forall x, In x l -> exists sgs xs, In (it_res x, sgs) o /\ In (it_scope x, xs) sgs).
Proof. exact @groups_ok_adequate. Qed.
Print Assumptions c13_spec_grouping_adequate.

(** The strict reading [groups_exact] (one group per (resource, scope)) implies the judged one, and a
    payload that passes it holds a permutation of the whole batch. *)
Theorem c13_spec_grouping_exact : forall (B : Type) (D : forall a b : B, {a = b} + {a <> b})
    (l : list (item B)) (o : list (resource * list (scope * list B))),
  groups_exact (eqb_of D) (eqb_of resource_eq_dec) l o = true ->
  (forall picky, groups_ok (eqb_of D) (eqb_of resource_eq_dec) picky l o = true) /\
  Permutation (flat_map (fun rg => flat_map snd (snd rg)) o) (map it_body l).
Proof. intros B D l o H. split; [intros picky; now apply groups_exact_ok | now apply (groups_exact_adequate D)]. Qed.
Print Assumptions c13_spec_grouping_exact.

(** ** Zipkin *)

(** A span within the guards (16/8/8-byte ids, start at or after 1970-01-01T00:00:01Z or the zero
    time, non-negative duration) is rendered so that the hex ids decode to the trace id (also when
    its high half is zero), span id and parent id, the name is preserved up to ASCII case, the kind
    follows the OTel -> Zipkin table, the timestamp is the start time and the duration end - start,
    both at microsecond granularity (nearest, half up; a positive sub-microsecond duration is 1). *)
Theorem c13_zipkin_ids : forall s o,
  zspan_guard s = true -> zipkin_span s = Some o -> zspan_same s o = true.
Proof. exact zipkin_span_ok. Qed.
Print Assumptions c13_zipkin_ids.

(** Every batch: if all spans are within the guards the batch is sent whole and in order. *)
Theorem c13_zipkin_batch : forall l, zipkin_spec l (zipkin_batch l) = true.
Proof. exact zipkin_batch_ok. Qed.
Print Assumptions c13_zipkin_batch.

(** ** Non-vacuity: concrete values meeting the hypotheses *)
Definition ex_scope (n : bytes) : scope := mkScope n (str "v1") [] [(str "k", AInts [])] false.
Definition ex_sp (n : N) (links : list link) : span :=
  mkSpan (repeat 7 16) [0; 0; 0; 0; 0; 0; 0; n] (str "a=1") (repeat 0 8) false (str "op") 3 1700000000000000000 1700000000000001500
         [(str "http.method", AStr (str "GET")); (str "xs", AF64s [])] [mkEvent (str "e") 1700000000000000007 [] 4]
         links 1 (str "boom") 0 4294967295 3.
Definition ex_batch : list (item span) :=
  [mkItem (ex_res (str "urn:1")) (ex_scope (str "lib/a")) (ex_sp 1 []);
   mkItem (mkRes [] []) (mkScope [] [] [] [] false) (ex_sp 2 [mkLink (repeat 9 16) (repeat 8 8) (str "a=1") true [(str "k", ABool true)] 2]);
   mkItem (ex_res (str "urn:1")) (ex_scope (str "lib/b")) (ex_sp 3 []);
   mkItem (ex_res (str "urn:1")) (ex_scope (str "lib/a")) (ex_sp 4 [])].
Example ex_batch_hyps :
  (forall x, In x ex_batch -> span_guard (it_body x) = true) /\
  schema_consistent ex_batch /\ canon_separated ex_batch.
Proof.
  split; [|split; [|split]].
  - intros x [<-|[<-|[<-|[<-|[]]]]]; reflexivity.
  - intros x y [<-|[<-|[<-|[<-|[]]]]] [<-|[<-|[<-|[<-|[]]]]]; cbn; intros E; try reflexivity; discriminate E.
  - intros x y [<-|[<-|[<-|[<-|[]]]]] [<-|[<-|[<-|[<-|[]]]]]; cbn; intros E; try reflexivity; discriminate E.
  - intros x y [<-|[<-|[<-|[<-|[]]]]] [<-|[<-|[<-|[<-|[]]]]]; cbn; intros E; try reflexivity; discriminate E.
Qed.
Example ex_batch_groups :
  map (fun rg => (length (snd rg), map (fun sg => length (snd sg)) (snd rg))) (group ex_batch) = [(2, [2; 1]); (1, [1])]%nat.
Proof. vm_compute. reflexivity. Qed.
Example ex_batch_spec : trace_spec strict ex_batch (spans_pb ex_batch) = true.
Proof. vm_compute. reflexivity. Qed.
(** one scope spelled with the zero attribute set and with an allocated empty one: two groups with
    the same header, every span once, the payload passes the judged spec *)
Definition ex_split : list (item span) :=
  [mkItem (ex_res []) (mkScope (str "lib") [] [] [] false) (ex_sp 1 []);
   mkItem (ex_res []) (mkScope (str "lib") [] [] [] true) (ex_sp 2 []);
   mkItem (ex_res []) (mkScope (str "lib") [] [] [] false) (ex_sp 3 [])].
Example ex_split_spec :
  map (fun rg => map (fun sg => length (snd sg)) (snd rg)) (group ex_split) = [[2; 1]]%nat /\
  trace_spec strict ex_split (spans_pb ex_split) = true.
Proof. split; vm_compute; reflexivity. Qed.
Example ex_values :
  val_of_pb (value_pb (AInts [1; -2]%Z)) = Some (AInts [1; -2]%Z) /\
  lval_of_pb (lval_pb (LMap [(str "k", LSlice [LInt 1; LBytes [0; 255]; LMap []])])) = LMap [(str "k", LSlice [LInt 1; LBytes [0; 255]; LMap []])].
Proof. split; reflexivity. Qed.
Example ex_log_hyps :
  let r := ex_lrec (LMap [(str "k", LSlice [LInt 1; LStr (str "INVALID")])]) 2 in
  lrec_guard r = true /\ lrec_clean r /\ lrec_of_pb (lrec_pb r) = r.
Proof.
  cbv zeta. split; [reflexivity|]. split; [|vm_compute; reflexivity].
  split; [reflexivity|]. intros kv [<-|[]]. reflexivity.
Qed.
Example ex_metric :
  let m := mkMetric (str "h") [] (str "ms") (MHist [mkHp [(str "k", AStr (str "v"))] 10 20 3 [5; 10] [1; 1; 1] (Some (NI 2)) None (NI 21) []] 2) in
  metric_valid m = true /\ metric_guard m = true /\ no_zero_threshold m /\
  option_map pm_data (metric_pb m) =
    Some (PHist [mkPHdp [(str "k", PStr (str "v"))] 10 20 3 (Some 4626604192193052672) [1; 1; 1] [5; 10] [] (Some 4611686018427387904) None] 1).
Proof. cbv zeta. repeat split. Qed.
Example ex_zipkin :
  let s := mkZspan (repeat 0 8 ++ [9; 10; 11; 12; 13; 14; 15; 16]) [0; 0; 0; 0; 0; 0; 1; 1] (repeat 0 8) (str "Client Call") 3
                   (Some 1700000000000000499%Z) 2500500%Z in
  zspan_guard s = true /\
  zipkin_span s = Some (mkZobs (str "090a0b0c0d0e0f10") (str "0000000000000101") None (str "client call") (str "CLIENT") 1700000000000000 2501).
Proof. cbv zeta. split; vm_compute; reflexivity. Qed.
Example ex_f64 : f64_of_Z 21 = 4626604192193052672 /\ f64_to_Z (f64_of_Z (2 ^ 53 + 1)) = Some (2 ^ 53)%Z.
Proof. split; vm_compute; reflexivity. Qed.
