(** C13 proofs. *)
From Coq Require Import Permutation.
From Verif Require Import Lib.Base C13.Types C13.Model C13.Spec.
Open Scope N_scope.

(** * Generic helpers *)
Lemma opt_map_all_map {A B C} (f : B -> option C) (g : A -> B) (h : A -> C) (l : list A) :
  (forall x, In x l -> f (g x) = Some (h x)) -> opt_map_all f (map g l) = Some (map h l).
Proof.
  unfold opt_map_all. induction l as [|a l IH]; intros H; cbn; [reflexivity|].
  rewrite (H a (or_introl eq_refl)). rewrite IH; [reflexivity|]. intros x Hx. apply H. now right.
Qed.

Lemma opt_map_all_id {A B} (f : B -> option A) (g : A -> B) (l : list A) :
  (forall x, f (g x) = Some x) -> opt_map_all f (map g l) = Some l.
Proof.
  intros H. rewrite (opt_map_all_map f g (fun x => x)); [now rewrite map_id | auto].
Qed.

(** * Attribute values: the eight types survive, up to the element type of empty slices *)
Lemma val_roundtrip v : val_of_pb (value_pb v) = Some (canon_val v).
Proof.
  destruct v as [b|z|x|s|l|l|l|l]; try reflexivity; destruct l as [|b r]; try reflexivity.
  - change (val_of_pb (value_pb (ABools (b :: r)))) with (option_map ABools (opt_map_all as_bool (map PBool (b :: r)))).
    now rewrite (opt_map_all_id as_bool PBool).
  - change (val_of_pb (value_pb (AInts (b :: r)))) with (option_map AInts (opt_map_all as_int (map PInt (b :: r)))).
    now rewrite (opt_map_all_id as_int PInt).
  - change (val_of_pb (value_pb (AF64s (b :: r)))) with (option_map AF64s (opt_map_all as_f64 (map PF64 (b :: r)))).
    now rewrite (opt_map_all_id as_f64 PF64).
  - change (val_of_pb (value_pb (AStrs (b :: r)))) with (option_map AStrs (opt_map_all as_str (map PStr (b :: r)))).
    now rewrite (opt_map_all_id as_str PStr).
Qed.

Lemma attrs_roundtrip l : attrs_of_pb (attrs_pb l) = Some (canon_attrs l).
Proof.
  unfold attrs_of_pb, attrs_pb, canon_attrs. apply opt_map_all_map.
  intros [k v] _. unfold kv_of_pb, kv_pb. cbn. now rewrite val_roundtrip.
Qed.

Lemma value_pb_equiv a b : value_pb a = value_pb b -> val_equiv a b.
Proof.
  intros H. unfold val_equiv. pose proof (val_roundtrip a) as Ha. pose proof (val_roundtrip b) as Hb.
  rewrite H in Ha. congruence.
Qed.

Definition empty_slice (v : aval) : bool :=
  match v with ABools [] | AInts [] | AF64s [] | AStrs [] => true | _ => false end.
Lemma canon_val_id v : empty_slice v = false -> canon_val v = v.
Proof. destruct v as [| | | |[|]|[|]|[|]|[|]]; cbn; congruence. Qed.
Lemma value_pb_inj a b : empty_slice a = false -> empty_slice b = false -> value_pb a = value_pb b -> a = b.
Proof.
  intros Ha Hb H. apply value_pb_equiv in H. unfold val_equiv in H. now rewrite !canon_val_id in H.
Qed.
Lemma value_pb_empty_collide : value_pb (ABools []) = value_pb (AStrs []) /\ ABools [] <> AStrs [].
Proof. split; [reflexivity | discriminate]. Qed.

(** * Log values (nested): induction principle, round trip, injectivity *)
Section LvalInd.
  Variable P : lval -> Prop.
  Hypothesis HE : P LEmpty.
  Hypothesis HB : forall b, P (LBool b).
  Hypothesis HI : forall z, P (LInt z).
  Hypothesis HF : forall x, P (LF64 x).
  Hypothesis HS : forall s, P (LStr s).
  Hypothesis HY : forall s, P (LBytes s).
  Hypothesis HL : forall l, Forall P l -> P (LSlice l).
  Hypothesis HM : forall l, Forall (fun kv => P (snd kv)) l -> P (LMap l).
  Fixpoint lval_ind' (v : lval) : P v :=
    match v with
    | LEmpty => HE | LBool b => HB b | LInt z => HI z | LF64 x => HF x | LStr s => HS s | LBytes s => HY s
    | LSlice l => HL l ((fix go (l : list lval) : Forall P l :=
                          match l with [] => Forall_nil _ | a :: r => Forall_cons a (lval_ind' a) (go r) end) l)
    | LMap l => HM l ((fix go (l : list (bytes * lval)) : Forall (fun kv => P (snd kv)) l :=
                         match l with [] => Forall_nil _ | a :: r => Forall_cons a (lval_ind' (snd a)) (go r) end) l)
    end.
End LvalInd.

Lemma map_ext_Forall {A B} (f g : A -> B) l : Forall (fun x => f x = g x) l -> map f l = map g l.
Proof. induction 1; cbn; congruence. Qed.

(** What a collector reads back: the value itself, except that an Empty value (at any depth)
    arrives as the string "INVALID". *)
Lemma lval_roundtrip_as_is v : lval_of_pb (lval_pb v) = fill_empty v.
Proof.
  induction v as [|b|z|x|s|s|l IH|l IH] using lval_ind'; try reflexivity.
  - cbn [lval_pb lval_of_pb fill_empty]. f_equal. rewrite map_map. now apply map_ext_Forall.
  - cbn [lval_pb lval_of_pb fill_empty]. f_equal. rewrite map_map. apply map_ext_Forall.
    eapply Forall_impl; [|exact IH]. intros [k w] H. cbn in *. now rewrite H.
Qed.

Lemma fill_empty_id v : has_empty v = false -> fill_empty v = v.
Proof.
  induction v as [|b|z|x|s|s|l IH|l IH] using lval_ind'; try reflexivity; cbn [has_empty fill_empty]; intros H.
  - discriminate.
  - f_equal. rewrite <- (map_id l) at 2. apply map_ext_Forall.
    induction IH as [|a r Ha Hr IHr]; constructor; cbn in H; apply orb_false_iff in H as [H1 H2]; auto.
  - f_equal. rewrite <- (map_id l) at 2. apply map_ext_Forall.
    induction IH as [|[k w] r Ha Hr IHr]; constructor; cbn in H; apply orb_false_iff in H as [H1 H2]; auto.
    cbn in *. now rewrite Ha.
Qed.

Lemma lval_roundtrip v : has_empty v = false -> lval_of_pb (lval_pb v) = v.
Proof. intros H. rewrite lval_roundtrip_as_is. now apply fill_empty_id. Qed.

Lemma lval_pb_inj a b : has_empty a = false -> has_empty b = false -> lval_pb a = lval_pb b -> a = b.
Proof. intros Ha Hb H. rewrite <- (lval_roundtrip a Ha), <- (lval_roundtrip b Hb). now rewrite H. Qed.

Lemma lval_pb_empty_collides : lval_pb LEmpty = lval_pb (LStr (str "INVALID")) /\ LEmpty <> LStr (str "INVALID").
Proof. split; [reflexivity | discriminate]. Qed.

Lemma lattrs_roundtrip_as_is l : lattrs_of_pb (lattrs_pb l) = map (fun kv => (fst kv, fill_empty (snd kv))) l.
Proof.
  unfold lattrs_of_pb, lattrs_pb. rewrite map_map. apply map_ext. intros [k v]. cbn. now rewrite lval_roundtrip_as_is.
Qed.

(** * Scalars *)
Lemma time_roundtrip t : time_ok t = true -> Z.of_N (time_nano t) = t.
Proof. unfold time_ok, time_nano. intros H. apply Z.leb_le in H. rewrite Z.max_r by lia. now rewrite Z2N.id. Qed.
Lemma count_roundtrip c : count_ok c = true -> Z.of_N (clamp32 c) = c.
Proof.
  unfold count_ok, clamp32. intros H. apply andb_true_iff in H as [H1 H2].
  apply Z.leb_le in H1. apply Z.ltb_lt in H2. change (2 ^ 32)%Z with 4294967296%Z in H2.
  destruct (c <? 0)%Z eqn:E1; [apply Z.ltb_lt in E1; lia|].
  destruct (4294967295 <? c)%Z eqn:E2; [apply Z.ltb_lt in E2; lia|]. now rewrite Z2N.id.
Qed.
Lemma kind_roundtrip k : k <=? 5 = true -> kind_of_pb (kind_pb k) = Some k.
Proof.
  intros H. apply N.leb_le in H.
  assert (D : k = 0 \/ k = 1 \/ k = 2 \/ k = 3 \/ k = 4 \/ k = 5) by lia.
  destruct D as [->|[->|[->|[->|[->| ->]]]]]; reflexivity.
Qed.
Lemma status_roundtrip c : c <=? 2 = true -> status_of_pb (status_pb c) = Some c.
Proof.
  intros H. apply N.leb_le in H. assert (D : c = 0 \/ c = 1 \/ c = 2) by lia.
  destruct D as [->|[->| ->]]; reflexivity.
Qed.
Lemma remote_roundtrip b : remote_of_flags (flags_pb b) = b.
Proof. destruct b; reflexivity. Qed.
Lemma all_zero_repeat b : all_zero b = true -> b = repeat 0 (length b).
Proof.
  induction b as [|x b IH]; cbn [all_zero forallb length repeat]; [reflexivity|]. intros H.
  apply andb_true_iff in H as [H1 H2]. apply N.eqb_eq in H1. subst x. f_equal. now apply IH.
Qed.
Lemma id_roundtrip n b : id_len n b = true -> id_of_pb n (id_if_valid b) = b.
Proof.
  unfold id_len, id_if_valid. intros H. apply Nat.eqb_eq in H. destruct (all_zero b) eqn:E.
  - cbn. rewrite (all_zero_repeat b E). now rewrite H.
  - destruct b; [discriminate|reflexivity].
Qed.

(** * Spans: what a collector reads back, field by field *)
Opaque attrs_of_pb attrs_pb opt_map_all time_nano clamp32 kind_pb kind_of_pb status_pb status_of_pb
       remote_of_flags flags_pb id_of_pb id_if_valid lval_pb lval_of_pb lattrs_pb lattrs_of_pb.
Lemma event_roundtrip e : event_guard e = true -> event_of_pb (event_pb e) = Some (canon_event e).
Proof.
  unfold event_guard. intros H. apply andb_true_iff in H as [H1 H2].
  unfold event_of_pb, event_pb, canon_event. cbn. rewrite attrs_roundtrip. cbn.
  now rewrite time_roundtrip, count_roundtrip.
Qed.
Lemma link_roundtrip l : link_guard l = true -> link_of_pb (link_pb l) = Some (canon_link l).
Proof.
  unfold link_guard. intros H. unfold link_of_pb, link_pb, canon_link. cbn.
  rewrite attrs_roundtrip. cbn. now rewrite remote_roundtrip, count_roundtrip.
Qed.

Lemma span_roundtrip s : span_guard s = true -> span_of_pb (span_pb s) = Some (canon_span s).
Proof.
  unfold span_guard. intros H.
  repeat (apply andb_true_iff in H as [H ?]).
  unfold span_of_pb, span_pb. cbn.
  rewrite kind_roundtrip, status_roundtrip, attrs_roundtrip by assumption.
  rewrite (opt_map_all_map event_of_pb event_pb canon_event)
    by (intros e He; apply event_roundtrip; eapply forallb_forall; eauto).
  rewrite (opt_map_all_map link_of_pb link_pb canon_link)
    by (intros l Hl; apply link_roundtrip; eapply forallb_forall; eauto).
  rewrite id_roundtrip, remote_roundtrip, !time_roundtrip, !count_roundtrip by assumption.
  reflexivity.
Qed.

(** * Log records *)
Lemma sev_roundtrip s : ((0 <=? s) && (s <=? 24))%Z = true -> Z.of_N (sev_pb s) = s.
Proof.
  intros H. apply andb_true_iff in H as [H1 H2]. apply Z.leb_le in H1. apply Z.leb_le in H2.
  unfold sev_pb. destruct ((1 <=? s) && (s <=? 24))%Z eqn:E.
  - rewrite Z2N.id by lia. reflexivity.
  - apply andb_false_iff in E as [E|E]; apply Z.leb_gt in E; cbn; lia.
Qed.

Definition lax_F4 : laxity := mkLax false true false.

(** a record as the code sends it: Empty values as "INVALID" (F-C13-4) *)
Lemma lrec_roundtrip_as_is r : lrec_guard r = true -> lrec_of_pb (lrec_pb r) = norm_lrec lax_F4 r.
Proof.
  unfold lrec_guard. intros H. repeat (apply andb_true_iff in H as [H ?]).
  unfold lrec_of_pb, lrec_pb, norm_lrec. cbn.
  rewrite !time_roundtrip, sev_roundtrip, !id_roundtrip, count_roundtrip by assumption.
  rewrite lval_roundtrip_as_is, lattrs_roundtrip_as_is. reflexivity.
Qed.

Definition lrec_clean (r : lrec) : Prop :=
  has_empty (lr_body r) = false /\ forall kv, In kv (lr_attrs r) -> has_empty (snd kv) = false.
Lemma norm_lrec_id r : lrec_clean r -> norm_lrec lax_F4 r = r.
Proof.
  intros (Hb & Ha). unfold norm_lrec. cbn.
  destruct r as [t o e sv st body attrs tr sp fl dr]; cbn in *. f_equal.
  - now apply fill_empty_id.
  - rewrite <- (map_id attrs) at 2. apply map_ext_in. intros [k v] Hin. cbn. f_equal.
    apply fill_empty_id. exact (Ha _ Hin).
Qed.
Lemma lrec_roundtrip r : lrec_guard r = true -> lrec_clean r -> lrec_of_pb (lrec_pb r) = r.
Proof. intros G H. rewrite lrec_roundtrip_as_is by assumption. now apply norm_lrec_id. Qed.

Definition ex_lrec (body : lval) (dropped : Z) : lrec :=
  mkLrec 10 20 [] 9 (str "INFO") body [(str "k", LInt 1)] (repeat 1 16) (repeat 2 8) 1 dropped.
Lemma lrec_empty_refuted : exists r, lrec_guard r = true /\ lrec_of_pb (lrec_pb r) <> r.
Proof. exists (ex_lrec LEmpty 2). split; [reflexivity|]. vm_compute. discriminate. Qed.

(** * Grouping: for every batch *)
Lemma filter_snoc {A} (p : A -> bool) l x : filter p (l ++ [x]) = filter p l ++ (if p x then [x] else []).
Proof. rewrite filter_app. cbn. now destruct (p x). Qed.
Lemma filter_none {A} (p : A -> bool) l : (forall y, In y l -> p y = false) -> filter p l = [].
Proof.
  induction l as [|a l IH]; cbn; intros H; [reflexivity|]. rewrite (H a (or_introl eq_refl)). apply IH. intros y Hy. apply H. now right.
Qed.
Lemma NoDup_snoc {A} (l : list A) a : NoDup l -> ~ In a l -> NoDup (l ++ [a]).
Proof.
  intros H Hn. induction H as [|b l Hb Hl IH]; cbn.
  - constructor; [intros []|constructor].
  - constructor.
    + intros Hin. apply in_app_or in Hin as [Hin|[->|[]]]; [contradiction|]. apply Hn. now left.
    + apply IH. intros Hin. apply Hn. now right.
Qed.

Section GroupProofs.
  Context {B : Type}.
  Implicit Types (x y f g a b : item B).
  Notation sgrp := (item B * list (item B))%type.
  Notation rgrp := (item B * list (item B * list (item B)))%type.
  Definition rkey x : list kv := r_attrs (it_res x).
  Definition skey (sg : sgrp) : scope := it_scope (fst sg).
  Definition gkey (rg : rgrp) : list kv := rkey (fst rg).
  (** the batch items that belong to the group founded by [g] inside the resource group founded by [f] *)
  Definition sel f g y : bool := same_res f y && same_scope g y.
  Definition flat_s (sgs : list (sgrp)) : list (item B) := concat (map snd sgs).
  Definition flat (gs : list (rgrp)) : list (item B) := concat (map (fun rg => flat_s (snd rg)) gs).

  Lemma same_res_iff a b : same_res a b = true <-> rkey a = rkey b.
  Proof. apply eqb_of_true. Qed.
  Lemma same_scope_iff a b : same_scope a b = true <-> it_scope a = it_scope b.
  Proof. apply eqb_of_true. Qed.
  Lemma same_res_false a b : same_res a b = false <-> rkey a <> rkey b.
  Proof. rewrite <- same_res_iff. destruct (same_res a b); split; congruence. Qed.
  Lemma same_scope_false a b : same_scope a b = false <-> it_scope a <> it_scope b.
  Proof. rewrite <- same_scope_iff. destruct (same_scope a b); split; congruence. Qed.
  Lemma same_res_refl a : same_res a a = true. Proof. now apply same_res_iff. Qed.
  Lemma same_scope_refl a : same_scope a a = true. Proof. now apply same_scope_iff. Qed.

  (** ** Permutation *)
  Lemma flat_s_cons g xs r : flat_s ((g, xs) :: r) = xs ++ flat_s r.
  Proof. reflexivity. Qed.
  Lemma flat_cons f sgs r : flat ((f, sgs) :: r) = flat_s sgs ++ flat r.
  Proof. reflexivity. Qed.
  Lemma ins_scope_perm x sgs : Permutation (flat_s (ins_scope x sgs)) (x :: flat_s sgs).
  Proof.
    induction sgs as [|[g xs] r IH]; [reflexivity|]. cbn [ins_scope].
    destruct (same_scope g x); rewrite !flat_s_cons.
    - rewrite <- app_assoc. cbn [app]. symmetry. apply Permutation_middle.
    - rewrite IH. symmetry. apply Permutation_middle.
  Qed.
  Lemma ins_res_perm x gs : Permutation (flat (ins_res x gs)) (x :: flat gs).
  Proof.
    induction gs as [|[f sgs] r IH]; [reflexivity|]. cbn [ins_res].
    destruct (same_res f x); rewrite !flat_cons.
    - rewrite ins_scope_perm. reflexivity.
    - rewrite IH. symmetry. apply Permutation_middle.
  Qed.
  Lemma fold_ins_perm l gs : Permutation (flat (fold_left (fun gs x => ins_res x gs) l gs)) (flat gs ++ l).
  Proof.
    revert gs. induction l as [|x l IH]; intros gs; cbn [fold_left]; [now rewrite app_nil_r|].
    rewrite IH, ins_res_perm. cbn [app]. apply Permutation_middle.
  Qed.
  Lemma group_perm l : Permutation (flat (group l)) l.
  Proof. unfold group. now rewrite fold_ins_perm. Qed.

  (** ** Shape of one insertion *)
  Lemma ins_scope_spec x sgs :
    (exists s1 g xs s2, sgs = s1 ++ (g, xs) :: s2 /\ same_scope g x = true /\
        Forall (fun sg => same_scope (fst sg) x = false) s1 /\ ins_scope x sgs = s1 ++ (g, xs ++ [x]) :: s2) \/
    (Forall (fun sg => same_scope (fst sg) x = false) sgs /\ ins_scope x sgs = sgs ++ [(x, [x])]).
  Proof.
    induction sgs as [|[g xs] r IH]; cbn.
    - right. split; [constructor | reflexivity].
    - destruct (same_scope g x) eqn:E.
      + left. exists [], g, xs, r. repeat split; auto.
      + destruct IH as [(s1 & g' & xs' & s2 & -> & H1 & H2 & H3) | [H1 H2]].
        * left. exists ((g, xs) :: s1), g', xs', s2. repeat split; auto. cbn. now rewrite H3.
        * right. split; [constructor; auto | cbn; now rewrite H2].
  Qed.
  Lemma ins_res_spec x gs :
    (exists q1 f sgs q2, gs = q1 ++ (f, sgs) :: q2 /\ same_res f x = true /\
        Forall (fun rg => same_res (fst rg) x = false) q1 /\ ins_res x gs = q1 ++ (f, ins_scope x sgs) :: q2) \/
    (Forall (fun rg => same_res (fst rg) x = false) gs /\ ins_res x gs = gs ++ [(x, [(x, [x])])]).
  Proof.
    induction gs as [|[f sgs] r IH]; cbn.
    - right. split; [constructor | reflexivity].
    - destruct (same_res f x) eqn:E.
      + left. exists [], f, sgs, r. repeat split; auto.
      + destruct IH as [(q1 & f' & sgs' & q2 & -> & H1 & H2 & H3) | [H1 H2]].
        * left. exists ((f, sgs) :: q1), f', sgs', q2. repeat split; auto. cbn. now rewrite H3.
        * right. split; [constructor; auto | cbn; now rewrite H2].
  Qed.

  (** ** The invariant: what the groups are in terms of the batch seen so far *)
  Definition SInv (l : list (item B)) f (sg : sgrp) : Prop :=
    rkey (fst sg) = rkey f /\ hd_error (snd sg) = Some (fst sg) /\ snd sg = filter (sel f (fst sg)) l.
  Definition SCover (l : list (item B)) f (sgs : list (sgrp)) : Prop :=
    forall y, In y l -> rkey y = rkey f -> exists sg, In sg sgs /\ skey sg = it_scope y.
  Definition RInv (l : list (item B)) (rg : rgrp) : Prop :=
    hd_error (map fst (snd rg)) = Some (fst rg) /\ NoDup (map skey (snd rg)) /\
    Forall (SInv l (fst rg)) (snd rg) /\ SCover l (fst rg) (snd rg).
  Definition GInv (l : list (item B)) (gs : list (rgrp)) : Prop :=
    NoDup (map gkey gs) /\ Forall (RInv l) gs /\ (forall y, In y l -> exists rg, In rg gs /\ gkey rg = rkey y).

  Lemma SInv_other l f sg x : SInv l f sg -> sel f (fst sg) x = false -> SInv (l ++ [x]) f sg.
  Proof. intros (H1 & H2 & H3) Hx. repeat split; auto. rewrite filter_snoc, Hx, app_nil_r. exact H3. Qed.

  Lemma ins_scope_inv l f x sgs :
    same_res f x = true -> NoDup (map skey sgs) -> Forall (SInv l f) sgs -> SCover l f sgs ->
    NoDup (map skey (ins_scope x sgs)) /\ Forall (SInv (l ++ [x]) f) (ins_scope x sgs) /\
    SCover (l ++ [x]) f (ins_scope x sgs) /\
    hd_error (map fst (ins_scope x sgs)) = match sgs with [] => Some x | _ => hd_error (map fst sgs) end.
  Proof.
    intros Hf Hnd Hall Hcov.
    destruct (ins_scope_spec x sgs) as [(s1 & g & xs & s2 & -> & Hg & Hs1 & ->) | [Hmiss ->]].
    - (* x joins the group founded by g *)
      assert (Hgx : it_scope g = it_scope x) by now apply same_scope_iff.
      apply Forall_app in Hall as [Ha1 Ha2]. inversion Ha2 as [|? ? Hag Ha3]; subst.
      rewrite map_app in Hnd. cbn in Hnd.
      repeat split.
      + rewrite map_app. exact Hnd.
      + apply Forall_app; split; [|constructor].
        * rewrite Forall_forall in *. intros sg Hin. apply SInv_other; [now apply Ha1|].
          unfold sel. now rewrite (Hs1 sg Hin), andb_false_r.
        * destruct Hag as (H1 & H2 & H3). cbn in *. repeat split; auto.
          -- destruct xs; [discriminate | exact H2].
          -- cbn [fst snd]. rewrite filter_snoc. unfold sel at 2. rewrite Hf, Hg. cbn [andb]. now rewrite <- H3.
        * rewrite Forall_forall in *. intros sg Hin. apply SInv_other; [now apply Ha3|].
          unfold sel. replace (same_scope (fst sg) x) with false; [apply andb_false_r|].
          symmetry. apply same_scope_false. rewrite <- Hgx. intros E.
          apply NoDup_remove_2 in Hnd. apply Hnd. apply in_or_app. right.
          change (it_scope g) with (skey (g, xs)). unfold skey at 1. cbn. rewrite <- E. now apply (in_map skey).
      + intros y Hy Hr. apply in_app_or in Hy as [Hy|[<-|[]]].
        * destruct (Hcov y Hy Hr) as (sg & Hin & Hk). apply in_app_or in Hin as [Hin|[<-|Hin]].
          -- exists sg. split; [apply in_or_app; now left | exact Hk].
          -- exists (g, xs ++ [x]). split; [apply in_or_app; right; now left | exact Hk].
          -- exists sg. split; [apply in_or_app; right; now right | exact Hk].
        * exists (g, xs ++ [x]). split; [apply in_or_app; right; now left | exact Hgx].
      + destruct s1; reflexivity.
    - (* x founds a new scope group *)
      assert (Hnew : forall sg, In sg sgs -> skey sg <> it_scope x).
      { rewrite Forall_forall in Hmiss. intros sg Hin. now apply same_scope_false, Hmiss. }
      repeat split.
      + rewrite map_app. cbn. apply NoDup_snoc; [exact Hnd|].
        intros Hin. apply in_map_iff in Hin as (sg & Hk & Hin). now apply (Hnew sg Hin).
      + apply Forall_app; split.
        * rewrite Forall_forall in *. intros sg Hin. apply SInv_other; [now apply Hall|].
          unfold sel. now rewrite (Hmiss sg Hin), andb_false_r.
        * constructor; [|constructor]. repeat split; cbn.
          -- symmetry. now apply same_res_iff.
          -- rewrite filter_snoc. unfold sel at 2. rewrite Hf, same_scope_refl. cbn [andb].
             rewrite filter_none; [reflexivity|]. intros y Hy. unfold sel.
             destruct (same_res f y) eqn:E1; [|reflexivity]. cbn. apply same_scope_false. intros E2.
             destruct (Hcov y Hy) as (sg & Hin & Hk); [symmetry; now apply same_res_iff|].
             apply (Hnew sg Hin). congruence.
      + intros y Hy Hr. apply in_app_or in Hy as [Hy|[<-|[]]].
        * destruct (Hcov y Hy Hr) as (sg & Hin & Hk). exists sg. split; [apply in_or_app; now left | exact Hk].
        * exists (x, [x]). split; [apply in_or_app; right; now left | reflexivity].
      + destruct sgs; reflexivity.
  Qed.

  Lemma RInv_other l rg x : RInv l rg -> same_res (fst rg) x = false -> RInv (l ++ [x]) rg.
  Proof.
    intros (H1 & H2 & H3 & H4) Hx. repeat split; auto.
    - rewrite Forall_forall in *. intros sg Hin. apply SInv_other; [now apply H3|]. unfold sel. now rewrite Hx.
    - intros y Hy Hr. apply in_app_or in Hy as [Hy|[<-|[]]]; [now apply H4|].
      apply same_res_false in Hx. congruence.
  Qed.

  Lemma ins_res_inv l x gs : GInv l gs -> GInv (l ++ [x]) (ins_res x gs).
  Proof.
    intros (Hnd & Hall & Hcov).
    destruct (ins_res_spec x gs) as [(q1 & f & sgs & q2 & -> & Hf & Hg1 & ->) | [Hmiss ->]].
    - assert (Hfx : rkey f = rkey x) by now apply same_res_iff.
      apply Forall_app in Hall as [Ha1 Ha2]. inversion Ha2 as [|? ? Haf Ha3]; subst.
      rewrite map_app in Hnd. cbn in Hnd.
      destruct Haf as (R1 & R2 & R3 & R4). cbn in R1, R2, R3, R4.
      destruct (ins_scope_inv l f x sgs Hf R2 R3 R4) as (I1 & I2 & I3 & I4).
      repeat split.
      + rewrite map_app. exact Hnd.
      + apply Forall_app; split; [|constructor].
        * rewrite Forall_forall in *. intros rg Hin. apply RInv_other; [now apply Ha1 | now apply Hg1].
        * repeat split; cbn; auto. rewrite I4. destruct sgs; [discriminate | exact R1].
        * rewrite Forall_forall in *. intros rg Hin. apply RInv_other; [now apply Ha3|].
          apply same_res_false. rewrite <- Hfx. intros E.
          apply NoDup_remove_2 in Hnd. apply Hnd. apply in_or_app. right.
          change (rkey f) with (gkey (f, sgs)). unfold gkey at 1. cbn. rewrite <- E. now apply (in_map gkey).
      + intros y Hy. apply in_app_or in Hy as [Hy|[<-|[]]].
        * destruct (Hcov y Hy) as (rg & Hin & Hk). apply in_app_or in Hin as [Hin|[<-|Hin]].
          -- exists rg. split; [apply in_or_app; now left | exact Hk].
          -- exists (f, ins_scope x sgs). split; [apply in_or_app; right; now left | exact Hk].
          -- exists rg. split; [apply in_or_app; right; now right | exact Hk].
        * exists (f, ins_scope x sgs). split; [apply in_or_app; right; now left | exact Hfx].
    - assert (Hnew : forall rg, In rg gs -> gkey rg <> rkey x).
      { rewrite Forall_forall in Hmiss. intros rg Hin. now apply same_res_false, Hmiss. }
      assert (Hfresh : forall y, In y l -> same_res x y = false).
      { intros y Hy. apply same_res_false. intros E. destruct (Hcov y Hy) as (rg & Hin & Hk).
        apply (Hnew rg Hin). congruence. }
      repeat split.
      + rewrite map_app. cbn. apply NoDup_snoc; [exact Hnd|].
        intros Hin. apply in_map_iff in Hin as (rg & Hk & Hin). now apply (Hnew rg Hin).
      + apply Forall_app; split.
        * rewrite Forall_forall in *. intros rg Hin. apply RInv_other; [now apply Hall | now apply Hmiss].
        * constructor; [|constructor]. repeat split; cbn.
          -- constructor; [intros []|constructor].
          -- constructor; [|constructor]. repeat split; cbn.
             rewrite filter_snoc. unfold sel at 2. rewrite same_res_refl, same_scope_refl. cbn [andb].
             rewrite filter_none; [reflexivity|]. intros y Hy. unfold sel. now rewrite (Hfresh y Hy).
          -- intros y Hy Hr. apply in_app_or in Hy as [Hy|[<-|[]]].
             ++ pose proof (Hfresh y Hy) as E. apply same_res_false in E. congruence.
             ++ exists (x, [x]). split; [now left | reflexivity].
      + intros y Hy. apply in_app_or in Hy as [Hy|[<-|[]]].
        * destruct (Hcov y Hy) as (rg & Hin & Hk). exists rg. split; [apply in_or_app; now left | exact Hk].
        * exists (x, [(x, [x])]). split; [apply in_or_app; right; now left | reflexivity].
  Qed.

  Lemma group_snoc l x : group (l ++ [x]) = ins_res x (group l).
  Proof. unfold group. now rewrite fold_left_app. Qed.

  Lemma group_inv l : GInv l (group l).
  Proof.
    induction l as [|x l IH] using rev_ind.
    - repeat split; cbn; [constructor | constructor | intros y []].
    - rewrite group_snoc. now apply ins_res_inv.
  Qed.
End GroupProofs.


(** ** What the invariant says about the finished grouping *)
Definition schema_consistent {B} (l : list (item B)) : Prop :=
  forall x y, In x l -> In y l -> r_attrs (it_res x) = r_attrs (it_res y) -> it_res x = it_res y.

Lemma group_structure {B} (l : list (item B)) :
  NoDup (map gkey (group l)) /\
  forall f sgs, In (f, sgs) (group l) ->
    hd_error (map fst sgs) = Some f /\ NoDup (map skey sgs) /\
    forall g xs, In (g, xs) sgs -> rkey g = rkey f /\ hd_error xs = Some g /\ xs = filter (sel f g) l.
Proof.
  destruct (group_inv l) as (H1 & H2 & _). split; [exact H1|].
  intros f sgs Hin. rewrite Forall_forall in H2. destruct (H2 _ Hin) as (R1 & R2 & R3 & _). cbn in *.
  repeat split; auto; rewrite Forall_forall in R3; destruct (R3 _ H) as (S1 & S2 & S3); cbn in *; auto.
Qed.

Lemma filter_In_l {A} (p : A -> bool) l x : In x (filter p l) -> In x l /\ p x = true.
Proof. apply filter_In. Qed.

(** every item lies in a group with its own resource key and its own scope; the founders are batch items *)
Lemma group_membership {B} (l : list (item B)) f sgs g xs x :
  In (f, sgs) (group l) -> In (g, xs) sgs -> In x xs ->
  In x l /\ In g l /\ r_attrs (it_res x) = r_attrs (it_res f) /\ r_attrs (it_res g) = r_attrs (it_res f) /\
  it_scope x = it_scope g.
Proof.
  intros Hf Hg Hx. destruct (group_structure l) as (_ & H). destruct (H f sgs Hf) as (_ & _ & H3).
  destruct (H3 g xs Hg) as (K1 & K2 & K3).
  assert (Hgx : In g xs) by (destruct xs; [discriminate | inversion K2; now left]).
  rewrite K3 in Hx, Hgx. apply filter_In in Hx as [Hx1 Hx2]. apply filter_In in Hgx as [Hg1 _].
  unfold sel in Hx2. apply andb_true_iff in Hx2 as [E1 E2].
  apply same_res_iff in E1. apply same_scope_iff in E2. repeat split; auto.
Qed.

Lemma group_founder_in {B} (l : list (item B)) f sgs : In (f, sgs) (group l) -> In f l.
Proof.
  intros Hf. destruct (group_structure l) as (_ & H). destruct (H f sgs Hf) as (H1 & _ & H3).
  destruct sgs as [|[g xs] r]; [discriminate|]. cbn in H1. inversion H1; subst g.
  destruct (H3 f xs (or_introl eq_refl)) as (_ & K2 & K3).
  assert (Hin : In f xs) by (destruct xs; [discriminate | inversion K2; now left]).
  rewrite K3 in Hin. now apply filter_In in Hin.
Qed.

(** under its own resource (schema URL included) when no two resources of the batch share
    their attributes but not their schema URL *)
Lemma group_own_resource {B} (l : list (item B)) f sgs g xs x :
  schema_consistent l -> In (f, sgs) (group l) -> In (g, xs) sgs -> In x xs ->
  it_res x = it_res f /\ it_scope x = it_scope g.
Proof.
  intros Hc Hf Hg Hx. destruct (group_membership l f sgs g xs x Hf Hg Hx) as (X1 & X2 & X3 & X4 & X5).
  split; [|exact X5]. apply Hc; auto. now apply (group_founder_in l f sgs).
Qed.

Definition twin_batch : list (item N) :=
  [mkItem (mkRes [(str "service.name", AStr (str "a"))] (str "urn:1")) (mkScope (str "lib") [] [] [] false) 1;
   mkItem (mkRes [(str "service.name", AStr (str "a"))] (str "urn:2")) (mkScope (str "lib") [] [] [] false) 2].
Lemma group_own_resource_refuted :
  exists (l : list (item N)) f sgs g xs x,
    In (f, sgs) (group l) /\ In (g, xs) sgs /\ In x xs /\ it_res x <> it_res f.
Proof.
  exists twin_batch. eexists. eexists. eexists. eexists. eexists.
  split; [vm_compute; left; reflexivity|]. split; [left; reflexivity|].
  split; [right; left; reflexivity|]. vm_compute. discriminate.
Qed.

(** * Zipkin *)
Lemma unhexdig_hexdig n : n < 16 -> unhexdig (hexdig n) = Some n.
Proof.
  intros H. assert (D : n = 0 \/ n = 1 \/ n = 2 \/ n = 3 \/ n = 4 \/ n = 5 \/ n = 6 \/ n = 7 \/ n = 8 \/ n = 9 \/
                       n = 10 \/ n = 11 \/ n = 12 \/ n = 13 \/ n = 14 \/ n = 15) by lia.
  repeat (destruct D as [->|D]; [reflexivity|]). subst. reflexivity.
Qed.
Lemma unhex_hex b : forallb (fun c => c <? 256) b = true -> unhex (hex_bytes b) = Some b.
Proof.
  induction b as [|x b IH]; [reflexivity|]. cbn [forallb]. intros H. apply andb_true_iff in H as [Hx Hb].
  apply N.ltb_lt in Hx. cbn [hex_bytes flat_map app unhex].
  change (flat_map (fun x0 : N => [hexdig (x0 / 16); hexdig (x0 mod 16)]) b) with (hex_bytes b).
  assert (H1 : x / 16 < 16) by (apply N.div_lt_upper_bound; lia).
  assert (H2 : x mod 16 < 16) by (apply N.mod_lt; lia).
  rewrite (unhexdig_hexdig _ H1), (unhexdig_hexdig _ H2), (IH Hb).
  f_equal. f_equal. pose proof (N.div_mod x 16). lia.
Qed.
Lemma hex_bytes_length b : length (hex_bytes b) = (2 * length b)%nat.
Proof. induction b as [|x b IH]; cbn; [reflexivity|]. unfold hex_bytes in IH. rewrite IH. lia. Qed.

Lemma forallb_firstn {A} (p : A -> bool) n l : forallb p l = true -> forallb p (firstn n l) = true.
Proof.
  revert n; induction l as [|a l IH]; intros [|n]; cbn; auto. intros H. apply andb_true_iff in H as [H1 H2].
  rewrite H1. cbn. now apply IH.
Qed.
Lemma forallb_skipn {A} (p : A -> bool) n l : forallb p l = true -> forallb p (skipn n l) = true.
Proof.
  revert n; induction l as [|a l IH]; intros [|n]; cbn; auto. intros H. apply andb_true_iff in H as [H1 H2]. now apply IH.
Qed.

Lemma zk_trace_roundtrip t :
  id_len 16 t = true -> forallb (fun c => c <? 256) t = true -> zk_trace_of (zk_trace_hex t) = Some t.
Proof.
  unfold id_len. intros HL HB. apply Nat.eqb_eq in HL. unfold zk_trace_of, zk_trace_hex.
  destruct (all_zero (firstn 8 t)) eqn:E.
  - rewrite unhex_hex by now apply forallb_skipn.
    rewrite skipn_length, HL. cbn [Nat.sub Nat.eqb].
    f_equal. rewrite <- (firstn_skipn 8 t) at 2. f_equal.
    rewrite (all_zero_repeat _ E). rewrite firstn_length, HL. reflexivity.
  - rewrite unhex_hex by assumption. rewrite HL. reflexivity.
Qed.

Lemma micros_round t : (0 <= t)%Z -> micros_of t (Z.to_N ((t + 500) / 1000)) = true.
Proof.
  intros H. unfold micros_of.
  pose proof (Z.div_mod (t + 500) 1000 ltac:(lia)) as D.
  pose proof (Z.mod_pos_bound (t + 500) 1000 ltac:(lia)) as M.
  assert (0 <= (t + 500) / 1000)%Z by (apply Z.div_pos; lia).
  rewrite Z2N.id by assumption.
  apply andb_true_iff; split; [apply Z.leb_le | apply Z.ltb_lt]; lia.
Qed.

Lemma zk_duration_ok d u : zk_duration d = Some u -> zk_dur_ok d u = true.
Proof.
  unfold zk_duration, zk_dur_ok.
  destruct (d <? 0)%Z eqn:E0; [discriminate|]. apply Z.ltb_ge in E0.
  destruct (d =? 0)%Z; [intros [= <-]; reflexivity|].
  destruct (d <? 1000)%Z; [intros [= <-]; reflexivity|].
  intros [= <-]. now apply micros_round.
Qed.

Lemma lower_idem b : lower_ascii (ascii_lower b) = lower_ascii b.
Proof.
  unfold lower_ascii, ascii_lower. rewrite map_map. apply map_ext. intros c.
  destruct ((65 <=? c) && (c <=? 90)) eqn:E; [|now rewrite E].
  apply andb_true_iff in E as [E1 E2]. apply N.leb_le in E1. apply N.leb_le in E2.
  replace ((65 <=? c + 32) && (c + 32 <=? 90)) with false; [reflexivity|].
  symmetry. apply andb_false_iff. right. apply N.leb_gt. lia.
Qed.

Lemma zipkin_span_ok s o : zspan_guard s = true -> zipkin_span s = Some o -> zspan_same s o = true.
Proof.
  unfold zspan_guard. intros G. repeat (apply andb_true_iff in G as [G ?]).
  rename H into Hd, H0 into Hs, H1 into HB, H2 into Hk, H3 into Hp, H4 into Hsp.
  rewrite !forallb_app in HB. apply andb_true_iff in HB as [HB1 HB2]. apply andb_true_iff in HB2 as [HB2 HB3].
  unfold zipkin_span. destruct (zk_timestamp (zs_start s)) as [ts|] eqn:ET; [|discriminate].
  destruct (zk_duration (zs_dur s)) as [du|] eqn:ED; [|discriminate]. intros [= <-].
  unfold zspan_same. cbn [zo_trace zo_id zo_parent zo_name zo_kind zo_ts zo_dur].
  repeat (apply andb_true_iff; split).
  - apply eqb_of_true. now apply zk_trace_roundtrip.
  - apply eqb_of_true. now apply unhex_hex.
  - fold (all_zero (zs_parent s)). destruct (all_zero (zs_parent s)) eqn:E; [reflexivity|].
    apply andb_true_iff; split; [|reflexivity]. apply eqb_of_true. now apply unhex_hex.
  - apply eqb_of_true. apply lower_idem.
  - apply eqb_of_true. reflexivity.
  - destruct (zs_start s) as [t|]; cbn in ET.
    + apply Z.leb_le in Hs. destruct (t <? 1000000000)%Z eqn:E; [apply Z.ltb_lt in E; lia|].
      inversion ET; subst. apply micros_round. lia.
    + inversion ET; subst. reflexivity.
  - now apply zk_duration_ok.
Qed.

Lemma zipkin_span_some s : zspan_guard s = true -> exists o, zipkin_span s = Some o.
Proof.
  unfold zspan_guard. intros G. repeat (apply andb_true_iff in G as [G ?]).
  unfold zipkin_span.
  assert (E1 : exists ts, zk_timestamp (zs_start s) = Some ts).
  { destruct (zs_start s) as [t|]; cbn; [|eauto]. apply Z.leb_le in H0.
    destruct (t <? 1000000000)%Z eqn:E; [apply Z.ltb_lt in E; lia | eauto]. }
  assert (E2 : exists d, zk_duration (zs_dur s) = Some d).
  { unfold zk_duration. apply Z.leb_le in H. destruct (zs_dur s <? 0)%Z eqn:E; [apply Z.ltb_lt in E; lia|].
    destruct (zs_dur s =? 0)%Z; [eauto|]. destruct (zs_dur s <? 1000)%Z; eauto. }
  destruct E1 as [ts ->]. destruct E2 as [d ->]. eauto.
Qed.

(** every non-empty batch within the guards is sent whole, in order, each span recoverable;
    the empty batch sends nothing *)
Lemma zipkin_all_ok l : forallb zspan_guard l = true ->
  exists obs, all_some (map zipkin_span l) = Some obs /\ zip_all zspan_same l obs = true.
Proof.
  induction l as [|s l IH]; [exists []; split; reflexivity|].
  cbn [forallb]. intros G. apply andb_true_iff in G as [G1 G2]. destruct (IH G2) as (obs & E & Z).
  destruct (zipkin_span_some s G1) as [o Ho]. exists (o :: obs). cbn [map all_some]. rewrite Ho, E. split; [reflexivity|].
  cbn. now rewrite (zipkin_span_ok s o G1 Ho).
Qed.
Lemma zipkin_batch_ok l : zipkin_spec l (zipkin_batch l) = true.
Proof.
  unfold zipkin_spec. destruct (forallb zspan_guard l) eqn:G; [|reflexivity].
  destruct l as [|s l]; [reflexivity|]. unfold zipkin_batch.
  destruct (zipkin_all_ok (s :: l) G) as (obs & E & Z). now rewrite E.
Qed.

(** * From the grouping invariant to the specification's reading of a decoded payload *)
Lemma res_roundtrip r : res_of_pb (res_pb r) = Some (canon_res r).
Proof. unfold res_of_pb, res_pb. cbn. now rewrite attrs_roundtrip. Qed.
Lemma scope_roundtrip s : scope_of_pb (scope_pb s) = Some (canon_scope s).
Proof. unfold scope_of_pb, scope_pb. cbn. now rewrite attrs_roundtrip. Qed.

Lemma nodupb_map {A K C} (eq : C -> C -> bool) (h : A -> C) (k : A -> K) (L : list A) :
  NoDup (map k L) -> (forall a b, In a L -> In b L -> eq (h a) (h b) = true -> k a = k b) ->
  nodupb eq (map h L) = true.
Proof.
  induction L as [|a L IH]; cbn; intros Hnd Heq; [reflexivity|]. inversion Hnd as [|? ? Hn Hnd']; subst.
  apply andb_true_iff; split.
  - apply negb_true_iff. destruct (existsb (eq (h a)) (map h L)) eqn:E; [|reflexivity]. exfalso.
    apply existsb_exists in E as (c & Hc & Ec). apply in_map_iff in Hc as (b & <- & Hb).
    apply Hn. rewrite (Heq a b (or_introl eq_refl) (or_intror Hb) Ec). now apply in_map.
  - apply IH; [assumption|]. intros x y Hx Hy. apply Heq; now right.
Qed.

Lemma filter_map_swap {A C} (p : C -> bool) (h : A -> C) l : filter p (map h l) = map h (filter (fun x => p (h x)) l).
Proof. induction l as [|a l IH]; cbn; [reflexivity|]. destruct (p (h a)); cbn; now rewrite IH. Qed.

Lemma all2_map_l {A C} (p : C -> C -> bool) (u v : A -> C) l :
  (forall x, In x l -> p (u x) (v x) = true) -> all2 p (map u l) (map v l) = true.
Proof.
  induction l as [|a l IH]; cbn; intros H; [reflexivity|]. rewrite (H a (or_introl eq_refl)). cbn.
  apply IH. intros x Hx. apply H. now right.
Qed.

Lemma all2_map_left {A} (p : A -> A -> bool) (u : A -> A) l :
  (forall x, In x l -> p (u x) x = true) -> all2 p (map u l) l = true.
Proof.
  intros H. rewrite <- (map_id l) at 2. now apply all2_map_l.
Qed.

(** the strict reading implies the judged one *)
Section ExactOk.
  Context {B : Type} (same : B -> B -> bool) (req : resource -> resource -> bool) (picky : B -> bool).
  Lemma gather_none (S : scope) (sgs : list (scope * list B)) :
    existsb (sceq S) (map fst sgs) = false -> gather S sgs = [].
  Proof.
    induction sgs as [|[S' xs] r IH]; cbn; intros H; [reflexivity|]. apply orb_false_iff in H as [H1 H2].
    unfold sceq in *. replace (eqb_of scope_eq_dec S' S) with false; [now apply IH|].
    symmetry. destruct (eqb_of scope_eq_dec S' S) eqn:E; [|reflexivity]. apply eqb_of_true in E. subst.
    now rewrite eqb_of_refl in H1.
  Qed.
  Lemma gather_unique (sgs : list (scope * list B)) :
    nodupb sceq (map fst sgs) = true -> forall sg, In sg sgs -> gather (fst sg) sgs = snd sg.
  Proof.
    induction sgs as [|[S xs] r IH]; cbn [map nodupb fst]; intros H sg Hin; [destruct Hin|].
    apply andb_true_iff in H as [H1 H2]. apply negb_true_iff in H1.
    destruct Hin as [<-|Hin]; cbn [gather flat_map fst snd].
    - unfold sceq at 1. rewrite eqb_of_refl. fold (gather S r). rewrite (gather_none S r H1). apply app_nil_r.
    - replace (sceq S (fst sg)) with false; [cbn [app]; now apply IH|].
      symmetry. destruct (sceq S (fst sg)) eqn:E; [|reflexivity].
      assert (X : existsb (sceq S) (map fst r) = true) by (apply existsb_exists; exists (fst sg); split; [now apply in_map | exact E]).
      congruence.
  Qed.
  Lemma groups_exact_ok l o : groups_exact same req l o = true -> groups_ok same req picky l o = true.
  Proof. unfold groups_ok. now intros ->. Qed.
End ExactOk.

Section Faithful.
  Context {B P : Type} (body_pb : B -> P) (dec : P -> option B) (w : B -> B)
          (same : B -> B -> bool) (req : resource -> resource -> bool) (l : list (item B)).
  Hypothesis Hdec : forall x, In x l -> dec (body_pb (it_body x)) = Some (w (it_body x)).
  Hypothesis Hsame : forall x, In x l -> same (w (it_body x)) (it_body x) = true.
  (** [req] on the decoded resources agrees with the grouping key on the batch *)
  Hypothesis Hreq : forall x y, In x l -> In y l ->
    (req (canon_res (it_res x)) (canon_res (it_res y)) = true <-> r_attrs (it_res x) = r_attrs (it_res y)).
  (** distinct scopes of the batch stay distinct on the wire *)
  Hypothesis Hsc : forall x y, In x l -> In y l -> canon_scope (it_scope x) = canon_scope (it_scope y) -> it_scope x = it_scope y.

  Definition decoded_group (rg : item B * list (item B * list (item B))) : resource * list (scope * list B) :=
    (canon_res (it_res (fst rg)),
     map (fun sg => (canon_scope (it_scope (fst sg)), map (fun x => w (it_body x)) (snd sg))) (snd rg)).
  Definition cl : list (item B) := map (canon_item (fun b => b)) l.

  Lemma decode_model : decode_groups dec (render body_pb (group l)) = Some (map decoded_group (group l)).
  Proof.
    unfold decode_groups, render. rewrite (opt_map_all_map _ _ decoded_group); [reflexivity|].
    intros [f sgs] Hf. cbn [fst snd]. rewrite res_roundtrip.
    rewrite (opt_map_all_map _ _ (fun sg => (canon_scope (it_scope (fst sg)), map (fun x => w (it_body x)) (snd sg)))).
    - reflexivity.
    - intros [g xs] Hg. cbn [fst snd]. rewrite scope_roundtrip.
      rewrite (opt_map_all_map dec _ (fun x => w (it_body x))); [reflexivity|].
      intros x Hx. apply Hdec. now destruct (group_membership l f sgs g xs x Hf Hg Hx).
  Qed.

  Lemma sel_agrees f sgs g xs x :
    In (f, sgs) (group l) -> In (g, xs) sgs -> In x l ->
    (req (it_res (canon_item (fun b : B => b) x)) (canon_res (it_res f)) &&
     sceq (it_scope (canon_item (fun b : B => b) x)) (canon_scope (it_scope g))) = sel f g x.
  Proof.
    intros Hf Hg Hx. cbn [canon_item it_res it_scope].
    assert (Hfl : In f l) by now apply (group_founder_in l f sgs).
    assert (Hgl : In g l).
    { destruct (group_structure l) as (_ & H). destruct (H f sgs Hf) as (_ & _ & H3).
      destruct (H3 g xs Hg) as (_ & K2 & K3).
      assert (Hin : In g xs) by (destruct xs; [discriminate | inversion K2; now left]).
      rewrite K3 in Hin. now apply filter_In in Hin. }
    unfold sel. f_equal.
    - destruct (same_res f x) eqn:E.
      + apply Hreq; auto. symmetry. now apply same_res_iff.
      + destruct (req _ _) eqn:E2; [|reflexivity]. apply Hreq in E2; auto.
        apply same_res_false in E. unfold rkey in E. congruence.
    - unfold sceq. destruct (same_scope g x) eqn:E.
      + apply eqb_of_true. apply same_scope_iff in E. now rewrite E.
      + destruct (eqb_of scope_eq_dec _ _) eqn:E2; [|reflexivity]. apply eqb_of_true in E2.
        apply Hsc in E2; auto. apply same_scope_false in E. congruence.
  Qed.

  Lemma model_groups_exact : groups_exact same req cl (map decoded_group (group l)) = true.
  Proof.
    destruct (group_inv l) as (Hnd & Hall & Hcov). rewrite Forall_forall in Hall.
    unfold groups_exact. apply andb_true_iff; split; [apply andb_true_iff; split|].
    - (* one group per resource *)
      rewrite map_map. apply (nodupb_map req _ gkey); [exact Hnd|].
      intros [f sgs] [f' sgs'] Hf Hf' E. cbn [decoded_group fst] in E. unfold gkey, rkey. cbn [fst].
      apply Hreq in E; auto; eapply group_founder_in; eauto.
    - apply forallb_forall. intros rg' Hin. apply in_map_iff in Hin as ([f sgs] & <- & Hf).
      destruct (Hall _ Hf) as (R1 & R2 & R3 & R4). cbn [fst snd] in *. rewrite Forall_forall in R3.
      cbn [decoded_group fst snd].
      apply andb_true_iff; split; [apply andb_true_iff; split|].
      + destruct sgs; [discriminate | reflexivity].
      + rewrite map_map. apply (nodupb_map sceq _ skey); [exact R2|].
        intros [g xs] [g' xs'] Hg Hg' E. cbn [fst] in E. unfold skey. cbn [fst].
        apply eqb_of_true in E. apply Hsc; auto.
        * destruct (R3 _ Hg) as (_ & K2 & K3). cbn [fst snd] in *.
          assert (Hin : In g xs) by (destruct xs; [discriminate | inversion K2; now left]).
          rewrite K3 in Hin. now apply filter_In in Hin.
        * destruct (R3 _ Hg') as (_ & K2 & K3). cbn [fst snd] in *.
          assert (Hin : In g' xs') by (destruct xs'; [discriminate | inversion K2; now left]).
          rewrite K3 in Hin. now apply filter_In in Hin.
      + apply forallb_forall. intros sg' Hin. apply in_map_iff in Hin as ([g xs] & <- & Hg).
        destruct (R3 _ Hg) as (K1 & K2 & K3). cbn [fst snd] in *.
        apply andb_true_iff; split; [destruct xs; [discriminate | reflexivity]|].
        unfold members, cl. rewrite filter_map_swap, map_map.
        rewrite (filter_ext_in _ (sel f g)).
        * rewrite <- K3. cbn [canon_item it_body]. apply all2_map_l.
          intros x Hx. apply Hsame. now destruct (group_membership l f sgs g xs x Hf Hg Hx).
        * intros x Hx. now apply (sel_agrees f sgs g xs x).
    - (* every item has its group *)
      apply forallb_forall. intros x' Hin. apply in_map_iff in Hin as (x & <- & Hx).
      destruct (Hcov x Hx) as ([f sgs] & Hf & Hk). unfold gkey in Hk. cbn [fst] in Hk.
      destruct (Hall _ Hf) as (_ & _ & R3 & R4). cbn [fst snd] in *.
      destruct (R4 x Hx (eq_sym Hk)) as ([g xs] & Hg & Hs). unfold skey in Hs. cbn [fst] in Hs.
      apply existsb_exists. exists (decoded_group (f, sgs)). split; [now apply in_map|].
      cbn [decoded_group fst snd canon_item it_res it_scope]. apply andb_true_iff; split.
      + apply Hreq; auto. eapply group_founder_in; eauto.
      + apply existsb_exists. exists (canon_scope (it_scope g), map (fun x => w (it_body x)) xs). split.
        * apply in_map_iff. exists (g, xs). split; [reflexivity | exact Hg].
        * cbn [fst]. apply eqb_of_true. now rewrite Hs.
  Qed.
End Faithful.

(** * The trace and log clauses for every batch *)
Definition canon_separated {B} (l : list (item B)) : Prop :=
  (forall x y, In x l -> In y l -> canon_attrs (r_attrs (it_res x)) = canon_attrs (r_attrs (it_res y)) ->
               r_attrs (it_res x) = r_attrs (it_res y)) /\
  (forall x y, In x l -> In y l -> canon_scope (it_scope x) = canon_scope (it_scope y) -> it_scope x = it_scope y).

Lemma req_strict {B} (l : list (item B)) : schema_consistent l -> canon_separated l ->
  forall x y, In x l -> In y l ->
    (res_same strict (canon_res (it_res x)) (canon_res (it_res y)) = true <-> r_attrs (it_res x) = r_attrs (it_res y)).
Proof.
  intros Hc [Hs _] x y Hx Hy. unfold res_same. cbn [lax_schema strict]. rewrite eqb_of_true. split.
  - intros E. apply Hs; auto. unfold canon_res in E. now inversion E.
  - intros E. now rewrite (Hc x y Hx Hy E).
Qed.
Lemma req_lax {B} (l : list (item B)) lx : lax_schema lx = true -> canon_separated l ->
  forall x y, In x l -> In y l ->
    (res_same lx (canon_res (it_res x)) (canon_res (it_res y)) = true <-> r_attrs (it_res x) = r_attrs (it_res y)).
Proof.
  intros Hl [Hs _] x y Hx Hy. unfold res_same. rewrite Hl. rewrite eqb_of_true. cbn [canon_res r_attrs]. split.
  - intros E. now apply Hs.
  - intros E. now rewrite E.
Qed.

Lemma span_same_refl s : span_same (canon_span s) s = true.
Proof. unfold span_same. destruct (span_guard s); [apply eqb_of_refl | reflexivity]. Qed.

Lemma trace_faithful l :
  (forall x, In x l -> span_guard (it_body x) = true) ->
  schema_consistent l -> canon_separated l ->
  trace_spec strict l (spans_pb l) = true.
Proof.
  intros Hg Hc Hs. unfold trace_spec, spans_pb.
  rewrite (decode_model span_pb span_of_pb canon_span l).
  - apply groups_exact_ok, (model_groups_exact canon_span span_same (res_same strict) l).
    + intros x Hx. apply span_same_refl.
    + now apply req_strict.
    + apply Hs.
  - intros x Hx. now apply span_roundtrip, Hg.
Qed.

Definition lax_F3 : laxity := mkLax true false false.

(** the trace clause as the code stands: everything but the schema URL of resources that share
    their attributes, for every batch within the range guards *)
Lemma trace_faithful_as_is l :
  (forall x, In x l -> span_guard (it_body x) = true) -> canon_separated l ->
  trace_spec lax_F3 l (spans_pb l) = true.
Proof.
  intros Hg Hs. unfold trace_spec, spans_pb.
  rewrite (decode_model span_pb span_of_pb canon_span l).
  - apply groups_exact_ok, (model_groups_exact _ span_same (res_same lax_F3) l).
    + intros x Hx. apply span_same_refl.
    + now apply req_lax.
    + apply Hs.
  - intros x Hx. now apply span_roundtrip, Hg.
Qed.

Lemma lrec_same_refl r : lrec_same strict r r = true.
Proof. unfold lrec_same. destruct (lrec_guard r); [apply eqb_of_refl | reflexivity]. Qed.

Lemma log_faithful l :
  (forall x, In x l -> lrec_guard (it_body x) = true /\ lrec_clean (it_body x)) ->
  schema_consistent l -> canon_separated l ->
  log_spec strict l (logs_pb l) = true.
Proof.
  intros Hg Hc Hs. unfold log_spec, logs_pb.
  rewrite (decode_model lrec_pb (fun p => Some (lrec_of_pb p)) (fun r => r) l).
  - apply groups_exact_ok, (model_groups_exact (fun r => r) (lrec_same strict) (res_same strict) l).
    + intros x Hx. apply lrec_same_refl.
    + now apply req_strict.
    + apply Hs.
  - intros x Hx. destruct (Hg x Hx). f_equal. now apply lrec_roundtrip.
Qed.

Definition lax_F34 : laxity := mkLax true true false.
Lemma fill_empty_idem v : fill_empty (fill_empty v) = fill_empty v.
Proof.
  induction v as [|b|z|x|s|s|l IH|l IH] using lval_ind'; try reflexivity; cbn [fill_empty]; f_equal; rewrite map_map.
  - now apply map_ext_Forall.
  - apply map_ext_Forall. eapply Forall_impl; [|exact IH]. intros [k w] H. cbn in *. now rewrite H.
Qed.
Lemma lrec_same_as_is r : lrec_same lax_F34 (norm_lrec lax_F4 r) r = true.
Proof.
  unfold lrec_same. destruct (lrec_guard r); [|reflexivity]. apply eqb_of_true.
  unfold norm_lrec. cbn. f_equal.
  - apply fill_empty_idem.
  - rewrite map_map. apply map_ext. intros [k v]. cbn. now rewrite fill_empty_idem.
Qed.
Lemma log_faithful_as_is l :
  (forall x, In x l -> lrec_guard (it_body x) = true) -> canon_separated l ->
  log_spec lax_F34 l (logs_pb l) = true.
Proof.
  intros Hg Hs. unfold log_spec, logs_pb.
  rewrite (decode_model lrec_pb (fun p => Some (lrec_of_pb p)) (norm_lrec lax_F4) l).
  - apply groups_exact_ok, (model_groups_exact _ (lrec_same lax_F34) (res_same lax_F34) l).
    + intros x Hx. apply lrec_same_as_is.
    + now apply req_lax.
    + apply Hs.
  - intros x Hx. f_equal. now apply lrec_roundtrip_as_is, Hg.
Qed.

(** full-strength statements fail on the recorded shapes *)
Definition mk_titem (r : resource) (s : span) : item span := mkItem r (mkScope (str "lib") [] [] [] false) s.
Definition ex_res (schema : bytes) : resource := mkRes [(str "service.name", AStr (str "a"))] schema.
Definition ex_span_plain : span :=
  mkSpan (repeat 1 16) (repeat 2 8) [] (repeat 0 8) false (str "s") 1 10 20 [] [] [] 0 [] 0 0 0.
Lemma trace_schema_twins_refuted :
  exists l, (forall x, In x l -> span_guard (it_body x) = true) /\ trace_spec strict l (spans_pb l) = false /\
            trace_spec lax_F3 l (spans_pb l) = true.
Proof.
  exists [mk_titem (ex_res (str "urn:1")) ex_span_plain; mk_titem (ex_res (str "urn:2")) ex_span_plain].
  split; [|split; vm_compute; reflexivity].
  intros x [<-|[<-|[]]]; reflexivity.
Qed.
Definition mk_litem (r : resource) (b : lrec) : item lrec := mkItem r (mkScope (str "lib") [] [] [] false) b.
Lemma log_refuted :
  (exists l, (forall x, In x l -> lrec_guard (it_body x) = true) /\ log_spec strict l (logs_pb l) = false /\
             log_spec (mkLax false true false) l (logs_pb l) = true) /\
  (exists l, (forall x, In x l -> lrec_guard (it_body x) = true) /\ log_spec strict l (logs_pb l) = false /\
             log_spec (mkLax true false false) l (logs_pb l) = true).
Proof.
  split.
  - exists [mk_litem (ex_res []) (ex_lrec LEmpty 2)]. split; [|split; vm_compute; reflexivity].
    intros x [<-|[]]. reflexivity.
  - exists [mk_litem (ex_res (str "urn:1")) (ex_lrec (LStr (str "m")) 2); mk_litem (ex_res (str "urn:2")) (ex_lrec (LStr (str "m")) 2)].
    split; [|split; vm_compute; reflexivity]. intros x [<-|[<-|[]]]; reflexivity.
Qed.

(** * Metrics *)
Opaque canon_attrs.
Lemma num_roundtrip v : num_of_pb (num_pb v) = Some v.
Proof. destruct v; reflexivity. Qed.
Lemma ex_roundtrip e : ex_guard e = true -> exemplar_of_pb (exemplar_pb e) = Some (canon_ex e).
Proof.
  unfold ex_guard. intros H. unfold exemplar_of_pb, exemplar_pb. cbn.
  now rewrite attrs_roundtrip, num_roundtrip, time_roundtrip.
Qed.
Lemma exs_roundtrip l : forallb ex_guard l = true -> opt_map_all exemplar_of_pb (map exemplar_pb l) = Some (map canon_ex l).
Proof. intros H. apply opt_map_all_map. intros e He. apply ex_roundtrip. eapply forallb_forall; eauto. Qed.
Lemma dp_roundtrip d : dp_guard d = true -> dpoint_of_pb (dpoint_pb d) = Some (canon_dp d).
Proof.
  unfold dp_guard. intros H. repeat (apply andb_true_iff in H as [H ?]).
  unfold dpoint_of_pb, dpoint_pb. cbn. rewrite attrs_roundtrip, num_roundtrip, exs_roundtrip by assumption.
  now rewrite !time_roundtrip.
Qed.
Lemma as_double_f64 v : NF (num_f64 v) = as_double v.
Proof. destruct v; reflexivity. Qed.
Lemma opt_as_double o : option_map NF (option_map num_f64 o) = option_map as_double o.
Proof. destruct o as [v|]; [cbn; now rewrite as_double_f64 | reflexivity]. Qed.
Lemma hp_roundtrip h : hp_guard h = true -> hpoint_of_pb (hpoint_pb h) = Some (canon_hp h).
Proof.
  unfold hp_guard. intros H. repeat (apply andb_true_iff in H as [H ?]).
  unfold hpoint_of_pb, hpoint_pb. cbn. rewrite attrs_roundtrip, exs_roundtrip by assumption.
  rewrite !time_roundtrip, !opt_as_double, as_double_f64 by assumption. reflexivity.
Qed.
Definition lax_F5 : laxity := mkLax false false true.
Lemma ep_roundtrip_as_is p : ep_guard p = true -> epoint_of_pb (epoint_pb p) = Some (canon_ep lax_F5 p).
Proof.
  unfold ep_guard. intros H. repeat (apply andb_true_iff in H as [H ?]).
  unfold epoint_of_pb, epoint_pb. cbn. rewrite attrs_roundtrip, exs_roundtrip by assumption.
  rewrite !time_roundtrip, !opt_as_double, as_double_f64 by assumption. reflexivity.
Qed.
Lemma ep_roundtrip p : ep_guard p = true -> ep_zero_threshold p = 0 -> epoint_of_pb (epoint_pb p) = Some (canon_ep strict p).
Proof.
  intros G Z. rewrite ep_roundtrip_as_is by assumption. unfold canon_ep. cbn [lax_zero_thr lax_F5 strict]. now rewrite Z.
Qed.
Lemma qp_roundtrip q : qp_guard q = true -> qpoint_of_pb (qpoint_pb q) = Some (canon_qp q).
Proof.
  unfold qp_guard. intros H. apply andb_true_iff in H as [H1 H2].
  unfold qpoint_of_pb, qpoint_pb. cbn. rewrite attrs_roundtrip. cbn. now rewrite !time_roundtrip.
Qed.
Lemma temp_roundtrip t : temp_ok t = true -> exists t', temp_pb t = Some t' /\ temp_of_pb t' = Some t.
Proof.
  unfold temp_ok. intros H. apply orb_true_iff in H as [H|H]; apply N.eqb_eq in H; subst; [exists 2 | exists 1]; split; reflexivity.
Qed.
Lemma temp_invalid t : temp_ok t = false -> temp_pb t = None.
Proof.
  unfold temp_ok. intros H. apply orb_false_iff in H as [H1 H2]. apply N.eqb_neq in H1. apply N.eqb_neq in H2.
  unfold temp_pb. destruct t as [|p]; [reflexivity|]. destruct p as [p|p|]; [destruct p | destruct p |]; try reflexivity; congruence.
Qed.

(** a valid metric within the guards: sent, and read back with identical fields (zero threshold aside) *)
Lemma metric_roundtrip_as_is m : metric_valid m = true -> metric_guard m = true ->
  exists p, metric_pb m = Some p /\ metric_of_pb p = Some (canon_metric lax_F5 m).
Proof.
  destruct m as [nm ds un d]. unfold metric_valid, metric_guard, metric_pb, metric_of_pb, canon_metric. cbn [m_data m_name m_desc m_unit].
  destruct d as [l|l t mono|l t|l t|l|]; cbn [temp_of mdata_pb canon_mdata]; intros V G; [| | | | |discriminate V].
  - eexists. split; [reflexivity|]. cbn.
    rewrite (opt_map_all_map dpoint_of_pb dpoint_pb canon_dp); [reflexivity|].
    intros d Hd. apply dp_roundtrip. eapply forallb_forall; eauto.
  - destruct (temp_roundtrip t V) as (t' & E1 & E2). rewrite E1. eexists. split; [reflexivity|]. cbn.
    rewrite (opt_map_all_map dpoint_of_pb dpoint_pb canon_dp), E2; [reflexivity|].
    intros d Hd. apply dp_roundtrip. eapply forallb_forall; eauto.
  - destruct (temp_roundtrip t V) as (t' & E1 & E2). rewrite E1. eexists. split; [reflexivity|]. cbn.
    rewrite (opt_map_all_map hpoint_of_pb hpoint_pb canon_hp), E2; [reflexivity|].
    intros d Hd. apply hp_roundtrip. eapply forallb_forall; eauto.
  - destruct (temp_roundtrip t V) as (t' & E1 & E2). rewrite E1. eexists. split; [reflexivity|]. cbn.
    rewrite (opt_map_all_map epoint_of_pb epoint_pb (canon_ep lax_F5)), E2; [reflexivity|].
    intros d Hd. apply ep_roundtrip_as_is. eapply forallb_forall; eauto.
  - eexists. split; [reflexivity|]. cbn.
    rewrite (opt_map_all_map qpoint_of_pb qpoint_pb canon_qp); [reflexivity|].
    intros d Hd. apply qp_roundtrip. eapply forallb_forall; eauto.
Qed.
Lemma metric_invalid_dropped m : metric_valid m = false -> metric_pb m = None.
Proof.
  destruct m as [nm ds un d]. unfold metric_valid, metric_pb. cbn [m_data].
  destruct d as [l|l t mono|l t|l t|l|]; cbn [temp_of mdata_pb]; intros V; try discriminate; try reflexivity;
    rewrite (temp_invalid t V); reflexivity.
Qed.

Definition no_zero_threshold (m : metric) : Prop :=
  match m_data m with MExp l _ => forall p, In p l -> ep_zero_threshold p = 0 | _ => True end.
Lemma canon_metric_strict m : no_zero_threshold m -> canon_metric lax_F5 m = canon_metric strict m.
Proof.
  destruct m as [nm ds un d]. unfold no_zero_threshold, canon_metric. cbn [m_data m_name m_desc m_unit].
  destruct d as [l|l t mono|l t|l t|l|]; try reflexivity. intros H. cbn [canon_mdata]. do 2 f_equal.
  apply map_ext_in. intros p Hp. unfold canon_ep. cbn [lax_zero_thr lax_F5 strict]. now rewrite (H p Hp).
Qed.

(** the list of metrics of one scope: invalid ones dropped, the others in order *)
Transparent opt_map_all.
Lemma metrics_roundtrip_as_is ms : forallb metric_guard ms = true ->
  opt_map_all metric_of_pb (metrics_pb ms) = Some (map (canon_metric lax_F5) (filter metric_valid ms)).
Proof.
  unfold metrics_pb, opt_map_all. induction ms as [|m ms IH]; [reflexivity|]. cbn [forallb]. intros H.
  apply andb_true_iff in H as [H1 H2]. cbn [map filter keep_some]. destruct (metric_valid m) eqn:V.
  - destruct (metric_roundtrip_as_is m V H1) as (p & E1 & E2). rewrite E1. cbn [keep_some map opt_all].
    rewrite E2, (IH H2). reflexivity.
  - rewrite (metric_invalid_dropped m V). cbn [keep_some]. exact (IH H2).
Qed.
Opaque opt_map_all.

Lemma metric_same_as_is m : metric_same lax_F5 (canon_metric lax_F5 m) m = true.
Proof.
  unfold metric_same. destruct (metric_guard m); [|reflexivity]. apply eqb_of_true.
  destruct m as [nm ds un d]. unfold norm_metric, canon_metric. cbn [m_data m_name m_desc m_unit].
  destruct d as [l|l t mono|l t|l t|l|]; try reflexivity. cbn [canon_mdata lax_zero_thr lax_F5].
  do 2 f_equal. rewrite map_map. apply map_ext. intros p. reflexivity.
Qed.

(** the metric clause as the code stands, for every ResourceMetrics within the range guards *)
Lemma metric_faithful_as_is rm :
  (forall sm, In sm (snd rm) -> forallb metric_guard (snd sm) = true) ->
  metric_spec lax_F5 rm (rm_pb rm) = true.
Proof.
  destruct rm as [r sms]. cbn [snd]. intros G. unfold metric_spec, rm_pb. cbn [fst snd].
  rewrite res_roundtrip.
  rewrite (opt_map_all_map _ _ (fun sm => (canon_scope (fst sm), map (canon_metric lax_F5) (filter metric_valid (snd sm))))).
  - apply andb_true_iff; split; [apply eqb_of_refl|].
    induction sms as [|sm sms IH]; [reflexivity|]. cbn [map all2 fst snd].
    apply andb_true_iff; split; [apply andb_true_iff; split|].
    + apply eqb_of_refl.
    + apply all2_map_left. intros m _. apply metric_same_as_is.
    + apply IH. intros sm' H. apply G. now right.
  - intros sm Hsm. cbn [fst snd]. rewrite scope_roundtrip, metrics_roundtrip_as_is; [reflexivity | now apply G].
Qed.

Lemma metric_same_strict m : no_zero_threshold m -> metric_same strict (canon_metric lax_F5 m) m = true.
Proof.
  intros H. unfold metric_same. destruct (metric_guard m); [|reflexivity]. apply eqb_of_true.
  rewrite (canon_metric_strict m H).
  destruct m as [nm ds un d]. unfold norm_metric, canon_metric. cbn [m_data m_name m_desc m_unit].
  destruct d as [l|l t mono|l t|l t|l|]; reflexivity.
Qed.
Lemma metric_faithful rm :
  (forall sm, In sm (snd rm) -> forallb metric_guard (snd sm) = true) ->
  (forall sm m, In sm (snd rm) -> In m (snd sm) -> no_zero_threshold m) ->
  metric_spec strict rm (rm_pb rm) = true.
Proof.
  destruct rm as [r sms]. cbn [snd]. intros G Z. unfold metric_spec, rm_pb. cbn [fst snd].
  rewrite res_roundtrip.
  rewrite (opt_map_all_map _ _ (fun sm => (canon_scope (fst sm), map (canon_metric lax_F5) (filter metric_valid (snd sm))))).
  - apply andb_true_iff; split; [apply eqb_of_refl|].
    induction sms as [|sm sms IH]; [reflexivity|]. cbn [map all2 fst snd].
    apply andb_true_iff; split; [apply andb_true_iff; split|].
    + apply eqb_of_refl.
    + apply all2_map_left. intros m Hm. apply metric_same_strict. apply (Z sm m); [now left|].
      now apply filter_In in Hm.
    + apply IH; intros; [apply G | eapply Z]; eauto; now right.
  - intros sm Hsm. cbn [fst snd]. rewrite scope_roundtrip, metrics_roundtrip_as_is; [reflexivity | now apply G].
Qed.

(** * int64 sums / extrema as doubles: exact up to 2^53 *)
Section F64.
Open Scope Z_scope.
Lemma f64_fields s E F : (s = 0 \/ s = 1) -> 0 <= E < 2048 -> 0 <= F < 2 ^ 52 ->
  let b := Z.to_N (s * 2 ^ 63 + E * 2 ^ 52 + F) in
  N.testbit b 63 = (s =? 1) /\ Z.of_N ((b / 2 ^ 52) mod 2 ^ 11)%N = E /\ Z.of_N (b mod 2 ^ 52)%N = F.
Proof.
  intros Hs HE HF b.
  set (B := s * 2 ^ 63 + E * 2 ^ 52 + F) in *.
  assert (HB : 0 <= B) by (unfold B; destruct Hs; subst; lia).
  assert (Hb : Z.of_N b = B) by (unfold b; now rewrite Z2N.id).
  assert (P52 : Z.of_N (2 ^ 52)%N = 2 ^ 52) by reflexivity.
  assert (P11 : Z.of_N (2 ^ 11)%N = 2 ^ 11) by reflexivity.
  assert (HBe : B = F + (s * 2048 + E) * 2 ^ 52) by (unfold B; change (2 ^ 63) with (2048 * 2 ^ 52); ring).
  repeat split.
  - replace 63%N with (Z.to_N 63) by reflexivity. rewrite <- Z.testbit_of_N' by lia. rewrite Hb.
    assert (Hq : B / 2 ^ 63 = s).
    { symmetry. apply (Z.div_unique B (2 ^ 63) s (E * 2 ^ 52 + F)); [left; change (2^63) with (2048 * 2^52); lia | unfold B; ring]. }
    destruct (s =? 1) eqn:E1.
    + apply Z.eqb_eq in E1. apply Z.testbit_true; [lia|]. rewrite Hq, E1. reflexivity.
    + apply Z.eqb_neq in E1. apply Z.testbit_false; [lia|]. rewrite Hq. destruct Hs; subst; [reflexivity | congruence].
  - rewrite N2Z.inj_mod, N2Z.inj_div, Hb, P52, P11.
    rewrite HBe, Z_div_plus_full, Z.div_small by lia. cbn [Z.add].
    change (2 ^ 11) with 2048. replace (s * 2048 + E) with (E + s * 2048) by ring.
    rewrite Z_mod_plus_full. apply Z.mod_small. lia.
  - rewrite N2Z.inj_mod, Hb, P52. rewrite HBe, Z_mod_plus_full. apply Z.mod_small. lia.
Qed.

Lemma f64_exact z : Z.abs z <= 2 ^ 53 -> f64_to_Z (f64_of_Z z) = Some z.
Proof.
  intros Hz. unfold f64_of_Z. destruct (z =? 0) eqn:Ez.
  - apply Z.eqb_eq in Ez. subst. reflexivity.
  - apply Z.eqb_neq in Ez. cbv zeta.
    set (m := Z.abs z). assert (Hm : 1 <= m <= 2 ^ 53) by (unfold m; lia).
    set (e := Z.log2 m).
    assert (He : 2 ^ e <= m < 2 ^ (e + 1)).
    { unfold e. replace (Z.log2 m + 1) with (Z.succ (Z.log2 m)) by lia. apply Z.log2_spec. lia. }
    assert (He0 : 0 <= e) by (unfold e; apply Z.log2_nonneg).
    assert (He53 : e <= 53).
    { destruct (Z_le_gt_dec e 53) as [|G]; [assumption|]. exfalso.
      assert (2 ^ 54 <= 2 ^ e) by (apply Z.pow_le_mono_r; lia). lia. }
    (* the exponent / mantissa pair *)
    match goal with |- context [fst ?p] => set (pr := p) end.
    assert (Hpair : exists E q, pr = (E, q) /\
                   2 ^ 52 <= q < 2 ^ 53 /\ 0 <= E <= 53 /\
                   (if 52 <=? E then q * 2 ^ (E - 52) = m else q = m * 2 ^ (52 - E))).
    { unfold pr. clear pr. destruct (e <=? 52) eqn:E52.
      - apply Z.leb_le in E52. exists e, (m * 2 ^ (52 - e)). split; [reflexivity|].
        assert (Hp : 2 ^ e * 2 ^ (52 - e) = 2 ^ 52) by (rewrite <- Z.pow_add_r by lia; f_equal; lia).
        assert (Hp' : 2 ^ (e + 1) * 2 ^ (52 - e) = 2 ^ 53) by (rewrite <- Z.pow_add_r by lia; f_equal; lia).
        assert (0 < 2 ^ (52 - e)) by (apply Z.pow_pos_nonneg; lia).
        split; [nia|]. split; [lia|].
        destruct (52 <=? e) eqn:E2.
        + apply Z.leb_le in E2. assert (e = 52) by lia. subst e. replace (52 - Z.log2 m) with 0 by lia.
          replace (Z.log2 m - 52) with 0 by lia. lia.
        + reflexivity.
      - apply Z.leb_gt in E52. assert (e = 53) by lia.
        assert (Hm53 : m = 2 ^ 53).
        { replace e with 53 in He by lia. lia. }
        exists 53, (2 ^ 52). replace e with 53 by lia. rewrite Hm53. split; [vm_compute; reflexivity|].
        split; [lia|]. split; [lia|]. vm_compute. reflexivity. }
    destruct Hpair as (E & q & -> & Hq & HE & Hval). cbn [fst snd].
    set (s := if z <? 0 then 1 else 0).
    assert (Hs : s = 0 \/ s = 1) by (unfold s; destruct (z <? 0); auto).
    replace ((if z <? 0 then 2 ^ 63 else 0) + (E + 1023) * 2 ^ 52 + (q - 2 ^ 52))
      with (s * 2 ^ 63 + (E + 1023) * 2 ^ 52 + (q - 2 ^ 52)) by (unfold s; destruct (z <? 0); ring).
    destruct (f64_fields s (E + 1023) (q - 2 ^ 52) Hs ltac:(lia) ltac:(lia)) as (F1 & F2 & F3).
    unfold f64_to_Z. rewrite F1, F2, F3.
    destruct (E + 1023 =? 0) eqn:X1; [apply Z.eqb_eq in X1; lia|].
    destruct (E + 1023 =? 2047) eqn:X2; [apply Z.eqb_eq in X2; lia|].
    replace (2 ^ 52 + (q - 2 ^ 52)) with q by ring.
    replace (E + 1023 - 1075) with (E - 52) by ring.
    assert (Hsg : (if s =? 1 then - m else m) = z).
    { unfold s, m. destruct (z <? 0) eqn:Z0; cbn; [apply Z.ltb_lt in Z0 | apply Z.ltb_ge in Z0]; lia. }
    destruct (52 <=? E) eqn:E2.
    + apply Z.leb_le in E2. replace (0 <=? E - 52) with true by (symmetry; apply Z.leb_le; lia).
      rewrite Hval. now rewrite Hsg.
    + apply Z.leb_gt in E2. replace (0 <=? E - 52) with false by (symmetry; apply Z.leb_gt; lia).
      replace (- (E - 52)) with (52 - E) by ring. rewrite Hval.
      assert (0 < 2 ^ (52 - E)) by (apply Z.pow_pos_nonneg; lia).
      rewrite Z.mod_mul by lia. cbn [Z.eqb]. rewrite Z.div_mul by lia. now rewrite Hsg.
Qed.
End F64.

(** * The specification's grouping predicate says what the property says *)
Lemma nodupb_NoDup {A} (D : forall a b : A, {a = b} + {a <> b}) (l : list A) : nodupb (eqb_of D) l = true -> NoDup l.
Proof.
  induction l as [|a l IH]; cbn; intros H; [constructor|]. apply andb_true_iff in H as [H1 H2].
  constructor; [|now apply IH]. intros Hin. apply negb_true_iff in H1.
  assert (E : existsb (eqb_of D a) l = true) by (apply existsb_exists; exists a; split; [assumption | apply eqb_of_refl]).
  congruence.
Qed.
Lemma all2_eq {A} (D : forall a b : A, {a = b} + {a <> b}) (a b : list A) : all2 (eqb_of D) a b = true -> a = b.
Proof.
  revert b; induction a as [|x a IH]; intros [|y b]; cbn; intros H; try reflexivity; try discriminate.
  apply andb_true_iff in H as [H1 H2]. apply eqb_of_true in H1. subst. f_equal. now apply IH.
Qed.
Lemma flat_map_nil {A C} (ks : list A) : flat_map (fun _ : A => @nil C) ks = [].
Proof. induction ks; cbn; auto. Qed.
Lemma flat_map_map_out {A C E} (f : C -> E) (g : A -> list C) (ks : list A) :
  flat_map (fun k => map f (g k)) ks = map f (flat_map g ks).
Proof. induction ks as [|k ks IH]; cbn; [reflexivity|]. now rewrite map_app, IH. Qed.

Lemma flat_map_ext_in' {A C} (f g : A -> list C) (l : list A) :
  (forall a, In a l -> f a = g a) -> flat_map f l = flat_map g l.
Proof.
  induction l as [|a l IH]; cbn; intros H; [reflexivity|]. rewrite (H a (or_introl eq_refl)). f_equal.
  apply IH. intros b Hb. apply H. now right.
Qed.

Section Partition.
  Context {A K : Type} (KD : forall a b : K, {a = b} + {a <> b}) (key : A -> K).
  Definition bucket (l : list A) (k : K) : list A := filter (fun x => eqb_of KD (key x) k) l.
  Lemma bucket_cons_other x l k : key x <> k -> bucket (x :: l) k = bucket l k.
  Proof. intros H. unfold bucket. cbn. destruct (eqb_of KD (key x) k) eqn:E; [apply eqb_of_true in E; contradiction | reflexivity]. Qed.
  Lemma bucket_cons_same x l : bucket (x :: l) (key x) = x :: bucket l (key x).
  Proof. unfold bucket. cbn. now rewrite eqb_of_refl. Qed.
  (** buckets over duplicate-free keys that cover the list partition it *)
  Lemma buckets_partition (keys : list K) (l : list A) :
    NoDup keys -> (forall x, In x l -> In (key x) keys) -> Permutation (flat_map (bucket l) keys) l.
  Proof.
    intros Hnd. induction l as [|x l IH]; intros Hcov.
    - unfold bucket. cbn. now rewrite flat_map_nil.
    - destruct (in_split _ _ (Hcov x (or_introl eq_refl))) as (k1 & k2 & Hk). rewrite Hk in *.
      assert (N1 : ~ In (key x) k1 /\ ~ In (key x) k2).
      { apply NoDup_remove_2 in Hnd. split; intros H; apply Hnd; apply in_or_app; auto. }
      destruct N1 as [N1 N2].
      rewrite flat_map_app. cbn [flat_map]. rewrite bucket_cons_same.
      rewrite (flat_map_ext_in' (bucket (x :: l)) (bucket l) k1)
        by (intros k Hin; apply bucket_cons_other; intros E; subst; contradiction).
      rewrite (flat_map_ext_in' (bucket (x :: l)) (bucket l) k2)
        by (intros k Hin; apply bucket_cons_other; intros E; subst; contradiction).
      cbn [app]. rewrite <- Permutation_middle. constructor.
      specialize (IH (fun y Hy => Hcov y (or_intror Hy))).
      rewrite flat_map_app in IH. exact IH.
  Qed.
End Partition.

Lemma NoDup_app_intro {A} (l1 l2 : list A) :
  NoDup l1 -> NoDup l2 -> (forall a, In a l1 -> ~ In a l2) -> NoDup (l1 ++ l2).
Proof.
  intros H1 H2 Hd. induction H1 as [|a l1 Ha Hl IH]; cbn; [assumption|]. constructor.
  - intros Hin. apply in_app_or in Hin as [Hin|Hin]; [contradiction|]. apply (Hd a); [now left | assumption].
  - apply IH. intros b Hb. apply Hd. now right.
Qed.
Lemma NoDup_pairs {A C S} (o : list (A * list (C * S))) :
  NoDup (map fst o) -> (forall rg, In rg o -> NoDup (map fst (snd rg))) ->
  NoDup (flat_map (fun rg => map (fun sg => (fst rg, fst sg)) (snd rg)) o).
Proof.
  induction o as [|[R sgs] o IH]; cbn [flat_map map fst snd]; intros H1 H2; [constructor|].
  inversion H1 as [|? ? Hn Hnd]; subst.
  apply NoDup_app_intro.
  - rewrite <- (map_map fst (pair R)). apply FinFun.Injective_map_NoDup.
    + intros a b E. now inversion E.
    + exact (H2 (R, sgs) (or_introl eq_refl)).
  - apply IH; [assumption|]. intros rg Hin. apply H2. now right.
  - intros p Hp Hq. apply in_map_iff in Hp as (sg & <- & _).
    apply in_flat_map in Hq as (rg & Hrg & Hq). apply in_map_iff in Hq as (sg' & E & _). inversion E; subst.
    apply Hn. now apply in_map.
Qed.

Definition rs_key {B} (x : item B) : resource * scope := (it_res x, it_scope x).
Definition rs_dec := pair_eq_dec resource_eq_dec scope_eq_dec.
Lemma rs_eqb_split (a : resource) (b : scope) R S :
  eqb_of rs_dec (a, b) (R, S) = eqb_of resource_eq_dec a R && sceq b S.
Proof.
  unfold sceq. destruct (eqb_of rs_dec (a, b) (R, S)) eqn:E.
  - apply eqb_of_true in E. inversion E; subst. now rewrite !eqb_of_refl.
  - destruct (eqb_of resource_eq_dec a R) eqn:E1; [|reflexivity].
    destruct (eqb_of scope_eq_dec b S) eqn:E2; [|reflexivity].
    apply eqb_of_true in E1. apply eqb_of_true in E2. subst. now rewrite eqb_of_refl in E.
Qed.
Lemma members_bucket {B} (l : list (item B)) R S :
  members (eqb_of resource_eq_dec) R S l = map it_body (bucket rs_dec rs_key l (R, S)).
Proof.
  unfold members, bucket. f_equal. apply filter_ext. intros x. unfold rs_key. now rewrite rs_eqb_split.
Qed.

(** If a decoded payload passes [groups_exact] with plain equality, its items are a permutation of
    the batch (each exactly once) and every item lies under its own resource and scope. *)
Lemma groups_exact_adequate {B} (D : forall a b : B, {a = b} + {a <> b}) (l : list (item B))
      (o : list (resource * list (scope * list B))) :
  groups_exact (eqb_of D) (eqb_of resource_eq_dec) l o = true ->
  Permutation (flat_map (fun rg => flat_map snd (snd rg)) o) (map it_body l) /\
  forall R sgs S xs b, In (R, sgs) o -> In (S, xs) sgs -> In b xs ->
    exists x, In x l /\ it_body x = b /\ it_res x = R /\ it_scope x = S.
Proof.
  unfold groups_exact. intros H. apply andb_true_iff in H as [H Hcov]. apply andb_true_iff in H as [Hr Hg].
  rewrite forallb_forall in Hg.
  assert (Hxs : forall R sgs S xs, In (R, sgs) o -> In (S, xs) sgs ->
                  xs = members (eqb_of resource_eq_dec) R S l).
  { intros R sgs S xs HR HS. specialize (Hg _ HR). cbn [fst snd] in Hg.
    apply andb_true_iff in Hg as [_ Hg]. rewrite forallb_forall in Hg. specialize (Hg _ HS). cbn [fst snd] in Hg.
    apply andb_true_iff in Hg as [_ Hg]. now apply all2_eq in Hg. }
  split.
  - set (keys := flat_map (fun rg : resource * list (scope * list B) => map (fun sg => (fst rg, fst sg)) (snd rg)) o).
    assert (E : flat_map (fun rg => flat_map snd (snd rg)) o = map it_body (flat_map (bucket rs_dec rs_key l) keys)).
    { unfold keys. clear - Hxs. induction o as [|[R sgs] o IH]; [reflexivity|]. cbn [flat_map map fst snd].
      rewrite flat_map_app, map_app. f_equal.
      - assert (Hs : forall S xs, In (S, xs) sgs -> xs = members (eqb_of resource_eq_dec) R S l)
          by (intros S xs HS; apply (Hxs R sgs S xs); [now left | assumption]).
        clear - Hs. induction sgs as [|[S xs] sgs IHs]; [reflexivity|]. cbn [flat_map map fst snd].
        rewrite map_app. f_equal.
        + rewrite (Hs S xs (or_introl eq_refl)). apply members_bucket.
        + apply IHs. intros S' xs' H. apply Hs. now right.
      - apply IH. intros R' sgs' S xs HR HS. apply (Hxs R' sgs' S xs); [now right | assumption]. }
    rewrite E. apply Permutation_map. apply buckets_partition.
    + unfold keys. apply NoDup_pairs.
      * now apply (nodupb_NoDup resource_eq_dec).
      * intros [R sgs] HR. specialize (Hg _ HR). cbn [fst snd] in *.
        apply andb_true_iff in Hg as [Hg _]. apply andb_true_iff in Hg as [_ Hg].
        now apply (nodupb_NoDup scope_eq_dec).
    + intros x Hx. rewrite forallb_forall in Hcov. specialize (Hcov x Hx).
      apply existsb_exists in Hcov as ([R sgs] & HR & Hc). cbn [fst snd] in Hc.
      apply andb_true_iff in Hc as [E1 E2]. apply eqb_of_true in E1.
      apply existsb_exists in E2 as ([S xs] & HS & E2). cbn [fst] in E2. apply eqb_of_true in E2.
      unfold keys. apply in_flat_map. exists (R, sgs). split; [assumption|]. cbn [fst snd].
      apply in_map_iff. exists (S, xs). split; [|assumption]. unfold rs_key. cbn [fst]. now rewrite E1, E2.
  - intros R sgs S xs b HR HS Hb. rewrite (Hxs R sgs S xs HR HS) in Hb. unfold members in Hb.
    apply in_map_iff in Hb as (x & Eb & Hx). apply filter_In in Hx as [Hx Hk].
    apply andb_true_iff in Hk as [K1 K2]. apply eqb_of_true in K1. apply eqb_of_true in K2.
    exists x. auto.
Qed.

(** * The judged grouping predicate (a scope's items may be split over several groups of that scope) *)
Lemma picky_first_perm {A} (p : A -> bool) (m : list A) : Permutation (filter p m ++ filter (fun x => negb (p x)) m) m.
Proof.
  induction m as [|a m IH]; cbn; [constructor|]. destruct (p a); cbn.
  - now constructor.
  - rewrite <- Permutation_middle. now constructor.
Qed.

Section SplitAdequate.
  Context {B : Type} (D : forall a b : B, {a = b} + {a <> b}) (picky : B -> bool).
  Lemma subseq_b_In a b : subseq_b (eqb_of D) a b = true -> forall x, In x a -> In x b.
  Proof.
    revert a; induction b as [|y b IH]; intros a H z Hz.
    - destruct a; [destruct Hz | discriminate H].
    - destruct a as [|x a]; [destruct Hz|]. cbn [subseq_b] in H.
      destruct (eqb_of D x y) eqn:E.
      + apply eqb_of_true in E. subst y. destruct Hz as [<-|Hz]; [now left | right; now apply (IH a H)].
      + right. now apply (IH (x :: a) H).
  Qed.
  Lemma take_out_perm x b b' : take_out (eqb_of D) x b = Some b' -> Permutation b (x :: b').
  Proof.
    revert b'; induction b as [|y b IH]; cbn; intros b' H; [discriminate|].
    destruct (eqb_of D x y) eqn:E.
    - apply eqb_of_true in E. inversion H; subst. reflexivity.
    - destruct (take_out (eqb_of D) x b) as [r|] eqn:T; [|discriminate]. inversion H; subst.
      rewrite (IH r eq_refl). apply perm_swap.
  Qed.
  Lemma same_items_perm a b : same_items (eqb_of D) a b = true -> Permutation a b.
  Proof.
    revert b; induction a as [|x a IH]; cbn; intros b H.
    - destruct b; [constructor | discriminate].
    - destruct (take_out (eqb_of D) x b) as [b'|] eqn:T; [|discriminate].
      rewrite (take_out_perm x b b' T). constructor. now apply IH.
  Qed.

  Notation req := (eqb_of resource_eq_dec).
  Definition grouping_faithful (l : list (item B)) (o : list (resource * list (scope * list B))) : Prop :=
    NoDup (map fst o) /\
    (forall R sgs S xs b, In (R, sgs) o -> In (S, xs) sgs -> In b xs ->
       exists x, In x l /\ it_body x = b /\ it_res x = R /\ it_scope x = S) /\
    (forall R sgs S xs, In (R, sgs) o -> In (S, xs) sgs -> Permutation (gather S sgs) (members req R S l)) /\
    (forall x, In x l -> exists sgs xs, In (it_res x, sgs) o /\ In (it_scope x, xs) sgs).

  Lemma cover_sound (l : list (item B)) (o : list (resource * list (scope * list B))) :
    forallb (fun x => existsb (fun rg => req (it_res x) (fst rg) &&
                                         existsb (fun sg => sceq (it_scope x) (fst sg)) (snd rg)) o) l = true ->
    forall x, In x l -> exists sgs xs, In (it_res x, sgs) o /\ In (it_scope x, xs) sgs.
  Proof.
    intros Hcov x Hx. rewrite forallb_forall in Hcov. specialize (Hcov x Hx).
    apply existsb_exists in Hcov as ([R sgs] & HR & Hc). cbn [fst snd] in Hc.
    apply andb_true_iff in Hc as [E1 E2]. apply eqb_of_true in E1.
    apply existsb_exists in E2 as ([S xs] & HS & E2). cbn [fst] in E2. apply eqb_of_true in E2.
    exists sgs, xs. rewrite E1, E2. auto.
  Qed.
  Lemma members_In (l : list (item B)) R S b : In b (members req R S l) -> exists x, In x l /\ it_body x = b /\ it_res x = R /\ it_scope x = S.
  Proof.
    unfold members. intros Hb. apply in_map_iff in Hb as (x & Eb & Hx). apply filter_In in Hx as [Hx Hk].
    apply andb_true_iff in Hk as [K1 K2]. apply eqb_of_true in K1. apply eqb_of_true in K2. exists x. auto.
  Qed.

  Lemma groups_split_adequate l o : groups_split (eqb_of D) req picky l o = true -> grouping_faithful l o.
  Proof.
    unfold groups_split. intros H. apply andb_true_iff in H as [H Hcov]. apply andb_true_iff in H as [Hr Hg].
    rewrite forallb_forall in Hg.
    assert (Hsg : forall R sgs S xs, In (R, sgs) o -> In (S, xs) sgs ->
              subseq_b (eqb_of D) xs (members req R S l) = true /\
              same_items (eqb_of D) (gather S sgs) (picky_first picky (members req R S l)) = true).
    { intros R sgs S xs HR HS. specialize (Hg _ HR). cbn [fst snd] in Hg. apply andb_true_iff in Hg as [_ Hg].
      rewrite forallb_forall in Hg. specialize (Hg _ HS). cbn [fst snd] in Hg.
      apply andb_true_iff in Hg as [Hg H2]. apply andb_true_iff in Hg as [_ H1]. now split. }
    split; [now apply (nodupb_NoDup resource_eq_dec)|]. split; [|split].
    - intros R sgs S xs b HR HS Hb. destruct (Hsg R sgs S xs HR HS) as [H1 _].
      apply members_In. now apply (subseq_b_In _ _ H1).
    - intros R sgs S xs HR HS. destruct (Hsg R sgs S xs HR HS) as [_ H2].
      rewrite (same_items_perm _ _ H2). apply picky_first_perm.
    - now apply cover_sound.
  Qed.

  Lemma groups_exact_faithful l o : groups_exact (eqb_of D) req l o = true -> grouping_faithful l o.
  Proof.
    unfold groups_exact. intros H. apply andb_true_iff in H as [H Hcov]. apply andb_true_iff in H as [Hr Hg].
    rewrite forallb_forall in Hg.
    assert (Hsg : forall R sgs S xs, In (R, sgs) o -> In (S, xs) sgs ->
              xs = members req R S l /\ gather S sgs = xs).
    { intros R sgs S xs HR HS. specialize (Hg _ HR). cbn [fst snd] in Hg. apply andb_true_iff in Hg as [Hg Hs].
      apply andb_true_iff in Hg as [_ Hd].
      rewrite forallb_forall in Hs. specialize (Hs _ HS). cbn [fst snd] in Hs. apply andb_true_iff in Hs as [_ Ha].
      split; [now apply all2_eq in Ha | exact (gather_unique sgs Hd (S, xs) HS)]. }
    split; [now apply (nodupb_NoDup resource_eq_dec)|]. split; [|split].
    - intros R sgs S xs b HR HS Hb. destruct (Hsg R sgs S xs HR HS) as [E _]. rewrite E in Hb. now apply members_In.
    - intros R sgs S xs HR HS. destruct (Hsg R sgs S xs HR HS) as [E1 E2]. now rewrite E2, <- E1.
    - now apply cover_sound.
  Qed.

  (** A payload that passes the judged predicate (plain equalities): one group per resource; every
      item of every group is a batch item under a resource and a scope equal to its own; for every
      resource and scope the groups carrying that scope hold, together, exactly the batch's items of
      that resource and scope - nothing lost, nothing duplicated; every batch item has a group. *)
  Lemma groups_ok_adequate l o : groups_ok (eqb_of D) req picky l o = true -> grouping_faithful l o.
  Proof.
    unfold groups_ok. intros H. apply orb_true_iff in H as [H|H]; [now apply groups_exact_faithful | now apply groups_split_adequate].
  Qed.
End SplitAdequate.
