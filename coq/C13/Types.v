(** C13 vocabulary shared by Model and Spec: the abstract telemetry a user hands
    to an exporter (left-hand side) and the abstract OTLP protobuf tree a
    collector holds after a real wire unmarshal (right-hand side).  Data types and
    decidable equalities only.

    Conventions.  Strings and ids are byte lists.  float64 values are their IEEE-754
    bit patterns (the code only moves them).  int64 / int values are [Z], unsigned
    wire integers [N].  Times on the telemetry side are [time.Time.UnixNano()] as [Z].
    A protobuf message is a record holding every field the transform code may set
    (an absent field reads as its proto3 default; explicit presence is an [option]). *)
From Verif Require Import Lib.Base.
Open Scope N_scope.

(** * Telemetry side *)

(** attribute.Value: the eight value types. *)
Inductive aval :=
| ABool (b : bool) | AInt (z : Z) | AF64 (bits : N) | AStr (s : bytes)
| ABools (l : list bool) | AInts (l : list Z) | AF64s (l : list N) | AStrs (l : list bytes).
Definition kv := (bytes * aval)%type.

(** log.Value (nested). *)
Inductive lval :=
| LEmpty | LBool (b : bool) | LInt (z : Z) | LF64 (bits : N) | LStr (s : bytes) | LBytes (s : bytes)
| LSlice (l : list lval) | LMap (l : list (bytes * lval)).

(** resource.Resource: attribute set (sorted, as [Attributes()] returns it) + schema URL. *)
Record resource := mkRes { r_attrs : list kv; r_schema : bytes }.
(** instrumentation.Scope.  [sc_alloc]: the (empty) attribute set is an allocated empty set
    ([attribute.NewSet()]) rather than the zero [attribute.Set]; both read as "no attributes" and encode to
    the same bytes, but they are different Go values, hence different keys of the transform's scope map. *)
Record scope := mkScope { sc_name : bytes; sc_version : bytes; sc_schema : bytes; sc_attrs : list kv; sc_alloc : bool }.

(** One exported item (span / log record) with the resource and scope it belongs to. *)
Record item (B : Type) := mkItem { it_res : resource; it_scope : scope; it_body : B }.
Arguments mkItem {B}. Arguments it_res {B}. Arguments it_scope {B}. Arguments it_body {B}.

Record event := mkEvent { ev_name : bytes; ev_time : Z; ev_attrs : list kv; ev_dropped : Z }.
Record link := mkLink { ln_trace : bytes; ln_span : bytes; ln_tstate : bytes; ln_remote : bool;
                        ln_attrs : list kv; ln_dropped : Z }.
(** A finished span.  [sp_kind]: trace.SpanKind (0 unspecified, 1 internal, 2 server, 3 client,
    4 producer, 5 consumer).  [sp_status]: codes.Code (0 Unset, 1 Error, 2 Ok).
    [sp_parent]: 8 bytes, all zero = no parent. *)
Record span := mkSpan {
  sp_trace : bytes; sp_span : bytes; sp_tstate : bytes; sp_parent : bytes; sp_parent_remote : bool;
  sp_name : bytes; sp_kind : N; sp_start : Z; sp_end : Z; sp_attrs : list kv;
  sp_events : list event; sp_links : list link; sp_status : N; sp_status_msg : bytes;
  sp_dropped_attrs : Z; sp_dropped_events : Z; sp_dropped_links : Z }.

(** sdk/log Record as its accessors show it.  [lr_sev]: log.Severity (int).  ids: 16 / 8 bytes. *)
Record lrec := mkLrec {
  lr_time : Z; lr_observed : Z; lr_event : bytes; lr_sev : Z; lr_sev_text : bytes; lr_body : lval;
  lr_attrs : list (bytes * lval); lr_trace : bytes; lr_span : bytes; lr_flags : N; lr_dropped : Z }.

(** Metric numbers: int64 or float64 streams. *)
Inductive num := NI (z : Z) | NF (bits : N).
Record exemplar := mkEx { ex_attrs : list kv; ex_time : Z; ex_value : num; ex_span : bytes; ex_trace : bytes }.
Record dpoint := mkDp { dp_attrs : list kv; dp_start : Z; dp_time : Z; dp_value : num; dp_ex : list exemplar }.
Record hpoint := mkHp { hp_attrs : list kv; hp_start : Z; hp_time : Z; hp_count : N; hp_bounds : list N;
                        hp_counts : list N; hp_min : option num; hp_max : option num; hp_sum : num;
                        hp_ex : list exemplar }.
Record epoint := mkEp { ep_attrs : list kv; ep_start : Z; ep_time : Z; ep_count : N; ep_min : option num;
                        ep_max : option num; ep_sum : num; ep_scale : Z; ep_zero_count : N;
                        ep_pos_off : Z; ep_pos : list N; ep_neg_off : Z; ep_neg : list N;
                        ep_zero_threshold : N; ep_ex : list exemplar }.
Record qpoint := mkQp { qp_attrs : list kv; qp_start : Z; qp_time : Z; qp_count : N; qp_sum : N;
                        qp_quantiles : list (N * N) }.
(** [temp]: metricdata.Temporality (1 cumulative, 2 delta; anything else is invalid). *)
Inductive mdata :=
| MGauge (l : list dpoint) | MSum (l : list dpoint) (temp : N) (mono : bool)
| MHist (l : list hpoint) (temp : N) | MExp (l : list epoint) (temp : N) | MSummary (l : list qpoint)
| MNone (* no / an unknown Aggregation value in Metrics.Data *).
Record metric := mkMetric { m_name : bytes; m_desc : bytes; m_unit : bytes; m_data : mdata }.
Definition rmetrics := (resource * list (scope * list metric))%type.

(** Zipkin input: the span fields the Zipkin clause of the property talks about.
    [zs_start = None]: the zero time.Time. *)
Record zspan := mkZspan { zs_trace : bytes; zs_span : bytes; zs_parent : bytes; zs_name : bytes;
                          zs_kind : N; zs_start : option Z; zs_dur : Z }.

(** * Protobuf side (after unmarshal) *)

(** common.v1.AnyValue *)
Inductive pval :=
| PUnset | PBool (b : bool) | PInt (z : Z) | PF64 (bits : N) | PStr (s : bytes) | PBytes (s : bytes)
| PArr (l : list pval) | PKvs (l : list (bytes * pval)).
Definition pkv := (bytes * pval)%type.

(** resource.v1.Resource.attributes + Resource{Spans,Logs,Metrics}.schema_url. *)
Record pb_resource := mkPRes { pr_attrs : list pkv; pr_schema : bytes }.
(** common.v1.InstrumentationScope (absent = all empty) + Scope{Spans,Logs,Metrics}.schema_url. *)
Record pb_scope := mkPScope { psc_name : bytes; psc_version : bytes; psc_attrs : list pkv; psc_schema : bytes }.

Record pb_event := mkPEvent { pe_time : N; pe_name : bytes; pe_attrs : list pkv; pe_dropped : N }.
Record pb_link := mkPLink { pl_trace : bytes; pl_span : bytes; pl_tstate : bytes; pl_attrs : list pkv;
                            pl_dropped : N; pl_flags : N }.
Record pb_span := mkPSpan {
  ps_trace : bytes; ps_span : bytes; ps_tstate : bytes; ps_parent : bytes; ps_flags : N;
  ps_name : bytes; ps_kind : N; ps_start : N; ps_end : N; ps_attrs : list pkv; ps_dropped_attrs : N;
  ps_events : list pb_event; ps_dropped_events : N; ps_links : list pb_link; ps_dropped_links : N;
  ps_status_msg : bytes; ps_status_code : N }.

Record pb_lrec := mkPLrec {
  pg_time : N; pg_observed : N; pg_sev : N; pg_sev_text : bytes; pg_body : pval; pg_attrs : list pkv;
  pg_dropped : N; pg_flags : N; pg_trace : bytes; pg_span : bytes; pg_event : bytes }.

Inductive pnum := PNUnset | PNI (z : Z) | PNF (bits : N).
Record pb_exemplar := mkPEx { px_attrs : list pkv; px_time : N; px_value : pnum; px_span : bytes; px_trace : bytes }.
Record pb_ndp := mkPNdp { pn_attrs : list pkv; pn_start : N; pn_time : N; pn_value : pnum; pn_ex : list pb_exemplar }.
Record pb_hdp := mkPHdp { ph_attrs : list pkv; ph_start : N; ph_time : N; ph_count : N; ph_sum : option N;
                          ph_counts : list N; ph_bounds : list N; ph_ex : list pb_exemplar;
                          ph_min : option N; ph_max : option N }.
Record pb_edp := mkPEdp { pp_attrs : list pkv; pp_start : N; pp_time : N; pp_count : N; pp_sum : option N;
                          pp_scale : Z; pp_zero_count : N; pp_pos_off : Z; pp_pos : list N;
                          pp_neg_off : Z; pp_neg : list N; pp_ex : list pb_exemplar;
                          pp_min : option N; pp_max : option N; pp_zero_threshold : N }.
Record pb_sdp := mkPSdp { pq_attrs : list pkv; pq_start : N; pq_time : N; pq_count : N; pq_sum : N;
                          pq_quantiles : list (N * N) }.
(** [temp]: AggregationTemporality (1 delta, 2 cumulative). *)
Inductive pb_mdata :=
| PNoData | PGauge (l : list pb_ndp) | PSum (l : list pb_ndp) (temp : N) (mono : bool)
| PHist (l : list pb_hdp) (temp : N) | PExp (l : list pb_edp) (temp : N) | PSummary (l : list pb_sdp).
Record pb_metric := mkPMetric { pm_name : bytes; pm_desc : bytes; pm_unit : bytes; pm_data : pb_mdata }.
Definition pb_rmetrics := (pb_resource * list (pb_scope * list pb_metric))%type.

(** Zipkin v2 JSON span as the collector reads it (ids are the hex strings of the JSON body,
    [zo_kind] the JSON string, empty when absent; timestamp / duration in microseconds, 0 when absent). *)
Record zobs := mkZobs { zo_trace : bytes; zo_id : bytes; zo_parent : option bytes; zo_name : bytes;
                        zo_kind : bytes; zo_ts : N; zo_dur : N }.

(** * IEEE-754 binary64 <-> integers (bit patterns) *)
(** float64(int64): the binary64 nearest to an integer, ties to even. *)
Definition f64_of_Z (z : Z) : N :=
  if (z =? 0)%Z then 0 else
  let m := Z.abs z in
  let e := Z.log2 m in
  let eq :=
    if (e <=? 52)%Z then (e, m * 2 ^ (52 - e))%Z
    else
      let sh := (e - 52)%Z in
      let q := (m / 2 ^ sh)%Z in
      let r := (m mod 2 ^ sh)%Z in
      let half := (2 ^ (sh - 1))%Z in
      let q1 := if (half <? r)%Z || ((r =? half)%Z && Z.odd q) then (q + 1)%Z else q in
      if (q1 =? 2 ^ 53)%Z then ((e + 1)%Z, (2 ^ 52)%Z) else (e, q1) in
  Z.to_N ((if (z <? 0)%Z then 2 ^ 63 else 0) + (fst eq + 1023) * 2 ^ 52 + (snd eq - 2 ^ 52))%Z.
(** The integer a binary64 bit pattern denotes, when it denotes one (-0 reads as 0). *)
Definition f64_to_Z (b : N) : option Z :=
  let neg := N.testbit b 63 in
  let ex := Z.of_N ((b / 2 ^ 52) mod 2 ^ 11) in
  let frac := Z.of_N (b mod 2 ^ 52) in
  let sg := fun v : Z => if neg then (- v)%Z else v in
  if (ex =? 0)%Z then (if (frac =? 0)%Z then Some 0%Z else None)
  else if (ex =? 2047)%Z then None
  else
    let m := (2 ^ 52 + frac)%Z in
    let e := (ex - 1075)%Z in
    if (0 <=? e)%Z then Some (sg (m * 2 ^ e)%Z)
    else if (m mod 2 ^ (- e) =? 0)%Z then Some (sg (m / 2 ^ (- e))%Z) else None.

(** * Decidable equalities (all transparent, so they evaluate under [vm_compute]) *)
Ltac dec_step :=
  match goal with
  | |- {?a = ?b} + {?a <> ?b} => first [ left; reflexivity | right; discriminate ]
  end.
Ltac dec_field D x y := destruct (D x y); [subst | right; congruence].

Definition bytes_eq_dec : forall a b : bytes, {a = b} + {a <> b} := list_eq_dec N.eq_dec.
Definition opt_eq_dec {A} (D : forall a b : A, {a = b} + {a <> b}) : forall a b : option A, {a = b} + {a <> b}.
Proof. decide equality. Defined.
Definition pair_eq_dec {A B} (DA : forall a b : A, {a = b} + {a <> b}) (DB : forall a b : B, {a = b} + {a <> b})
  : forall a b : A * B, {a = b} + {a <> b}.
Proof. decide equality. Defined.

Definition aval_eq_dec : forall a b : aval, {a = b} + {a <> b}.
Proof.
  decide equality; first [ apply Bool.bool_dec | apply Z.eq_dec | apply N.eq_dec | apply bytes_eq_dec
    | apply (list_eq_dec Bool.bool_dec) | apply (list_eq_dec Z.eq_dec) | apply (list_eq_dec N.eq_dec)
    | apply (list_eq_dec bytes_eq_dec) ].
Defined.
Definition kv_eq_dec : forall a b : kv, {a = b} + {a <> b} := pair_eq_dec bytes_eq_dec aval_eq_dec.
Definition attrs_eq_dec : forall a b : list kv, {a = b} + {a <> b} := list_eq_dec kv_eq_dec.

Fixpoint lval_eq_dec (a b : lval) {struct a} : {a = b} + {a <> b}.
Proof.
  destruct a, b; try (right; discriminate).
  - left; reflexivity.
  - destruct (Bool.bool_dec b0 b); [left; congruence | right; congruence].
  - destruct (Z.eq_dec z z0); [left; congruence | right; congruence].
  - destruct (N.eq_dec bits bits0); [left; congruence | right; congruence].
  - destruct (bytes_eq_dec s s0); [left; congruence | right; congruence].
  - destruct (bytes_eq_dec s s0); [left; congruence | right; congruence].
  - destruct (list_eq_dec lval_eq_dec l l0); [left; congruence | right; congruence].
  - assert (D : forall x y : bytes * lval, {x = y} + {x <> y}).
    { intros [k v] [k' v']. destruct (bytes_eq_dec k k'); [|right; congruence].
      destruct (lval_eq_dec v v'); [left; congruence | right; congruence]. }
    destruct (list_eq_dec D l l0); [left; congruence | right; congruence].
Defined.

Fixpoint pval_eq_dec (a b : pval) {struct a} : {a = b} + {a <> b}.
Proof.
  destruct a, b; try (right; discriminate).
  - left; reflexivity.
  - destruct (Bool.bool_dec b0 b); [left; congruence | right; congruence].
  - destruct (Z.eq_dec z z0); [left; congruence | right; congruence].
  - destruct (N.eq_dec bits bits0); [left; congruence | right; congruence].
  - destruct (bytes_eq_dec s s0); [left; congruence | right; congruence].
  - destruct (bytes_eq_dec s s0); [left; congruence | right; congruence].
  - destruct (list_eq_dec pval_eq_dec l l0); [left; congruence | right; congruence].
  - assert (D : forall x y : bytes * pval, {x = y} + {x <> y}).
    { intros [k v] [k' v']. destruct (bytes_eq_dec k k'); [|right; congruence].
      destruct (pval_eq_dec v v'); [left; congruence | right; congruence]. }
    destruct (list_eq_dec D l l0); [left; congruence | right; congruence].
Defined.
Definition pkv_eq_dec : forall a b : pkv, {a = b} + {a <> b} := pair_eq_dec bytes_eq_dec pval_eq_dec.
Definition pattrs_eq_dec : forall a b : list pkv, {a = b} + {a <> b} := list_eq_dec pkv_eq_dec.
Definition lattrs_eq_dec : forall a b : list (bytes * lval), {a = b} + {a <> b} :=
  list_eq_dec (pair_eq_dec bytes_eq_dec lval_eq_dec).

Ltac solve_dec :=
  decide equality;
  first [ apply Bool.bool_dec | apply Z.eq_dec | apply N.eq_dec | apply bytes_eq_dec
        | apply attrs_eq_dec | apply pattrs_eq_dec | apply lattrs_eq_dec | apply lval_eq_dec | apply pval_eq_dec
        | apply (list_eq_dec N.eq_dec) | apply (opt_eq_dec N.eq_dec)
        | apply (list_eq_dec (pair_eq_dec N.eq_dec N.eq_dec)) ].

Definition resource_eq_dec : forall a b : resource, {a = b} + {a <> b}. Proof. solve_dec. Defined.
Definition scope_eq_dec : forall a b : scope, {a = b} + {a <> b}. Proof. solve_dec. Defined.
Definition event_eq_dec : forall a b : event, {a = b} + {a <> b}. Proof. solve_dec. Defined.
Definition link_eq_dec : forall a b : link, {a = b} + {a <> b}. Proof. solve_dec. Defined.
Definition span_eq_dec : forall a b : span, {a = b} + {a <> b}.
Proof.
  decide equality;
  first [ apply Bool.bool_dec | apply Z.eq_dec | apply N.eq_dec | apply bytes_eq_dec | apply attrs_eq_dec
        | apply (list_eq_dec event_eq_dec) | apply (list_eq_dec link_eq_dec) ].
Defined.
Definition lrec_eq_dec : forall a b : lrec, {a = b} + {a <> b}. Proof. solve_dec. Defined.
Definition num_eq_dec : forall a b : num, {a = b} + {a <> b}. Proof. solve_dec. Defined.
Definition exemplar_eq_dec : forall a b : exemplar, {a = b} + {a <> b}.
Proof. decide equality; first [ apply Z.eq_dec | apply bytes_eq_dec | apply attrs_eq_dec | apply num_eq_dec ]. Defined.
Ltac solve_dec_m :=
  decide equality;
  first [ apply Bool.bool_dec | apply Z.eq_dec | apply N.eq_dec | apply bytes_eq_dec | apply attrs_eq_dec
        | apply num_eq_dec | apply (opt_eq_dec num_eq_dec) | apply (list_eq_dec N.eq_dec)
        | apply (list_eq_dec exemplar_eq_dec) | apply (list_eq_dec (pair_eq_dec N.eq_dec N.eq_dec)) ].
Definition dpoint_eq_dec : forall a b : dpoint, {a = b} + {a <> b}. Proof. solve_dec_m. Defined.
Definition hpoint_eq_dec : forall a b : hpoint, {a = b} + {a <> b}. Proof. solve_dec_m. Defined.
Definition epoint_eq_dec : forall a b : epoint, {a = b} + {a <> b}. Proof. solve_dec_m. Defined.
Definition qpoint_eq_dec : forall a b : qpoint, {a = b} + {a <> b}. Proof. solve_dec_m. Defined.
Definition mdata_eq_dec : forall a b : mdata, {a = b} + {a <> b}.
Proof.
  decide equality;
  first [ apply Bool.bool_dec | apply N.eq_dec | apply (list_eq_dec dpoint_eq_dec) | apply (list_eq_dec hpoint_eq_dec)
        | apply (list_eq_dec epoint_eq_dec) | apply (list_eq_dec qpoint_eq_dec) ].
Defined.
Definition metric_eq_dec : forall a b : metric, {a = b} + {a <> b}.
Proof. decide equality; first [ apply bytes_eq_dec | apply mdata_eq_dec ]. Defined.
Definition rmetrics_eq_dec : forall a b : rmetrics, {a = b} + {a <> b} :=
  pair_eq_dec resource_eq_dec (list_eq_dec (pair_eq_dec scope_eq_dec (list_eq_dec metric_eq_dec))).

Definition pb_resource_eq_dec : forall a b : pb_resource, {a = b} + {a <> b}. Proof. solve_dec. Defined.
Definition pb_scope_eq_dec : forall a b : pb_scope, {a = b} + {a <> b}. Proof. solve_dec. Defined.
Definition pb_event_eq_dec : forall a b : pb_event, {a = b} + {a <> b}. Proof. solve_dec. Defined.
Definition pb_link_eq_dec : forall a b : pb_link, {a = b} + {a <> b}. Proof. solve_dec. Defined.
Definition pb_span_eq_dec : forall a b : pb_span, {a = b} + {a <> b}.
Proof.
  decide equality;
  first [ apply N.eq_dec | apply bytes_eq_dec | apply pattrs_eq_dec
        | apply (list_eq_dec pb_event_eq_dec) | apply (list_eq_dec pb_link_eq_dec) ].
Defined.
Definition pb_lrec_eq_dec : forall a b : pb_lrec, {a = b} + {a <> b}. Proof. solve_dec. Defined.
Definition pnum_eq_dec : forall a b : pnum, {a = b} + {a <> b}. Proof. solve_dec. Defined.
Definition pb_exemplar_eq_dec : forall a b : pb_exemplar, {a = b} + {a <> b}.
Proof. decide equality; first [ apply N.eq_dec | apply bytes_eq_dec | apply pattrs_eq_dec | apply pnum_eq_dec ]. Defined.
Ltac solve_dec_p :=
  decide equality;
  first [ apply Bool.bool_dec | apply Z.eq_dec | apply N.eq_dec | apply bytes_eq_dec | apply pattrs_eq_dec
        | apply pnum_eq_dec | apply (opt_eq_dec N.eq_dec) | apply (list_eq_dec N.eq_dec)
        | apply (list_eq_dec pb_exemplar_eq_dec) | apply (list_eq_dec (pair_eq_dec N.eq_dec N.eq_dec)) ].
Definition pb_ndp_eq_dec : forall a b : pb_ndp, {a = b} + {a <> b}. Proof. solve_dec_p. Defined.
Definition pb_hdp_eq_dec : forall a b : pb_hdp, {a = b} + {a <> b}. Proof. solve_dec_p. Defined.
Definition pb_edp_eq_dec : forall a b : pb_edp, {a = b} + {a <> b}. Proof. solve_dec_p. Defined.
Definition pb_sdp_eq_dec : forall a b : pb_sdp, {a = b} + {a <> b}. Proof. solve_dec_p. Defined.
Definition pb_mdata_eq_dec : forall a b : pb_mdata, {a = b} + {a <> b}.
Proof.
  decide equality;
  first [ apply Bool.bool_dec | apply N.eq_dec | apply (list_eq_dec pb_ndp_eq_dec) | apply (list_eq_dec pb_hdp_eq_dec)
        | apply (list_eq_dec pb_edp_eq_dec) | apply (list_eq_dec pb_sdp_eq_dec) ].
Defined.
Definition pb_metric_eq_dec : forall a b : pb_metric, {a = b} + {a <> b}.
Proof. decide equality; first [ apply bytes_eq_dec | apply pb_mdata_eq_dec ]. Defined.
Definition pb_rmetrics_eq_dec : forall a b : pb_rmetrics, {a = b} + {a <> b} :=
  pair_eq_dec pb_resource_eq_dec (list_eq_dec (pair_eq_dec pb_scope_eq_dec (list_eq_dec pb_metric_eq_dec))).
Definition zobs_eq_dec : forall a b : zobs, {a = b} + {a <> b}.
Proof. decide equality; first [ apply N.eq_dec | apply bytes_eq_dec | apply (opt_eq_dec bytes_eq_dec) ]. Defined.

(** Boolean view of a decidable equality. *)
Definition eqb_of {A} (D : forall a b : A, {a = b} + {a <> b}) (a b : A) : bool := if D a b then true else false.
Lemma eqb_of_true {A} (D : forall a b : A, {a = b} + {a <> b}) a b : eqb_of D a b = true <-> a = b.
Proof. unfold eqb_of. destruct (D a b); split; congruence. Qed.
Lemma eqb_of_refl {A} (D : forall a b : A, {a = b} + {a <> b}) a : eqb_of D a a = true.
Proof. now apply eqb_of_true. Qed.
