(** C13 specification, written from the consumer's side: how a collector that holds the
    unmarshalled OTLP messages (or the Zipkin JSON) reads telemetry back out of them, and what
    "recovers every item exactly once under its own resource and scope with identical fields"
    means for a decoded payload.  Nothing here refers to the exporters' transform code (Model.v).

    Reading conventions of the wire formats (OTLP proto, Zipkin v2 API), not of the code:
    - an AnyValue array has no element type of its own: an empty array decodes to one
      canonical empty slice, so the eight attribute types are recoverable up to the type of
      empty slices ([canon_val]);
    - Span.kind / Status.code / AggregationTemporality are the OTLP enums; Span.flags bit 9 is
      "parent is remote"; an absent parent_span_id / trace_id / span_id reads as the all-zero id;
    - histogram sums, minima and maxima are doubles: an int64 value is carried as the double
      nearest to it (exactly for magnitudes up to 2^53);
    - Zipkin ids are lower-hex strings (a 64-bit trace id when the high half is zero), times and
      durations are whole microseconds, span names are case-insensitive (sent lower-case). *)
From Verif Require Import Lib.Base C13.Types.
Open Scope N_scope.

Fixpoint opt_all {A} (l : list (option A)) : option (list A) :=
  match l with
  | [] => Some []
  | Some a :: r => match opt_all r with Some r' => Some (a :: r') | None => None end
  | None :: _ => None
  end.
Definition opt_map_all {A B} (f : A -> option B) (l : list A) : option (list B) := opt_all (map f l).
Definition is_nil {A} (l : list A) : bool := match l with [] => true | _ => false end.

(** Which recorded defects a check is asked to overlook (all [false] = the property as stated). *)
Record laxity := mkLax { lax_schema : bool; lax_empty : bool; lax_zero_thr : bool }.
Definition strict : laxity := mkLax false false false.

(** * Attribute values *)
Definition as_bool (v : pval) := match v with PBool b => Some b | _ => None end.
Definition as_int (v : pval) := match v with PInt z => Some z | _ => None end.
Definition as_f64 (v : pval) := match v with PF64 x => Some x | _ => None end.
Definition as_str (v : pval) := match v with PStr s => Some s | _ => None end.
Definition val_of_pb (v : pval) : option aval :=
  match v with
  | PBool b => Some (ABool b)
  | PInt z => Some (AInt z)
  | PF64 x => Some (AF64 x)
  | PStr s => Some (AStr s)
  | PArr [] => Some (AStrs [])
  | PArr (PBool b :: r) => option_map ABools (opt_map_all as_bool (PBool b :: r))
  | PArr (PInt z :: r) => option_map AInts (opt_map_all as_int (PInt z :: r))
  | PArr (PF64 x :: r) => option_map AF64s (opt_map_all as_f64 (PF64 x :: r))
  | PArr (PStr s :: r) => option_map AStrs (opt_map_all as_str (PStr s :: r))
  | _ => None
  end.
Definition kv_of_pb (a : pkv) : option kv := option_map (pair (fst a)) (val_of_pb (snd a)).
Definition attrs_of_pb (l : list pkv) : option (list kv) := opt_map_all kv_of_pb l.

(** The canonical representative of a value: empty slices lose their element type on the wire. *)
Definition canon_val (v : aval) : aval :=
  match v with
  | ABools [] | AInts [] | AF64s [] => AStrs []
  | _ => v
  end.
Definition canon_attrs (l : list kv) : list kv := map (fun a => (fst a, canon_val (snd a))) l.
Definition val_equiv (a b : aval) : Prop := canon_val a = canon_val b.

(** log values: every AnyValue is a log value *)
Fixpoint lval_of_pb (v : pval) : lval :=
  match v with
  | PUnset => LEmpty
  | PBool b => LBool b
  | PInt z => LInt z
  | PF64 x => LF64 x
  | PStr s => LStr s
  | PBytes s => LBytes s
  | PArr l => LSlice (map lval_of_pb l)
  | PKvs l => LMap (map (fun kv => (fst kv, lval_of_pb (snd kv))) l)
  end.
Definition lattrs_of_pb (l : list pkv) : list (bytes * lval) := map (fun kv => (fst kv, lval_of_pb (snd kv))) l.
Fixpoint has_empty (v : lval) : bool :=
  match v with
  | LEmpty => true
  | LSlice l => existsb has_empty l
  | LMap l => existsb (fun kv => has_empty (snd kv)) l
  | _ => false
  end.

(** * Scalars and their range guards *)
Definition time_ok (t : Z) : bool := (0 <=? t)%Z.
Definition count_ok (c : Z) : bool := ((0 <=? c) && (c <? 2 ^ 32))%Z.
Definition id_len (n : nat) (b : bytes) : bool := Nat.eqb (length b) n.
Definition id_of_pb (n : nat) (b : bytes) : bytes := match b with [] => repeat 0 n | _ => b end.
Definition kind_of_pb (k : N) : option N := if k <=? 5 then Some k else None.
(** Status_StatusCode (0 UNSET, 1 OK, 2 ERROR) -> codes.Code (0 Unset, 1 Error, 2 Ok) *)
Definition status_of_pb (c : N) : option N := match c with 0 => Some 0 | 1 => Some 2 | 2 => Some 1 | _ => None end.
Definition remote_of_flags (f : N) : bool := N.testbit f 9.

(** * Resource and scope *)
Definition res_of_pb (r : pb_resource) : option resource :=
  option_map (fun a => mkRes a (pr_schema r)) (attrs_of_pb (pr_attrs r)).
Definition scope_of_pb (s : pb_scope) : option scope :=
  option_map (fun a => mkScope (psc_name s) (psc_version s) (psc_schema s) a false) (attrs_of_pb (psc_attrs s)).
Definition canon_res (r : resource) : resource := mkRes (canon_attrs (r_attrs r)) (r_schema r).
(** what a reader sees of a scope: the spelling of an empty attribute set is not on the wire *)
Definition canon_scope (s : scope) : scope := mkScope (sc_name s) (sc_version s) (sc_schema s) (canon_attrs (sc_attrs s)) false.

(** * Spans *)
Definition event_of_pb (e : pb_event) : option event :=
  option_map (fun a => mkEvent (pe_name e) (Z.of_N (pe_time e)) a (Z.of_N (pe_dropped e))) (attrs_of_pb (pe_attrs e)).
Definition link_of_pb (l : pb_link) : option link :=
  option_map (fun a => mkLink (pl_trace l) (pl_span l) (pl_tstate l) (remote_of_flags (pl_flags l)) a (Z.of_N (pl_dropped l)))
             (attrs_of_pb (pl_attrs l)).
Definition span_of_pb (p : pb_span) : option span :=
  match kind_of_pb (ps_kind p), status_of_pb (ps_status_code p), attrs_of_pb (ps_attrs p),
        opt_map_all event_of_pb (ps_events p), opt_map_all link_of_pb (ps_links p) with
  | Some k, Some st, Some a, Some ev, Some ln =>
      Some (mkSpan (ps_trace p) (ps_span p) (ps_tstate p) (id_of_pb 8 (ps_parent p)) (remote_of_flags (ps_flags p))
                   (ps_name p) k (Z.of_N (ps_start p)) (Z.of_N (ps_end p)) a ev ln st (ps_status_msg p)
                   (Z.of_N (ps_dropped_attrs p)) (Z.of_N (ps_dropped_events p)) (Z.of_N (ps_dropped_links p)))
  | _, _, _, _, _ => None
  end.

Definition canon_event (e : event) : event := mkEvent (ev_name e) (ev_time e) (canon_attrs (ev_attrs e)) (ev_dropped e).
Definition canon_link (l : link) : link :=
  mkLink (ln_trace l) (ln_span l) (ln_tstate l) (ln_remote l) (canon_attrs (ln_attrs l)) (ln_dropped l).
Definition canon_span (s : span) : span :=
  mkSpan (sp_trace s) (sp_span s) (sp_tstate s) (sp_parent s) (sp_parent_remote s) (sp_name s) (sp_kind s)
         (sp_start s) (sp_end s) (canon_attrs (sp_attrs s)) (map canon_event (sp_events s)) (map canon_link (sp_links s))
         (sp_status s) (sp_status_msg s) (sp_dropped_attrs s) (sp_dropped_events s) (sp_dropped_links s).

(** Range guards of the span clause: non-negative Unix nanos, counts below 2^32, enum values
    in range, an 8-byte parent id. *)
Definition event_guard (e : event) : bool := time_ok (ev_time e) && count_ok (ev_dropped e).
Definition link_guard (l : link) : bool := count_ok (ln_dropped l).
Definition span_guard (s : span) : bool :=
  time_ok (sp_start s) && time_ok (sp_end s) && (sp_kind s <=? 5) && (sp_status s <=? 2) && id_len 8 (sp_parent s) &&
  count_ok (sp_dropped_attrs s) && count_ok (sp_dropped_events s) && count_ok (sp_dropped_links s) &&
  forallb event_guard (sp_events s) && forallb link_guard (sp_links s).

(** [span_same o x]: the decoded span [o] is the input span [x] (when [x] is within the guards). *)
Definition span_same (o x : span) : bool :=
  if span_guard x then eqb_of span_eq_dec o (canon_span x) else true.

(** * Log records *)
Definition lrec_of_pb (p : pb_lrec) : lrec :=
  mkLrec (Z.of_N (pg_time p)) (Z.of_N (pg_observed p)) (pg_event p) (Z.of_N (pg_sev p)) (pg_sev_text p)
         (lval_of_pb (pg_body p)) (lattrs_of_pb (pg_attrs p)) (id_of_pb 16 (pg_trace p)) (id_of_pb 8 (pg_span p))
         (pg_flags p) (Z.of_N (pg_dropped p)).
Definition lrec_guard (r : lrec) : bool :=
  time_ok (lr_time r) && time_ok (lr_observed r) && ((0 <=? lr_sev r) && (lr_sev r <=? 24))%Z &&
  id_len 16 (lr_trace r) && id_len 8 (lr_span r) && (lr_flags r <? 2 ^ 32) && count_ok (lr_dropped r).
(** Overlooking F-C13-4: an empty value and the string "INVALID" are not told apart. *)
Fixpoint fill_empty (v : lval) : lval :=
  match v with
  | LEmpty => LStr (str "INVALID")
  | LSlice l => LSlice (map fill_empty l)
  | LMap l => LMap (map (fun kv => (fst kv, fill_empty (snd kv))) l)
  | _ => v
  end.
Definition norm_lrec (lx : laxity) (r : lrec) : lrec :=
  let f := if lax_empty lx then fill_empty else (fun v => v) in
  mkLrec (lr_time r) (lr_observed r) (lr_event r) (lr_sev r) (lr_sev_text r) (f (lr_body r))
         (map (fun kv => (fst kv, f (snd kv))) (lr_attrs r)) (lr_trace r) (lr_span r) (lr_flags r)
         (lr_dropped r).
Definition lrec_same (lx : laxity) (o x : lrec) : bool :=
  if lrec_guard x then eqb_of lrec_eq_dec (norm_lrec lx o) (norm_lrec lx x) else true.

(** * Grouping: what "exactly once, under its own resource and scope" means for a decoded
      payload [o] (resource groups, each holding scope groups, each holding items) against the
      exported batch [l].  [req] says when an item's resource is the group's resource. *)
Section Groups.
  Context {B : Type} (same : B -> B -> bool) (req : resource -> resource -> bool) (picky : B -> bool).
  Definition sceq : scope -> scope -> bool := eqb_of scope_eq_dec.
  Fixpoint nodupb {A} (eq : A -> A -> bool) (l : list A) : bool :=
    match l with [] => true | a :: r => negb (existsb (eq a) r) && nodupb eq r end.
  Fixpoint all2 {A} (p : A -> A -> bool) (a b : list A) : bool :=
    match a, b with
    | [], [] => true
    | x :: a', y :: b' => p x y && all2 p a' b'
    | _, _ => false
    end.
  (** the items of the batch that belong to resource [R] and scope [S], in batch order *)
  Definition members (R : resource) (S : scope) (l : list (item B)) : list B :=
    map it_body (filter (fun x => req (it_res x) R && sceq (it_scope x) S) l).
  (** The strict reading: one group per resource and one per (resource, scope), none empty, each
      holding exactly the batch's items of that resource and scope, in batch order. *)
  Definition groups_exact (l : list (item B)) (o : list (resource * list (scope * list B))) : bool :=
    nodupb req (map fst o) &&
    forallb (fun rg => negb (is_nil (snd rg)) && nodupb sceq (map fst (snd rg)) &&
                       forallb (fun sg => negb (is_nil (snd sg)) &&
                                          all2 same (snd sg) (members (fst rg) (fst sg) l)) (snd rg)) o &&
    forallb (fun x => existsb (fun rg => req (it_res x) (fst rg) &&
                                         existsb (fun sg => sceq (it_scope x) (fst sg)) (snd rg)) o) l.

  (** The split reading: the items of one resource and scope may arrive in SEVERAL scope groups
      carrying that same scope (OTLP allows repeated scopes; the code splits a scope whose empty
      attribute set is spelled in two ways), as long as nothing is lost, duplicated or misplaced:
      every group is non-empty and a sub-sequence (batch order) of the batch's items of its resource
      and scope, and all groups of one scope together hold exactly those items.  [picky x]: the
      batch item [x] is within the range guards, i.e. [same _ x] is a real comparison; such items are
      paired first. *)
  Fixpoint take_out (x : B) (l : list B) : option (list B) :=
    match l with
    | [] => None
    | y :: r => if same x y then Some r else match take_out x r with Some r' => Some (y :: r') | None => None end
    end.
  Fixpoint same_items (a b : list B) : bool :=
    match a with
    | [] => is_nil b
    | x :: a' => match take_out x b with Some b' => same_items a' b' | None => false end
    end.
  Fixpoint subseq_b (a b : list B) {struct b} : bool :=
    match b with
    | [] => is_nil a
    | y :: b' => match a with
                 | [] => true
                 | x :: a' => if same x y then subseq_b a' b' else subseq_b a b'
                 end
    end.
  Definition picky_first (m : list B) : list B := filter picky m ++ filter (fun x => negb (picky x)) m.
  Definition gather (S : scope) (sgs : list (scope * list B)) : list B :=
    flat_map (fun sg => if sceq (fst sg) S then snd sg else []) sgs.
  Definition groups_split (l : list (item B)) (o : list (resource * list (scope * list B))) : bool :=
    nodupb req (map fst o) &&
    forallb (fun rg => negb (is_nil (snd rg)) &&
                       forallb (fun sg => negb (is_nil (snd sg)) &&
                                          subseq_b (snd sg) (members (fst rg) (fst sg) l) &&
                                          same_items (gather (fst sg) (snd rg)) (picky_first (members (fst rg) (fst sg) l))) (snd rg)) o &&
    forallb (fun x => existsb (fun rg => req (it_res x) (fst rg) &&
                                         existsb (fun sg => sceq (it_scope x) (fst sg)) (snd rg)) o) l.
  (** What a payload is judged by. *)
  Definition groups_ok (l : list (item B)) (o : list (resource * list (scope * list B))) : bool :=
    groups_exact l o || groups_split l o.
End Groups.

Definition res_same (lx : laxity) (a b : resource) : bool :=
  if lax_schema lx then eqb_of attrs_eq_dec (r_attrs a) (r_attrs b) else eqb_of resource_eq_dec a b.

Definition decode_groups {P B} (dec : P -> option B) (o : list (pb_resource * list (pb_scope * list P)))
  : option (list (resource * list (scope * list B))) :=
  opt_map_all (fun rg =>
    match res_of_pb (fst rg),
          opt_map_all (fun sg => match scope_of_pb (fst sg), opt_map_all dec (snd sg) with
                                 | Some s, Some xs => Some (s, xs) | _, _ => None end) (snd rg) with
    | Some r, Some sgs => Some (r, sgs)
    | _, _ => None
    end) o.
Definition canon_item {B} (f : B -> B) (x : item B) : item B :=
  mkItem (canon_res (it_res x)) (canon_scope (it_scope x)) (f (it_body x)).

(** The trace clause on a decoded payload. *)
Definition trace_spec (lx : laxity) (l : list (item span)) (o : list (pb_resource * list (pb_scope * list pb_span))) : bool :=
  match decode_groups span_of_pb o with
  | None => false
  | Some g => groups_ok span_same (res_same lx) span_guard (map (canon_item (fun s => s)) l) g
  end.
(** The log clause on a decoded payload. *)
Definition log_spec (lx : laxity) (l : list (item lrec)) (o : list (pb_resource * list (pb_scope * list pb_lrec))) : bool :=
  match decode_groups (fun p => Some (lrec_of_pb p)) o with
  | None => false
  | Some g => groups_ok (lrec_same lx) (res_same lx) lrec_guard (map (canon_item (fun r => r)) l) g
  end.

(** * Metrics *)
Definition num_of_pb (v : pnum) : option num :=
  match v with PNI z => Some (NI z) | PNF x => Some (NF x) | PNUnset => None end.
(** AggregationTemporality (1 delta, 2 cumulative) -> metricdata.Temporality (1 cumulative, 2 delta) *)
Definition temp_of_pb (t : N) : option N := match t with 1 => Some 2 | 2 => Some 1 | _ => None end.
Definition temp_ok (t : N) : bool := (t =? 1) || (t =? 2).

Definition exemplar_of_pb (e : pb_exemplar) : option exemplar :=
  match attrs_of_pb (px_attrs e), num_of_pb (px_value e) with
  | Some a, Some v => Some (mkEx a (Z.of_N (px_time e)) v (px_span e) (px_trace e))
  | _, _ => None
  end.
Definition dpoint_of_pb (d : pb_ndp) : option dpoint :=
  match attrs_of_pb (pn_attrs d), num_of_pb (pn_value d), opt_map_all exemplar_of_pb (pn_ex d) with
  | Some a, Some v, Some ex => Some (mkDp a (Z.of_N (pn_start d)) (Z.of_N (pn_time d)) v ex)
  | _, _, _ => None
  end.
(** histogram sums / extrema are doubles on the wire; a histogram without a sum is not one the
    SDK data model can hold *)
Definition hpoint_of_pb (h : pb_hdp) : option hpoint :=
  match attrs_of_pb (ph_attrs h), ph_sum h, opt_map_all exemplar_of_pb (ph_ex h) with
  | Some a, Some s, Some ex =>
      Some (mkHp a (Z.of_N (ph_start h)) (Z.of_N (ph_time h)) (ph_count h) (ph_bounds h) (ph_counts h)
                 (option_map NF (ph_min h)) (option_map NF (ph_max h)) (NF s) ex)
  | _, _, _ => None
  end.
Definition epoint_of_pb (p : pb_edp) : option epoint :=
  match attrs_of_pb (pp_attrs p), pp_sum p, opt_map_all exemplar_of_pb (pp_ex p) with
  | Some a, Some s, Some ex =>
      Some (mkEp a (Z.of_N (pp_start p)) (Z.of_N (pp_time p)) (pp_count p) (option_map NF (pp_min p))
                 (option_map NF (pp_max p)) (NF s) (pp_scale p) (pp_zero_count p) (pp_pos_off p) (pp_pos p)
                 (pp_neg_off p) (pp_neg p) (pp_zero_threshold p) ex)
  | _, _, _ => None
  end.
Definition qpoint_of_pb (q : pb_sdp) : option qpoint :=
  option_map (fun a => mkQp a (Z.of_N (pq_start q)) (Z.of_N (pq_time q)) (pq_count q) (pq_sum q) (pq_quantiles q))
             (attrs_of_pb (pq_attrs q)).
Definition mdata_of_pb (d : pb_mdata) : option mdata :=
  match d with
  | PNoData => None
  | PGauge l => option_map MGauge (opt_map_all dpoint_of_pb l)
  | PSum l t mono => match opt_map_all dpoint_of_pb l, temp_of_pb t with
                     | Some l', Some t' => Some (MSum l' t' mono) | _, _ => None end
  | PHist l t => match opt_map_all hpoint_of_pb l, temp_of_pb t with
                 | Some l', Some t' => Some (MHist l' t') | _, _ => None end
  | PExp l t => match opt_map_all epoint_of_pb l, temp_of_pb t with
                | Some l', Some t' => Some (MExp l' t') | _, _ => None end
  | PSummary l => option_map MSummary (opt_map_all qpoint_of_pb l)
  end.
Definition metric_of_pb (m : pb_metric) : option metric :=
  option_map (mkMetric (pm_name m) (pm_desc m) (pm_unit m)) (mdata_of_pb (pm_data m)).

(** What a metric reads as after the wire: attributes canonical, histogram numbers as doubles. *)
Definition as_double (v : num) : num := NF (match v with NI z => f64_of_Z z | NF x => x end).
Definition canon_ex (e : exemplar) : exemplar :=
  mkEx (canon_attrs (ex_attrs e)) (ex_time e) (ex_value e) (ex_span e) (ex_trace e).
Definition canon_dp (d : dpoint) : dpoint :=
  mkDp (canon_attrs (dp_attrs d)) (dp_start d) (dp_time d) (dp_value d) (map canon_ex (dp_ex d)).
Definition canon_hp (h : hpoint) : hpoint :=
  mkHp (canon_attrs (hp_attrs h)) (hp_start h) (hp_time h) (hp_count h) (hp_bounds h) (hp_counts h)
       (option_map as_double (hp_min h)) (option_map as_double (hp_max h)) (as_double (hp_sum h)) (map canon_ex (hp_ex h)).
Definition canon_ep (lx : laxity) (p : epoint) : epoint :=
  mkEp (canon_attrs (ep_attrs p)) (ep_start p) (ep_time p) (ep_count p) (option_map as_double (ep_min p))
       (option_map as_double (ep_max p)) (as_double (ep_sum p)) (ep_scale p) (ep_zero_count p) (ep_pos_off p) (ep_pos p)
       (ep_neg_off p) (ep_neg p) (if lax_zero_thr lx then 0 else ep_zero_threshold p) (map canon_ex (ep_ex p)).
Definition canon_qp (q : qpoint) : qpoint :=
  mkQp (canon_attrs (qp_attrs q)) (qp_start q) (qp_time q) (qp_count q) (qp_sum q) (qp_quantiles q).
Definition canon_mdata (lx : laxity) (d : mdata) : mdata :=
  match d with
  | MGauge l => MGauge (map canon_dp l)
  | MSum l t mono => MSum (map canon_dp l) t mono
  | MHist l t => MHist (map canon_hp l) t
  | MExp l t => MExp (map (canon_ep lx) l) t
  | MSummary l => MSummary (map canon_qp l)
  | MNone => MNone
  end.
Definition canon_metric (lx : laxity) (m : metric) : metric :=
  mkMetric (m_name m) (m_desc m) (m_unit m) (canon_mdata lx (m_data m)).

Definition ex_guard (e : exemplar) : bool := time_ok (ex_time e).
Definition dp_guard (d : dpoint) : bool := time_ok (dp_start d) && time_ok (dp_time d) && forallb ex_guard (dp_ex d).
Definition hp_guard (h : hpoint) : bool := time_ok (hp_start h) && time_ok (hp_time h) && forallb ex_guard (hp_ex h).
Definition ep_guard (p : epoint) : bool := time_ok (ep_start p) && time_ok (ep_time p) && forallb ex_guard (ep_ex p).
Definition qp_guard (q : qpoint) : bool := time_ok (qp_start q) && time_ok (qp_time q).
(** a metric the property speaks about: a known aggregation with a known temporality, non-negative Unix nanos *)
Definition temp_of (d : mdata) : option N :=
  match d with MSum _ t _ | MHist _ t | MExp _ t => Some t | _ => None end.
Definition metric_valid (m : metric) : bool :=
  match m_data m with
  | MNone => false
  | d => match temp_of d with Some t => temp_ok t | None => true end
  end.
Definition metric_guard (m : metric) : bool :=
  match m_data m with
  | MGauge l | MSum l _ _ => forallb dp_guard l
  | MHist l _ => forallb hp_guard l
  | MExp l _ => forallb ep_guard l
  | MSummary l => forallb qp_guard l
  | MNone => true
  end.
(** the zero threshold as read back, for the lax comparison *)
Definition norm_metric (lx : laxity) (m : metric) : metric :=
  match m_data m with
  | MExp l t => if lax_zero_thr lx
                then mkMetric (m_name m) (m_desc m) (m_unit m)
                       (MExp (map (fun p => mkEp (ep_attrs p) (ep_start p) (ep_time p) (ep_count p) (ep_min p) (ep_max p)
                                              (ep_sum p) (ep_scale p) (ep_zero_count p) (ep_pos_off p) (ep_pos p)
                                              (ep_neg_off p) (ep_neg p) 0 (ep_ex p)) l) t)
                else m
  | _ => m
  end.
Definition metric_same (lx : laxity) (o x : metric) : bool :=
  if metric_guard x then eqb_of metric_eq_dec (norm_metric lx o) (canon_metric lx x) else true.

(** The metric clause: same resource, the same scopes in order, and under each scope exactly the
    (valid) metrics of the input, in order, with identical fields. *)
Definition metric_spec (lx : laxity) (rm : rmetrics) (o : pb_rmetrics) : bool :=
  match res_of_pb (fst o),
        opt_map_all (fun sm => match scope_of_pb (fst sm), opt_map_all metric_of_pb (snd sm) with
                               | Some s, Some ms => Some (s, ms) | _, _ => None end) (snd o) with
  | Some r, Some sms =>
      eqb_of resource_eq_dec r (canon_res (fst rm)) &&
      all2 (fun a b => eqb_of scope_eq_dec (fst a) (canon_scope (fst b)) &&
                       all2 (metric_same lx) (snd a) (filter metric_valid (snd b))) sms (snd rm)
  | _, _ => false
  end.

(** * Zipkin *)
Definition unhexdig (c : N) : option N :=
  if (48 <=? c) && (c <=? 57) then Some (c - 48)
  else if (97 <=? c) && (c <=? 102) then Some (c - 87) else None.
Fixpoint unhex (s : bytes) : option bytes :=
  match s with
  | [] => Some []
  | a :: b :: r => match unhexdig a, unhexdig b, unhex r with
                   | Some x, Some y, Some r' => Some (16 * x + y :: r') | _, _, _ => None end
  | _ => None
  end.
(** a trace id of 16 hex digits is a 64-bit id: the high half is zero *)
Definition zk_trace_of (s : bytes) : option bytes :=
  match unhex s with
  | Some b => if Nat.eqb (length b) 8 then Some (repeat 0 8 ++ b) else Some b
  | None => None
  end.
Definition lower_ascii (b : bytes) : bytes := map (fun c => if (65 <=? c) && (c <=? 90) then c + 32 else c) b.
(** OTel kind -> Zipkin kind string (Zipkin has no INTERNAL / unspecified kind: absent) *)
Definition zk_kind_of (k : N) : bytes :=
  match k with 2 => str "SERVER" | 3 => str "CLIENT" | 4 => str "PRODUCER" | 5 => str "CONSUMER" | _ => [] end.
(** [u] microseconds is the instant / duration [ns] at microsecond granularity (nearest, half up);
    a positive duration below one microsecond is reported as one *)
Definition micros_of (ns : Z) (u : N) : bool :=
  let v := Z.of_N u in ((1000 * v - 500 <=? ns) && (ns <? 1000 * v + 500))%Z.
Definition zk_dur_ok (d : Z) (u : N) : bool :=
  if (d =? 0)%Z then u =? 0 else if (d <? 1000)%Z then u =? 1 else micros_of d u.
Definition zspan_guard (s : zspan) : bool :=
  id_len 16 (zs_trace s) && id_len 8 (zs_span s) && id_len 8 (zs_parent s) && (zs_kind s <=? 5) &&
  forallb (fun c => c <? 256) (zs_trace s ++ zs_span s ++ zs_parent s) &&
  match zs_start s with None => true | Some t => (1000000000 <=? t)%Z end && (0 <=? zs_dur s)%Z.
Definition zspan_same (s : zspan) (o : zobs) : bool :=
  eqb_of (opt_eq_dec bytes_eq_dec) (zk_trace_of (zo_trace o)) (Some (zs_trace s)) &&
  eqb_of (opt_eq_dec bytes_eq_dec) (unhex (zo_id o)) (Some (zs_span s)) &&
  match zo_parent o with
  | None => forallb (N.eqb 0) (zs_parent s)
  | Some h => eqb_of (opt_eq_dec bytes_eq_dec) (unhex h) (Some (zs_parent s)) && negb (forallb (N.eqb 0) (zs_parent s))
  end &&
  eqb_of bytes_eq_dec (lower_ascii (zo_name o)) (lower_ascii (zs_name s)) &&
  eqb_of bytes_eq_dec (zo_kind o) (zk_kind_of (zs_kind s)) &&
  match zs_start s with None => zo_ts o =? 0 | Some t => micros_of t (zo_ts o) end &&
  zk_dur_ok (zs_dur s) (zo_dur o).
(** A batch whose spans are all within the guards arrives complete and in order. *)
Fixpoint zip_all {A B} (p : A -> B -> bool) (a : list A) (b : list B) : bool :=
  match a, b with
  | [], [] => true
  | x :: a', y :: b' => p x y && zip_all p a' b'
  | _, _ => false
  end.
Definition zipkin_spec (l : list zspan) (o : option (list zobs)) : bool :=
  if forallb zspan_guard l then
    match o with
    | Some obs => zip_all zspan_same l obs
    | None => is_nil l
    end
  else true.
