(** C20 model: executable Gallina mirror of the configuration code of the six OTLP exporters
    and of the SDK batching / limit / sampler settings.  Definitions only.

    Exporters, trace and metric family ([tm_*]; otlptrace*/internal/otlpconfig and
    otlpmetric*/internal/oconf are the same template): NewHTTPConfig / NewGRPCConfig =
    defaults, then the options read from the environment (generic variable first, then the
    signal-specific one, in the order of getOptionsFromEnv), then the user's options, then
    cleanPath.  Log family ([log_*]; otlplog{http,grpc}/config.go): user options fill
    [setting]s, then each setting is resolved by getenv(signal-specific, generic) and
    fallback. *)
From Verif Require Import Lib.Base C20.Vocab.
Open Scope N_scope.

(** The settings as resolved by an exporter: the five of the property, plus the transport
    security the endpoint sources imply and a user-supplied gRPC connection. *)
Record cfg := {
  c_host : bytes;      (* endpoint / dial target *)
  c_path : bytes;      (* URL path on the wire (HTTP) *)
  c_hdrs : hmap;
  c_gzip : bool;
  c_tmo : Z;           (* nanoseconds; <= 0: no timeout *)
  c_insec : bool;      (* plain text (true) or TLS (false) *)
  c_conn : option bytes }.   (* WithGRPCConn: target of the user's connection *)

Definition set_host (c : cfg) (h : bytes) : cfg :=
  {| c_host := h; c_path := c_path c; c_hdrs := c_hdrs c; c_gzip := c_gzip c; c_tmo := c_tmo c; c_insec := c_insec c; c_conn := c_conn c |}.
Definition set_path (c : cfg) (p : bytes) : cfg :=
  {| c_host := c_host c; c_path := p; c_hdrs := c_hdrs c; c_gzip := c_gzip c; c_tmo := c_tmo c; c_insec := c_insec c; c_conn := c_conn c |}.
Definition set_hdrs (c : cfg) (m : hmap) : cfg :=
  {| c_host := c_host c; c_path := c_path c; c_hdrs := m; c_gzip := c_gzip c; c_tmo := c_tmo c; c_insec := c_insec c; c_conn := c_conn c |}.
Definition set_gzip (c : cfg) (g : bool) : cfg :=
  {| c_host := c_host c; c_path := c_path c; c_hdrs := c_hdrs c; c_gzip := g; c_tmo := c_tmo c; c_insec := c_insec c; c_conn := c_conn c |}.
Definition set_tmo (c : cfg) (t : Z) : cfg :=
  {| c_host := c_host c; c_path := c_path c; c_hdrs := c_hdrs c; c_gzip := c_gzip c; c_tmo := t; c_insec := c_insec c; c_conn := c_conn c |}.
Definition set_insec (c : cfg) (i : bool) : cfg :=
  {| c_host := c_host c; c_path := c_path c; c_hdrs := c_hdrs c; c_gzip := c_gzip c; c_tmo := c_tmo c; c_insec := i; c_conn := c_conn c |}.
Definition set_conn (c : cfg) (t : bytes) : cfg :=
  {| c_host := c_host c; c_path := c_path c; c_hdrs := c_hdrs c; c_gzip := c_gzip c; c_tmo := c_tmo c; c_insec := c_insec c; c_conn := Some t |}.

(** A user-supplied connection decides where the data goes; the dial options (compression
    among them) are not used. *)
Definition use_conn (c : cfg) : cfg :=
  match c_conn c with
  | Some t => set_insec (set_gzip (set_host c t) false) true
  | None => c
  end.

(** * Trace / metric family *)

(** EnvOptionsReader.GetEnvValue: trimmed, present iff non-empty. *)
Definition tm_getenv (v : bytes) : option bytes :=
  let t := trim_space v in if is_nil t then None else Some t.

(** stringToHeader: malformed entries are skipped, the rest is kept. *)
Definition tm_headers (v : bytes) : hmap :=
  fold_left (fun m e => match header_entry e with Some (k, x) => hset m k x | None => m end)
            (split_on 44 v) [].

(** cleanPath *)
Definition clean_path (p dflt : bytes) : bytes :=
  let t := path_clean (trim_space p) in
  if bytes_eqb t dot then dflt
  else if starts_with [47] t then t else 47 :: t.

(** WithURL("ENDPOINT"): host, and for HTTP the signal path joined to the URL's path; for gRPC
    the target is path.Join(host, path). *)
(** withEndpointScheme: "http" and "unix" mean plain text, everything else TLS. *)
Definition scheme_insecure (u : url) : bool :=
  bytes_eqb (u_scheme u) (str "http") || bytes_eqb (u_scheme u) (str "unix").
Definition tm_gen_endpoint (pr : proto) (sig : bytes) (c : cfg) (u : url) : cfg :=
  let c := set_insec c (scheme_insecure u) in
  match pr with
  | PHttp => set_path (set_host c (u_host u)) (path_join (u_path u) sig)
  | PGrpc => set_host c (path_join (u_host u) (u_path u))
  end.
(** WithURL("<SIGNAL>_ENDPOINT"): host and the URL's path as it is ("/" when empty). *)
Definition tm_spec_endpoint (pr : proto) (c : cfg) (u : url) : cfg :=
  let c := set_insec c (scheme_insecure u) in
  match pr with
  | PHttp => set_path (set_host c (u_host u)) (if is_nil (u_path u) then [47] else u_path u)
  | PGrpc => set_host c (path_join (u_host u) (u_path u))
  end.

Definition tm_env_url (f : cfg -> url -> cfg) (c : cfg) (v : bytes) : cfg :=
  match tm_getenv v with
  | Some t => match parse_url t with Some u => f c u | None => c end
  | None => c
  end.
Definition tm_env_headers (c : cfg) (v : bytes) : cfg :=
  match tm_getenv v with Some t => set_hdrs c (tm_headers t) | None => c end.
(** WithEnvCompression: any present value is applied; "gzip" selects gzip, everything else none. *)
Definition tm_env_comp (c : cfg) (v : bytes) : cfg :=
  match tm_getenv v with Some t => set_gzip c (bytes_eqb t gzip_name) | None => c end.
(** WithDuration: Atoi failure leaves the setting alone. *)
Definition tm_env_tmo (c : cfg) (v : bytes) : cfg :=
  match tm_getenv v with
  | Some t => match atoi t with Some ms => set_tmo c (ms_to_ns ms) | None => c end
  | None => c
  end.

(** WithBool("INSECURE"): any present value is applied; "true" (any case) means plain text. *)
Definition tm_env_insec (c : cfg) (v : bytes) : cfg :=
  match tm_getenv v with Some t => set_insec c (bytes_eqb (to_lower t) true_name) | None => c end.

(** getOptionsFromEnv applied in order (generic, then signal-specific, per setting). *)
Definition tm_apply_env (pr : proto) (sig : bytes) (e : env) (c : cfg) : cfg :=
  let c := tm_env_url (tm_gen_endpoint pr sig) c (gen_ep e) in
  let c := tm_env_url (tm_spec_endpoint pr) c (spec_ep e) in
  let c := tm_env_insec c (gen_insec e) in
  let c := tm_env_insec c (spec_insec e) in
  let c := tm_env_headers c (gen_hdr e) in
  let c := tm_env_headers c (spec_hdr e) in
  let c := tm_env_comp c (gen_comp e) in
  let c := tm_env_comp c (spec_comp e) in
  let c := tm_env_tmo c (gen_tmo e) in
  tm_env_tmo c (spec_tmo e).

Definition tm_apply_opt (c : cfg) (o : opt) : cfg :=
  match o with
  | OEndpoint h => set_host c h
  | OEndpointURL s =>
      match parse_url s with
      | Some u => set_insec (set_path (set_host c (u_host u)) (u_path u)) (negb (bytes_eqb (u_scheme u) https_name))
      | None => c
      end
  | OURLPath p => set_path c p
  | OHeaders m => set_hdrs c m
  | OCompression g => set_gzip c g
  | OCompressor n => set_gzip c (bytes_eqb n gzip_name)
  | OTimeout t => set_tmo c t
  | OInsecure => set_insec c true
  | OGRPCConn t => set_conn c t
  end.

Definition tm_default (pr : proto) (sig : bytes) : cfg :=
  {| c_host := default_host pr; c_path := sig; c_hdrs := []; c_gzip := false; c_tmo := default_timeout_ns;
     c_insec := false; c_conn := None |}.

Definition tm_config (pr : proto) (sig : bytes) (opts : list opt) (e : env) : cfg :=
  let c := fold_left tm_apply_opt opts (tm_apply_env pr sig e (tm_default pr sig)) in
  match pr with
  | PHttp => set_path c (clean_path (c_path c) sig)
  | PGrpc => use_conn c
  end.

(** * Log family *)

(** getenv(keys = [signal-specific; generic], conv): the first NON-EMPTY (untrimmed) value
    whose conversion succeeds. *)
Definition log_getenv {A} (conv : bytes -> option A) (spec gen : bytes) : option A :=
  match (if is_nil spec then None else conv spec) with
  | Some v => Some v
  | None => if is_nil gen then None else conv gen
  end.

(** convHeaders: any malformed entry makes the whole value an error. *)
Definition log_headers (v : bytes) : option hmap :=
  fold_left (fun acc e => match acc, header_entry e with
                          | Some m, Some (k, x) => Some (hset m k x)
                          | _, _ => None
                          end) (split_on 44 v) (Some []).
Definition log_comp (v : bytes) : option bool :=
  if bytes_eqb v gzip_name then Some true
  else if bytes_eqb v none_name || is_nil v then Some false
  else None.
Definition log_dur (v : bytes) : option Z := option_map ms_to_ns (atoi v).

(** settings filled by the user's options *)
Record lset := {
  l_host : option bytes; l_path : option bytes; l_hdrs : option hmap;
  l_gzip : option bool; l_tmo : option Z; l_insec : option bool; l_conn : option bytes }.
Definition lset0 : lset :=
  {| l_host := None; l_path := None; l_hdrs := None; l_gzip := None; l_tmo := None; l_insec := None; l_conn := None |}.
Definition ls_host (s : lset) v := {| l_host := v; l_path := l_path s; l_hdrs := l_hdrs s; l_gzip := l_gzip s; l_tmo := l_tmo s; l_insec := l_insec s; l_conn := l_conn s |}.
Definition ls_path (s : lset) v := {| l_host := l_host s; l_path := v; l_hdrs := l_hdrs s; l_gzip := l_gzip s; l_tmo := l_tmo s; l_insec := l_insec s; l_conn := l_conn s |}.
Definition ls_hdrs (s : lset) v := {| l_host := l_host s; l_path := l_path s; l_hdrs := v; l_gzip := l_gzip s; l_tmo := l_tmo s; l_insec := l_insec s; l_conn := l_conn s |}.
Definition ls_gzip (s : lset) v := {| l_host := l_host s; l_path := l_path s; l_hdrs := l_hdrs s; l_gzip := v; l_tmo := l_tmo s; l_insec := l_insec s; l_conn := l_conn s |}.
Definition ls_tmo (s : lset) v := {| l_host := l_host s; l_path := l_path s; l_hdrs := l_hdrs s; l_gzip := l_gzip s; l_tmo := v; l_insec := l_insec s; l_conn := l_conn s |}.
Definition ls_insec (s : lset) v := {| l_host := l_host s; l_path := l_path s; l_hdrs := l_hdrs s; l_gzip := l_gzip s; l_tmo := l_tmo s; l_insec := v; l_conn := l_conn s |}.
Definition ls_conn (s : lset) v := {| l_host := l_host s; l_path := l_path s; l_hdrs := l_hdrs s; l_gzip := l_gzip s; l_tmo := l_tmo s; l_insec := l_insec s; l_conn := v |}.

(** otlploggrpc insecureFromScheme: "https" -> TLS, any other non-empty scheme -> plain text, an
    empty scheme leaves the setting alone. *)
Definition insecure_from_scheme (prev : option bool) (scheme : bytes) : option bool :=
  if bytes_eqb scheme https_name then Some false
  else if is_nil scheme then prev else Some true.

Definition log_apply_opt (pr : proto) (s : lset) (o : opt) : lset :=
  match o with
  | OEndpoint h => ls_host s (Some h)
  | OEndpointURL r =>
      match parse_url r with
      | Some u =>
          match pr with
          | PHttp => ls_insec (ls_path (ls_host s (Some (u_host u))) (Some (u_path u)))
                              (Some (negb (bytes_eqb (u_scheme u) https_name)))
          | PGrpc => ls_insec (ls_host s (Some (u_host u))) (insecure_from_scheme (l_insec s) (u_scheme u))
          end
      | None => s
      end
  | OURLPath p => ls_path s (Some p)
  | OHeaders m => ls_hdrs s (Some m)
  | OCompression g => ls_gzip s (Some g)
  | OCompressor n => ls_gzip s (Some (match log_comp n with Some g => g | None => false end))
  | OTimeout t => ls_tmo s (Some t)
  | OInsecure => ls_insec s (Some true)
  | OGRPCConn t => ls_conn s (Some t)
  end.

Definition or_else {A} (a : option A) (b : option A) : option A := match a with Some _ => a | None => b end.
Definition or_dflt {A} (a : option A) (d : A) : A := match a with Some v => v | None => d end.

(** url.URL{Path: p}.String() / http.NewRequest: the request path on the wire. *)
Definition wire_path (p : bytes) : bytes :=
  match p with [] => [47] | c :: _ => if c =? 47 then p else 47 :: p end.

(** otlploghttp convInsecure (scheme of the first parsable endpoint variable) *)
Definition log_http_insec (v : bytes) : option bool :=
  option_map (fun u => negb (bytes_eqb (u_scheme u) https_name)) (parse_url v).
(** otlploggrpc loadInsecureFromEnvEndpoint: the first NON-EMPTY endpoint variable that parses
    decides (and may decide nothing when its scheme is empty); then getEnv over the INSECURE
    variables with a strict boolean. *)
Definition log_grpc_insec_ep (spec gen : bytes) : option bool :=
  match (if is_nil spec then None else parse_url spec) with
  | Some u => insecure_from_scheme None (u_scheme u)
  | None => match (if is_nil gen then None else parse_url gen) with
            | Some u => insecure_from_scheme None (u_scheme u)
            | None => None
            end
  end.
Definition log_bool (v : bytes) : option bool :=
  let t := to_lower v in
  if bytes_eqb t true_name then Some true else if bytes_eqb t false_name then Some false else None.

Definition log_config (pr : proto) (opts : list opt) (e : env) : cfg :=
  let s := fold_left (log_apply_opt pr) opts lset0 in
  let sig := sig_path FLog in
  let host := or_dflt (or_else (l_host s) (log_getenv (fun v => option_map u_host (parse_url v)) (spec_ep e) (gen_ep e)))
                      (default_host pr) in
  let path :=
    or_dflt (or_else (l_path s)
            (or_else (log_getenv (fun v => option_map (fun u => if is_nil (u_path u) then [47] else u_path u) (parse_url v)) (spec_ep e) [])
                     (log_getenv (fun v => option_map (fun u => trim_right_slash (u_path u) ++ sig) (parse_url v)) (gen_ep e) [])))
            sig in
  let insec :=
    match pr with
    | PHttp => or_dflt (or_else (l_insec s) (log_getenv log_http_insec (spec_ep e) (gen_ep e))) false
    | PGrpc => or_dflt (or_else (or_else (l_insec s) (log_grpc_insec_ep (spec_ep e) (gen_ep e)))
                                (log_getenv log_bool (spec_insec e) (gen_insec e))) false
    end in
  let c :=
    {| c_host := host;
       c_path := match pr with PHttp => wire_path path | PGrpc => sig end;
       c_hdrs := or_dflt (or_else (l_hdrs s) (log_getenv log_headers (spec_hdr e) (gen_hdr e))) [];
       c_gzip := or_dflt (or_else (l_gzip s) (log_getenv log_comp (spec_comp e) (gen_comp e))) false;
       c_tmo := or_dflt (or_else (l_tmo s) (log_getenv log_dur (spec_tmo e) (gen_tmo e))) default_timeout_ns;
       c_insec := insec; c_conn := l_conn s |} in
  match pr with PHttp => c | PGrpc => use_conn c end.

(** * All six exporters *)
Definition exporter_config (f : family) (pr : proto) (opts : list opt) (e : env) : cfg :=
  match f with
  | FLog => log_config pr opts e
  | _ => tm_config pr (sig_path f) opts e
  end.

(** * SDK: environment integers (sdk/internal/env) *)

(** IntEnvOr *)
Definition int_env_or (v : bytes) (d : Z) : Z :=
  if is_nil v then d else match atoi v with Some n => n | None => d end.
(** firstInt: the first NON-EMPTY variable decides; unparsable gives the default. *)
Fixpoint first_int (d : Z) (vs : list bytes) : Z :=
  match vs with
  | [] => d
  | v :: r => if is_nil v then first_int d r else match atoi v with Some n => n | None => d end
  end.

(** ** NewBatchSpanProcessor (after fix 0f47d06) *)
Definition bsp_dflt_queue : Z := 2048.
Definition bsp_dflt_batch : Z := 512.
Definition bsp_dflt_delay_ms : Z := 5000.
Definition bsp_dflt_export_ms : Z := 30000.

Record bsp_out := { bo_queue : Z; bo_batch : Z; bo_delay : Z; bo_export : Z }.  (* durations in ns *)

Definition bsp_config (i : bsp_in) : bsp_out :=
  let q0 := int_env_or (b_env_queue i) bsp_dflt_queue in
  let b0 := int_env_or (b_env_batch i) bsp_dflt_batch in
  let b1 := if (b0 >? q0)%Z then (if (bsp_dflt_batch >? q0)%Z then q0 else bsp_dflt_batch) else b0 in
  let q := or_dflt (b_opt_queue i) q0 in
  let b := or_dflt (b_opt_batch i) b1 in
  let q' := if (q <? 0)%Z then bsp_dflt_queue else q in
  let b' := if (b <? 0)%Z then Z.min bsp_dflt_batch q' else b in
  {| bo_queue := q'; bo_batch := b';
     bo_delay := or_dflt (b_opt_delay i) (ms_to_ns (int_env_or (b_env_delay i) bsp_dflt_delay_ms));
     bo_export := or_dflt (b_opt_export i) (ms_to_ns (int_env_or (b_env_export i) bsp_dflt_export_ms)) |}.

(** ** sdk/log newBatchConfig: clearLessThanOne, getenv, clearLessThanOne, [clampMax], fallback *)
Definition clear_lt1 (s : option Z) : option Z :=
  match s with Some v => if (v <? 1)%Z then None else Some v | None => None end.
Definition blrp_getenv (s : option Z) (v : bytes) : option Z :=
  match s with
  | Some _ => s
  | None => if is_nil v then None else atoi v
  end.
Definition blrp_resolve (o : option Z) (v : bytes) : option Z :=
  clear_lt1 (blrp_getenv (clear_lt1 o) v).

Definition blrp_config (i : blrp_in) : Z * Z :=
  let q := or_dflt (blrp_resolve (r_opt_queue i) (r_env_queue i)) 2048%Z in
  let b := match blrp_resolve (r_opt_batch i) (r_env_batch i) with
           | Some v => Z.min v q        (* clampMax applies to a set value only; *)
           | None => 512%Z              (* the fallback comes after the clamp *)
           end in
  (q, b).

(** Durations of the batch log record processor (export timeout; the export interval is resolved
    the same way): clearLessThanOne on the option (ns), getenv (ms -> ns, int64 wrap-around),
    clearLessThanOne, fallback.  The timeout exporter then always sets a deadline. *)
Definition blrp_dur_getenv (s : option Z) (v : bytes) : option Z :=
  match s with
  | Some _ => s
  | None => if is_nil v then None else option_map ms_to_ns (atoi v)
  end.
Definition blrp_export_timeout (i : blrp_in) : Z :=
  or_dflt (clear_lt1 (blrp_dur_getenv (clear_lt1 (r_opt_export i)) (r_env_export i))) 30000000000%Z.

(** exportSpans / newTimeoutExporter: a deadline is set iff the timeout is positive. *)
Definition export_deadline (t : Z) : option Z := if (0 <? t)%Z then Some t else None.

(** ** span limits (sdk/trace/span_limits.go, provider.go) *)
Definition limits_default : limits :=
  {| lim_attr_len := -1; lim_attr_cnt := 128; lim_event_cnt := 128; lim_link_cnt := 128;
     lim_event_attr := 128; lim_link_attr := 128 |}.
Definition new_span_limits (e : limits_env) : limits :=
  {| lim_attr_len := first_int (-1) [le_span_attr_len e; le_attr_len e];
     lim_attr_cnt := first_int 128 [le_span_attr_cnt e; le_attr_cnt e];
     lim_event_cnt := int_env_or (le_event_cnt e) 128;
     lim_link_cnt := int_env_or (le_link_cnt e) 128;
     lim_event_attr := int_env_or (le_event_attr e) 128;
     lim_link_attr := int_env_or (le_link_attr e) 128 |}.
Definition pos_or (v d : Z) : Z := if (v <=? 0)%Z then d else v.
Definition legacy_limits (l : limits) : limits :=
  {| lim_attr_len := pos_or (lim_attr_len l) (-1); lim_attr_cnt := pos_or (lim_attr_cnt l) 128;
     lim_event_cnt := pos_or (lim_event_cnt l) 128; lim_link_cnt := pos_or (lim_link_cnt l) 128;
     lim_event_attr := pos_or (lim_event_attr l) 128; lim_link_attr := pos_or (lim_link_attr l) 128 |}.
Definition apply_limits_opt (cur : limits) (o : limits_opt) : limits :=
  match o with LRaw l => l | LLegacy l => legacy_limits l end.
Definition span_limits (opts : list limits_opt) (e : limits_env) : limits :=
  fold_left apply_limits_opt opts (new_span_limits e).

(** ** log record limits (sdk/log/provider.go): option, else getenv (parsable), else default *)
Definition log_limit (o : option Z) (v : bytes) (d : Z) : Z :=
  or_dflt (or_else o (if is_nil v then None else atoi v)) d.

(** ** sampler from the environment (sdk/trace/sampler_env.go, provider.go) *)
Inductive sampler := SOn | SOff | SRatio (num den : Z) | SParent (root : sampler).

(** parseTraceIDRatio: unparsable, negative or above one gives ratio 1 (and an error). *)
Definition ratio_sampler (arg : bytes) : sampler :=
  match parse_decimal arg with
  | Some (neg, n, d) =>
      if neg && (0 <? n)%Z then SRatio 1 1
      else if (d <? n)%Z then SRatio 1 1
      else SRatio n d
  | None => SRatio 1 1
  end.

(** samplerFromEnv: [name]/[arg] are [None] when the variable is not set (LookupEnv). *)
Definition sampler_from_env (name arg : option bytes) : option sampler :=
  match name with
  | None => None
  | Some nm =>
      let nm := to_lower (trim_space nm) in
      let r := match arg with Some a => ratio_sampler (trim_space a) | None => SRatio 1 1 end in
      if bytes_eqb nm (str "always_on") then Some SOn
      else if bytes_eqb nm (str "always_off") then Some SOff
      else if bytes_eqb nm (str "traceidratio") then Some r
      else if bytes_eqb nm (str "parentbased_always_on") then Some (SParent SOn)
      else if bytes_eqb nm (str "parentbased_always_off") then Some (SParent SOff)
      else if bytes_eqb nm (str "parentbased_traceidratio") then Some (SParent r)
      else None
  end.
(** NewTracerProvider: env sampler, overridden by WithSampler, default ParentBased(AlwaysSample). *)
Definition sampler_of_opt (o : sopt) : sampler :=
  match o with OptAlways => SOn | OptNever => SOff | OptRatio n d => SRatio n d end.
Definition provider_sampler (o : option sopt) (name arg : option bytes) : sampler :=
  or_dflt (or_else (option_map sampler_of_opt o) (sampler_from_env name arg)) (SParent SOn).

(** ShouldSample; [x] is the 63-bit number the ratio sampler derives from the trace id. *)
Fixpoint should_sample (s : sampler) (p : parent) (x : Z) : bool :=
  match s with
  | SOn => true
  | SOff => false
  | SRatio n d => if (d <=? n)%Z then true else (x <? (n * 2 ^ 63) / d)%Z
  | SParent root =>
      match p with
      | PNone => should_sample root p x
      | PSampled => true
      | PUnsampled => false
      end
  end.
