(** C20 shared vocabulary: Gallina re-implementations of the Go LIBRARY functions the
    configuration code relies on (strings.TrimSpace, strconv.Atoi, url.PathUnescape, the part of
    url.Parse the code uses, path.Clean / path.Join, int64 wrap-around of time.Duration
    arithmetic), and the INPUT types of a configuration (options, environment).  Both the
    specification and the model are written over this vocabulary; nothing here mirrors code of
    the repository under test.  Definitions only. *)
From Verif Require Import Lib.Base.
Open Scope N_scope.

Definition is_nil {A} (l : list A) : bool := match l with [] => true | _ => false end.

(** ** strings.TrimSpace (ASCII white space: \t \n \v \f \r and space) *)
Definition is_space (c : N) : bool := (c =? 32) || ((9 <=? c) && (c <=? 13)).
Fixpoint drop_space (s : bytes) : bytes :=
  match s with
  | c :: r => if is_space c then drop_space r else s
  | [] => []
  end.
Definition trim_space (s : bytes) : bytes := rev (drop_space (rev (drop_space s))).
(** A value with no white space at either end (what a user normally writes). *)
Definition trimmed (s : bytes) : bool :=
  match s with [] => true | c :: _ => negb (is_space c) && negb (is_space (last s 0)) end.

(** ** strconv.Atoi (int is 64 bit) *)
Fixpoint digits_val (s : bytes) (acc : Z) : option Z :=
  match s with
  | [] => Some acc
  | c :: r => if (48 <=? c) && (c <=? 57) then digits_val r (acc * 10 + Z.of_N (c - 48))%Z else None
  end.
Definition int64_ok (z : Z) : bool := ((- 2 ^ 63 <=? z) && (z <=? 2 ^ 63 - 1))%Z.
Definition atoi (s : bytes) : option Z :=
  let '(neg, d) := match s with
                   | 43 :: r => (false, r)
                   | 45 :: r => (true, r)
                   | _ => (false, s)
                   end in
  match d with
  | [] => None
  | _ => match digits_val d 0%Z with
         | None => None
         | Some v => let v' := if neg then (- v)%Z else v in
                     if int64_ok v' then Some v' else None
         end
  end.

(** int64 wrap-around (time.Duration(d) * time.Millisecond). *)
Definition wrap64 (z : Z) : Z :=
  let m := (z mod 2 ^ 64)%Z in if (m <? 2 ^ 63)%Z then m else (m - 2 ^ 64)%Z.
Definition ms_to_ns (ms : Z) : Z := wrap64 (ms * 1000000)%Z.
(** Milliseconds whose nanosecond count fits an int64 (about +-292 years). *)
Definition ms_in_range (ms : Z) : bool := int64_ok (ms * 1000000)%Z.

(** ** byte-string utilities *)
Fixpoint split_on (sep : N) (s : bytes) : list bytes :=
  match s with
  | [] => [[]]
  | c :: r => if c =? sep then [] :: split_on sep r
              else match split_on sep r with
                   | h :: t => (c :: h) :: t
                   | [] => [[c]]
                   end
  end.
Fixpoint cut (sep : N) (s : bytes) : option (bytes * bytes) :=
  match s with
  | [] => None
  | c :: r => if c =? sep then Some ([], r)
              else match cut sep r with Some (a, b) => Some (c :: a, b) | None => None end
  end.
Fixpoint join_with (sep : N) (l : list bytes) : bytes :=
  match l with
  | [] => []
  | [x] => x
  | x :: r => x ++ sep :: join_with sep r
  end.
Fixpoint has_byte (c : N) (s : bytes) : bool :=
  match s with [] => false | x :: r => (x =? c) || has_byte c r end.
Definition is_letter (c : N) : bool := ((65 <=? c) && (c <=? 90)) || ((97 <=? c) && (c <=? 122)).
Definition is_digit (c : N) : bool := (48 <=? c) && (c <=? 57).
Definition lower_byte (c : N) : N := if (65 <=? c) && (c <=? 90) then c + 32 else c.
Definition to_lower (s : bytes) : bytes := map lower_byte s.
Fixpoint starts_with (p s : bytes) : bool :=
  match p, s with
  | [], _ => true
  | a :: p', b :: s' => (a =? b) && starts_with p' s'
  | _, [] => false
  end.
Definition ends_with_slash (s : bytes) : bool := match s with [] => false | _ => last s 0 =? 47 end.
Definition strip_slash (s : bytes) : bytes := if ends_with_slash s then removelast s else s.
(** strings.TrimRight(s, "/") *)
Fixpoint trim_right_slash (s : bytes) : bytes :=
  match s with
  | [] => []
  | c :: r => match trim_right_slash r with
              | [] => if c =? 47 then [] else [c]
              | t => c :: t
              end
  end.

(** ** url.PathUnescape *)
Definition hexv (c : N) : option N :=
  if is_digit c then Some (c - 48)
  else if (97 <=? c) && (c <=? 102) then Some (c - 87)
  else if (65 <=? c) && (c <=? 70) then Some (c - 55)
  else None.
Fixpoint unescape (s : bytes) : option bytes :=
  match s with
  | [] => Some []
  | 37 :: a :: b :: r =>
      match hexv a, hexv b with
      | Some x, Some y => option_map (cons (16 * x + y)) (unescape r)
      | _, _ => None
      end
  | 37 :: _ => None
  | c :: r => option_map (cons c) (unescape r)
  end.

(** ** path.Clean and path.Join (two elements) *)
Definition dot : bytes := [46].
Definition dotdot : bytes := [46; 46].
Definition clean_step (rooted : bool) (st : list bytes) (s : bytes) : list bytes :=
  if bytes_eqb s dotdot then
    match st with
    | top :: r => if bytes_eqb top dotdot then s :: st else r
    | [] => if rooted then [] else [s]
    end
  else s :: st.
Definition seg_ok (s : bytes) : bool := negb (is_nil s) && negb (bytes_eqb s dot).
Definition path_clean (p : bytes) : bytes :=
  match p with
  | [] => dot
  | c :: _ =>
      let rooted := c =? 47 in
      let segs := filter seg_ok (split_on 47 p) in
      let body := join_with 47 (rev (fold_left (clean_step rooted) segs [])) in
      if rooted then 47 :: body else match body with [] => dot | _ => body end
  end.
Definition path_join (a b : bytes) : bytes :=
  match a, b with
  | [], [] => []
  | [], _ => path_clean b
  | _, [] => path_clean a
  | _, _ => path_clean (a ++ 47 :: b)
  end.
(** A plain path segment: not empty, no '/', not "." or "..". *)
Definition plain_seg (s : bytes) : bool :=
  negb (is_nil s) && negb (has_byte 47 s) && negb (bytes_eqb s dot) && negb (bytes_eqb s dotdot).
(** A tidy path: "/" followed by plain segments separated by single slashes ("/", "/a", "/a/b";
    with no white space at either end: absolute paths that path.Clean and strings.TrimSpace leave alone). *)
Definition tidy (p : bytes) : bool :=
  match p with
  | 47 :: r => (is_nil r || forallb plain_seg (split_on 47 r)) && trimmed p
  | _ => false
  end.

(** ** url.Parse: the fragment the configuration code relies on (scheme, host, path).
    Modelled: control bytes rejected; fragment and query cut off; scheme detection
    ("missing protocol scheme" for a leading ':'); opaque URLs (scheme:rest without a leading
    '/') give empty host and path; the "first path segment cannot contain colon" rule;
    "//authority" with host-character and ":port" validation; percent-decoding of the path.
    Outside the fragment (the harness never produces them): user-info '@', bracketed IPv6
    literals (rejected here), percent-escapes in the host. *)
Record url := { u_scheme : bytes; u_host : bytes; u_path : bytes }.

Definition has_ctl (s : bytes) : bool := existsb (fun c => (c <? 32) || (c =? 127)) s.
Definition before (sep : N) (s : bytes) : bytes := match cut sep s with Some (a, _) => a | None => s end.

(** getScheme: [Some (scheme, rest)] or [None] for "missing protocol scheme". *)
Fixpoint get_scheme (s acc : bytes) (first : bool) (whole : bytes) : option (bytes * bytes) :=
  match s with
  | [] => Some ([], whole)
  | c :: r =>
      if is_letter c then get_scheme r (acc ++ [c]) false whole
      else if is_digit c || (c =? 43) || (c =? 45) || (c =? 46) then
        if first then Some ([], whole) else get_scheme r (acc ++ [c]) false whole
      else if c =? 58 then (if first then None else Some (acc, r))
      else Some ([], whole)
  end.

Definition host_char_ok (c : N) : bool :=
  is_letter c || is_digit c || (128 <=? c) ||
  existsb (N.eqb c) [45; 95; 46; 126; 33; 36; 38; 39; 40; 41; 42; 43; 44; 59; 61; 58; 60; 62; 34].
Fixpoint after_last_colon (s : bytes) (cur : option bytes) : option bytes :=
  match s with
  | [] => cur
  | c :: r => if c =? 58 then after_last_colon r (Some r) else after_last_colon r cur
  end.
Definition valid_host (h : bytes) : bool :=
  forallb host_char_ok h && negb (has_byte 91 h) && negb (has_byte 93 h) &&
  match after_last_colon h None with
  | None => true
  | Some port => forallb is_digit port
  end.
Fixpoint split_authority (s : bytes) : bytes * bytes :=
  match s with
  | [] => ([], [])
  | c :: r => if c =? 47 then ([], s) else let '(a, b) := split_authority r in (c :: a, b)
  end.

Definition parse_url (raw : bytes) : option url :=
  let s := before 35 raw in
  if has_ctl s then None else
  match get_scheme s [] true s with
  | None => None
  | Some (sch, rest0) =>
      let sch := to_lower sch in
      let rest := before 63 rest0 in
      if negb (starts_with [47] rest) && negb (is_nil sch) then
        Some {| u_scheme := sch; u_host := []; u_path := [] |}          (* opaque *)
      else if negb (starts_with [47] rest) && has_byte 58 (before 47 rest) then None
      else if starts_with [47; 47] rest && (negb (is_nil sch) || negb (starts_with [47; 47; 47] rest)) then
        let '(auth, p) := split_authority (skipn 2 rest) in
        if has_byte 64 auth then None
        else if valid_host auth then
          match unescape p with
          | Some p' => Some {| u_scheme := sch; u_host := auth; u_path := p' |}
          | None => None
          end
        else None
      else
        match unescape rest with
        | Some p' => Some {| u_scheme := sch; u_host := []; u_path := p' |}
        | None => None
        end
  end.

(** ** header names: RFC 7230 token characters *)
Definition token_char (c : N) : bool :=
  is_letter c || is_digit c ||
  existsb (N.eqb c) [33; 35; 36; 37; 38; 39; 42; 43; 45; 46; 94; 95; 96; 124; 126].
Definition valid_header_key (k : bytes) : bool := negb (is_nil k) && forallb token_char k.

(** Header maps are association lists without duplicate keys; [hset] is Go's [m[k] = v]. *)
Definition hmap := list (bytes * bytes).
Fixpoint hset (m : hmap) (k v : bytes) : hmap :=
  match m with
  | [] => [(k, v)]
  | (k', v') :: r => if bytes_eqb k k' then (k, v) :: r else (k', v') :: hset r k v
  end.
Fixpoint hget (m : hmap) (k : bytes) : option bytes :=
  match m with
  | [] => None
  | (k', v) :: r => if bytes_eqb k k' then Some v else hget r k
  end.
Definition hsub (a b : hmap) : bool :=
  forallb (fun kv => option_eqb bytes_eqb (hget b (fst kv)) (Some (snd kv))) a.
Definition hmap_eqb (a b : hmap) : bool := hsub a b && hsub b a.

(** One "k=v" entry of a header list: [Some (Some (k, v))] well formed, [Some None] malformed. *)
Definition header_entry (e : bytes) : option (bytes * bytes) :=
  match cut 61 e with
  | None => None
  | Some (k, v) =>
      let k' := trim_space k in
      if valid_header_key k' then
        match unescape v with
        | Some v' => Some (k', trim_space v')
        | None => None
        end
      else None
  end.

(** ** strconv.ParseFloat, decimal fragment *)
(** Decimal fragment of strconv.ParseFloat: [+-]digits[.digits] with at least one digit
    (no exponent, hex, inf, nan, underscore).  Result as a fraction. *)
Fixpoint frac_digits (s : bytes) (num den : Z) : option (Z * Z) :=
  match s with
  | [] => Some (num, den)
  | c :: r => if is_digit c then frac_digits r (num * 10 + Z.of_N (c - 48))%Z (den * 10)%Z else None
  end.
Fixpoint int_digits (s : bytes) (num : Z) (seen : bool) : option (Z * Z * bool) :=
  match s with
  | [] => Some (num, 1%Z, seen)
  | c :: r =>
      if is_digit c then int_digits r (num * 10 + Z.of_N (c - 48))%Z true
      else if c =? 46 then
        match frac_digits r num 1 with
        | Some (n, d) => Some (n, d, seen || negb (is_nil r))
        | None => None
        end
      else None
  end.
Definition parse_decimal (s : bytes) : option (bool * Z * Z) :=   (* negative?, num, den *)
  let '(neg, d) := match s with
                   | 43 :: r => (false, r)
                   | 45 :: r => (true, r)
                   | _ => (false, s)
                   end in
  match int_digits d 0 false with
  | Some (n, dn, true) => Some (neg, n, dn)
  | _ => None
  end.


(** The parent a span is started under (sampling). *)
Inductive parent := PNone | PSampled | PUnsampled.

(** ** inputs of an exporter configuration *)
Inductive family := FTrace | FMetric | FLog.
Inductive proto := PHttp | PGrpc.

Definition sig_path (f : family) : bytes :=
  match f with
  | FTrace => str "/v1/traces"
  | FMetric => str "/v1/metrics"
  | FLog => str "/v1/logs"
  end.
Definition default_host (p : proto) : bytes :=
  match p with PHttp => str "localhost:4318" | PGrpc => str "localhost:4317" end.
Definition default_timeout_ns : Z := 10000000000%Z.

(** Programmatic options, in the order the user passed them. *)
Inductive opt :=
| OEndpoint (h : bytes)          (* WithEndpoint *)
| OEndpointURL (u : bytes)       (* WithEndpointURL *)
| OURLPath (p : bytes)           (* WithURLPath (HTTP) *)
| OHeaders (m : hmap)            (* WithHeaders *)
| OCompression (gzip : bool)     (* WithCompression(Gzip|No) (HTTP) *)
| OCompressor (name : bytes)     (* WithCompressor(name) (gRPC) *)
| OTimeout (ns : Z)              (* WithTimeout *)
| OInsecure                      (* WithInsecure: plain-text transport *)
| OGRPCConn (target : bytes).    (* WithGRPCConn(conn) (gRPC): a connection the user dialled to [target] *)

(** The environment: raw values of the generic OTEL_EXPORTER_OTLP_x and the signal-specific
    OTEL_EXPORTER_OTLP_<SIGNAL>_x variables; [[]] = unset (os.Getenv does not distinguish). *)
Record env := {
  gen_ep : bytes; spec_ep : bytes;
  gen_hdr : bytes; spec_hdr : bytes;
  gen_comp : bytes; spec_comp : bytes;
  gen_tmo : bytes; spec_tmo : bytes;
  gen_insec : bytes; spec_insec : bytes }.   (* OTEL_EXPORTER_OTLP_INSECURE, .._<SIGNAL>_INSECURE *)

Definition gzip_name : bytes := str "gzip".
Definition none_name : bytes := str "none".
Definition https_name : bytes := str "https".
Definition true_name : bytes := str "true".
Definition false_name : bytes := str "false".

(** ** inputs of the SDK settings *)
(** Batch span processor: OTEL_BSP_* values and the options (durations of options in ns). *)
Record bsp_in := {
  b_env_queue : bytes; b_env_batch : bytes; b_env_delay : bytes; b_env_export : bytes;
  b_opt_queue : option Z; b_opt_batch : option Z;
  b_opt_delay : option Z; b_opt_export : option Z }.   (* option durations in ns *)
(** Batch log record processor: OTEL_BLRP_MAX_QUEUE_SIZE / _MAX_EXPORT_BATCH_SIZE and the options. *)
Record blrp_in := {
  r_env_queue : bytes; r_env_batch : bytes; r_opt_queue : option Z; r_opt_batch : option Z;
  r_env_export : bytes; r_opt_export : option Z }.   (* OTEL_BLRP_EXPORT_TIMEOUT (ms), WithExportTimeout (ns) *)
(** Span limits. *)
Record limits := {
  lim_attr_len : Z; lim_attr_cnt : Z; lim_event_cnt : Z; lim_link_cnt : Z;
  lim_event_attr : Z; lim_link_attr : Z }.
Record limits_env := {
  le_span_attr_len : bytes; le_attr_len : bytes;       (* OTEL_SPAN_ATTRIBUTE_VALUE_LENGTH_LIMIT, OTEL_ATTRIBUTE_VALUE_LENGTH_LIMIT *)
  le_span_attr_cnt : bytes; le_attr_cnt : bytes;       (* OTEL_SPAN_ATTRIBUTE_COUNT_LIMIT, OTEL_ATTRIBUTE_COUNT_LIMIT *)
  le_event_cnt : bytes; le_link_cnt : bytes;
  le_event_attr : bytes; le_link_attr : bytes }.
Inductive limits_opt := LRaw (l : limits) | LLegacy (l : limits).   (* WithRawSpanLimits / WithSpanLimits *)
(** A sampler passed with WithSampler. *)
Inductive sopt := OptAlways | OptNever | OptRatio (n d : Z).
