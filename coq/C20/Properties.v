(** C20 property theorems.  Only statements, each closed by [exact] of a lemma from Proofs.v,
    the axiom audit, and non-vacuity examples.

    Vocabulary: [exporter_config f pr opts e] is the MODEL of the configuration code of the
    exporter for signal [f] over protocol [pr] given the user's options and the environment;
    [exp_*], [rd_*], [resolve], [last_some] are the SPECIFICATION (C20/Spec.v): what each source
    provides under one uniform reading, and "option over signal-specific variable over generic
    variable over default". *)
From Verif Require Import Lib.Base C20.Vocab C20.Model C20.Spec C20.Proofs.
Open Scope N_scope.

(** For each of the six exporters, for ALL option lists and ALL environment values (free of
    surrounding white space): each of the five settings is taken from the highest-precedence
    source that provides it.  Guards, in plain sight:
    - gRPC endpoint URLs name a host and nothing else ([grpc_guard]);
    - paths given by options are tidy, the generic endpoint's path is plain ([path_inputs_ok]);
    - transport security (plain text vs TLS, what decides whether a collector can be reached) is
      claimed for http / https URLs with the ..._INSECURE variables unset ([schemes_ok]); a gRPC
      connection supplied with WithGRPCConn decides the target and switches compression off
      ([user_conn] inside [exp_host], [exp_gzip], [exp_insecure]);
    - [path_shape_uniform], [hdrs_wellformed], [comp_wellformed] exclude exactly the shapes of the
      recorded findings F-C20-3..5 (see the [_refuted] theorems below); for the log family all
      three are [true]. *)
Theorem c20_precedence : forall f pr opts e, env_trimmed e = true ->
  let c := exporter_config f pr opts e in
  (grpc_guard pr e -> c_host c = exp_host pr opts e) /\
  (pr = PHttp -> path_inputs_ok opts e = true -> path_shape_uniform f opts e = true -> c_path c = exp_path f opts e) /\
  (hdrs_wellformed f e = true -> c_hdrs c = exp_hdrs opts e) /\
  (comp_wellformed f e = true -> c_gzip c = exp_gzip pr opts e) /\
  c_tmo c = exp_tmo opts e /\
  (schemes_ok opts e = true -> c_insec c = exp_insecure pr opts e).
Proof. exact precedence. Qed.
Print Assumptions c20_precedence.

(** The signal path is appended to a generic endpoint (all three HTTP exporters, uniformly since
    fix 19c40b9 of F-C20-2). *)
Theorem c20_generic_path_appended : forall f opts e u, env_trimmed e = true -> path_inputs_ok opts e = true ->
  last_some opt_path opts = None -> rd_url (spec_ep e) = None -> rd_url (gen_ep e) = Some u ->
  c_path (exporter_config f PHttp opts e) = strip_slash (u_path u) ++ sig_path f.
Proof. exact generic_path_appended. Qed.
Print Assumptions c20_generic_path_appended.

(** A signal-specific endpoint's path is used verbatim, "/" when it is empty (for the trace and
    metric exporters when it is tidy). *)
Theorem c20_specific_path_verbatim : forall f opts e u, env_trimmed e = true -> path_inputs_ok opts e = true ->
  last_some opt_path opts = None -> rd_url (spec_ep e) = Some u ->
  (f <> FLog -> is_nil (u_path u) || tidy (u_path u) = true) ->
  c_path (exporter_config f PHttp opts e) = (if is_nil (u_path u) then [47] else u_path u).
Proof. exact specific_path_verbatim. Qed.
Print Assumptions c20_specific_path_verbatim.

(** Unparsable values never change the result away from what the remaining sources give:
    blanking every variable that provides nothing ([scrub]) leaves timeout and endpoint
    unchanged for all exporters, and compression and headers unchanged for the log exporters;
    for the trace and metric exporters compression and headers follow the documented lenient
    reading ([doc_comp]: anything but "gzip" means none; [doc_headers]: the well-formed entries). *)
Theorem c20_invalid_ignored_or_documented : forall f pr opts e, env_trimmed e = true -> grpc_guard pr e ->
  let c := exporter_config f pr opts e in
  let c' := exporter_config f pr opts (scrub e) in
  c_tmo c = c_tmo c' /\ c_host c = c_host c' /\
  (f = FLog -> c_gzip c = c_gzip c' /\ c_hdrs c = c_hdrs c') /\
  (f <> FLog ->
   c_gzip c = match user_conn pr opts with
              | Some _ => false
              | None => resolve (last_some opt_gzip opts) (doc_comp (spec_comp e)) (doc_comp (gen_comp e)) false
              end /\
   c_hdrs c = resolve (last_some opt_hdrs opts) (doc_headers (spec_hdr e)) (doc_headers (gen_hdr e)) []).
Proof. exact invalid_ignored. Qed.
Print Assumptions c20_invalid_ignored_or_documented.

(** Precedence WITHOUT side conditions, for ALL options and ALL environment values (padded,
    URLs with paths for gRPC, untidy / relative / empty option paths): timeout, endpoint and URL
    path are option over signal-specific variable over generic variable over default, where each
    family reads a provided value by its own documented convention ([norm_env]: trace / metric
    trim white space, log does not; [gen_host]: trace / metric gRPC dial path.Join(host, path);
    [gen_path]: trace / metric join and clean, log concatenates and sends as net/http does). *)
Theorem c20_precedence_unguarded : forall f pr opts e,
  let c := exporter_config f pr opts e in
  let e' := norm_env f e in
  c_tmo c = exp_tmo opts e' /\ c_host c = gen_host f pr opts e' /\ (pr = PHttp -> c_path c = gen_path f opts e').
Proof. exact precedence_unguarded. Qed.
Print Assumptions c20_precedence_unguarded.

(** F-C20-7: OTEL_EXPORTER_OTLP_TIMEOUT=" 150": the trace exporter uses 150 ms, the log exporter
    ignores the value (10 s): the uniform (trimmed) reading does not hold for the log family. *)
Theorem c20_padded_value_refuted :
  c_tmo (exporter_config FTrace PHttp [] env_pad) = 150000000%Z /\
  c_tmo (exporter_config FLog PHttp [] env_pad) = default_timeout_ns /\
  c_tmo (exporter_config FLog PHttp [] env_pad) <> exp_tmo [] (norm_env FTrace env_pad).
Proof. exact padded_value_refuted. Qed.
Print Assumptions c20_padded_value_refuted.

(** F-C20-8: OTEL_EXPORTER_OTLP_ENDPOINT=http://h:1/x over gRPC: the trace exporter dials
    "h:1/x" (and reaches nobody), the log exporter dials "h:1". *)
Theorem c20_grpc_url_path_refuted :
  c_host (exporter_config FTrace PGrpc [] env_grpc_path) = str "h:1/x" /\
  c_host (exporter_config FLog PGrpc [] env_grpc_path) = str "h:1" /\
  c_host (exporter_config FTrace PGrpc [] env_grpc_path) <> exp_host PGrpc [] env_grpc_path.
Proof. exact grpc_url_path_refuted. Qed.
Print Assumptions c20_grpc_url_path_refuted.

(** The recorded non-uniformities: without the guards the statements are false. *)
(** F-C20-3: OTEL_EXPORTER_OTLP_TRACES_ENDPOINT=http://h/custom/ is cleaned to /custom by the
    trace exporter (the log exporter uses /custom/). *)
Theorem c20_specific_path_cleaned_refuted :
  exists e, env_trimmed e = true /\ path_inputs_ok [] e = true /\
            c_path (exporter_config FTrace PHttp [] e) <> exp_path FTrace [] e /\
            c_path (exporter_config FTrace PHttp [] e) = str "/custom" /\
            c_path (exporter_config FLog PHttp [] e) = exp_path FLog [] e.
Proof. exact tm_specific_path_cleaned_refuted. Qed.
Print Assumptions c20_specific_path_cleaned_refuted.

(** F-C20-4: <SIGNAL>_COMPRESSION=zstd with COMPRESSION=gzip: the trace exporter sends
    uncompressed, the log exporter uses gzip. *)
Theorem c20_unknown_compression_masks_refuted :
  exists e, env_trimmed e = true /\
            c_gzip (exporter_config FTrace PHttp [] e) <> exp_gzip PHttp [] e /\
            c_gzip (exporter_config FLog PHttp [] e) = exp_gzip PHttp [] e.
Proof. exact tm_unknown_compression_refuted. Qed.
Print Assumptions c20_unknown_compression_masks_refuted.

(** F-C20-5: <SIGNAL>_HEADERS=garbage with HEADERS=a=gen: the metric exporter sends no header,
    the log exporter sends a=gen. *)
Theorem c20_malformed_headers_mask_refuted :
  exists e, env_trimmed e = true /\
            c_hdrs (exporter_config FMetric PGrpc [] e) <> exp_hdrs [] e /\
            c_hdrs (exporter_config FLog PGrpc [] e) = exp_hdrs [] e.
Proof. exact tm_malformed_headers_refuted. Qed.
Print Assumptions c20_malformed_headers_mask_refuted.

(** Batch span processor, for ALL environment strings and ALL option integers: the queue and
    batch capacities handed to [make] are never negative; without size options the batch does
    not exceed the queue; the queue size is option over environment over default with negative
    or unparsable values meaning the default; an explicit non-negative batch option is used as
    it is ([bsp_sizes_ok] has the remaining clauses); the two timeouts are option over
    environment over default. *)
Theorem c20_bsp_sizes_positive : forall i,
  let o := bsp_config i in
  (0 <= bo_queue o /\ 0 <= bo_batch o /\
   (b_opt_queue i = None -> b_opt_batch i = None -> bo_batch o <= bo_queue o) /\
   bo_queue o = bsp_queue_expected (b_opt_queue i) (b_env_queue i) /\
   (forall x, b_opt_batch i = Some x -> 0 <= x -> bo_batch o = x))%Z /\
  bsp_sizes_ok i (bo_queue o) (bo_batch o) = true /\
  (forall b, bsp_batch_expected i (bo_queue o) = Some b -> bo_batch o = b) /\
  bo_delay o = dur_expected (b_opt_delay i) (b_env_delay i) 5000 /\
  bo_export o = dur_expected (b_opt_export i) (b_env_export i) 30000 /\
  (* the context handed to the exporter: a deadline iff the resolved timeout is positive; a
     negative, zero or wrapped-around timeout means no deadline, never an expired context *)
  export_deadline (bo_export o) = deadline_expected (dur_expected (b_opt_export i) (b_env_export i) 30000).
Proof.
  intros i. destruct (bsp_ok i) as (H1 & H2 & H3). repeat split; try assumption; try apply (bsp_nonneg i).
  - exact (bsp_batch_pinned i).
  - cbn zeta. now rewrite H3.
Qed.
Print Assumptions c20_bsp_sizes_positive.

(** Batch log record processor: sizes below one are ignored; option over environment over
    default; a set batch size is clamped to the queue size; both are at least one. *)
Theorem c20_blrp_resolution : forall i,
  blrp_config i = blrp_expected i /\
  (let '(q, b) := blrp_config i in
   1 <= q /\ 1 <= b /\ (blrp_size (r_opt_batch i) (r_env_batch i) <> None -> b <= q))%Z /\
  (* export timeout: out-of-range values (below 1 ns, wrapped) ignored, option over environment
     over 30 s; the exporter always gets a context with that deadline, never an expired one *)
  blrp_export_timeout i = blrp_export_expected i /\ (1 <= blrp_export_timeout i)%Z /\
  export_deadline (blrp_export_timeout i) = Some (blrp_export_expected i).
Proof.
  intros i. destruct (blrp_export_ok i) as [E1 E2].
  split; [exact (blrp_ok i)|]. split; [exact (blrp_bounds i)|]. split; [exact E1|]. split; [exact E2|].
  rewrite <- E1. unfold export_deadline. destruct (0 <? blrp_export_timeout i)%Z eqn:E; [reflexivity|].
  apply Z.ltb_ge in E. lia.
Qed.
Print Assumptions c20_blrp_resolution.

(** Span limits: the last limits option (raw as given; legacy with non-positive fields replaced
    by defaults), else the environment (signal-specific over general, unparsable = default),
    else the defaults.  Log record limits: option over parsable environment over default. *)
Theorem c20_span_limits_resolution : forall opts e o v d,
  span_limits opts e = limits_expected opts e /\ log_limit o v d = log_limit_expected o v d.
Proof. intros. split; [apply span_limits_ok | apply log_limit_ok]. Qed.
Print Assumptions c20_span_limits_resolution.

(** Sampler: for every sampler option, every OTEL_TRACES_SAMPLER / OTEL_TRACES_SAMPLER_ARG
    value (set or not), every parent and every trace id position, the provider's decision is
    the one of the table [sampling_decision] (seven name classes x {absent, valid n/d, invalid}). *)
Theorem c20_sampler_env_table : forall o name arg p x,
  should_sample (provider_sampler o name arg) p x = sampling_decision o name arg p x.
Proof. exact sampler_table. Qed.
Print Assumptions c20_sampler_env_table.

(** * Non-vacuity *)
Definition ex_env : env :=
  {| gen_ep := str "http://collector:4318/pre/"; spec_ep := str "http://b a d/";
     gen_hdr := str "k=gen"; spec_hdr := str "k=spec,x=a%20b";
     gen_comp := str "gzip"; spec_comp := [];
     gen_tmo := str "3000"; spec_tmo := str "abc"; gen_insec := []; spec_insec := [] |}.
Definition ex_opts : list opt := [OInsecure; OTimeout 7000000000%Z; OTimeout 0%Z].

Example ex_guards : env_trimmed ex_env = true /\ path_inputs_ok ex_opts ex_env = true /\
  path_shape_uniform FTrace ex_opts ex_env = true /\ hdrs_wellformed FTrace ex_env = true /\
  comp_wellformed FTrace ex_env = true /\ grpc_guard PHttp ex_env /\ schemes_ok ex_opts ex_env = true.
Proof. repeat split; try (vm_compute; reflexivity); discriminate. Qed.

Example ex_config :
  exporter_config FTrace PHttp ex_opts ex_env =
  {| c_host := str "collector:4318"; c_path := str "/pre/v1/traces";
     c_hdrs := [(str "k", str "spec"); (str "x", str "a b")]; c_gzip := true; c_tmo := 0%Z;
     c_insec := true; c_conn := None |}.
Proof. vm_compute. reflexivity. Qed.

Example ex_generic_appended :
  exists u, rd_url (gen_ep ex_env) = Some u /\ rd_url (spec_ep ex_env) = None /\
            strip_slash (u_path u) ++ sig_path FMetric = str "/pre/v1/metrics".
Proof. eexists. repeat split; vm_compute; reflexivity. Qed.

(** The old F-C20-2 witness (generic endpoint http://h/) now meets the uniform statement. *)
Example ex_f2_fixed :
  c_path (exporter_config FLog PHttp [] env_f2) = str "/v1/logs" /\
  c_path (exporter_config FLog PHttp [] env_f2) = exp_path FLog [] env_f2.
Proof. exact log_generic_trailing_slash_fixed. Qed.

Example ex_conn_and_tls :
  let e := {| gen_ep := str "http://c:1"; spec_ep := str "https://b:2"; gen_hdr := []; spec_hdr := []; gen_comp := str "gzip";
              spec_comp := []; gen_tmo := []; spec_tmo := []; gen_insec := []; spec_insec := [] |} in
  (* the signal-specific https endpoint wins: TLS to b:2 *)
  c_insec (exporter_config FLog PGrpc [] e) = false /\ c_host (exporter_config FLog PGrpc [] e) = str "b:2" /\
  (* a user connection wins over everything and switches compression off *)
  exporter_config FMetric PGrpc [OGRPCConn (str "a:3")] e =
  {| c_host := str "a:3"; c_path := str "/v1/metrics"; c_hdrs := []; c_gzip := false; c_tmo := 10000000000%Z;
     c_insec := true; c_conn := Some (str "a:3") |}.
Proof. repeat split; vm_compute; reflexivity. Qed.

(** Option paths outside the tidy ones: the families' conventions differ (covered by
    [c20_precedence_unguarded], excluded from the uniform [c20_precedence]). *)
Example ex_option_path_conventions :
  c_path (exporter_config FTrace PHttp [OURLPath (str "custom/")] env0) = str "/custom" /\
  c_path (exporter_config FLog PHttp [OURLPath (str "custom/")] env0) = str "/custom/" /\
  c_path (exporter_config FMetric PHttp [OEndpointURL (str "http://h")] env0) = str "/v1/metrics" /\
  c_path (exporter_config FLog PHttp [OEndpointURL (str "http://h")] env0) = str "/".
Proof. exact option_path_conventions_differ. Qed.
Example ex_unguarded_nontrivial :
  let e := {| gen_ep := str "  http://h:9/a//b/ "; spec_ep := []; gen_hdr := []; spec_hdr := []; gen_comp := []; spec_comp := [];
              gen_tmo := str "	7000 "; spec_tmo := str "x"; gen_insec := []; spec_insec := [] |} in
  gen_path FMetric [] (norm_env FMetric e) = str "/a/b/v1/metrics" /\ gen_host FTrace PGrpc [] (norm_env FTrace e) = str "h:9/a/b" /\
  exp_tmo [] (norm_env FTrace e) = 7000000000%Z /\ exp_tmo [] (norm_env FLog e) = default_timeout_ns.
Proof. repeat split; vm_compute; reflexivity. Qed.

Example ex_scrub : scrub ex_env <> ex_env /\ spec_tmo (scrub ex_env) = [] /\ gen_tmo (scrub ex_env) = str "3000".
Proof. repeat split; vm_compute; congruence. Qed.

Example ex_bsp :
  bsp_config {| b_env_queue := str "-1"; b_env_batch := str "700"; b_env_delay := []; b_env_export := str "x";
                b_opt_queue := None; b_opt_batch := Some (-1)%Z; b_opt_delay := None; b_opt_export := None |}
  = {| bo_queue := 2048; bo_batch := 512; bo_delay := 5000000000; bo_export := 30000000000 |}%Z.
Proof. vm_compute. reflexivity. Qed.

Example ex_blrp :
  blrp_config {| r_env_queue := str "10"; r_env_batch := str "30"; r_opt_queue := Some 0%Z; r_opt_batch := None; r_env_export := []; r_opt_export := None |} = (10, 10)%Z /\
  blrp_config {| r_env_queue := str "10"; r_env_batch := []; r_opt_queue := None; r_opt_batch := None; r_env_export := []; r_opt_export := None |} = (10, 512)%Z /\
  blrp_export_timeout {| r_env_queue := []; r_env_batch := []; r_opt_queue := None; r_opt_batch := None; r_env_export := str "-1"; r_opt_export := Some (-5)%Z |} = 30000000000%Z /\
  blrp_export_timeout {| r_env_queue := []; r_env_batch := []; r_opt_queue := None; r_opt_batch := None; r_env_export := str "4000"; r_opt_export := Some 0%Z |} = 4000000000%Z.
Proof. repeat split; vm_compute; reflexivity. Qed.
Example ex_bsp_negative_timeout :
  let o := bsp_config {| b_env_queue := []; b_env_batch := []; b_env_delay := []; b_env_export := str "-1";
                         b_opt_queue := None; b_opt_batch := None; b_opt_delay := None; b_opt_export := None |} in
  bo_export o = (-1000000)%Z /\ export_deadline (bo_export o) = None.
Proof. split; vm_compute; reflexivity. Qed.

Example ex_sampler :
  should_sample (provider_sampler None (Some (str " ParentBased_TraceIDRatio ")) (Some (str "0.25"))) PNone (2 ^ 60)%Z = true /\
  should_sample (provider_sampler None (Some (str "parentbased_traceidratio")) (Some (str "0.25"))) PNone (2 ^ 62)%Z = false /\
  should_sample (provider_sampler None (Some (str "traceidratio")) (Some (str "1.5"))) PUnsampled (2 ^ 62)%Z = true.
Proof. repeat split; vm_compute; reflexivity. Qed.
