(** C20 specification: what "configuration precedence is uniform" means, written over the
    vocabulary of C20/Vocab.v (Go library functions and configuration inputs) and WITHOUT
    reference to the model.

    Every setting has three sources besides its default: the user's options, the
    signal-specific variable, the generic variable.  A source PROVIDES a value iff it is
    present and parsable ([rd_*] below: one reading per setting, the same for all six
    exporters).  The resolved setting is [resolve option specific generic default]. *)
From Verif Require Import Lib.Base C20.Vocab.
Open Scope N_scope.

Definition resolve {A} (o s g : option A) (d : A) : A :=
  match o with
  | Some v => v
  | None => match s with
            | Some v => v
            | None => match g with Some v => v | None => d end
            end
  end.

(** ** what an environment value provides (uniform reading) *)
Definition present (v : bytes) : bool := negb (is_nil v).

(** timeout: a decimal int64 number of milliseconds *)
Definition rd_timeout (v : bytes) : option Z :=
  if present v then option_map ms_to_ns (atoi v) else None.
(** compression: "gzip" or "none" *)
Definition rd_comp (v : bytes) : option bool :=
  if bytes_eqb v gzip_name then Some true else if bytes_eqb v none_name then Some false else None.
(** headers: a comma separated list in which EVERY entry is key=value with a token key and a
    percent-decodable value *)
Fixpoint rd_entries (es : list bytes) (m : hmap) : option hmap :=
  match es with
  | [] => Some m
  | e :: r => match header_entry e with Some (k, x) => rd_entries r (hset m k x) | None => None end
  end.
Definition rd_headers (v : bytes) : option hmap :=
  if present v then rd_entries (split_on 44 v) [] else None.
(** endpoint: a URL; it provides the host ... *)
Definition rd_url (v : bytes) : option url := if present v then parse_url v else None.
Definition rd_host (v : bytes) : option bytes := option_map u_host (rd_url v).
(** ... and the URL path: a signal-specific endpoint is used verbatim ("/" when it has no
    path), the signal path is appended to a generic endpoint. *)
Definition rd_path_specific (v : bytes) : option bytes :=
  option_map (fun u => if is_nil (u_path u) then [47] else u_path u) (rd_url v).
Definition rd_path_generic (sig v : bytes) : option bytes :=
  option_map (fun u => strip_slash (u_path u) ++ sig) (rd_url v).

(** ** what the user's options provide: the LAST option that sets the setting *)
Definition last_some {A} (f : opt -> option A) (l : list opt) : option A :=
  fold_left (fun acc o => match f o with Some v => Some v | None => acc end) l None.

Definition opt_host (o : opt) : option bytes :=
  match o with
  | OEndpoint h => Some h
  | OEndpointURL s => option_map u_host (parse_url s)
  | _ => None
  end.
Definition opt_path (o : opt) : option bytes :=
  match o with
  | OURLPath p => Some p
  | OEndpointURL s => option_map u_path (parse_url s)
  | _ => None
  end.
Definition opt_hdrs (o : opt) : option hmap := match o with OHeaders m => Some m | _ => None end.
(** WithCompressor(name): "gzip" or, for any other name, no compression (as documented). *)
Definition opt_gzip (o : opt) : option bool :=
  match o with
  | OCompression g => Some g
  | OCompressor n => Some (bytes_eqb n gzip_name)
  | _ => None
  end.
Definition opt_tmo (o : opt) : option Z := match o with OTimeout t => Some t | _ => None end.
(** Transport security: WithInsecure, or the scheme of WithEndpointURL ("https" = TLS). *)
Definition url_insecure (u : url) : bool := negb (bytes_eqb (u_scheme u) https_name).
Definition opt_insecure (o : opt) : option bool :=
  match o with
  | OInsecure => Some true
  | OEndpointURL s => option_map url_insecure (parse_url s)
  | _ => None
  end.
(** WithGRPCConn: a connection the user dialled. *)
Definition opt_conn (o : opt) : option bytes := match o with OGRPCConn t => Some t | _ => None end.
Definition rd_insecure (v : bytes) : option bool := option_map url_insecure (rd_url v).

(** ** the five settings every exporter must arrive at *)
(** A gRPC connection supplied by the user decides where the data goes, and the dial options
    (compression among them) are documented to have no effect. *)
Definition user_conn (pr : proto) (opts : list opt) : option bytes :=
  match pr with PGrpc => last_some opt_conn opts | PHttp => None end.
Definition exp_host (pr : proto) (opts : list opt) (e : env) : bytes :=
  match user_conn pr opts with
  | Some t => t
  | None => resolve (last_some opt_host opts) (rd_host (spec_ep e)) (rd_host (gen_ep e)) (default_host pr)
  end.
(** Plain text iff the highest-precedence source that names a scheme (or WithInsecure) says so;
    TLS by default. *)
Definition exp_insecure (pr : proto) (opts : list opt) (e : env) : bool :=
  match user_conn pr opts with
  | Some _ => true
  | None => resolve (last_some opt_insecure opts) (rd_insecure (spec_ep e)) (rd_insecure (gen_ep e)) false
  end.
Definition exp_path (f : family) (opts : list opt) (e : env) : bytes :=
  resolve (last_some opt_path opts) (rd_path_specific (spec_ep e))
          (rd_path_generic (sig_path f) (gen_ep e)) (sig_path f).
Definition exp_hdrs (opts : list opt) (e : env) : hmap :=
  resolve (last_some opt_hdrs opts) (rd_headers (spec_hdr e)) (rd_headers (gen_hdr e)) [].
Definition exp_gzip (pr : proto) (opts : list opt) (e : env) : bool :=
  match user_conn pr opts with
  | Some _ => false
  | None => resolve (last_some opt_gzip opts) (rd_comp (spec_comp e)) (rd_comp (gen_comp e)) false
  end.
Definition exp_tmo (opts : list opt) (e : env) : Z :=
  resolve (last_some opt_tmo opts) (rd_timeout (spec_tmo e)) (rd_timeout (gen_tmo e)) default_timeout_ns.

(** ** the statements WITHOUT side conditions: what each family does with a provided value

    Precedence (option over signal-specific variable over generic variable over default) holds
    for every input.  What differs between the families is only how a provided value is read;
    these per-family conventions are written down here from the exporters' documentation:
    - the trace and metric exporters trim white space around a variable's value, the log
      exporters read it as it is ([norm_env]);
    - for gRPC the trace and metric exporters dial path.Join(host, path) of an endpoint
      variable's URL (so that unix:///socket works), the log exporter dials the host ([rd_target]);
    - the trace and metric HTTP exporters join the signal path to a generic endpoint with
      path.Join and finally clean the chosen path (trim, path.Clean, default when empty, leading
      '/'); the log HTTP exporter strips the trailing slashes of a generic endpoint's path,
      appends the signal path, and sends the chosen path as net/http does (leading '/', "/" when
      empty) ([fam_gen_path], [fam_path_final]). *)
Definition norm_val (f : family) (v : bytes) : bytes := match f with FLog => v | _ => trim_space v end.
Definition norm_env (f : family) (e : env) : env :=
  {| gen_ep := norm_val f (gen_ep e); spec_ep := norm_val f (spec_ep e);
     gen_hdr := norm_val f (gen_hdr e); spec_hdr := norm_val f (spec_hdr e);
     gen_comp := norm_val f (gen_comp e); spec_comp := norm_val f (spec_comp e);
     gen_tmo := norm_val f (gen_tmo e); spec_tmo := norm_val f (spec_tmo e);
     gen_insec := norm_val f (gen_insec e); spec_insec := norm_val f (spec_insec e) |}.
Definition rd_target (f : family) (pr : proto) (v : bytes) : option bytes :=
  option_map (fun u => match f, pr with
                       | FLog, _ | _, PHttp => u_host u
                       | _, PGrpc => path_join (u_host u) (u_path u)
                       end) (rd_url v).
Definition fam_gen_path (f : family) (v : bytes) : option bytes :=
  option_map (fun u => match f with
                       | FLog => trim_right_slash (u_path u) ++ sig_path f
                       | _ => path_join (u_path u) (sig_path f)
                       end) (rd_url v).
Definition fam_path_final (f : family) (p : bytes) : bytes :=
  match f with
  | FLog => match p with [] => [47] | c :: _ => if c =? 47 then p else 47 :: p end
  | _ => let t := path_clean (trim_space p) in
         if bytes_eqb t dot then sig_path f else if starts_with [47] t then t else 47 :: t
  end.
Definition gen_host (f : family) (pr : proto) (opts : list opt) (e : env) : bytes :=
  match user_conn pr opts with
  | Some t => t
  | None => resolve (last_some opt_host opts) (rd_target f pr (spec_ep e)) (rd_target f pr (gen_ep e)) (default_host pr)
  end.
Definition gen_path (f : family) (opts : list opt) (e : env) : bytes :=
  fam_path_final f (resolve (last_some opt_path opts) (rd_path_specific (spec_ep e)) (fam_gen_path f (gen_ep e)) (sig_path f)).

(** ** side conditions under which the statements are made *)

(** Environment values carry no white space at either end. *)
Definition env_trimmed (e : env) : bool :=
  trimmed (gen_ep e) && trimmed (spec_ep e) && trimmed (gen_hdr e) && trimmed (spec_hdr e) &&
  trimmed (gen_comp e) && trimmed (spec_comp e) && trimmed (gen_tmo e) && trimmed (spec_tmo e).

(** Transport security is claimed for http / https URLs and with the ..._INSECURE variables
    unset (the trace and metric exporters let those override the scheme, the log gRPC exporter
    consults them after the scheme, the log HTTP exporter not at all). *)
Definition scheme_plain (u : url) : bool :=
  bytes_eqb (u_scheme u) (str "http") || bytes_eqb (u_scheme u) https_name.
Definition opt_scheme_ok (o : opt) : bool :=
  match o with
  | OEndpointURL s => match parse_url s with Some u => scheme_plain u | None => true end
  | _ => true
  end.
Definition env_scheme_ok (v : bytes) : bool :=
  match rd_url v with Some u => scheme_plain u | None => true end.
Definition schemes_ok (opts : list opt) (e : env) : bool :=
  forallb opt_scheme_ok opts && env_scheme_ok (spec_ep e) && env_scheme_ok (gen_ep e) &&
  is_nil (spec_insec e) && is_nil (gen_insec e).

(** Every option that sets the URL path gives a tidy one (absolute, already clean). *)
Definition opt_path_tidy (o : opt) : bool :=
  match opt_path o with Some p => tidy p | None => true end.
(** The path of an endpoint variable that parses is empty or absolute (always the case when
    the URL has a host). *)
Definition ep_path_abs (v : bytes) : bool :=
  match rd_url v with Some u => is_nil (u_path u) || starts_with [47] (u_path u) | None => true end.
(** The generic endpoint's path is empty, "/", or a tidy path optionally followed by one "/". *)
Definition gen_path_plain (v : bytes) : bool :=
  match rd_url v with
  | Some u => let p := strip_slash (u_path u) in is_nil p || (tidy p && negb (bytes_eqb p [47]))
  | None => true
  end.
Definition path_inputs_ok (opts : list opt) (e : env) : bool :=
  forallb opt_path_tidy opts && ep_path_abs (spec_ep e) && ep_path_abs (gen_ep e) && gen_path_plain (gen_ep e).

(** *** the shapes on which the exporters are NOT uniform (recorded findings); the uniform
    statements are made outside them *)
(** F-C20-3 (trace, metric): the signal-specific endpoint's path is not tidy. *)
Definition spec_path_tidy (e : env) : bool :=
  match rd_url (spec_ep e) with Some u => is_nil (u_path u) || tidy (u_path u) | None => true end.
(** The shape matters only when that source decides the path. *)
Definition is_some {A} (o : option A) : bool := match o with Some _ => true | None => false end.
Definition path_shape_uniform (f : family) (opts : list opt) (e : env) : bool :=
  is_some (last_some opt_path opts) ||
  match f with
  | FLog => true
  | _ => spec_path_tidy e
  end.
(** F-C20-4 (trace, metric): a compression variable holds an unknown name. *)
Definition absent_or {A} (rd : bytes -> option A) (v : bytes) : bool :=
  negb (present v) || match rd v with Some _ => true | None => false end.
Definition comp_wellformed (f : family) (e : env) : bool :=
  match f with FLog => true | _ => absent_or rd_comp (spec_comp e) && absent_or rd_comp (gen_comp e) end.
(** F-C20-5 (trace, metric): a headers variable holds a malformed entry. *)
Definition hdrs_wellformed (f : family) (e : env) : bool :=
  match f with FLog => true | _ => absent_or rd_headers (spec_hdr e) && absent_or rd_headers (gen_hdr e) end.

(** For gRPC the endpoint is a dial target: the URL names a host and nothing more. *)
Definition grpc_target_plain (v : bytes) : bool :=
  match rd_url v with
  | Some u => bytes_eqb (path_join (u_host u) (u_path u)) (u_host u)
  | None => true
  end.

(** Replacing every variable that provides nothing (unparsable under the uniform reading) by an
    unset one. *)
Definition blank_unless {A} (rd : bytes -> option A) (v : bytes) : bytes :=
  match rd v with Some _ => v | None => [] end.
Definition scrub (e : env) : env :=
  {| gen_ep := blank_unless rd_url (gen_ep e); spec_ep := blank_unless rd_url (spec_ep e);
     gen_hdr := blank_unless rd_headers (gen_hdr e); spec_hdr := blank_unless rd_headers (spec_hdr e);
     gen_comp := blank_unless rd_comp (gen_comp e); spec_comp := blank_unless rd_comp (spec_comp e);
     gen_tmo := blank_unless rd_timeout (gen_tmo e); spec_tmo := blank_unless rd_timeout (spec_tmo e);
     gen_insec := gen_insec e; spec_insec := spec_insec e |}.

(** ** the documented lenient readings (trace and metric exporters: "Supported value: gzip";
    a header list keeps its well-formed entries) *)
Definition doc_comp (v : bytes) : option bool :=
  if present v then Some (bytes_eqb v gzip_name) else None.
Definition doc_headers (v : bytes) : option hmap :=
  if present v then
    Some (fold_left (fun m e => match header_entry e with Some (k, x) => hset m k x | None => m end)
                    (split_on 44 v) [])
  else None.

(** ** SDK settings: option over environment over default *)

(** An environment integer: absent, unparsable (ignored in favour of the default), or a value. *)
Definition rd_int (v : bytes) : option Z := if present v then atoi v else None.

(** Batch span processor sizes: a negative size (from either source) is out of range. *)
Definition nonneg (o : option Z) : option Z :=
  match o with Some v => if (v <? 0)%Z then None else Some v | None => None end.
(** Sizes of at least one (batch log record processor). *)
Definition atleast1 (o : option Z) : option Z :=
  match o with Some v => if (v <? 1)%Z then None else Some v | None => None end.

Definition first_of {A} (a b : option A) : option A := match a with Some _ => a | None => b end.
Definition get_or {A} (a : option A) (d : A) : A := match a with Some v => v | None => d end.

(** Span limits from the environment: the signal-specific variable when set, else the general
    one; a set but unparsable variable means the default (documented for firstInt). *)
Definition rd_limit2 (specific general : bytes) (d : Z) : Z :=
  if present specific then get_or (atoi specific) d
  else if present general then get_or (atoi general) d else d.
Definition rd_limit1 (v : bytes) (d : Z) : Z := get_or (rd_int v) d.

(** Sampler decision table (OTEL_TRACES_SAMPLER x OTEL_TRACES_SAMPLER_ARG), as a function of
    the parent and of the 63-bit number [x] the ratio test uses; [None]: no sampler configured
    by the environment (unset or unsupported name). *)
Inductive sname := NOn | NOff | NRatio | NPOn | NPOff | NPRatio | NOther.
Definition classify_name (nm : bytes) : sname :=
  let nm := to_lower (trim_space nm) in
  if bytes_eqb nm (str "always_on") then NOn
  else if bytes_eqb nm (str "always_off") then NOff
  else if bytes_eqb nm (str "traceidratio") then NRatio
  else if bytes_eqb nm (str "parentbased_always_on") then NPOn
  else if bytes_eqb nm (str "parentbased_always_off") then NPOff
  else if bytes_eqb nm (str "parentbased_traceidratio") then NPRatio
  else NOther.
(** The ratio argument: absent, valid (a fraction n/d in [0,1]) or invalid; absent and invalid
    both mean 1. *)
Inductive sarg := AAbsent | AValid (n d : Z) | AInvalid.
Definition rd_ratio (arg : option bytes) : sarg :=
  match arg with
  | None => AAbsent
  | Some a =>
      match parse_decimal (trim_space a) with
      | Some (neg, n, d) => if (neg && (0 <? n)%Z) || (d <? n)%Z then AInvalid else AValid n d
      | None => AInvalid
      end
  end.
Definition ratio_decision (a : sarg) (x : Z) : bool :=
  match a with
  | AValid n d => if (d <=? n)%Z then true else (x <? (n * 2 ^ 63) / d)%Z
  | _ => true
  end.
Definition follow_parent (p : parent) (root : bool) : bool :=
  match p with PNone => root | PSampled => true | PUnsampled => false end.
Definition env_decision (n : sname) (a : sarg) (p : parent) (x : Z) : option bool :=
  match n with
  | NOn => Some true
  | NOff => Some false
  | NRatio => Some (ratio_decision a x)
  | NPOn => Some (follow_parent p true)
  | NPOff => Some (follow_parent p false)
  | NPRatio => Some (follow_parent p (ratio_decision a x))
  | NOther => None
  end.

Open Scope Z_scope.

(** The provider's decision: WithSampler over the environment over ParentBased(AlwaysSample). *)
Definition opt_decision (o : sopt) (x : Z) : bool :=
  match o with
  | OptAlways => true
  | OptNever => false
  | OptRatio n d => ratio_decision (AValid n d) x
  end.
Definition sampling_decision (o : option sopt) (name arg : option bytes) (p : parent) (x : Z) : bool :=
  match o with
  | Some so => opt_decision so x
  | None =>
      match match name with Some nm => env_decision (classify_name nm) (rd_ratio arg) p x | None => None end with
      | Some b => b
      | None => follow_parent p true
      end
  end.

(** ** batch span processor: option over environment over default; a present source whose
    value is unparsable or negative means the default. *)
Definition size_or_default (v d : Z) : Z := if (v <? 0)%Z then d else v.
Definition bsp_queue_expected (o : option Z) (v : bytes) : Z :=
  match o with
  | Some x => size_or_default x 2048
  | None => size_or_default (get_or (rd_int v) 2048) 2048
  end.
(** The batch size: an explicit non-negative option is used as it is; without size options the
    batch never exceeds the queue; a valid environment value not above the (valid) environment
    queue size is used as it is; with nothing set it is min(512, queue). *)
Definition bsp_sizes_ok (i : bsp_in) (q b : Z) : bool :=
  ((0 <=? q) && (0 <=? b) && (q =? bsp_queue_expected (b_opt_queue i) (b_env_queue i)) &&
   match b_opt_batch i with
   | Some x => if (x <? 0)%Z then b =? Z.min 512 q else b =? x
   | None =>
       match b_opt_queue i with None => b <=? q | Some _ => true end &&
       match rd_int (b_env_batch i), nonneg (Some (get_or (rd_int (b_env_queue i)) 2048)) with
       | Some x, Some qe => if (0 <=? x) && (x <=? qe) then b =? x else true
       | None, Some qe => b =? Z.min 512 qe
       | _, None => true
       end
   end)%Z.
(** The batch size where the rules above pin it to one value ([None]: no claim). *)
Definition bsp_batch_expected (i : bsp_in) (q : Z) : option Z :=
  match b_opt_batch i with
  | Some x => Some (if (x <? 0)%Z then Z.min 512 q else x)
  | None =>
      match rd_int (b_env_batch i), nonneg (Some (get_or (rd_int (b_env_queue i)) 2048)) with
      | Some x, Some qe => if (0 <=? x) && (x <=? qe) then Some x else None
      | None, Some qe => Some (Z.min 512 qe)
      | _, None => None
      end
  end.
Definition dur_expected (o : option Z) (v : bytes) (dflt_ms : Z) : Z :=
  match o with Some ns => ns | None => ms_to_ns (get_or (rd_int v) dflt_ms) end.

(** ** batch log record processor: sizes below one are out of range *)
Definition blrp_size (o : option Z) (v : bytes) : option Z :=
  first_of (atleast1 o) (atleast1 (rd_int v)).
Definition blrp_expected (i : blrp_in) : Z * Z :=
  let q := get_or (blrp_size (r_opt_queue i) (r_env_queue i)) 2048%Z in
  (q, match blrp_size (r_opt_batch i) (r_env_batch i) with Some b => Z.min b q | None => 512%Z end).

(** Export timeout of the batch log record processor: values below one nanosecond (zero,
    negative, or wrapped around) are out of range; option over environment over 30 s. *)
Definition blrp_export_expected (i : blrp_in) : Z :=
  get_or (first_of (atleast1 (r_opt_export i)) (atleast1 (option_map ms_to_ns (rd_int (r_env_export i))))) 30000000000.
(** What an export timeout means for the context handed to the exporter: a positive timeout is
    a deadline that far away; zero or negative means no deadline (the export still happens). *)
Definition deadline_expected (t : Z) : option Z := if 0 <? t then Some t else None.

(** ** span limits *)
Definition limits_from_env (e : limits_env) : limits :=
  {| lim_attr_len := rd_limit2 (le_span_attr_len e) (le_attr_len e) (-1);
     lim_attr_cnt := rd_limit2 (le_span_attr_cnt e) (le_attr_cnt e) 128;
     lim_event_cnt := rd_limit1 (le_event_cnt e) 128;
     lim_link_cnt := rd_limit1 (le_link_cnt e) 128;
     lim_event_attr := rd_limit1 (le_event_attr e) 128;
     lim_link_attr := rd_limit1 (le_link_attr e) 128 |}.
(** WithSpanLimits (deprecated): a field that is zero or negative means the default. *)
Definition legacy_field (v d : Z) : Z := if (0 <? v)%Z then v else d.
Definition limits_of_opt (o : limits_opt) : limits :=
  match o with
  | LRaw l => l
  | LLegacy l =>
      {| lim_attr_len := legacy_field (lim_attr_len l) (-1); lim_attr_cnt := legacy_field (lim_attr_cnt l) 128;
         lim_event_cnt := legacy_field (lim_event_cnt l) 128; lim_link_cnt := legacy_field (lim_link_cnt l) 128;
         lim_event_attr := legacy_field (lim_event_attr l) 128; lim_link_attr := legacy_field (lim_link_attr l) 128 |}
  end.
Definition limits_expected (opts : list limits_opt) (e : limits_env) : limits :=
  match rev opts with
  | o :: _ => limits_of_opt o
  | [] => limits_from_env e
  end.
(** Log record limits: option over (parsable) environment over default. *)
Definition log_limit_expected (o : option Z) (v : bytes) (d : Z) : Z :=
  get_or (first_of o (rd_int v)) d.

(** How many of [n] offered items a limit retains: negative = unlimited. *)
Definition retained (lim n : Z) : Z := if (lim <? 0)%Z then n else Z.min lim n.
