(** C20 correspondence: evaluates model and spec on what the Go harness observed from the real
    exporters / SDK components (generated case files import this). *)
From Verif Require Import Lib.Base C20.Vocab C20.Model C20.Spec.
Open Scope N_scope.

(** Timeout observation: none; HTTP: did the export time out against a collector that answers
    after 600 ms; gRPC: the request deadline seen by the server, as the nearest candidate in
    milliseconds ([None]: no deadline). *)
Inductive tobs := TNone | THttp (timed_out : bool) | TGrpc (deadline_ms : option Z).
(** who received the item ([[]]: none of the collectors), request path, x-c20-* headers,
    gzip?, timeout observation *)
Inductive eobs := EObs (who path : bytes) (hdrs : hmap) (gz : bool) (t : tobs).

Inductive case :=
| CExp (f : family) (pr : proto) (opts : list opt) (e : env) (o : eobs)
| CBsp (i : bsp_in) (cfg : option (Z * Z * Z * Z)) (n : Z) (beh : option (Z * Z)) (exported : option Z) (dl : option (option Z))
| CBlrp (i : blrp_in) (n maxchunk : Z) (total : Z) (trig : option bool) (odd : bool) (dl : option (option Z))
| CLimits (opts : list limits_opt) (e : limits_env) (obs : list Z)
| CEnvLimits (e : limits_env) (obs : list Z)      (* NewSpanLimits() read directly *)
| CLogLimits (oc ol : option Z) (ec el : bytes) (obs : list Z)
| CSampler (o : option sopt) (name arg : option bytes) (dec : list bool).

Definition flag (b : bool) (code : N) : list N := if b then [] else [code].

(** The collectors' addresses as they appear in case terms (option -> A, signal-specific
    variable -> B, generic variable -> C). *)
Definition collectors : list bytes := [str "127.0.0.1:4001"; str "127.0.0.2:4002"; str "127.0.0.3:4003"].
Definition who_of (h : bytes) : bytes := if existsb (bytes_eqb h) collectors then h else [].

Definition slow_ns : Z := 600000000%Z.
Definition tmo_matches (t : Z) (o : tobs) : bool :=
  match o with
  | TNone => true
  | THttp b => Bool.eqb b ((0 <? t)%Z && (t <? slow_ns)%Z)
  | TGrpc d => option_eqb Z.eqb d (if (t <=? 0)%Z then None else Some (t / 1000000)%Z)
  end.

(** Does an observation agree with a resolved configuration?  One flag per setting:
    (who, path, headers, compression, timeout). *)
Definition agree (pr : proto) (insec : bool) (host path : bytes) (h : hmap) (g : bool) (t : Z) (o : eobs) : list bool :=
  let '(EObs who p hd gz tb) := o in
  (* the collectors speak plain text: a TLS client reaches nobody *)
  let w := bytes_eqb (if insec then who_of host else []) who in
  if is_nil who then [w; true; true; true; true]
  else [w; match pr with PHttp => bytes_eqb path p | PGrpc => true end; hmap_eqb h hd; Bool.eqb g gz; tmo_matches t tb].

Definition all_true (l : list bool) : bool := forallb (fun b => b) l.

(** ** narrow classifiers of the recorded findings *)
(** F-C20-3: trace / metric HTTP exporter, path decided by the signal-specific endpoint whose
    path is not clean: it is path.Clean-ed instead of being used verbatim. *)
Definition known3 (f : family) (pr : proto) (opts : list opt) (e : env) (p : bytes) : bool :=
  match f, pr, last_some opt_path opts, rd_url (spec_ep e) with
  | FLog, _, _, _ => false
  | _, PHttp, None, Some u =>
      negb (is_nil (u_path u)) && negb (tidy (u_path u)) && bytes_eqb p (path_clean (u_path u))
  | _, _, _, _ => false
  end.
(** F-C20-4: trace / metric exporters, no compression option, the signal-specific variable
    holds an unknown name: it is applied as "none" and masks the generic variable. *)
Definition known4 (f : family) (opts : list opt) (e : env) (g : bool) : bool :=
  match f, last_some opt_gzip opts with
  | FLog, _ => false
  | _, None =>
      present (spec_comp e) && negb (match rd_comp (spec_comp e) with Some _ => true | None => false end) &&
      Bool.eqb g (resolve None (doc_comp (spec_comp e)) (doc_comp (gen_comp e)) false)
  | _, _ => false
  end.
(** F-C20-5: trace / metric exporters, no headers option, the deciding variable holds a
    malformed entry: its well-formed entries are used (and mask the generic variable). *)
Definition malformed_headers (v : bytes) : bool := negb (absent_or rd_headers v).
Definition known5 (f : family) (opts : list opt) (e : env) (h : hmap) : bool :=
  match f, last_some opt_hdrs opts with
  | FLog, _ => false
  | _, None =>
      (malformed_headers (spec_hdr e) || (negb (present (spec_hdr e)) && malformed_headers (gen_hdr e))) &&
      hmap_eqb h (resolve None (doc_headers (spec_hdr e)) (doc_headers (gen_hdr e)) [])
  | _, _ => false
  end.

Definition grpc_ok (pr : proto) (e : env) : bool :=
  match pr with PGrpc => grpc_target_plain (spec_ep e) && grpc_target_plain (gen_ep e) | PHttp => true end.
Definition tmo_in_range (v : bytes) : bool :=
  match (if present v then atoi v else None) with Some ms => ms_in_range ms | None => true end.

Definition verdict (ok known : bool) (k : N) : list N :=
  if ok then [] else if known then [V_KNOWN k] else [V_SPECFAIL].

(** F-C20-7: the log exporters read a variable's value as it is, the trace and metric exporters
    trim white space around it.  The uniform reading is the trimmed one; a log exporter case with
    a padded value is this finding when the observation is what the UNtrimmed reading gives. *)
Definition known7 (f : family) (e : env) (agrees_raw : bool) : bool :=
  match f with FLog => negb (env_trimmed e) && agrees_raw | _ => false end.
(** F-C20-8: gRPC, trace / metric: the deciding endpoint variable's URL has a path; it is joined
    into the dial target, which then reaches nobody (the log exporter dials the host). *)
Definition known8 (f : family) (pr : proto) (opts : list opt) (e : env) (who : bytes) : bool :=
  match f, pr, user_conn pr opts, last_some opt_host opts with
  | FLog, _, _, _ => false
  | _, PGrpc, None, None =>
      is_nil who &&
      negb (match rd_url (spec_ep e) with
            | Some _ => grpc_target_plain (spec_ep e)
            | None => grpc_target_plain (gen_ep e)
            end)
  | _, _, _, _ => false
  end.
Definition verdict2 (ok k1 : bool) (c1 : N) (k2 : bool) (c2 : N) : list N :=
  if ok then [] else if k1 then [V_KNOWN c1] else if k2 then [V_KNOWN c2] else [V_SPECFAIL].

Definition check_exp (f : family) (pr : proto) (opts : list opt) (e : env) (o : eobs) : list N :=
  let m := exporter_config f pr opts e in
  flag (all_true (agree pr (c_insec m) (c_host m) (c_path m) (c_hdrs m) (c_gzip m) (c_tmo m) o)) V_MISMATCH ++
  (* the uniform reading: every variable's value trimmed *)
  let e' := norm_env FTrace e in
  let '(EObs who p hd gz tb) := o in
  match agree pr (exp_insecure pr opts e') (exp_host pr opts e') (exp_path f opts e') (exp_hdrs opts e') (exp_gzip pr opts e') (exp_tmo opts e') o,
        agree pr (exp_insecure pr opts e) (exp_host pr opts e) (exp_path f opts e) (exp_hdrs opts e) (exp_gzip pr opts e) (exp_tmo opts e) o with
  | [w; pa; h; g; t], [w0; pa0; h0; g0; t0] =>
      verdict2 (w || negb (schemes_ok opts e'))
               (known8 f pr opts e' who) 8 (known7 f e w0) 7 ++
      verdict2 (pa || negb (path_inputs_ok opts e')) (known3 f pr opts e' p) 3 (known7 f e (pa0 || negb (path_inputs_ok opts e))) 7 ++
      verdict2 h (known5 f opts e' hd) 5 (known7 f e h0) 7 ++
      verdict2 g (known4 f opts e' gz) 4 (known7 f e g0) 7 ++
      verdict2 (t || negb (tmo_in_range (spec_tmo e') && tmo_in_range (gen_tmo e'))) false 0 (known7 f e t0) 7
  | _, _ => [V_SPECFAIL]
  end.

(** ** SDK components *)
(** The deadline the (context-honouring) probe exporter was handed at its first non-empty
    export, as milliseconds remaining ([None]: no deadline), against a timeout in ns: only order
    relations with a generous margin (2.5 s early, 0.1 s late). *)
Definition deadline_ok (expected : option Z) (obs : option (option Z)) : bool :=
  match obs with
  | None => true
  | Some o =>
      match expected, o with
      | None, None => true
      | Some t, Some r => let e := (t / 1000000)%Z in ((e - 2500 <=? r) && (r <=? e + 100))%Z
      | _, _ => false
      end
  end.
Definition exported_ok (n : Z) (x : option Z) : bool := match x with Some v => (v =? n)%Z | None => true end.
Definition quad_eqb (a b : Z * Z * Z * Z) : bool :=
  let '(a1, a2, a3, a4) := a in let '(b1, b2, b3, b4) := b in
  ((a1 =? b1) && (a2 =? b2) && (a3 =? b3) && (a4 =? b4))%Z.
(** With a blocking queue and no timer: every full batch holds max(batch,1) spans. *)
Definition bsp_behaviour (b n : Z) : Z * Z := (Z.min (Z.max b 1) n, n).
Definition pairZ_eqb (a b : Z * Z) : bool := ((fst a =? fst b) && (snd a =? snd b))%Z.

Definition check_bsp (i : bsp_in) (cfg : option (Z * Z * Z * Z)) (n : Z) (beh : option (Z * Z))
    (exported : option Z) (dl : option (option Z)) : list N :=
  let m := bsp_config i in
  (* every span is exported (blocking queue), and the exporter's context carries the deadline of
     the resolved export timeout, or none when that is not positive *)
  flag (exported_ok n exported && deadline_ok (export_deadline (bo_export m)) dl) V_MISMATCH ++
  flag (exported_ok n exported &&
        deadline_ok (deadline_expected (dur_expected (b_opt_export i) (b_env_export i) 30000)) dl) V_SPECFAIL ++
  flag (match cfg with Some c => quad_eqb c (bo_queue m, bo_batch m, bo_delay m, bo_export m) | None => true end &&
        match beh with Some bh => pairZ_eqb bh (bsp_behaviour (bo_batch m) n) | None => true end) V_MISMATCH ++
  flag (match cfg with
        | Some (q, b, d, x) =>
            bsp_sizes_ok i q b &&
            (d =? dur_expected (b_opt_delay i) (b_env_delay i) 5000)%Z &&
            (x =? dur_expected (b_opt_export i) (b_env_export i) 30000)%Z &&
            match beh with Some bh => pairZ_eqb bh (bsp_behaviour b n) | None => true end
        | None =>
            (* no resolved configuration to read (processor built inside a provider): the
               behaviour is judged against the batch size the rules pin down *)
            match beh, bsp_batch_expected i (bsp_queue_expected (b_opt_queue i) (b_env_queue i)) with
            | Some bh, Some b => pairZ_eqb bh (bsp_behaviour b n)
            | _, _ => true
            end
        end) V_SPECFAIL ++
  flag (bsp_sizes_ok i (bo_queue m) (bo_batch m)) V_MODELSPEC.

(** [n] records emitted, long export interval: the largest chunk handed to the exporter, and
    (when no export can be triggered before the queue overflows) how many records survive. *)
Definition blrp_behaviour (q b n : Z) : Z * option Z :=
  (Z.min (Z.min b q) n, if ((n <=? q) || (q <? b))%Z then Some (Z.min n q) else None).
(** [trig]: was an export triggered by the queue length alone (before any flush)?  That
    happens iff the queue can reach the batch size. *)
(** [odd]: out-of-range export interval settings were given, so exports may also be cut by the
    timer: only "nothing is lost while the queue holds everything" is judged then. *)
Definition blrp_obs_ok (q b n maxchunk total : Z) (trig : option bool) (odd : bool) : bool :=
  if odd then (if (n <=? q)%Z then (total =? n)%Z else true) else
  let '(mc, tot) := blrp_behaviour q b n in
  ((mc =? maxchunk) && match tot with Some t => t =? total | None => true end)%Z &&
  match trig with Some t => Bool.eqb t (b <=? Z.min n q)%Z | None => true end.
Definition check_blrp (i : blrp_in) (n maxchunk total : Z) (trig : option bool) (odd : bool) (dl : option (option Z)) : list N :=
  let '(q, b) := blrp_config i in
  let '(q', b') := blrp_expected i in
  flag (blrp_obs_ok q b n maxchunk total trig odd && deadline_ok (export_deadline (blrp_export_timeout i)) dl) V_MISMATCH ++
  flag (blrp_obs_ok q' b' n maxchunk total trig odd && deadline_ok (deadline_expected (blrp_export_expected i)) dl) V_SPECFAIL.

Definition lim_n : Z := 140.
Definition lim_sub : Z := 135.
Definition lim_len : Z := 60.
(** value length of the first attribute (or -1), attributes, events, links, attributes of the
    first event (or -1), attributes of the first link (or -1) *)
Definition limits_behaviour (l : limits) : list Z :=
  let a := retained (lim_attr_cnt l) lim_n in
  let ev := retained (lim_event_cnt l) lim_n in
  let lk := retained (lim_link_cnt l) lim_n in
  [if (a =? 0)%Z then (-1)%Z else retained (lim_attr_len l) lim_len; a; ev; lk;
   if (ev =? 0)%Z then (-1)%Z else retained (lim_event_attr l) lim_sub;
   if (lk =? 0)%Z then (-1)%Z else retained (lim_link_attr l) lim_sub].
Definition listZ_eqb := list_eqb Z.eqb.
Definition check_limits (opts : list limits_opt) (e : limits_env) (obs : list Z) : list N :=
  flag (listZ_eqb (limits_behaviour (span_limits opts e)) obs) V_MISMATCH ++
  flag (listZ_eqb (limits_behaviour (limits_expected opts e)) obs) V_SPECFAIL.

Definition limits_list (l : limits) : list Z :=
  [lim_attr_len l; lim_attr_cnt l; lim_event_cnt l; lim_link_cnt l; lim_event_attr l; lim_link_attr l].
Definition check_envlimits (e : limits_env) (obs : list Z) : list N :=
  flag (listZ_eqb (limits_list (new_span_limits e)) obs) V_MISMATCH ++
  flag (listZ_eqb (limits_list (limits_from_env e)) obs) V_SPECFAIL.

(** attributes retained, value length of the first one (or -1); count limit 0 is not generated *)
Definition loglimits_behaviour (cnt len : Z) : list Z :=
  let a := retained cnt lim_n in [a; if (a =? 0)%Z then (-1)%Z else retained len lim_len].
(** A count limit of 0 is documented as "no attributes" while the code keeps all of them (the
    C17 finding F-C17-2): for a RESOLVED limit of 0 both behaviours are accepted here (what C20
    judges is which source the 0 came from). *)
Definition loglimits_ok (cnt len : Z) (obs : list Z) : bool :=
  listZ_eqb (loglimits_behaviour cnt len) obs ||
  ((cnt =? 0)%Z && listZ_eqb (loglimits_behaviour (-1) len) obs).
Definition check_loglimits (oc ol : option Z) (ec el : bytes) (obs : list Z) : list N :=
  flag (loglimits_ok (log_limit oc ec 128) (log_limit ol el (-1)) obs) V_MISMATCH ++
  flag (loglimits_ok (log_limit_expected oc ec 128) (log_limit_expected ol el (-1)) obs) V_SPECFAIL.

(** Sampling probes: parents (none, remote sampled, remote unsampled, local sampled, local
    unsampled) x 16 positions (2k+1)/32 of the 63-bit range. *)
Definition probe_x (k : Z) : Z := ((2 * k + 1) * 2 ^ 58)%Z.
Definition probes : list (parent * Z) :=
  flat_map (fun p => map (fun k => (p, probe_x (Z.of_nat k))) (seq 0 16)) [PNone; PSampled; PUnsampled; PSampled; PUnsampled].
Definition bools_eqb := list_eqb Bool.eqb.
Definition check_sampler (o : option sopt) (name arg : option bytes) (dec : list bool) : list N :=
  let s := provider_sampler o name arg in
  flag (bools_eqb (map (fun px => should_sample s (fst px) (snd px)) probes) dec) V_MISMATCH ++
  flag (bools_eqb (map (fun px => sampling_decision o name arg (fst px) (snd px)) probes) dec) V_SPECFAIL.

Definition check_case (c : case) : list N :=
  match c with
  | CExp f pr opts e o => check_exp f pr opts e o
  | CBsp i cfg n beh ex dl => check_bsp i cfg n beh ex dl
  | CBlrp i n mc tot trig odd dl => check_blrp i n mc tot trig odd dl
  | CLimits opts e obs => check_limits opts e obs
  | CEnvLimits e obs => check_envlimits e obs
  | CLogLimits oc ol ec el obs => check_loglimits oc ol ec el obs
  | CSampler o name arg dec => check_sampler o name arg dec
  end.

Definition run (cs : list case) : list (N * N) := index_from 0 check_case cs.
