(** C20 proofs. *)
From Verif Require Import Lib.Base C20.Vocab C20.Model C20.Spec.
From Coq Require Import ZifyBool.
Open Scope N_scope.

(** * white space *)
Lemma drop_space_id s : match s with [] => true | c :: _ => negb (is_space c) end = true -> drop_space s = s.
Proof. destruct s as [|c r]; cbn; intro H; [reflexivity|]. now rewrite (proj1 (negb_true_iff _) H). Qed.

Lemma rev_last_cons (s : bytes) c r : s = c :: r -> rev s = last s 0 :: rev (removelast s).
Proof.
  intros E. assert (Hn : s <> []) by (subst; discriminate).
  rewrite (app_removelast_last 0 Hn) at 1. rewrite rev_app_distr. reflexivity.
Qed.

Lemma trim_trimmed s : trimmed s = true -> trim_space s = s.
Proof.
  unfold trimmed, trim_space. destruct s as [|c r]; [reflexivity|].
  intros H. apply andb_true_iff in H as [H1 H2].
  rewrite (drop_space_id (c :: r)) by exact H1.
  rewrite (rev_last_cons (c :: r) c r eq_refl).
  rewrite drop_space_id by exact H2.
  rewrite <- (rev_last_cons (c :: r) c r eq_refl). apply rev_involutive.
Qed.

Lemma tm_getenv_trimmed v : trimmed v = true -> tm_getenv v = if present v then Some v else None.
Proof. intros H. unfold tm_getenv, present. rewrite (trim_trimmed _ H). now destruct v. Qed.

(** TrimSpace is idempotent: its result has no white space at either end. *)
Lemma drop_space_suffix s : exists pre, s = pre ++ drop_space s.
Proof.
  induction s as [|c r [pre IH]]; [now exists []|]. cbn. destruct (is_space c).
  - exists (c :: pre). cbn. now rewrite <- IH.
  - now exists [].
Qed.
Lemma drop_space_head s : match drop_space s with [] => True | c :: _ => is_space c = false end.
Proof. induction s as [|c r IH]; cbn; [exact I|]. destruct (is_space c) eqn:E; [exact IH | exact E]. Qed.
Lemma trimmed_trim v : trimmed (trim_space v) = true.
Proof.
  unfold trim_space. set (a := drop_space v). destruct (drop_space_suffix (rev a)) as [pre Hpre].
  pose proof (drop_space_head (rev a)) as Hb. destruct (drop_space (rev a)) as [|c b'] eqn:Eb; [reflexivity|].
  assert (Ha : a = (rev b' ++ [c]) ++ rev pre).
  { rewrite <- (rev_involutive a), Hpre, rev_app_distr. reflexivity. }
  pose proof (drop_space_head v) as Hv. fold a in Hv.
  cbn [rev]. unfold trimmed. destruct (rev b' ++ [c]) as [|x r] eqn:Er; [now destruct (rev b')|].
  rewrite <- Er, last_last. rewrite Hb. rewrite Ha in Hv. cbn in Hv. now rewrite Hv.
Qed.
Lemma tm_getenv_trim v : tm_getenv (trim_space v) = tm_getenv v.
Proof. unfold tm_getenv. now rewrite (trim_trimmed _ (trimmed_trim v)). Qed.

(** * options: a fold of setters keeps the last one *)
Definition sel {A} (acc : option A) (d : A) : A := match acc with Some v => v | None => d end.
Definition keep {A} (f : opt -> option A) (acc : option A) (o : opt) : option A :=
  match f o with Some v => Some v | None => acc end.

Lemma last_some_fold {A} (f : opt -> option A) l : last_some f l = fold_left (keep f) l None.
Proof. reflexivity. Qed.

Lemma fold_opts_field {A} (p : cfg -> A) (f : opt -> option A) :
  (forall c o, p (tm_apply_opt c o) = sel (f o) (p c)) ->
  forall l c, p (fold_left tm_apply_opt l c) = sel (last_some f l) (p c).
Proof.
  intros Hstep l c. rewrite last_some_fold.
  assert (G : forall l c acc d, p c = sel acc d ->
              p (fold_left tm_apply_opt l c) = sel (fold_left (keep f) l acc) d).
  { clear l c. induction l as [|o l IH]; intros c acc d H; cbn; [exact H|].
    apply IH. rewrite Hstep. unfold keep. destruct (f o); cbn; [reflexivity | exact H]. }
  apply (G l c None (p c)). reflexivity.
Qed.

Lemma tm_opt_host c o : c_host (tm_apply_opt c o) = sel (opt_host o) (c_host c).
Proof. destruct o; cbn; try reflexivity. destruct (parse_url u); reflexivity. Qed.
Lemma tm_opt_path c o : c_path (tm_apply_opt c o) = sel (opt_path o) (c_path c).
Proof. destruct o; cbn; try reflexivity. destruct (parse_url u); reflexivity. Qed.
Lemma tm_opt_hdrs c o : c_hdrs (tm_apply_opt c o) = sel (opt_hdrs o) (c_hdrs c).
Proof. destruct o; cbn; try reflexivity. destruct (parse_url u); reflexivity. Qed.
Lemma tm_opt_gzip c o : c_gzip (tm_apply_opt c o) = sel (opt_gzip o) (c_gzip c).
Proof. destruct o; cbn; try reflexivity. destruct (parse_url u); reflexivity. Qed.
Lemma tm_opt_tmo c o : c_tmo (tm_apply_opt c o) = sel (opt_tmo o) (c_tmo c).
Proof. destruct o; cbn; try reflexivity. destruct (parse_url u); reflexivity. Qed.

Lemma resolve_sel {A} (o s g : option A) d : resolve o s g d = sel o (resolve None s g d).
Proof. destruct o; reflexivity. Qed.

(** * trace / metric family: the environment pass *)
Ltac split_matches :=
  repeat match goal with
         | |- context [match ?x with _ => _ end] => destruct x
         end.

Section TmEnv.
  Variables (pr : proto) (sig : bytes).

  Lemma url_keeps {A} (p : cfg -> A) f c v :
    (forall c u, p (f c u) = p c) -> p (tm_env_url f c v) = p c.
  Proof. intros H. unfold tm_env_url. destruct (tm_getenv v); [destruct (parse_url b)|]; auto. Qed.

  Lemma gen_ep_hdrs c u : c_hdrs (tm_gen_endpoint pr sig c u) = c_hdrs c. Proof. destruct pr; reflexivity. Qed.
  Lemma gen_ep_gzip c u : c_gzip (tm_gen_endpoint pr sig c u) = c_gzip c. Proof. destruct pr; reflexivity. Qed.
  Lemma gen_ep_tmo c u : c_tmo (tm_gen_endpoint pr sig c u) = c_tmo c. Proof. destruct pr; reflexivity. Qed.
  Lemma spec_ep_hdrs c u : c_hdrs (tm_spec_endpoint pr c u) = c_hdrs c. Proof. destruct pr; reflexivity. Qed.
  Lemma spec_ep_gzip c u : c_gzip (tm_spec_endpoint pr c u) = c_gzip c. Proof. destruct pr; reflexivity. Qed.
  Lemma spec_ep_tmo c u : c_tmo (tm_spec_endpoint pr c u) = c_tmo c. Proof. destruct pr; reflexivity. Qed.

  Lemma hdrs_keeps {A} (p : cfg -> A) c v : (forall c m, p (set_hdrs c m) = p c) -> p (tm_env_headers c v) = p c.
  Proof. intros H. unfold tm_env_headers. destruct (tm_getenv v); auto. Qed.
  Lemma comp_keeps {A} (p : cfg -> A) c v : (forall c g, p (set_gzip c g) = p c) -> p (tm_env_comp c v) = p c.
  Proof. intros H. unfold tm_env_comp. destruct (tm_getenv v); auto. Qed.
  Lemma tmo_keeps {A} (p : cfg -> A) c v : (forall c t, p (set_tmo c t) = p c) -> p (tm_env_tmo c v) = p c.
  Proof. intros H. unfold tm_env_tmo. destruct (tm_getenv v); [destruct (atoi b)|]; auto. Qed.

  Lemma insec_keeps {A} (p : cfg -> A) c v : (forall c i, p (set_insec c i) = p c) -> p (tm_env_insec c v) = p c.
  Proof. intros H. unfold tm_env_insec. destruct (tm_getenv v); auto. Qed.
  Lemma gen_ep_conn c u : c_conn (tm_gen_endpoint pr sig c u) = c_conn c. Proof. destruct pr; reflexivity. Qed.
  Lemma spec_ep_conn c u : c_conn (tm_spec_endpoint pr c u) = c_conn c. Proof. destruct pr; reflexivity. Qed.

  (** The documented readings of the trace / metric family, on trimmed values. *)
  Definition tm_rd_tmo (v : bytes) : option Z := rd_timeout v.

  Lemma env_tmo_step c v : trimmed v = true -> c_tmo (tm_env_tmo c v) = sel (rd_timeout v) (c_tmo c).
  Proof.
    intros T. unfold tm_env_tmo, rd_timeout. rewrite (tm_getenv_trimmed _ T).
    destruct (present v); [|reflexivity]. destruct (atoi v); reflexivity.
  Qed.
  Lemma env_comp_step c v : trimmed v = true -> c_gzip (tm_env_comp c v) = sel (doc_comp v) (c_gzip c).
  Proof.
    intros T. unfold tm_env_comp, doc_comp. rewrite (tm_getenv_trimmed _ T). destruct (present v); reflexivity.
  Qed.
  Lemma env_hdrs_step c v : trimmed v = true -> c_hdrs (tm_env_headers c v) = sel (doc_headers v) (c_hdrs c).
  Proof.
    intros T. unfold tm_env_headers, doc_headers. rewrite (tm_getenv_trimmed _ T). destruct (present v); reflexivity.
  Qed.

  Lemma tm_env_tmo_field e c : trimmed (gen_tmo e) = true -> trimmed (spec_tmo e) = true ->
    c_tmo (tm_apply_env pr sig e c) = resolve None (rd_timeout (spec_tmo e)) (rd_timeout (gen_tmo e)) (c_tmo c).
  Proof.
    intros T1 T2. unfold tm_apply_env. rewrite (env_tmo_step _ _ T2), (env_tmo_step _ _ T1).
    rewrite !comp_keeps, !hdrs_keeps, !insec_keeps by reflexivity.
    rewrite (url_keeps c_tmo) by apply spec_ep_tmo. rewrite (url_keeps c_tmo) by apply gen_ep_tmo.
    destruct (rd_timeout (spec_tmo e)), (rd_timeout (gen_tmo e)); reflexivity.
  Qed.

  Lemma tm_env_gzip_field e c : trimmed (gen_comp e) = true -> trimmed (spec_comp e) = true ->
    c_gzip (tm_apply_env pr sig e c) = resolve None (doc_comp (spec_comp e)) (doc_comp (gen_comp e)) (c_gzip c).
  Proof.
    intros T1 T2. unfold tm_apply_env. rewrite !tmo_keeps by reflexivity.
    rewrite (env_comp_step _ _ T2), (env_comp_step _ _ T1).
    rewrite !hdrs_keeps, !insec_keeps by reflexivity.
    rewrite (url_keeps c_gzip) by apply spec_ep_gzip. rewrite (url_keeps c_gzip) by apply gen_ep_gzip.
    destruct (doc_comp (spec_comp e)), (doc_comp (gen_comp e)); reflexivity.
  Qed.

  Lemma tm_env_hdrs_field e c : trimmed (gen_hdr e) = true -> trimmed (spec_hdr e) = true ->
    c_hdrs (tm_apply_env pr sig e c) = resolve None (doc_headers (spec_hdr e)) (doc_headers (gen_hdr e)) (c_hdrs c).
  Proof.
    intros T1 T2. unfold tm_apply_env. rewrite !tmo_keeps by reflexivity. rewrite !comp_keeps by reflexivity.
    rewrite (env_hdrs_step _ _ T2), (env_hdrs_step _ _ T1). rewrite !insec_keeps by reflexivity.
    rewrite (url_keeps c_hdrs) by apply spec_ep_hdrs. rewrite (url_keeps c_hdrs) by apply gen_ep_hdrs.
    destruct (doc_headers (spec_hdr e)), (doc_headers (gen_hdr e)); reflexivity.
  Qed.
End TmEnv.

(** * path.Clean on tidy paths *)
Lemma split_on_app sep a b : split_on sep (a ++ sep :: b) = split_on sep a ++ split_on sep b.
Proof.
  induction a as [|c a IH]; cbn.
  - now rewrite N.eqb_refl.
  - destruct (c =? sep); [now rewrite IH|]. rewrite IH.
    destruct (split_on sep a) as [|h t] eqn:E; [|reflexivity].
    exfalso. destruct a; cbn in E; [discriminate|]. destruct (n =? sep); [discriminate|].
    destruct (split_on sep a); discriminate.
Qed.

Lemma split_on_nonempty sep s : split_on sep s <> [].
Proof.
  destruct s as [|c r]; cbn; [discriminate|]. destruct (c =? sep); [discriminate|].
  destruct (split_on sep r); discriminate.
Qed.

Lemma join_cons sep x l : l <> [] -> join_with sep (x :: l) = x ++ sep :: join_with sep l.
Proof. destruct l; [congruence|reflexivity]. Qed.

Lemma join_split sep s : join_with sep (split_on sep s) = s.
Proof.
  induction s as [|c r IH]; [reflexivity|]. cbn [split_on]. destruct (c =? sep) eqn:E.
  - apply N.eqb_eq in E. subst c. rewrite join_cons by apply split_on_nonempty. now rewrite IH.
  - destruct (split_on sep r) as [|h t] eqn:F; [now destruct (split_on_nonempty sep r)|].
    rewrite <- IH. destruct t; reflexivity.
Qed.

Lemma join_app sep a b : a <> [] -> b <> [] -> join_with sep (a ++ b) = join_with sep a ++ sep :: join_with sep b.
Proof.
  intros Ha Hb. induction a as [|x a IH]; [congruence|]. destruct a as [|y a].
  - cbn [app]. now rewrite join_cons.
  - change ((x :: y :: a) ++ b) with (x :: ((y :: a) ++ b)).
    rewrite join_cons by (cbn; discriminate). rewrite IH by discriminate.
    rewrite (join_cons sep x (y :: a)) by discriminate. now rewrite <- app_assoc.
Qed.

Lemma plain_ok s : plain_seg s = true -> seg_ok s = true /\ bytes_eqb s dotdot = false.
Proof.
  unfold plain_seg, seg_ok. intros H. repeat (apply andb_true_iff in H as [H ?]).
  split; [apply andb_true_iff; split; assumption|]. now apply negb_true_iff.
Qed.

Lemma filter_plain S : forallb plain_seg S = true -> filter seg_ok S = S.
Proof.
  induction S as [|s S IH]; [reflexivity|]. cbn. intros H. apply andb_true_iff in H as [H1 H2].
  destruct (plain_ok _ H1) as [-> _]. now rewrite IH.
Qed.

Lemma fold_plain S : forall st, forallb plain_seg S = true -> fold_left (clean_step true) S st = rev S ++ st.
Proof.
  induction S as [|s S IH]; intros st H; [reflexivity|]. cbn in H. apply andb_true_iff in H as [H1 H2].
  cbn [fold_left]. rewrite IH by exact H2. unfold clean_step. destruct (plain_ok _ H1) as [_ ->].
  cbn [rev]. now rewrite <- app_assoc.
Qed.

(** path.Clean of a rooted string whose non-empty, non-"." segments are all plain. *)
Lemma path_clean_rooted r S :
  filter seg_ok (split_on 47 (47 :: r)) = S -> forallb plain_seg S = true ->
  path_clean (47 :: r) = 47 :: join_with 47 S.
Proof.
  intros HS HP. unfold path_clean. rewrite N.eqb_refl.
  rewrite HS, (fold_plain _ _ HP), app_nil_r, rev_involutive. reflexivity.
Qed.

Lemma tidy_inv p : tidy p = true ->
  trimmed p = true /\ exists r, p = 47 :: r /\ (r = [] \/ (r <> [] /\ forallb plain_seg (split_on 47 r) = true)).
Proof.
  unfold tidy. destruct p as [|c r]; [discriminate|]. destruct (N.eq_dec c 47) as [->|Hn].
  - intros H. apply andb_true_iff in H as [H1 H2]. split; [exact H2|]. exists r. split; [reflexivity|].
    destruct r as [|x r]; [now left|right]. split; [discriminate|]. exact H1.
  - intros H. exfalso. destruct c; try discriminate. repeat (destruct p; try discriminate). congruence.
Qed.

Lemma split_rooted r : split_on 47 (47 :: r) = [] :: split_on 47 r.
Proof. reflexivity. Qed.

Lemma tidy_clean p : tidy p = true -> path_clean p = p.
Proof.
  intros H. destruct (tidy_inv _ H) as [_ [r [-> [-> | [Hr HP]]]]]; [reflexivity|].
  rewrite (path_clean_rooted r (split_on 47 r)); [now rewrite join_split| |exact HP].
  rewrite split_rooted. cbn [filter seg_ok is_nil negb andb]. now apply filter_plain.
Qed.

Lemma tidy_clean_path p dflt : tidy p = true -> clean_path p dflt = p.
Proof.
  intros H. destruct (tidy_inv _ H) as [T [r [E _]]]. unfold clean_path.
  rewrite (trim_trimmed _ T), (tidy_clean _ H). subst p. reflexivity.
Qed.

Lemma last_app_ne (a b : bytes) d : b <> [] -> last (a ++ b) d = last b d.
Proof.
  intros Hb. induction a as [|x a IH]; [reflexivity|]. cbn [app].
  change (last (x :: a ++ b) d) with (match a ++ b with [] => x | _ => last (a ++ b) d end).
  destruct (a ++ b) eqn:E; [|exact IH]. destruct a; cbn in E; [congruence|discriminate].
Qed.

Lemma trimmed_app a b : a <> [] -> b <> [] -> trimmed a = true -> trimmed b = true -> trimmed (a ++ b) = true.
Proof.
  intros Ha Hb Ta Tb. unfold trimmed in *. destruct a as [|x a]; [congruence|]. cbn [app].
  apply andb_true_iff in Ta as [Ta _]. rewrite Ta. cbn [andb].
  change (x :: a ++ b) with ((x :: a) ++ b). rewrite last_app_ne by exact Hb.
  destruct b as [|y b]; [congruence|]. now apply andb_true_iff in Tb as [_ Tb].
Qed.

(** Joining the signal path to a generic endpoint path: every shape the guard admits. *)
Section Join.
  Variable sig : bytes.
  Hypothesis Hsig : tidy sig = true.
  Hypothesis Hsig1 : sig <> [47].

  Lemma sig_shape : trimmed sig = true /\ exists rs, sig = 47 :: rs /\ rs <> [] /\ forallb plain_seg (split_on 47 rs) = true.
  Proof.
    destruct (tidy_inv _ Hsig) as [T [rs [E [-> | [Hr HP]]]]]; [congruence|].
    split; [exact T|]. exists rs. auto.
  Qed.

  (** q is "" or a tidy path other than "/"; k extra slashes (0 or 1) before the separator. *)
  Lemma join_clean_tidy q : tidy q = true -> q <> [47] ->
    path_clean (q ++ 47 :: sig) = q ++ sig /\ path_clean ((q ++ [47]) ++ 47 :: sig) = q ++ sig /\ tidy (q ++ sig) = true.
  Proof.
    intros Hq Hq1. destruct sig_shape as [Ts [rs [Es [Hrs HPs]]]].
    destruct (tidy_inv _ Hq) as [Tq [rq [Eq [-> | [Hrq HPq]]]]]; [congruence|].
    assert (HP : forallb plain_seg (split_on 47 rq ++ split_on 47 rs) = true)
      by (rewrite forallb_app, HPq, HPs; reflexivity).
    assert (J : join_with 47 (split_on 47 rq ++ split_on 47 rs) = rq ++ 47 :: rs).
    { rewrite join_app by apply split_on_nonempty. now rewrite !join_split. }
    rewrite Eq, Es. repeat split.
    - cbn [app]. rewrite (path_clean_rooted _ (split_on 47 rq ++ split_on 47 rs)); [now rewrite J| |exact HP].
      rewrite split_rooted, split_on_app, split_rooted. cbn [filter seg_ok is_nil negb andb].
      rewrite filter_app. cbn [filter seg_ok is_nil negb andb]. now rewrite !filter_plain.
    - cbn [app]. rewrite <- app_assoc. cbn [app].
      rewrite (path_clean_rooted _ (split_on 47 rq ++ split_on 47 rs)); [now rewrite J| |exact HP].
      rewrite split_rooted, split_on_app, !split_rooted. cbn [filter seg_ok is_nil negb andb].
      rewrite filter_app. cbn [filter seg_ok is_nil negb andb]. now rewrite !filter_plain.
    - cbn [app]. unfold tidy. rewrite split_on_app, HP.
      replace (is_nil (rq ++ 47 :: rs)) with false by (destruct rq; reflexivity). cbn [orb andb].
      change (47 :: rq ++ 47 :: rs) with ((47 :: rq) ++ 47 :: rs). rewrite <- Eq, <- Es.
      apply trimmed_app; auto; subst; discriminate.
  Qed.

  Lemma join_root : path_clean ([47] ++ 47 :: sig) = sig.
  Proof.
    destruct sig_shape as [Ts [rs [Es [Hrs HPs]]]]. rewrite Es. cbn [app].
    rewrite (path_clean_rooted _ (split_on 47 rs)); [now rewrite join_split| |exact HPs].
    rewrite !split_rooted. cbn [filter seg_ok is_nil negb andb]. now apply filter_plain.
  Qed.

  Lemma sig_nonnil : sig <> [].
  Proof. destruct sig_shape as [_ [rs [-> _]]]. discriminate. Qed.

  Lemma match_ne {A B} (l : list A) (x y : B) : l <> [] -> match l with [] => x | _ :: _ => y end = y.
  Proof. destruct l; [congruence|reflexivity]. Qed.

  Lemma path_join_ne a b : b <> [] ->
    path_join a b = match a with [] => path_clean b | _ => path_clean (a ++ 47 :: b) end.
  Proof. destruct a, b; intros; try congruence; reflexivity. Qed.

  (** path.Join(p, sig) for every generic path the guard admits equals strip_slash p ++ sig,
      and that is tidy. *)
  Lemma path_join_plain p :
    (let q := strip_slash p in is_nil q || (tidy q && negb (bytes_eqb q [47]))) = true ->
    path_join p sig = strip_slash p ++ sig /\ tidy (strip_slash p ++ sig) = true.
  Proof.
    pose proof sig_nonnil as Hn. cbn zeta. intros G. rewrite (path_join_ne p sig Hn).
    apply orb_true_iff in G as [G | G].
    - (* p is "" or "/" *)
      unfold strip_slash in *. destruct (ends_with_slash p) eqn:E.
      + destruct p as [|c p]; [discriminate|]. destruct p as [|d p].
        * cbn in E. apply N.eqb_eq in E. subst c. cbn [removelast app]. split; [|exact Hsig]. apply join_root.
        * cbn in G. destruct p; discriminate.
      + destruct p; [|discriminate]. cbn [app]. split; [|exact Hsig]. now apply tidy_clean.
    - apply andb_true_iff in G as [G1 G2]. apply negb_true_iff, bytes_eqb_neq in G2.
      destruct (join_clean_tidy _ G1 G2) as [J1 [J2 J3]]. split; [|exact J3].
      assert (Hq : strip_slash p <> []) by (intro E; rewrite E in G1; discriminate).
      unfold strip_slash in *. destruct (ends_with_slash p) eqn:E.
      + assert (Hp : p <> []) by (intro; subst; discriminate).
        assert (Ep : p = removelast p ++ [47]).
        { rewrite (app_removelast_last 0 Hp) at 1. unfold ends_with_slash in E. destruct p; [congruence|].
          apply N.eqb_eq in E. now rewrite E. }
        rewrite (match_ne p _ _ Hp). rewrite Ep at 1. exact J2.
      + rewrite (match_ne p _ _ Hq). exact J1.
  Qed.
End Join.

(** * trace / metric family: endpoint and path from the environment *)
Lemma env_host_gen pr sig c v : trimmed v = true -> (pr = PGrpc -> grpc_target_plain v = true) ->
  c_host (tm_env_url (tm_gen_endpoint pr sig) c v) = sel (rd_host v) (c_host c).
Proof.
  intros T G. unfold tm_env_url, rd_host, rd_url. rewrite (tm_getenv_trimmed _ T).
  destruct (present v) eqn:P; [|reflexivity]. destruct (parse_url v) eqn:E; [|reflexivity].
  destruct pr; [reflexivity|]. specialize (G eq_refl). unfold grpc_target_plain, rd_url in G.
  rewrite P, E in G. apply bytes_eqb_eq in G. exact G.
Qed.
Lemma env_host_spec pr c v : trimmed v = true -> (pr = PGrpc -> grpc_target_plain v = true) ->
  c_host (tm_env_url (tm_spec_endpoint pr) c v) = sel (rd_host v) (c_host c).
Proof.
  intros T G. unfold tm_env_url, rd_host, rd_url. rewrite (tm_getenv_trimmed _ T).
  destruct (present v) eqn:P; [|reflexivity]. destruct (parse_url v) eqn:E; [|reflexivity].
  destruct pr; [reflexivity|]. specialize (G eq_refl). unfold grpc_target_plain, rd_url in G.
  rewrite P, E in G. apply bytes_eqb_eq in G. exact G.
Qed.

Definition tm_gen_path (sig v : bytes) : option bytes :=
  option_map (fun u => path_join (u_path u) sig) (rd_url v).
Lemma env_path_gen sig c v : trimmed v = true ->
  c_path (tm_env_url (tm_gen_endpoint PHttp sig) c v) = sel (tm_gen_path sig v) (c_path c).
Proof.
  intros T. unfold tm_env_url, tm_gen_path, rd_url. rewrite (tm_getenv_trimmed _ T).
  destruct (present v); [|reflexivity]. destruct (parse_url v); reflexivity.
Qed.
Lemma env_path_spec c v : trimmed v = true ->
  c_path (tm_env_url (tm_spec_endpoint PHttp) c v) = sel (rd_path_specific v) (c_path c).
Proof.
  intros T. unfold tm_env_url, rd_path_specific, rd_url. rewrite (tm_getenv_trimmed _ T).
  destruct (present v); [|reflexivity]. destruct (parse_url v); reflexivity.
Qed.

Lemma tm_env_host_field pr sig e c : trimmed (gen_ep e) = true -> trimmed (spec_ep e) = true ->
  (pr = PGrpc -> grpc_target_plain (spec_ep e) = true /\ grpc_target_plain (gen_ep e) = true) ->
  c_host (tm_apply_env pr sig e c) = resolve None (rd_host (spec_ep e)) (rd_host (gen_ep e)) (c_host c).
Proof.
  intros T1 T2 G. unfold tm_apply_env. rewrite !tmo_keeps, !comp_keeps, !hdrs_keeps, !insec_keeps by reflexivity.
  rewrite env_host_spec, env_host_gen; auto; intro; now apply G.
Qed.
Lemma tm_env_path_field sig e c : trimmed (gen_ep e) = true -> trimmed (spec_ep e) = true ->
  c_path (tm_apply_env PHttp sig e c) = resolve None (rd_path_specific (spec_ep e)) (tm_gen_path sig (gen_ep e)) (c_path c).
Proof.
  intros T1 T2. unfold tm_apply_env. rewrite !tmo_keeps, !comp_keeps, !hdrs_keeps, !insec_keeps by reflexivity.
  rewrite env_path_spec, env_path_gen by assumption.
  destruct (rd_path_specific (spec_ep e)), (tm_gen_path sig (gen_ep e)); reflexivity.
Qed.

Lemma use_conn_keeps {A} (p : cfg -> A) c :
  (forall c x, p (set_host c x) = p c) -> (forall c x, p (set_gzip c x) = p c) -> (forall c x, p (set_insec c x) = p c) ->
  p (use_conn c) = p c.
Proof. intros H1 H2 H3. unfold use_conn. destruct (c_conn c); [now rewrite H3, H2, H1 | reflexivity]. Qed.

Lemma tm_config_field {A} (p : cfg -> A) pr sig opts e :
  (forall c x, p (set_path c x) = p c) -> (forall c, p (use_conn c) = p c) ->
  p (tm_config pr sig opts e) = p (fold_left tm_apply_opt opts (tm_apply_env pr sig e (tm_default pr sig))).
Proof. intros H H'. unfold tm_config. destruct pr; auto. Qed.

(** the user's connection *)
Lemma last_some_lift {A} (g : opt -> option A) l :
  sel (last_some (fun o => option_map Some (g o)) l) None = last_some g l.
Proof.
  rewrite !last_some_fold.
  assert (G : forall l a b, sel a None = b ->
              sel (fold_left (keep (fun o => option_map Some (g o))) l a) None = fold_left (keep g) l b).
  { clear l. induction l as [|o l IH]; intros a b H; cbn; [exact H|]. apply IH. unfold keep.
    destruct (g o); cbn; [reflexivity | exact H]. }
  now apply G.
Qed.
Lemma tm_opt_conn c o : c_conn (tm_apply_opt c o) = sel (option_map Some (opt_conn o)) (c_conn c).
Proof. destruct o; cbn; try reflexivity. destruct (parse_url u); reflexivity. Qed.
Lemma tm_env_conn pr sig e c : c_conn (tm_apply_env pr sig e c) = c_conn c.
Proof.
  unfold tm_apply_env. rewrite !tmo_keeps, !comp_keeps, !hdrs_keeps, !insec_keeps by reflexivity.
  rewrite (url_keeps c_conn) by apply spec_ep_conn. now rewrite (url_keeps c_conn) by apply gen_ep_conn.
Qed.
Lemma tm_fold_conn pr sig opts e :
  c_conn (fold_left tm_apply_opt opts (tm_apply_env pr sig e (tm_default pr sig))) = last_some opt_conn opts.
Proof.
  rewrite (fold_opts_field c_conn (fun o => option_map Some (opt_conn o)) tm_opt_conn), tm_env_conn.
  apply last_some_lift.
Qed.

(** transport security *)
Lemma tm_opt_insec c o : c_insec (tm_apply_opt c o) = sel (opt_insecure o) (c_insec c).
Proof. destruct o; cbn; try reflexivity. destruct (parse_url u); reflexivity. Qed.
Lemma scheme_plain_insecure u : scheme_plain u = true -> scheme_insecure u = url_insecure u.
Proof.
  unfold scheme_plain, scheme_insecure, url_insecure. intros H. apply orb_true_iff in H as [H | H].
  - rewrite H. apply bytes_eqb_eq in H. now rewrite H.
  - rewrite H. apply bytes_eqb_eq in H. now rewrite H.
Qed.
Lemma env_insec_gen pr sig c v : trimmed v = true -> env_scheme_ok v = true ->
  c_insec (tm_env_url (tm_gen_endpoint pr sig) c v) = sel (rd_insecure v) (c_insec c).
Proof.
  intros T G. unfold tm_env_url, rd_insecure, env_scheme_ok, rd_url in *. rewrite (tm_getenv_trimmed _ T).
  destruct (present v); [|reflexivity]. destruct (parse_url v) as [u|]; [|reflexivity].
  cbn [option_map sel]. rewrite <- (scheme_plain_insecure _ G). destruct pr; reflexivity.
Qed.
Lemma env_insec_spec pr c v : trimmed v = true -> env_scheme_ok v = true ->
  c_insec (tm_env_url (tm_spec_endpoint pr) c v) = sel (rd_insecure v) (c_insec c).
Proof.
  intros T G. unfold tm_env_url, rd_insecure, env_scheme_ok, rd_url in *. rewrite (tm_getenv_trimmed _ T).
  destruct (present v); [|reflexivity]. destruct (parse_url v) as [u|]; [|reflexivity].
  cbn [option_map sel]. rewrite <- (scheme_plain_insecure _ G). destruct pr; reflexivity.
Qed.
Lemma tm_env_insec_nil c : tm_env_insec c [] = c.
Proof. reflexivity. Qed.
Lemma tm_env_insec_field pr sig e c : trimmed (gen_ep e) = true -> trimmed (spec_ep e) = true ->
  env_scheme_ok (spec_ep e) = true -> env_scheme_ok (gen_ep e) = true -> spec_insec e = [] -> gen_insec e = [] ->
  c_insec (tm_apply_env pr sig e c) = resolve None (rd_insecure (spec_ep e)) (rd_insecure (gen_ep e)) (c_insec c).
Proof.
  intros T1 T2 G1 G2 N1 N2. unfold tm_apply_env. rewrite !tmo_keeps, !comp_keeps, !hdrs_keeps by reflexivity.
  rewrite N1, N2, !tm_env_insec_nil. rewrite env_insec_spec, env_insec_gen by assumption.
  destruct (rd_insecure (spec_ep e)), (rd_insecure (gen_ep e)); reflexivity.
Qed.

Lemma env_trimmed_inv e : env_trimmed e = true ->
  trimmed (gen_ep e) = true /\ trimmed (spec_ep e) = true /\ trimmed (gen_hdr e) = true /\ trimmed (spec_hdr e) = true /\
  trimmed (gen_comp e) = true /\ trimmed (spec_comp e) = true /\ trimmed (gen_tmo e) = true /\ trimmed (spec_tmo e) = true.
Proof. unfold env_trimmed. intros H. repeat (apply andb_true_iff in H as [H ?]). tauto. Qed.

Lemma schemes_ok_inv opts e : schemes_ok opts e = true ->
  forallb opt_scheme_ok opts = true /\ env_scheme_ok (spec_ep e) = true /\ env_scheme_ok (gen_ep e) = true /\
  spec_insec e = [] /\ gen_insec e = [].
Proof.
  unfold schemes_ok. intros H. repeat (apply andb_true_iff in H as [H ?]).
  repeat split; auto; [destruct (spec_insec e) | destruct (gen_insec e)]; auto; discriminate.
Qed.

(** The trace / metric exporters: timeout and host follow the uniform reading; compression and
    headers follow the documented lenient reading. *)
Lemma tm_settings pr sig opts e : env_trimmed e = true ->
  let c := tm_config pr sig opts e in
  c_tmo c = exp_tmo opts e /\
  c_gzip c = match user_conn pr opts with
             | Some _ => false
             | None => resolve (last_some opt_gzip opts) (doc_comp (spec_comp e)) (doc_comp (gen_comp e)) false
             end /\
  c_hdrs c = resolve (last_some opt_hdrs opts) (doc_headers (spec_hdr e)) (doc_headers (gen_hdr e)) [] /\
  ((pr = PGrpc -> grpc_target_plain (spec_ep e) = true /\ grpc_target_plain (gen_ep e) = true) ->
   c_host c = exp_host pr opts e) /\
  (schemes_ok opts e = true -> c_insec c = exp_insecure pr opts e).
Proof.
  intros T. destruct (env_trimmed_inv _ T) as (T1 & T2 & T3 & T4 & T5 & T6 & T7 & T8). cbn zeta.
  rewrite !(tm_config_field c_tmo), !(tm_config_field c_hdrs)
    by (try reflexivity; intros; now apply use_conn_keeps).
  rewrite (fold_opts_field c_tmo opt_tmo tm_opt_tmo), (fold_opts_field c_hdrs opt_hdrs tm_opt_hdrs).
  rewrite tm_env_tmo_field, tm_env_hdrs_field by assumption.
  unfold exp_tmo. rewrite !(resolve_sel (last_some _ opts)).
  split; [reflexivity|]. split; [|split; [reflexivity|]].
  - (* compression *)
    unfold tm_config, user_conn. destruct pr; cbn [c_gzip set_path].
    + rewrite (fold_opts_field c_gzip opt_gzip tm_opt_gzip), tm_env_gzip_field by assumption.
      cbv iota; rewrite ?(resolve_sel (last_some _ opts)); reflexivity.
    + unfold use_conn. rewrite tm_fold_conn. destruct (last_some opt_conn opts); [reflexivity|].
      rewrite (fold_opts_field c_gzip opt_gzip tm_opt_gzip), tm_env_gzip_field by assumption.
      cbv iota; rewrite ?(resolve_sel (last_some _ opts)); reflexivity.
  - split.
    + (* host *)
      intros G. unfold tm_config, exp_host, user_conn. destruct pr; cbn [c_host set_path].
      * rewrite (fold_opts_field c_host opt_host tm_opt_host), tm_env_host_field by (auto; discriminate).
        cbv iota; rewrite ?(resolve_sel (last_some _ opts)); reflexivity.
      * unfold use_conn. rewrite tm_fold_conn. destruct (last_some opt_conn opts); [reflexivity|].
        rewrite (fold_opts_field c_host opt_host tm_opt_host), tm_env_host_field by auto.
        cbv iota; rewrite ?(resolve_sel (last_some _ opts)); reflexivity.
    + (* transport security *)
      intros S. destruct (schemes_ok_inv _ _ S) as (_ & S1 & S2 & N1 & N2).
      unfold tm_config, exp_insecure, user_conn. destruct pr; cbn [c_insec set_path].
      * rewrite (fold_opts_field c_insec opt_insecure tm_opt_insec), tm_env_insec_field by assumption.
        cbv iota; rewrite ?(resolve_sel (last_some _ opts)); reflexivity.
      * unfold use_conn. rewrite tm_fold_conn. destruct (last_some opt_conn opts); [reflexivity|].
        rewrite (fold_opts_field c_insec opt_insecure tm_opt_insec), tm_env_insec_field by assumption.
        cbv iota; rewrite ?(resolve_sel (last_some _ opts)); reflexivity.
Qed.

(** Well-formed values: the documented reading is the uniform one. *)
Lemma doc_comp_wf v : absent_or rd_comp v = true -> doc_comp v = rd_comp v.
Proof.
  unfold absent_or, doc_comp, rd_comp. destruct v as [|c v]; [reflexivity|]. cbn [present is_nil negb orb].
  destruct (bytes_eqb (c :: v) gzip_name); [reflexivity|]. destruct (bytes_eqb (c :: v) none_name); [reflexivity|discriminate].
Qed.

Lemma rd_entries_lenient es : forall m m', rd_entries es m = Some m' ->
  fold_left (fun m e => match header_entry e with Some (k, x) => hset m k x | None => m end) es m = m'.
Proof.
  induction es as [|e es IH]; cbn; intros m m' H; [congruence|].
  destruct (header_entry e) as [[k x]|]; [now apply IH|discriminate].
Qed.
Lemma doc_headers_wf v : absent_or rd_headers v = true -> doc_headers v = rd_headers v.
Proof.
  unfold absent_or, doc_headers, rd_headers. destruct (present v); [|reflexivity]. cbn [negb orb].
  destruct (rd_entries (split_on 44 v) []) eqn:E; [|discriminate]. intros _. f_equal. now apply rd_entries_lenient.
Qed.

(** The URL path of the trace / metric HTTP exporters. *)
Lemma last_some_tidy opts p : forallb opt_path_tidy opts = true -> last_some opt_path opts = Some p -> tidy p = true.
Proof.
  rewrite last_some_fold. intros H.
  assert (G : forall l acc, forallb opt_path_tidy l = true -> (forall q, acc = Some q -> tidy q = true) ->
              forall q, fold_left (keep opt_path) l acc = Some q -> tidy q = true).
  { induction l as [|o l IH]; cbn; intros acc Hl Ha q Hq; [now apply Ha|].
    apply andb_true_iff in Hl as [Ho Hl]. apply (IH (keep opt_path acc o) Hl) with (q := q); [|exact Hq].
    unfold keep, opt_path_tidy in *. destruct (opt_path o); [intros ? [= <-]; exact Ho | exact Ha]. }
  apply (G opts None H). discriminate.
Qed.

Lemma tm_path pr sig opts e : pr = PHttp -> tidy sig = true -> sig <> [47] ->
  env_trimmed e = true -> path_inputs_ok opts e = true ->
  is_some (last_some opt_path opts) || spec_path_tidy e = true ->
  c_path (tm_config pr sig opts e) =
  resolve (last_some opt_path opts) (rd_path_specific (spec_ep e)) (rd_path_generic sig (gen_ep e)) sig.
Proof.
  intros -> Hsig Hsig1 T G S. destruct (env_trimmed_inv _ T) as (T1 & T2 & _).
  unfold path_inputs_ok in G. repeat (apply andb_true_iff in G as [G ?]).
  unfold tm_config. cbn [c_path set_path].
  rewrite (fold_opts_field c_path opt_path tm_opt_path), tm_env_path_field by assumption.
  cbn [tm_default c_path]. destruct (last_some opt_path opts) as [p|] eqn:L; cbn [sel resolve].
  - apply tidy_clean_path. eapply last_some_tidy; eauto.
  - cbn [is_some orb] in S. unfold rd_path_specific, tm_gen_path, rd_path_generic, spec_path_tidy, gen_path_plain in *.
    destruct (rd_url (spec_ep e)) as [u|]; cbn [option_map].
    + destruct (u_path u) eqn:P; cbn [is_nil]; [reflexivity|]. rewrite <- P in *.
      apply tidy_clean_path. destruct (u_path u); [discriminate|]. exact S.
    + destruct (rd_url (gen_ep e)) as [u|]; cbn [option_map].
      * destruct (path_join_plain sig Hsig Hsig1 (u_path u)) as [J1 J2]; [assumption|].
        rewrite J1. now apply tidy_clean_path.
      * now apply tidy_clean_path.
Qed.

(** * strings.TrimRight(p, "/") on the generic paths the guard admits *)
Lemma trim_right_id s : ends_with_slash s = false -> trim_right_slash s = s.
Proof.
  induction s as [|c r IH]; [reflexivity|]. intros E. cbn [trim_right_slash].
  destruct r as [|d r'].
  - cbn in E. cbn. now rewrite E.
  - rewrite IH by exact E. reflexivity.
Qed.
Lemma trim_right_snoc q : trim_right_slash (q ++ [47]) = trim_right_slash q.
Proof.
  induction q as [|c r IH]; [reflexivity|]. cbn [app trim_right_slash]. now rewrite IH.
Qed.
Lemma split_on_snoc sep a : split_on sep (a ++ [sep]) = split_on sep a ++ [[]].
Proof. apply (split_on_app sep a []). Qed.
Lemma tidy_no_trailing_slash q : tidy q = true -> q <> [47] -> ends_with_slash q = false.
Proof.
  intros T N. destruct (tidy_inv _ T) as [_ [r [-> [-> | [Hr HP]]]]]; [congruence|].
  destruct (ends_with_slash (47 :: r)) eqn:E; [|reflexivity]. exfalso.
  assert (Er : r = removelast r ++ [47]).
  { rewrite (app_removelast_last 0 Hr) at 1. unfold ends_with_slash in E.
    change (last (47 :: r) 0) with (match r with [] => 47 | _ => last r 0 end) in E.
    destruct r; [congruence|]. apply N.eqb_eq in E. now rewrite E. }
  rewrite Er, split_on_snoc, forallb_app in HP. cbn in HP. now rewrite andb_false_r in HP.
Qed.
Lemma trim_right_plain p :
  (let q := strip_slash p in is_nil q || (tidy q && negb (bytes_eqb q [47]))) = true ->
  trim_right_slash p = strip_slash p.
Proof.
  cbn zeta. unfold strip_slash. destruct (ends_with_slash p) eqn:E; intros G.
  - assert (Hp : p <> []) by (intro; subst; discriminate).
    assert (Ep : p = removelast p ++ [47]).
    { rewrite (app_removelast_last 0 Hp) at 1. unfold ends_with_slash in E. destruct p; [congruence|].
      apply N.eqb_eq in E. now rewrite E. }
    rewrite Ep at 1. rewrite trim_right_snoc. apply orb_true_iff in G as [G | G].
    + destruct (removelast p); [reflexivity|discriminate].
    + apply andb_true_iff in G as [G1 G2]. apply negb_true_iff, bytes_eqb_neq in G2.
      apply trim_right_id. now apply tidy_no_trailing_slash.
  - now apply trim_right_id.
Qed.

(** * log family *)
Lemma fold_log_field {A} (pr : proto) (p : lset -> option A) (f : opt -> option A) :
  (forall s o, p (log_apply_opt pr s o) = keep f (p s) o) ->
  forall l s, p (fold_left (log_apply_opt pr) l s) = fold_left (keep f) l (p s).
Proof.
  intros Hstep. induction l as [|o l IH]; intros s; cbn; [reflexivity|]. now rewrite IH, Hstep.
Qed.

Lemma log_comp_gzip n : match log_comp n with Some g => g | None => false end = bytes_eqb n gzip_name.
Proof. unfold log_comp. destruct (bytes_eqb n gzip_name); [reflexivity|]. now destruct (_ || _). Qed.

Ltac log_opt := intros; match goal with |- context [log_apply_opt ?pr _ ?o] =>
  destruct o; cbn; try reflexivity; unfold keep; cbn;
  match goal with |- context [parse_url ?u] => destruct (parse_url u); [destruct pr|]; reflexivity | _ => idtac end end.

Lemma log_opt_host pr s o : l_host (log_apply_opt pr s o) = keep opt_host (l_host s) o.
Proof. log_opt. Qed.
Lemma log_opt_path s o : l_path (log_apply_opt PHttp s o) = keep opt_path (l_path s) o.
Proof. destruct o; cbn; try reflexivity. unfold keep; cbn. destruct (parse_url u); reflexivity. Qed.
Lemma log_opt_hdrs pr s o : l_hdrs (log_apply_opt pr s o) = keep opt_hdrs (l_hdrs s) o.
Proof. log_opt. Qed.
Lemma log_opt_gzip pr s o : l_gzip (log_apply_opt pr s o) = keep opt_gzip (l_gzip s) o.
Proof.
  destruct o; cbn; try reflexivity.
  - unfold keep; cbn. destruct (parse_url u); [destruct pr|]; reflexivity.
  - unfold keep; cbn. now rewrite log_comp_gzip.
Qed.
Lemma log_opt_tmo pr s o : l_tmo (log_apply_opt pr s o) = keep opt_tmo (l_tmo s) o.
Proof. log_opt. Qed.
Lemma log_opt_conn pr s o : l_conn (log_apply_opt pr s o) = keep opt_conn (l_conn s) o.
Proof. log_opt. Qed.
Lemma insecure_from_scheme_plain prev u : scheme_plain u = true ->
  insecure_from_scheme prev (u_scheme u) = Some (url_insecure u).
Proof.
  unfold scheme_plain, insecure_from_scheme, url_insecure. intros H. apply orb_true_iff in H as [H | H].
  - apply bytes_eqb_eq in H. now rewrite H.
  - rewrite H. reflexivity.
Qed.
Lemma log_opt_insec pr s o : opt_scheme_ok o = true ->
  l_insec (log_apply_opt pr s o) = keep opt_insecure (l_insec s) o.
Proof.
  destruct o; cbn; try reflexivity. unfold keep; cbn. destruct (parse_url u) as [u0|]; [|reflexivity].
  intros G. destruct pr; cbn; [reflexivity|]. now rewrite insecure_from_scheme_plain.
Qed.
Lemma fold_log_field_ok {A} (pr : proto) (p : lset -> option A) (f : opt -> option A) (ok : opt -> bool) :
  (forall s o, ok o = true -> p (log_apply_opt pr s o) = keep f (p s) o) ->
  forall l s, forallb ok l = true -> p (fold_left (log_apply_opt pr) l s) = fold_left (keep f) l (p s).
Proof.
  intros Hstep. induction l as [|o l IH]; intros s H; cbn; [reflexivity|].
  cbn in H. apply andb_true_iff in H as [H1 H2]. now rewrite IH, Hstep.
Qed.

Lemma log_getenv_first {A} (conv : bytes -> option A) spec gen :
  log_getenv conv spec gen = first_of (if present spec then conv spec else None) (if present gen then conv gen else None).
Proof. unfold log_getenv, first_of, present. destruct spec, gen; cbn; try reflexivity; now destruct (conv _). Qed.

Lemma or_resolve {A} (o s g : option A) d : or_dflt (or_else o (first_of s g)) d = resolve o s g d.
Proof. destruct o, s, g; reflexivity. Qed.

Lemma log_headers_rd v : log_headers v = rd_entries (split_on 44 v) [].
Proof.
  unfold log_headers. generalize (@nil (bytes * bytes)) as m.
  assert (N : forall es, fold_left (fun (acc : option hmap) e => match acc, header_entry e with
                                                    | Some m, Some (k, x) => Some (hset m k x)
                                                    | _, _ => None end) es None = None).
  { induction es; cbn; auto. }
  induction (split_on 44 v) as [|e es IH]; intros m; cbn; [reflexivity|].
  destruct (header_entry e) as [[k x]|]; [apply IH | apply N].
Qed.

Lemma log_comp_rd v : present v = true -> log_comp v = rd_comp v.
Proof.
  unfold log_comp, rd_comp, present. destruct v; [discriminate|]. intros _. cbn [is_nil]. now rewrite orb_false_r.
Qed.

Lemma log_http_insec_rd spec gen :
  log_getenv log_http_insec spec gen = first_of (rd_insecure spec) (rd_insecure gen).
Proof. rewrite log_getenv_first. unfold rd_insecure, rd_url, log_http_insec. destruct (present spec), (present gen); reflexivity. Qed.
Lemma log_grpc_insec_rd spec gen : env_scheme_ok spec = true -> env_scheme_ok gen = true ->
  log_grpc_insec_ep spec gen = first_of (rd_insecure spec) (rd_insecure gen).
Proof.
  unfold log_grpc_insec_ep, rd_insecure, env_scheme_ok, rd_url, present. intros G1 G2.
  destruct spec as [|c s]; cbn [is_nil negb].
  - destruct gen as [|d g]; cbn [is_nil negb option_map first_of]; [reflexivity|].
    destruct (parse_url (d :: g)) as [u|]; [|reflexivity]. cbn. now apply insecure_from_scheme_plain.
  - destruct (parse_url (c :: s)) as [u|]; cbn [option_map first_of].
    + now apply insecure_from_scheme_plain.
    + destruct gen as [|d g]; cbn [is_nil negb option_map]; [reflexivity|].
      destruct (parse_url (d :: g)) as [u|]; [|reflexivity]. cbn. now apply insecure_from_scheme_plain.
Qed.

Lemma log_settings pr opts e :
  let c := log_config pr opts e in
  c_tmo c = exp_tmo opts e /\ c_gzip c = exp_gzip pr opts e /\ c_hdrs c = exp_hdrs opts e /\ c_host c = exp_host pr opts e /\
  (schemes_ok opts e = true -> c_insec c = exp_insecure pr opts e).
Proof.
  cbn zeta.
  assert (Base : forall s, s = fold_left (log_apply_opt pr) opts lset0 ->
    l_tmo s = last_some opt_tmo opts /\ l_gzip s = last_some opt_gzip opts /\ l_hdrs s = last_some opt_hdrs opts /\
    l_host s = last_some opt_host opts /\ l_conn s = last_some opt_conn opts /\
    (forallb opt_scheme_ok opts = true -> l_insec s = last_some opt_insecure opts)).
  { intros s ->. rewrite (fold_log_field pr l_tmo opt_tmo (log_opt_tmo pr)), (fold_log_field pr l_gzip opt_gzip (log_opt_gzip pr)),
      (fold_log_field pr l_hdrs opt_hdrs (log_opt_hdrs pr)), (fold_log_field pr l_host opt_host (log_opt_host pr)),
      (fold_log_field pr l_conn opt_conn (log_opt_conn pr)).
    repeat split; try reflexivity. intros G.
    now rewrite (fold_log_field_ok pr l_insec opt_insecure opt_scheme_ok (log_opt_insec pr) opts lset0 G). }
  unfold log_config. set (s := fold_left (log_apply_opt pr) opts lset0).
  destruct (Base s eq_refl) as (B1 & B2 & B3 & B4 & B5 & B6).
  assert (Ht : or_dflt (or_else (l_tmo s) (log_getenv log_dur (spec_tmo e) (gen_tmo e))) default_timeout_ns = exp_tmo opts e).
  { rewrite B1, log_getenv_first, or_resolve. reflexivity. }
  assert (Hg : or_dflt (or_else (l_gzip s) (log_getenv log_comp (spec_comp e) (gen_comp e))) false =
               resolve (last_some opt_gzip opts) (rd_comp (spec_comp e)) (rd_comp (gen_comp e)) false).
  { rewrite B2, log_getenv_first, or_resolve. f_equal.
    - destruct (present (spec_comp e)) eqn:P; [now rewrite log_comp_rd|]. destruct (spec_comp e); [reflexivity|discriminate].
    - destruct (present (gen_comp e)) eqn:P; [now rewrite log_comp_rd|]. destruct (gen_comp e); [reflexivity|discriminate]. }
  assert (Hh : or_dflt (or_else (l_hdrs s) (log_getenv log_headers (spec_hdr e) (gen_hdr e))) [] = exp_hdrs opts e).
  { rewrite B3, log_getenv_first, or_resolve. unfold exp_hdrs, rd_headers. now rewrite !log_headers_rd. }
  assert (Hho : or_dflt (or_else (l_host s) (log_getenv (fun v => option_map u_host (parse_url v)) (spec_ep e) (gen_ep e))) (default_host pr) =
                resolve (last_some opt_host opts) (rd_host (spec_ep e)) (rd_host (gen_ep e)) (default_host pr)).
  { rewrite B4, log_getenv_first, or_resolve. unfold rd_host, rd_url.
    destruct (present (spec_ep e)), (present (gen_ep e)); reflexivity. }
  unfold exp_gzip, exp_host, exp_insecure, user_conn.
  destruct pr; cbn [c_tmo c_gzip c_hdrs c_host c_insec].
  - repeat split; auto. intros S. destruct (schemes_ok_inv _ _ S) as (S0 & _).
    rewrite (B6 S0), log_http_insec_rd, or_resolve. reflexivity.
  - unfold use_conn. cbn [c_conn]. rewrite B5. destruct (last_some opt_conn opts); cbn [c_tmo c_gzip c_hdrs c_host c_insec set_insec set_gzip set_host].
    + repeat split; auto.
    + repeat split; auto. intros S. destruct (schemes_ok_inv _ _ S) as (S0 & S1 & S2 & N1 & N2).
      rewrite (B6 S0), N1, N2, (log_grpc_insec_rd _ _ S1 S2).
      destruct (last_some opt_insecure opts), (rd_insecure (spec_ep e)), (rd_insecure (gen_ep e)); reflexivity.
Qed.

Lemma log_path opts e : path_inputs_ok opts e = true ->
  c_path (log_config PHttp opts e) = exp_path FLog opts e.
Proof.
  intros G. unfold path_inputs_ok in G.
  apply andb_true_iff in G as [G Gp]. apply andb_true_iff in G as [G Ag]. apply andb_true_iff in G as [G As].
  unfold log_config. cbn [c_path]. rewrite (fold_log_field PHttp l_path opt_path log_opt_path).
  cbn [lset0 l_path]. rewrite <- last_some_fold. unfold exp_path.
  destruct (last_some opt_path opts) as [p|] eqn:L; cbn [or_else or_dflt resolve].
  - pose proof (last_some_tidy _ _ G L) as Tp. destruct (tidy_inv _ Tp) as [_ [r [-> _]]]. reflexivity.
  - assert (W : forall x : bytes, is_nil x || starts_with [47] x = true -> x <> [] -> wire_path x = x).
    { intros [|c x] Hx Hn; [congruence|]. cbn [is_nil starts_with orb] in Hx. rewrite andb_true_r in Hx. apply N.eqb_eq in Hx. subst c. reflexivity. }
    assert (Wg : forall u,
                 (let q := strip_slash (u_path u) in is_nil q || (tidy q && negb (bytes_eqb q [47]))) = true ->
                 wire_path (trim_right_slash (u_path u) ++ sig_path FLog) = strip_slash (u_path u) ++ sig_path FLog).
    { intros u Hu. rewrite (trim_right_plain _ Hu). cbn zeta in Hu. apply orb_true_iff in Hu as [Hu | Hu].
      - destruct (strip_slash (u_path u)); [reflexivity|discriminate].
      - apply andb_true_iff in Hu as [Hu _]. destruct (tidy_inv _ Hu) as [_ [r [-> _]]]. reflexivity. }
    rewrite !log_getenv_first. unfold rd_path_specific, rd_path_generic, rd_url, ep_path_abs, gen_path_plain, rd_url in *.
    cbn [present is_nil negb first_of].
    destruct (present (spec_ep e)); [destruct (parse_url (spec_ep e)) as [u|]|]; cbn [option_map first_of or_else or_dflt].
    + destruct (u_path u) as [|c x] eqn:P; cbn [is_nil]; [reflexivity|]. rewrite <- P in *. apply W; [exact As|]. rewrite P. discriminate.
    + destruct (present (gen_ep e)); [destruct (parse_url (gen_ep e)) as [u|]|]; cbn [option_map first_of or_else or_dflt]; try reflexivity.
      now apply Wg.
    + destruct (present (gen_ep e)); [destruct (parse_url (gen_ep e)) as [u|]|]; cbn [option_map first_of or_else or_dflt]; try reflexivity.
      now apply Wg.
Qed.

(** * all six exporters *)
Lemma sig_tidy f : tidy (sig_path f) = true /\ sig_path f <> [47].
Proof. destruct f; split; vm_compute; congruence. Qed.

Definition grpc_guard (pr : proto) (e : env) : Prop :=
  pr = PGrpc -> grpc_target_plain (spec_ep e) = true /\ grpc_target_plain (gen_ep e) = true.

Lemma precedence f pr opts e : env_trimmed e = true ->
  let c := exporter_config f pr opts e in
  (grpc_guard pr e -> c_host c = exp_host pr opts e) /\
  (pr = PHttp -> path_inputs_ok opts e = true -> path_shape_uniform f opts e = true -> c_path c = exp_path f opts e) /\
  (hdrs_wellformed f e = true -> c_hdrs c = exp_hdrs opts e) /\
  (comp_wellformed f e = true -> c_gzip c = exp_gzip pr opts e) /\
  c_tmo c = exp_tmo opts e /\
  (schemes_ok opts e = true -> c_insec c = exp_insecure pr opts e).
Proof.
  intros T. cbn zeta.
  assert (TM : forall sig, f <> FLog -> sig = sig_path f ->
     let c := tm_config pr sig opts e in
     (grpc_guard pr e -> c_host c = exp_host pr opts e) /\
     (pr = PHttp -> path_inputs_ok opts e = true -> path_shape_uniform f opts e = true -> c_path c = exp_path f opts e) /\
     (hdrs_wellformed f e = true -> c_hdrs c = exp_hdrs opts e) /\
     (comp_wellformed f e = true -> c_gzip c = exp_gzip pr opts e) /\
     c_tmo c = exp_tmo opts e /\
     (schemes_ok opts e = true -> c_insec c = exp_insecure pr opts e)).
  { intros sig Hf ->. destruct (tm_settings pr (sig_path f) opts e T) as (Ht & Hg & Hh & Hhost & Hins). cbn zeta.
    destruct (sig_tidy f) as [S1 S2]. repeat split; auto.
    - intros Hp G S. unfold exp_path. apply tm_path; auto. unfold path_shape_uniform in S. destruct f; congruence.
    - intros W. rewrite Hh. unfold exp_hdrs, hdrs_wellformed in *. destruct f; try congruence;
        apply andb_true_iff in W as [W1 W2]; now rewrite (doc_headers_wf _ W1), (doc_headers_wf _ W2).
    - intros W. rewrite Hg. unfold exp_gzip, comp_wellformed in *. destruct (user_conn pr opts); [reflexivity|].
      destruct f; try congruence;
        apply andb_true_iff in W as [W1 W2]; now rewrite (doc_comp_wf _ W1), (doc_comp_wf _ W2). }
  destruct f.
  - apply (TM (sig_path FTrace)); [discriminate|reflexivity].
  - apply (TM (sig_path FMetric)); [discriminate|reflexivity].
  - unfold exporter_config. destruct (log_settings pr opts e) as (Ht & Hg & Hh & Hhost & Hins).
    repeat split; auto. intros -> G _. now apply log_path.
Qed.

(** ** unparsable values are ignored (or have their documented meaning) *)
Lemma rd_blank {A} (rd : bytes -> option A) v : rd [] = None -> rd (blank_unless rd v) = rd v.
Proof. intros H. unfold blank_unless. destruct (rd v) eqn:E; [exact E | now rewrite H]. Qed.

Lemma trimmed_blank {A} (rd : bytes -> option A) v : trimmed v = true -> trimmed (blank_unless rd v) = true.
Proof. unfold blank_unless. destruct (rd v); auto. Qed.

Lemma scrub_trimmed e : env_trimmed e = true -> env_trimmed (scrub e) = true.
Proof.
  intros T. destruct (env_trimmed_inv _ T) as (T1 & T2 & T3 & T4 & T5 & T6 & T7 & T8).
  unfold env_trimmed, scrub. cbn. now rewrite !trimmed_blank.
Qed.

Lemma rd_host_blank v : rd_host (blank_unless rd_url v) = rd_host v.
Proof. unfold rd_host. now rewrite rd_blank. Qed.

Lemma grpc_plain_blank v : grpc_target_plain v = true -> grpc_target_plain (blank_unless rd_url v) = true.
Proof. unfold grpc_target_plain. now rewrite rd_blank. Qed.

Lemma exp_scrub pr opts e :
  exp_tmo opts (scrub e) = exp_tmo opts e /\ exp_host pr opts (scrub e) = exp_host pr opts e /\
  exp_gzip pr opts (scrub e) = exp_gzip pr opts e /\ exp_hdrs opts (scrub e) = exp_hdrs opts e.
Proof.
  unfold exp_tmo, exp_host, exp_gzip, exp_hdrs, scrub. cbn.
  now rewrite !rd_host_blank, !(rd_blank rd_timeout), !(rd_blank rd_comp), !(rd_blank rd_headers).
Qed.

Lemma wellformed_scrub f e : comp_wellformed f (scrub e) = true /\ hdrs_wellformed f (scrub e) = true.
Proof.
  assert (W : forall {A} (rd : bytes -> option A) v, rd [] = None -> absent_or rd (blank_unless rd v) = true).
  { intros A rd v H. unfold absent_or, blank_unless. destruct (rd v) eqn:E; [rewrite E; apply orb_true_r | reflexivity]. }
  unfold comp_wellformed, hdrs_wellformed, scrub. destruct f; cbn; rewrite ?W; auto.
Qed.

Lemma invalid_ignored f pr opts e : env_trimmed e = true -> grpc_guard pr e ->
  let c := exporter_config f pr opts e in
  let c' := exporter_config f pr opts (scrub e) in
  c_tmo c = c_tmo c' /\ c_host c = c_host c' /\
  (f = FLog -> c_gzip c = c_gzip c' /\ c_hdrs c = c_hdrs c') /\
  (f <> FLog ->
   c_gzip c = match user_conn pr opts with
              | Some _ => false
              | None => resolve (last_some opt_gzip opts) (doc_comp (spec_comp e)) (doc_comp (gen_comp e)) false
              end /\
   c_hdrs c = resolve (last_some opt_hdrs opts) (doc_headers (spec_hdr e)) (doc_headers (gen_hdr e)) []).
Proof.
  intros T G. cbn zeta.
  destruct (precedence f pr opts e T) as (H1 & _ & H3 & H4 & H5 & _).
  destruct (precedence f pr opts (scrub e) (scrub_trimmed _ T)) as (H1' & _ & H3' & H4' & H5' & _).
  destruct (exp_scrub pr opts e) as (E1 & E2 & E3 & E4).
  destruct (wellformed_scrub f e) as [W1 W2].
  assert (G' : grpc_guard pr (scrub e)).
  { intros Hp. destruct (G Hp) as [Ga Gb]. unfold scrub; cbn. split; now apply grpc_plain_blank. }
  repeat split.
  - now rewrite H5, H5', E1.
  - now rewrite (H1 G), (H1' G'), E2.
  - subst f. now rewrite (H4 eq_refl), (H4' W1), E3.
  - subst f. now rewrite (H3 eq_refl), (H3' W2), E4.
  - destruct f; try congruence; apply (tm_settings pr _ opts e T).
  - destruct f; try congruence; apply (tm_settings pr _ opts e T).
Qed.

(** ** the path rules *)
Lemma generic_path_appended f opts e u : env_trimmed e = true -> path_inputs_ok opts e = true ->
  last_some opt_path opts = None -> rd_url (spec_ep e) = None -> rd_url (gen_ep e) = Some u ->
  c_path (exporter_config f PHttp opts e) = strip_slash (u_path u) ++ sig_path f.
Proof.
  intros T G L S Gn. destruct (precedence f PHttp opts e T) as (_ & H & _).
  rewrite H; auto.
  - unfold exp_path, rd_path_specific, rd_path_generic. now rewrite L, S, Gn.
  - unfold path_shape_uniform, spec_path_tidy, rd_path_specific. rewrite L, S. cbn. now destruct f.
Qed.

Lemma specific_path_verbatim f opts e u : env_trimmed e = true -> path_inputs_ok opts e = true ->
  last_some opt_path opts = None -> rd_url (spec_ep e) = Some u ->
  (f <> FLog -> is_nil (u_path u) || tidy (u_path u) = true) ->
  c_path (exporter_config f PHttp opts e) = (if is_nil (u_path u) then [47] else u_path u).
Proof.
  intros T G L S Ti. destruct (precedence f PHttp opts e T) as (_ & H & _).
  rewrite H; auto.
  - unfold exp_path, rd_path_specific. now rewrite L, S.
  - unfold path_shape_uniform, spec_path_tidy, rd_path_specific. rewrite L, S. cbn.
    destruct f; auto; apply Ti; discriminate.
Qed.

(** ** the recorded non-uniformities: the unguarded statements are false *)
Definition env0 : env :=
  {| gen_ep := []; spec_ep := []; gen_hdr := []; spec_hdr := []; gen_comp := []; spec_comp := []; gen_tmo := []; spec_tmo := []; gen_insec := []; spec_insec := [] |}.
Definition env_f2 : env :=
  {| gen_ep := str "http://h/"; spec_ep := []; gen_hdr := []; spec_hdr := []; gen_comp := []; spec_comp := []; gen_tmo := []; spec_tmo := []; gen_insec := []; spec_insec := [] |}.
Definition env_f3 : env :=
  {| gen_ep := []; spec_ep := str "http://h/custom/"; gen_hdr := []; spec_hdr := []; gen_comp := []; spec_comp := []; gen_tmo := []; spec_tmo := []; gen_insec := []; spec_insec := [] |}.
Definition env_f4 : env :=
  {| gen_ep := []; spec_ep := []; gen_hdr := []; spec_hdr := []; gen_comp := gzip_name; spec_comp := str "zstd"; gen_tmo := []; spec_tmo := []; gen_insec := []; spec_insec := [] |}.
Definition env_f5 : env :=
  {| gen_ep := []; spec_ep := []; gen_hdr := str "a=gen"; spec_hdr := str "garbage"; gen_comp := []; spec_comp := []; gen_tmo := []; spec_tmo := []; gen_insec := []; spec_insec := [] |}.

(** F-C20-2 is repaired (19c40b9): the old witness now satisfies the uniform statement. *)
Lemma log_generic_trailing_slash_fixed :
  c_path (exporter_config FLog PHttp [] env_f2) = str "/v1/logs" /\
  c_path (exporter_config FLog PHttp [] env_f2) = exp_path FLog [] env_f2.
Proof. split; vm_compute; reflexivity. Qed.

Lemma tm_specific_path_cleaned_refuted :
  exists e, env_trimmed e = true /\ path_inputs_ok [] e = true /\
            c_path (exporter_config FTrace PHttp [] e) <> exp_path FTrace [] e /\
            c_path (exporter_config FTrace PHttp [] e) = str "/custom" /\
            c_path (exporter_config FLog PHttp [] e) = exp_path FLog [] e.
Proof. exists env_f3. repeat split; vm_compute; congruence. Qed.

Lemma tm_unknown_compression_refuted :
  exists e, env_trimmed e = true /\
            c_gzip (exporter_config FTrace PHttp [] e) <> exp_gzip PHttp [] e /\
            c_gzip (exporter_config FLog PHttp [] e) = exp_gzip PHttp [] e.
Proof. exists env_f4. repeat split; vm_compute; congruence. Qed.

Lemma tm_malformed_headers_refuted :
  exists e, env_trimmed e = true /\
            c_hdrs (exporter_config FMetric PGrpc [] e) <> exp_hdrs [] e /\
            c_hdrs (exporter_config FLog PGrpc [] e) = exp_hdrs [] e.
Proof. exists env_f5. repeat split; vm_compute; congruence. Qed.

(** * precedence without side conditions *)
Lemma tm_env_norm pr sig f e c : f <> FLog -> tm_apply_env pr sig (norm_env f e) c = tm_apply_env pr sig e c.
Proof.
  intros Hf. assert (N : forall v, norm_val f v = trim_space v) by (destruct f; congruence || reflexivity).
  unfold tm_apply_env, norm_env. cbn [gen_ep spec_ep gen_hdr spec_hdr gen_comp spec_comp gen_tmo spec_tmo gen_insec spec_insec].
  unfold tm_env_url, tm_env_headers, tm_env_comp, tm_env_tmo, tm_env_insec. rewrite !N, !tm_getenv_trim. reflexivity.
Qed.
Lemma tm_config_norm pr sig f opts e : f <> FLog -> tm_config pr sig opts (norm_env f e) = tm_config pr sig opts e.
Proof. intros Hf. unfold tm_config. now rewrite tm_env_norm. Qed.
Lemma norm_trimmed f e : f <> FLog -> env_trimmed (norm_env f e) = true.
Proof.
  intros Hf. assert (N : forall v, norm_val f v = trim_space v) by (destruct f; congruence || reflexivity).
  unfold env_trimmed, norm_env. cbn. now rewrite !N, !trimmed_trim.
Qed.

Lemma env_target_gen f pr sig c v : f <> FLog -> trimmed v = true ->
  c_host (tm_env_url (tm_gen_endpoint pr sig) c v) = sel (rd_target f pr v) (c_host c).
Proof.
  intros Hf T. unfold tm_env_url, rd_target, rd_url. rewrite (tm_getenv_trimmed _ T).
  destruct (present v); [|reflexivity]. destruct (parse_url v); [|reflexivity]. destruct f, pr; congruence || reflexivity.
Qed.
Lemma env_target_spec f pr c v : f <> FLog -> trimmed v = true ->
  c_host (tm_env_url (tm_spec_endpoint pr) c v) = sel (rd_target f pr v) (c_host c).
Proof.
  intros Hf T. unfold tm_env_url, rd_target, rd_url. rewrite (tm_getenv_trimmed _ T).
  destruct (present v); [|reflexivity]. destruct (parse_url v); [|reflexivity]. destruct f, pr; congruence || reflexivity.
Qed.

Lemma tm_unguarded f pr opts e : f <> FLog -> env_trimmed e = true ->
  let c := tm_config pr (sig_path f) opts e in
  c_host c = gen_host f pr opts e /\ (pr = PHttp -> c_path c = gen_path f opts e).
Proof.
  intros Hf T. destruct (env_trimmed_inv _ T) as (T1 & T2 & _). cbn zeta. split.
  - unfold tm_config, gen_host, user_conn.
    assert (H : c_host (fold_left tm_apply_opt opts (tm_apply_env pr (sig_path f) e (tm_default pr (sig_path f)))) =
                resolve (last_some opt_host opts) (rd_target f pr (spec_ep e)) (rd_target f pr (gen_ep e)) (default_host pr)).
    { rewrite (fold_opts_field c_host opt_host tm_opt_host). unfold tm_apply_env.
      rewrite !tmo_keeps, !comp_keeps, !hdrs_keeps, !insec_keeps by reflexivity.
      rewrite (env_target_spec f), (env_target_gen f) by assumption.
      destruct (last_some opt_host opts), (rd_target f pr (spec_ep e)), (rd_target f pr (gen_ep e)); reflexivity. }
    destruct pr; cbn [c_host set_path]; [exact H|].
    unfold use_conn. rewrite tm_fold_conn. destruct (last_some opt_conn opts); [reflexivity | exact H].
  - intros ->. unfold tm_config, gen_path. cbn [c_path set_path].
    rewrite (fold_opts_field c_path opt_path tm_opt_path), tm_env_path_field by assumption.
    cbn [tm_default c_path].
    replace (fam_gen_path f (gen_ep e)) with (tm_gen_path (sig_path f) (gen_ep e)) by (unfold fam_gen_path, tm_gen_path; destruct f; congruence || reflexivity).
    rewrite (resolve_sel (last_some opt_path opts)). destruct f; congruence || reflexivity.
Qed.

Lemma log_unguarded pr opts e :
  let c := log_config pr opts e in
  c_host c = gen_host FLog pr opts e /\ (pr = PHttp -> c_path c = gen_path FLog opts e).
Proof.
  cbn zeta. split.
  - destruct (log_settings pr opts e) as (_ & _ & _ & H & _). rewrite H. unfold exp_host, gen_host, rd_target, rd_host.
    destruct (user_conn pr opts); [reflexivity|]. f_equal; destruct (rd_url _); destruct pr; reflexivity.
  - intros ->. unfold log_config, gen_path. cbn [c_path]. rewrite (fold_log_field PHttp l_path opt_path log_opt_path).
    cbn [lset0 l_path]. rewrite <- last_some_fold, !log_getenv_first.
    unfold rd_path_specific, fam_gen_path, rd_url. cbn [present is_nil negb first_of fam_path_final wire_path].
    destruct (last_some opt_path opts); cbn [or_else or_dflt resolve]; [reflexivity|].
    destruct (present (spec_ep e)); [destruct (parse_url (spec_ep e))|]; cbn [option_map first_of or_else or_dflt];
      try reflexivity; destruct (present (gen_ep e)); [destruct (parse_url (gen_ep e))| | destruct (parse_url (gen_ep e))|]; reflexivity.
Qed.

Lemma precedence_unguarded f pr opts e :
  let c := exporter_config f pr opts e in
  let e' := norm_env f e in
  c_tmo c = exp_tmo opts e' /\ c_host c = gen_host f pr opts e' /\ (pr = PHttp -> c_path c = gen_path f opts e').
Proof.
  cbn zeta. destruct f.
  - unfold exporter_config. rewrite <- (tm_config_norm pr _ FTrace) by discriminate.
    destruct (tm_settings pr (sig_path FTrace) opts _ (norm_trimmed FTrace e ltac:(discriminate))) as (H & _).
    destruct (tm_unguarded FTrace pr opts _ ltac:(discriminate) (norm_trimmed FTrace e ltac:(discriminate))) as (H1 & H2). auto.
  - unfold exporter_config. rewrite <- (tm_config_norm pr _ FMetric) by discriminate.
    destruct (tm_settings pr (sig_path FMetric) opts _ (norm_trimmed FMetric e ltac:(discriminate))) as (H & _).
    destruct (tm_unguarded FMetric pr opts _ ltac:(discriminate) (norm_trimmed FMetric e ltac:(discriminate))) as (H1 & H2). auto.
  - unfold exporter_config. destruct (log_settings pr opts e) as (H & _). destruct (log_unguarded pr opts e) as (H1 & H2).
    replace (norm_env FLog e) with e by (destruct e; reflexivity). auto.
Qed.

(** The conventions differ between the families: the side conditions of [precedence] cannot
    simply be dropped from the UNIFORM statement. *)
Definition env_pad : env :=
  {| gen_ep := []; spec_ep := []; gen_hdr := []; spec_hdr := []; gen_comp := []; spec_comp := [];
     gen_tmo := str " 150"; spec_tmo := []; gen_insec := []; spec_insec := [] |}.
Definition env_grpc_path : env :=
  {| gen_ep := str "http://h:1/x"; spec_ep := []; gen_hdr := []; spec_hdr := []; gen_comp := []; spec_comp := [];
     gen_tmo := []; spec_tmo := []; gen_insec := []; spec_insec := [] |}.
Lemma padded_value_refuted :
  c_tmo (exporter_config FTrace PHttp [] env_pad) = 150000000%Z /\
  c_tmo (exporter_config FLog PHttp [] env_pad) = default_timeout_ns /\
  c_tmo (exporter_config FLog PHttp [] env_pad) <> exp_tmo [] (norm_env FTrace env_pad).
Proof. repeat split; vm_compute; congruence. Qed.
Lemma grpc_url_path_refuted :
  c_host (exporter_config FTrace PGrpc [] env_grpc_path) = str "h:1/x" /\
  c_host (exporter_config FLog PGrpc [] env_grpc_path) = str "h:1" /\
  c_host (exporter_config FTrace PGrpc [] env_grpc_path) <> exp_host PGrpc [] env_grpc_path.
Proof. repeat split; vm_compute; congruence. Qed.
Lemma option_path_conventions_differ :
  c_path (exporter_config FTrace PHttp [OURLPath (str "custom/")] env0) = str "/custom" /\
  c_path (exporter_config FLog PHttp [OURLPath (str "custom/")] env0) = str "/custom/" /\
  c_path (exporter_config FMetric PHttp [OEndpointURL (str "http://h")] env0) = str "/v1/metrics" /\
  c_path (exporter_config FLog PHttp [OEndpointURL (str "http://h")] env0) = str "/".
Proof. repeat split; vm_compute; reflexivity. Qed.

(** * SDK settings *)
Open Scope Z_scope.

Lemma int_env_or_rd v d : int_env_or v d = get_or (rd_int v) d.
Proof. unfold int_env_or, rd_int, present. destruct v; reflexivity. Qed.

Ltac split_ifs :=
  repeat match goal with
         | |- context [if ?b then _ else _] => let E := fresh "E" in destruct b eqn:E
         | H : context [if ?b then _ else _] |- _ => let E := fresh "E" in destruct b eqn:E
         end.

Lemma bsp_ok i :
  let o := bsp_config i in
  bsp_sizes_ok i (bo_queue o) (bo_batch o) = true /\
  bo_delay o = dur_expected (b_opt_delay i) (b_env_delay i) 5000 /\
  bo_export o = dur_expected (b_opt_export i) (b_env_export i) 30000.
Proof.
  cbn zeta. unfold bsp_config, bsp_sizes_ok, bsp_queue_expected, dur_expected, size_or_default, nonneg,
    bsp_dflt_queue, bsp_dflt_batch, bsp_dflt_delay_ms, bsp_dflt_export_ms, or_dflt.
  cbn [bo_queue bo_batch bo_delay bo_export]. rewrite !int_env_or_rd.
  repeat split.
  destruct (b_opt_queue i) as [oq|], (b_opt_batch i) as [ob|];
    destruct (rd_int (b_env_queue i)) as [eq|], (rd_int (b_env_batch i)) as [eb|]; cbn [get_or];
    split_ifs; lia.
Qed.

Lemma bsp_batch_pinned i b :
  bsp_batch_expected i (bo_queue (bsp_config i)) = Some b -> bo_batch (bsp_config i) = b.
Proof.
  destruct (bsp_ok i) as [H _]. cbn zeta in H. revert H.
  generalize (bo_queue (bsp_config i)) as q, (bo_batch (bsp_config i)) as bb. intros q bb.
  unfold bsp_sizes_ok, bsp_batch_expected, nonneg.
  destruct (b_opt_batch i) as [x|].
  - intros H [= <-]. split_ifs; lia.
  - destruct (rd_int (b_env_batch i)) as [x|]; destruct (get_or (rd_int (b_env_queue i)) 2048 <? 0) eqn:E;
      intros H Hb; try discriminate.
    + destruct ((0 <=? x) && (x <=? get_or (rd_int (b_env_queue i)) 2048)) eqn:E2; [|discriminate].
      injection Hb as <-. lia.
    + injection Hb as <-. lia.
Qed.

Lemma bsp_nonneg i :
  let o := bsp_config i in
  0 <= bo_queue o /\ 0 <= bo_batch o /\
  (b_opt_queue i = None -> b_opt_batch i = None -> bo_batch o <= bo_queue o) /\
  bo_queue o = bsp_queue_expected (b_opt_queue i) (b_env_queue i) /\
  (forall x, b_opt_batch i = Some x -> 0 <= x -> bo_batch o = x).
Proof.
  cbn zeta. destruct (bsp_ok i) as [H _]. cbn zeta in H. unfold bsp_sizes_ok in H.
  repeat split; try (intros); try lia.
  - rewrite H0, H1 in H. split_ifs; lia.
  - rewrite H0 in H. split_ifs; lia.
Qed.

Lemma clear_atleast o : clear_lt1 o = atleast1 o.
Proof. reflexivity. Qed.
Lemma blrp_resolve_size o v : blrp_resolve o v = blrp_size o v.
Proof.
  unfold blrp_resolve, blrp_size, blrp_getenv, clear_lt1, atleast1, first_of, rd_int, present.
  destruct o as [x|]; [destruct (x <? 1) eqn:E|]; cbn; rewrite ?E; destruct v; reflexivity.
Qed.
Lemma blrp_ok i : blrp_config i = blrp_expected i.
Proof. unfold blrp_config, blrp_expected, or_dflt, get_or. now rewrite !blrp_resolve_size. Qed.
Lemma atleast1_ge o x : atleast1 o = Some x -> 1 <= x.
Proof. unfold atleast1. destruct o as [v|]; [|discriminate]. destruct (v <? 1) eqn:E; [discriminate|]. intros [= <-]. lia. Qed.
Lemma blrp_size_ge1 o v x : blrp_size o v = Some x -> 1 <= x.
Proof. unfold blrp_size, first_of. destruct (atleast1 o) eqn:E; [intros [= <-]; eauto using atleast1_ge | apply atleast1_ge]. Qed.
Lemma blrp_bounds i : let '(q, b) := blrp_config i in
  1 <= q /\ 1 <= b /\ (blrp_size (r_opt_batch i) (r_env_batch i) <> None -> b <= q).
Proof.
  rewrite blrp_ok. unfold blrp_expected, get_or.
  destruct (blrp_size (r_opt_queue i) (r_env_queue i)) as [q|] eqn:Q;
    destruct (blrp_size (r_opt_batch i) (r_env_batch i)) as [b|] eqn:B;
    try (apply blrp_size_ge1 in Q); try (apply blrp_size_ge1 in B); repeat split; try lia; congruence.
Qed.
Lemma blrp_export_ok i : blrp_export_timeout i = blrp_export_expected i /\ 1 <= blrp_export_timeout i.
Proof.
  unfold blrp_export_timeout, blrp_export_expected, blrp_dur_getenv, clear_lt1, atleast1, first_of, get_or, or_dflt, rd_int, present.
  destruct (r_opt_export i) as [x|]; [destruct (x <? 1) eqn:E|]; cbn; rewrite ?E;
    destruct (r_env_export i) as [|c v]; cbn [is_nil negb option_map]; try (split; [reflexivity|lia]);
    destruct (atoi (c :: v)) as [n|]; cbn [option_map]; try (split; [reflexivity|lia]);
    destruct (ms_to_ns n <? 1) eqn:E2; split; try reflexivity; lia.
Qed.
Lemma deadline_same t : export_deadline t = deadline_expected t.
Proof. reflexivity. Qed.

Lemma first_int_rd a b d : first_int d [a; b] = rd_limit2 a b d.
Proof. unfold first_int, rd_limit2, present, get_or. destruct a, b; reflexivity. Qed.
Lemma new_limits_rd e : new_span_limits e = limits_from_env e.
Proof. unfold new_span_limits, limits_from_env, rd_limit1. now rewrite !first_int_rd, !int_env_or_rd. Qed.
Lemma pos_or_legacy v d : pos_or v d = legacy_field v d.
Proof. unfold pos_or, legacy_field. destruct (v <=? 0) eqn:E1, (0 <? v) eqn:E2; try reflexivity; lia. Qed.
Lemma apply_limits_of cur o : apply_limits_opt cur o = limits_of_opt o.
Proof. destruct o; [reflexivity|]. unfold apply_limits_opt, legacy_limits, limits_of_opt. now rewrite !pos_or_legacy. Qed.
Lemma span_limits_ok opts e : span_limits opts e = limits_expected opts e.
Proof.
  unfold span_limits, limits_expected. rewrite new_limits_rd. generalize (limits_from_env e) as init.
  induction opts as [|o l IH] using rev_ind; intros init; [reflexivity|].
  rewrite fold_left_app, rev_app_distr. cbn. apply apply_limits_of.
Qed.
Lemma log_limit_ok o v d : log_limit o v d = log_limit_expected o v d.
Proof. unfold log_limit, log_limit_expected, or_dflt, or_else, get_or, first_of, rd_int, present. destruct o, v; reflexivity. Qed.

(** sampler *)
Lemma ratio_sampler_decision a p x : should_sample (ratio_sampler (trim_space a)) p x = ratio_decision (rd_ratio (Some a)) x.
Proof.
  unfold ratio_sampler, rd_ratio. destruct (parse_decimal (trim_space a)) as [[[neg n] d]|]; [|reflexivity].
  destruct (neg && (0 <? n)); [reflexivity|]. cbn [orb]. destruct (d <? n); reflexivity.
Qed.
Lemma env_ratio_decision arg p x :
  should_sample (match arg with Some a => ratio_sampler (trim_space a) | None => SRatio 1 1 end) p x
  = ratio_decision (rd_ratio arg) x.
Proof. destruct arg; [apply ratio_sampler_decision|reflexivity]. Qed.

Lemma sampler_table o name arg p x :
  should_sample (provider_sampler o name arg) p x = sampling_decision o name arg p x.
Proof.
  unfold provider_sampler, sampling_decision. destruct o as [so|]; cbn [option_map or_else or_dflt].
  - destruct so; reflexivity.
  - destruct name as [nm|]; [|destruct p; reflexivity].
    unfold sampler_from_env, classify_name.
    set (n := to_lower (trim_space nm)).
    destruct (bytes_eqb n (str "always_on")); [reflexivity|].
    destruct (bytes_eqb n (str "always_off")); [reflexivity|].
    destruct (bytes_eqb n (str "traceidratio")); [cbn [or_dflt env_decision]; apply env_ratio_decision|].
    destruct (bytes_eqb n (str "parentbased_always_on")); [destruct p; reflexivity|].
    destruct (bytes_eqb n (str "parentbased_always_off")); [destruct p; reflexivity|].
    destruct (bytes_eqb n (str "parentbased_traceidratio")).
    + cbn [or_dflt env_decision]. destruct p; cbn [should_sample follow_parent]; try reflexivity. apply env_ratio_decision.
    + destruct p; reflexivity.
Qed.
