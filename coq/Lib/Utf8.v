(** UTF-8 well-formedness (Unicode Table 3-7), a byte-level decoder in the
    style of Go's [utf8.DecodeRuneInString] (length only), and the model and
    specification of [truncate] shared by sdk/trace/span.go and
    sdk/log/record.go (properties C04 and C17).  Owner: C04/C17.  No axioms.

    Layout: (1) specification-level definitions ([wf_rune], [Scan], [runes],
    [truncate_spec]); (2) the model of the Go algorithm ([lead], [rune_len],
    [phase1], [phase2], [truncate]); (3) lemmas. *)
From Verif Require Import Lib.Base.
From Coq Require Import ZifyBool ZifyNat ZifyN.
Open Scope N_scope.

(** * 1. Specification level *)

Definition in_range (lo hi b : N) : bool := (lo <=? b) && (b <=? hi).
Definition cont (b : N) : bool := in_range 128 191 b.

(** Well-formed UTF-8 byte sequences, Unicode 15 Table 3-7 (no overlong
    forms, no surrogates, nothing above U+10FFFF). *)
Definition wf_rune (r : bytes) : bool :=
  match r with
  | [a] => a <? 128
  | [a; b] => in_range 194 223 a && cont b
  | [a; b; c] =>
      (((a =? 224) && in_range 160 191 b) || (in_range 225 236 a && cont b) ||
       ((a =? 237) && in_range 128 159 b) || (in_range 238 239 a && cont b)) && cont c
  | [a; b; c; d] =>
      (((a =? 240) && in_range 144 191 b) || (in_range 241 243 a && cont b) ||
       ((a =? 244) && in_range 128 143 b)) && cont c && cont d
  | _ => false
  end.

Definition is_prefix (r s : bytes) : Prop := exists t, s = r ++ t.

(** [Scan s rs]: reading [s] left to right, [rs] are the well-formed
    characters met, in order; a byte at which no well-formed character starts
    is passed over alone (what Go's decoder reports as RuneError, width 1). *)
Inductive Scan : bytes -> list bytes -> Prop :=
| Scan_nil : Scan [] []
| Scan_rune r rest rs : wf_rune r = true -> Scan rest rs -> Scan (r ++ rest) (r :: rs)
| Scan_bad b rest rs :
    (forall r, wf_rune r = true -> ~ is_prefix r (b :: rest)) -> Scan rest rs -> Scan (b :: rest) rs.

(** * 2. Model of the Go code *)

(** Sequence length announced by a lead byte (Go's [first] table); 0 = not a lead byte. *)
Definition lead (a : N) : nat :=
  if a <? 128 then 1
  else if in_range 194 223 a then 2
  else if in_range 224 239 a then 3
  else if in_range 240 244 a then 4
  else 0.

(** Width of the character starting [s]; 0 when [s] is empty or starts with a
    byte that Go decodes as (RuneError, 1). *)
Definition rune_len (s : bytes) : nat :=
  match s with
  | [] => 0
  | a :: _ =>
      match lead a with
      | O => O
      | S n => if wf_rune (firstn (S n) s) then S n else O
      end
  end.

(** The valid characters of [s] in order ([skip]: bytes of the current
    character still to pass). *)
Fixpoint runes_aux (skip : nat) (s : bytes) : list bytes :=
  match s with
  | [] => []
  | _ :: r =>
      match skip with
      | S k => runes_aux k r
      | O => match rune_len s with
             | O => runes_aux O r
             | S n => firstn (S n) s :: runes_aux n r
             end
      end
  end.
Definition runes (s : bytes) : list bytes := runes_aux 0 s.

(** Go's [utf8.RuneCountInString]: valid characters plus lone invalid bytes. *)
Fixpoint rune_count_aux (skip : nat) (s : bytes) : nat :=
  match s with
  | [] => 0
  | _ :: r =>
      match skip with
      | S k => rune_count_aux k r
      | O => match rune_len s with
             | O => S (rune_count_aux O r)
             | S n => S (rune_count_aux n r)
             end
      end
  end.
Definition rune_count (s : bytes) : nat := rune_count_aux 0 s.

(** truncate, second loop ("Truncate while validating UTF-8"): output of the
    loop from a character boundary with [count] characters already written. *)
Fixpoint phase2 (skip limit count : nat) (s : bytes) : bytes :=
  match s with
  | [] => []
  | a :: r =>
      match skip with
      | S k => a :: phase2 k limit count r
      | O =>
          if (limit <=? count)%nat then []
          else if a <? 128 then a :: phase2 0 limit (S count) r
          else match rune_len s with
               | 0%nat | 1%nat => phase2 0 limit count r
               | S n => a :: phase2 n limit (S count) r
               end
      end
  end.

(** truncate, first loop ([for i, c := range s]): everything before the
    character that makes the count exceed the limit; on the first invalid byte
    the prefix read so far is kept and the second loop takes over. *)
Fixpoint phase1 (skip limit count : nat) (s : bytes) : bytes :=
  match s with
  | [] => []
  | a :: r =>
      match skip with
      | S k => a :: phase1 k limit count r
      | O =>
          match rune_len s with
          | O => phase2 0 limit count s
          | S n => if (limit <? S count)%nat then [] else a :: phase1 n limit (S count) r
          end
      end
  end.

Definition truncate (limit : Z) (s : bytes) : bytes :=
  if (limit <? 0)%Z then s
  else let l := Z.to_nat limit in
       if (length s <=? l)%nat then s else phase1 0 l 0 s.

(** Specification of truncate: unchanged when unlimited or short enough in
    bytes, otherwise the first [limit] valid characters. *)
Definition truncate_spec (limit : Z) (s : bytes) : bytes :=
  if (limit <? 0)%Z then s
  else if (Z.of_nat (length s) <=? limit)%Z then s
  else concat (firstn (Z.to_nat limit) (runes s)).

(** * 3. Lemmas *)

Lemma wf_rune_lead a r : wf_rune (a :: r) = true -> lead a = length (a :: r).
Proof.
  destruct r as [|b [|c [|d [|e r]]]]; cbn [wf_rune length]; unfold lead, in_range, cont; intro H;
    try discriminate;
    repeat match goal with |- context [if ?c then _ else _] => destruct c eqn:? end; lia.
Qed.

Lemma wf_rune_nonempty r : wf_rune r = true -> r <> [].
Proof. destruct r; [discriminate | congruence]. Qed.

Lemma wf_rune_length r : wf_rune r = true -> (1 <= length r <= 4)%nat.
Proof. destruct r as [|a [|b [|c [|d [|e r]]]]]; cbn; intro; try discriminate; lia. Qed.

Lemma rune_len_wf_app r rest : wf_rune r = true -> rune_len (r ++ rest) = length r.
Proof.
  intro H. destruct r as [|a r]; [discriminate|].
  pose proof (wf_rune_lead _ _ H) as L. cbn [app rune_len]. rewrite L. cbn [length].
  change (a :: r ++ rest) with ((a :: r) ++ rest).
  replace (S (length r)) with (length (a :: r) + 0)%nat by (cbn; lia).
  rewrite firstn_app_2. cbn [firstn]. rewrite app_nil_r, H. cbn; lia.
Qed.

Lemma rune_len_S s n : rune_len s = S n ->
  wf_rune (firstn (S n) s) = true /\ length (firstn (S n) s) = S n.
Proof.
  destruct s as [|a s]; [discriminate|]. unfold rune_len.
  destruct (lead a) as [|m] eqn:L; [discriminate|].
  destruct (wf_rune (firstn (S m) (a :: s))) eqn:W; [|discriminate].
  intro E; injection E as <-. split; [exact W|].
  cbn [firstn] in *. apply wf_rune_lead in W. cbn [length] in *. lia.
Qed.

Lemma rune_len_split s n : rune_len s = S n ->
  exists r rest, s = r ++ rest /\ wf_rune r = true /\ length r = S n.
Proof.
  intro H. apply rune_len_S in H as [W L].
  exists (firstn (S n) s), (skipn (S n) s). now rewrite firstn_skipn.
Qed.

Lemma rune_len_0_no_prefix b rest : rune_len (b :: rest) = 0%nat ->
  forall r, wf_rune r = true -> ~ is_prefix r (b :: rest).
Proof.
  intros H r W [t E]. rewrite E in H. rewrite rune_len_wf_app in H by exact W.
  apply wf_rune_length in W. lia.
Qed.

Lemma runes_aux_skip l : forall k rest, length l = k -> runes_aux k (l ++ rest) = runes_aux 0 rest.
Proof.
  induction l as [|a l IH]; intros k rest E; cbn in E; subst k; [reflexivity|].
  cbn [app runes_aux length]. now apply IH.
Qed.

Lemma runes_wf_app r rest : wf_rune r = true -> runes (r ++ rest) = r :: runes rest.
Proof.
  intro H. pose proof (rune_len_wf_app r rest H) as L.
  destruct r as [|a r]; [discriminate|]. unfold runes. cbn [app] in *. cbn [runes_aux].
  rewrite L. cbn [length]. f_equal.
  - change (a :: r ++ rest) with ((a :: r) ++ rest).
    replace (S (length r)) with (length (a :: r) + 0)%nat by (cbn; lia).
    rewrite firstn_app_2. cbn [firstn]. now rewrite app_nil_r.
  - now apply runes_aux_skip.
Qed.

Lemma runes_bad a r : rune_len (a :: r) = 0%nat -> runes (a :: r) = runes r.
Proof. intro H. unfold runes. cbn [runes_aux]. now rewrite H. Qed.

(** Induction principle following the decoder. *)
Lemma bytes_scan_ind (P : bytes -> Prop) :
  P [] ->
  (forall a r, rune_len (a :: r) = 0%nat -> P r -> P (a :: r)) ->
  (forall r rest, wf_rune r = true -> P rest -> P (r ++ rest)) ->
  forall s, P s.
Proof.
  intros H0 Hb Hr s.
  assert (G : forall n s, (length s <= n)%nat -> P s).
  { induction n as [|n IH]; intros t L.
    - destruct t; [exact H0 | cbn in L; lia].
    - destruct t as [|a t]; [exact H0|].
      destruct (rune_len (a :: t)) as [|m] eqn:E.
      + apply Hb; [exact E|]. apply IH. cbn in L; lia.
      + apply rune_len_split in E as (r & rest & E1 & W & Lr). rewrite E1. apply Hr; [exact W|].
        apply IH. rewrite E1 in L. rewrite app_length in L. lia. }
  apply (G (length s)). lia.
Qed.

Lemma runes_scan s : Scan s (runes s).
Proof.
  induction s as [|a r H IH|r rest W IH] using bytes_scan_ind.
  - constructor.
  - rewrite runes_bad by exact H. apply Scan_bad; [now apply rune_len_0_no_prefix | exact IH].
  - rewrite runes_wf_app by exact W. now constructor.
Qed.

(** Two well-formed characters that are both prefixes of one string are equal. *)
Lemma wf_prefix_unique r1 r2 t1 t2 :
  wf_rune r1 = true -> wf_rune r2 = true -> r1 ++ t1 = r2 ++ t2 -> r1 = r2 /\ t1 = t2.
Proof.
  intros W1 W2 E.
  pose proof (rune_len_wf_app r1 t1 W1) as L1. pose proof (rune_len_wf_app r2 t2 W2) as L2.
  rewrite E in L1. rewrite L1 in L2.
  assert (E1 : firstn (length r1) (r1 ++ t1) = firstn (length r1) (r2 ++ t2)) by now rewrite E.
  rewrite L2 in E1 at 2.
  replace (length r1) with (length r1 + 0)%nat in E1 at 1 by lia.
  replace (length r2) with (length r2 + 0)%nat in E1 by lia.
  rewrite !firstn_app_2 in E1. cbn [firstn] in E1. rewrite !app_nil_r in E1. subst r2.
  split; [reflexivity|]. now apply app_inv_head in E.
Qed.

Lemma scan_unique s rs : Scan s rs -> rs = runes s.
Proof.
  induction 1 as [|r rest rs W _ IH|b rest rs Hn _ IH].
  - reflexivity.
  - rewrite runes_wf_app by exact W. now f_equal.
  - destruct (rune_len (b :: rest)) as [|m] eqn:E.
    + now rewrite runes_bad.
    + apply rune_len_split in E as (r & t & E1 & W & _). exfalso. apply (Hn r W). now exists t.
Qed.

Lemma runes_wf s : Forall (fun r => wf_rune r = true) (runes s).
Proof.
  induction s as [|a r H IH|r rest W IH] using bytes_scan_ind.
  - constructor.
  - now rewrite runes_bad.
  - rewrite runes_wf_app by exact W. now constructor.
Qed.

Lemma runes_concat rs : Forall (fun r => wf_rune r = true) rs -> runes (concat rs) = rs.
Proof.
  induction 1 as [|r rs W _ IH]; [reflexivity|]. cbn [concat]. rewrite runes_wf_app by exact W. now f_equal.
Qed.

Lemma runes_length_le s : (length (runes s) <= length s)%nat.
Proof.
  induction s as [|a r H IH|r rest W IH] using bytes_scan_ind.
  - cbn; lia.
  - rewrite runes_bad by exact H. cbn [length]; lia.
  - rewrite runes_wf_app by exact W. rewrite app_length. apply wf_rune_length in W. cbn [length]. lia.
Qed.

Lemma Forall_firstn_ {A} (P : A -> Prop) n : forall l, Forall P l -> Forall P (firstn n l).
Proof.
  induction n as [|n IH]; intros l H; [constructor|].
  destruct H; cbn; constructor; auto.
Qed.

Lemma rune_count_aux_skip l : forall k rest, length l = k -> rune_count_aux k (l ++ rest) = rune_count_aux 0 rest.
Proof.
  induction l as [|a l IH]; intros k rest E; cbn in E; subst k; [reflexivity|].
  cbn [app rune_count_aux length]. now apply IH.
Qed.

Lemma rune_count_wf_app r rest : wf_rune r = true -> rune_count (r ++ rest) = S (rune_count rest).
Proof.
  intro H. pose proof (rune_len_wf_app r rest H) as L.
  destruct r as [|a r]; [discriminate|]. unfold rune_count. cbn [app] in *. cbn [rune_count_aux].
  rewrite L. cbn [length]. f_equal. now apply rune_count_aux_skip.
Qed.

(** A string made of well-formed characters only has exactly that many characters. *)
Lemma rune_count_concat rs : Forall (fun r => wf_rune r = true) rs -> rune_count (concat rs) = length rs.
Proof.
  induction 1 as [|r rs W _ IH]; [reflexivity|]. cbn [concat length]. rewrite rune_count_wf_app by exact W. now f_equal.
Qed.

Lemma rune_count_le s : (rune_count s <= length s)%nat.
Proof.
  induction s as [|a r H IH|r rest W IH] using bytes_scan_ind.
  - cbn; lia.
  - unfold rune_count in *. cbn [rune_count_aux]. rewrite H. cbn [length]. lia.
  - rewrite rune_count_wf_app by exact W. rewrite app_length. apply wf_rune_length in W. lia.
Qed.

(** ** The Go loops compute the first characters *)

Lemma phase2_skip l : forall k lim c rest, length l = k ->
  phase2 k lim c (l ++ rest) = l ++ phase2 0 lim c rest.
Proof.
  induction l as [|a l IH]; intros k lim c rest E; cbn in E; subst k; [reflexivity|].
  cbn [app phase2 length]. f_equal. now apply IH.
Qed.

Lemma phase1_skip l : forall k lim c rest, length l = k ->
  phase1 k lim c (l ++ rest) = l ++ phase1 0 lim c rest.
Proof.
  induction l as [|a l IH]; intros k lim c rest E; cbn in E; subst k; [reflexivity|].
  cbn [app phase1 length]. f_equal. now apply IH.
Qed.

Lemma lead_ascii a : (a <? 128) = true -> lead a = 1%nat.
Proof. unfold lead. now intros ->. Qed.

Lemma rune_len_ascii a r : (a <? 128) = true -> rune_len (a :: r) = 1%nat.
Proof. intro H. unfold rune_len. rewrite lead_ascii by exact H. cbn [firstn wf_rune]. now rewrite H. Qed.

Lemma phase2_correct lim s : forall c, (c <= lim)%nat ->
  phase2 0 lim c s = concat (firstn (lim - c) (runes s)).
Proof.
  induction s as [|a r H IH|r rest W IH] using bytes_scan_ind; intros c Hc.
  - cbn. now rewrite firstn_nil.
  - rewrite runes_bad by exact H. cbn [phase2].
    destruct (Nat.leb_spec lim c) as [L|L].
    + replace (lim - c)%nat with 0%nat by lia. reflexivity.
    + destruct (a <? 128) eqn:A; [rewrite rune_len_ascii in H by exact A; discriminate|].
      rewrite H. now apply IH.
  - rewrite runes_wf_app by exact W. pose proof (rune_len_wf_app r rest W) as L.
    destruct r as [|a r]; [discriminate|]. cbn [app] in *. cbn [phase2].
    destruct (Nat.leb_spec lim c) as [Lc|Lc].
    + replace (lim - c)%nat with 0%nat by lia. reflexivity.
    + replace (lim - c)%nat with (S (lim - S c)) by lia. cbn [firstn concat app].
      destruct (a <? 128) eqn:A.
      * pose proof (wf_rune_lead _ _ W) as Ll. rewrite lead_ascii in Ll by exact A.
        destruct r; [|cbn in Ll; lia]. cbn [app]. f_equal. apply IH. lia.
      * rewrite L. cbn [length].
        destruct r as [|b r].
        { cbn [wf_rune] in W. congruence. }
        cbn [length]. f_equal. rewrite phase2_skip by reflexivity. f_equal. apply IH. lia.
Qed.

Lemma phase1_correct lim s : forall c, (c <= lim)%nat ->
  phase1 0 lim c s = concat (firstn (lim - c) (runes s)).
Proof.
  induction s as [|a r H IH|r rest W IH] using bytes_scan_ind; intros c Hc.
  - cbn. now rewrite firstn_nil.
  - cbn [phase1]. rewrite H. now apply phase2_correct.
  - rewrite runes_wf_app by exact W. pose proof (rune_len_wf_app r rest W) as L.
    destruct r as [|a r]; [discriminate|]. cbn [app] in *. cbn [phase1]. rewrite L. cbn [length].
    destruct (Nat.ltb_spec lim (S c)) as [Lc|Lc].
    + replace (lim - c)%nat with 0%nat by lia. reflexivity.
    + replace (lim - c)%nat with (S (lim - S c)) by lia. cbn [firstn concat app]. f_equal.
      rewrite phase1_skip by reflexivity. f_equal. apply IH. lia.
Qed.

(** ** The truncate theorems *)

Theorem truncate_refines limit s : truncate limit s = truncate_spec limit s.
Proof.
  unfold truncate, truncate_spec. destruct (limit <? 0)%Z eqn:N; [reflexivity|].
  destruct (Nat.leb_spec (length s) (Z.to_nat limit)) as [L|L];
    destruct (Z.leb_spec (Z.of_nat (length s)) limit) as [L'|L']; try reflexivity; try lia.
  rewrite phase1_correct by lia. now rewrite Nat.sub_0_r.
Qed.

(** For every byte string and every limit >= 0 that the string exceeds in
    bytes: the result is the concatenation of the first <= limit valid
    characters of the input, in order; it re-decodes to exactly those
    characters (so no character was split and nothing invalid remains), and it
    has at most [limit] characters.  For a string within the limit the result
    is the string itself and its (Go) character count is also <= limit. *)
Theorem truncate_characterised limit s : (0 <= limit)%Z ->
  let out := truncate limit s in
  (Z.of_nat (length s) <= limit -> out = s)%Z /\
  (limit < Z.of_nat (length s) ->
     out = concat (firstn (Z.to_nat limit) (runes s)) /\
     runes out = firstn (Z.to_nat limit) (runes s))%Z /\
  Scan s (runes s) /\
  Forall (fun r => wf_rune r = true) (runes out) /\
  (rune_count out <= Z.to_nat limit)%nat.
Proof.
  intros Hl out. subst out. rewrite truncate_refines. unfold truncate_spec.
  destruct (limit <? 0)%Z eqn:N; [lia|].
  assert (F : Forall (fun r => wf_rune r = true) (firstn (Z.to_nat limit) (runes s)))
    by (apply Forall_firstn_, runes_wf).
  destruct (Z.leb_spec (Z.of_nat (length s)) limit) as [L|L].
  - repeat split; try lia; try apply runes_scan; try apply runes_wf.
    pose proof (rune_count_le s). lia.
  - repeat split; try lia; try apply runes_scan.
    + now rewrite runes_concat.
    + rewrite runes_concat by exact F. exact F.
    + rewrite rune_count_concat by exact F. rewrite firstn_length. lia.
Qed.

Lemma truncate_unlimited limit s : (limit < 0)%Z -> truncate limit s = s.
Proof. intro H. unfold truncate. destruct (Z.ltb_spec limit 0); [reflexivity | lia]. Qed.

(** Idempotence (used by the log-record model: re-applying limits changes nothing). *)
Lemma truncate_idem limit s : truncate limit (truncate limit s) = truncate limit s.
Proof.
  rewrite !truncate_refines. unfold truncate_spec. destruct (limit <? 0)%Z eqn:N; [reflexivity|].
  destruct (Z.leb_spec (Z.of_nat (length s)) limit) as [L|L].
  - destruct (Z.leb_spec (Z.of_nat (length s)) limit); [reflexivity | lia].
  - set (rs := firstn (Z.to_nat limit) (runes s)).
    assert (F : Forall (fun r => wf_rune r = true) rs) by (apply Forall_firstn_, runes_wf).
    destruct (Z.leb_spec (Z.of_nat (length (concat rs))) limit); [reflexivity|].
    rewrite runes_concat by exact F. subst rs. rewrite firstn_firstn. now rewrite Nat.min_id.
Qed.

(** Examples (F-C04-1 inputs): valid U+FFFD is a character; lone bytes are discarded. *)
Example truncate_ex1 :
  truncate 3 (hx "efbfbdefbfbdefbfbdefbfbdefbfbd") = hx "efbfbdefbfbdefbfbd" /\
  truncate 4 (hx "61ff62e282ac63f09f988064") = hx "6162e282ac63" /\
  truncate 0 (hx "ff") = [] /\
  truncate 2 (hx "e28261") = hx "61" /\
  truncate 5 (hx "ff61") = hx "ff61".
Proof. vm_compute. repeat split. Qed.
