(** Compact literals for generated case files.  Byte strings are written as
    lists of primitive 63-bit integers, each carrying up to seven bytes below a
    leading sentinel 1 (hex 1 b1 b2 … b7), chained with [u]: Coq type-checks these ~25x faster than
    string or [N] literals.  Used only by Corr files and generated cases, never by
    models, specs or theorems. *)
From Coq Require Import Uint63.
From Verif Require Import Lib.Base.
Open Scope N_scope.

Fixpoint chunk_bytes (fuel : nat) (n : N) (acc : bytes) : bytes :=
  match fuel with
  | O => acc
  | S f => if n <=? 1 then acc else chunk_bytes f (n / 256) (n mod 256 :: acc)
  end.

(** [u c rest]: the bytes of chunk [c] followed by [rest]; a literal is
    [(u c1 (u c2 … []))]. *)
Definition u (c : int) (rest : bytes) : bytes :=
  chunk_bytes 8 (Z.to_N (Uint63.to_Z c)) [] ++ rest.
Arguments u c%uint63_scope rest.

Example u_ex : u 1 [] = [] /\ u 0x100ff61 (u 0x17a []) = [0; 255; 97; 122].
Proof. vm_compute. auto. Qed.
