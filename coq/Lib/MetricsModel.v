(** Shared aggregator model of sdk/metric/internal/aggregate (used by C08 and C02).

    One aggregator = one metric stream of one reader pipeline:
      sum / precomputedSum / lastValue / precomputedLastValue / histogram
    (sum.go, lastvalue.go, histogram.go).  Attribute sets are canonical keys
    ([N], assigned by the harness from the sorted, de-duplicated key/value
    encoding of the set).  A stored value is a vector of integers:
      - sums and gauges: [[v]]
      - explicit-bucket histograms: [[sum; count; bucket_0; ...; bucket_n]]
    so that a histogram is literally a sum aggregator over vectors (every
    field of histogram.go's [buckets] is updated by pointwise addition).
    int64 instruments use the value itself, float64 instruments the value
    scaled by 2^10 (the harness only feeds multiples of 2^-10 whose partial
    sums are exact).  int64 overflow is outside the model ([Z]).

    [values map]  -> [vals : amap]     (sorted association list)
    [reported]    -> [reported : amap] (precomputedSum only)
    [start]       -> [start : N]       (an instant of the clock oracle)        *)
From Verif Require Import Lib.Base.
Open Scope Z_scope.

Definition key := N.
Definition vec := list Z.

(** ** Vectors: pointwise addition, a shorter vector is padded with zeros. *)
Fixpoint vadd (a b : vec) : vec :=
  match a, b with
  | [], _ => b
  | _, [] => a
  | x :: a', y :: b' => (x + y) :: vadd a' b'
  end.
Definition vneg (a : vec) : vec := map Z.opp a.
Definition vsub (a b : vec) : vec := vadd a (vneg b).

Lemma vadd_nil_r a : vadd a [] = a.
Proof. destruct a; reflexivity. Qed.
Lemma vadd_comm a b : vadd a b = vadd b a.
Proof.
  revert b; induction a as [|x a IH]; intros [|y b]; cbn; try reflexivity.
  f_equal; [lia | apply IH].
Qed.
Lemma vadd_assoc a b c : vadd a (vadd b c) = vadd (vadd a b) c.
Proof.
  revert b c; induction a as [|x a IH]; intros [|y b] [|z c]; cbn; try reflexivity.
  f_equal; [lia | apply IH].
Qed.

(** ** Optional vectors ([None] = attribute set absent) and the two ways an
    aggregator combines an old value with a new measurement. *)
Inductive aop := OpAdd | OpSet.

Definition comb (o : aop) (a b : vec) : vec :=
  match o with OpAdd => vadd a b | OpSet => b end.
Definition ocomb (o : aop) (a b : option vec) : option vec :=
  match a, b with
  | None, x => x
  | x, None => x
  | Some u, Some v => Some (comb o u v)
  end.
Definition oadd := ocomb OpAdd.

Lemma ocomb_none_r o a : ocomb o a None = a.
Proof. destruct a; reflexivity. Qed.
Lemma ocomb_none_l o a : ocomb o None a = a.
Proof. reflexivity. Qed.
Lemma ocomb_assoc o a b c : ocomb o a (ocomb o b c) = ocomb o (ocomb o a b) c.
Proof.
  destruct a, b, c; cbn; try reflexivity. destruct o; cbn; [now rewrite vadd_assoc | reflexivity].
Qed.

Definition ofold (o : aop) (l : list (option vec)) : option vec := fold_right (ocomb o) None l.

Lemma ofold_app o l1 l2 : ofold o (l1 ++ l2) = ocomb o (ofold o l1) (ofold o l2).
Proof.
  unfold ofold. induction l1 as [|x l1 IH]; cbn [app fold_right]; [reflexivity|]. now rewrite IH, ocomb_assoc.
Qed.

(** ** Association lists sorted by key. *)
Definition amap := list (key * vec).

Fixpoint get (k : key) (m : amap) : option vec :=
  match m with
  | [] => None
  | (k', v) :: r => if (k =? k')%N then Some v else get k r
  end.

Fixpoint put (k : key) (v : vec) (m : amap) : amap :=
  match m with
  | [] => [(k, v)]
  | (k', v') :: r =>
      if (k <? k')%N then (k, v) :: m
      else if (k =? k')%N then (k, v) :: r
      else (k', v') :: put k v r
  end.

Lemma get_put_same k v m : get k (put k v m) = Some v.
Proof.
  induction m as [|[k' v'] r IH]; cbn.
  - now rewrite N.eqb_refl.
  - destruct (N.ltb_spec k k'); cbn; [now rewrite N.eqb_refl|].
    destruct (N.eqb_spec k k'); cbn; [now rewrite N.eqb_refl|].
    destruct (N.eqb_spec k k'); [contradiction | exact IH].
Qed.

Lemma get_put_other k j v m : j <> k -> get j (put k v m) = get j m.
Proof.
  intros Hn. induction m as [|[k' v'] r IH]; cbn.
  - destruct (N.eqb_spec j k); [contradiction | reflexivity].
  - destruct (N.ltb_spec k k'); cbn.
    + destruct (N.eqb_spec j k); [contradiction | reflexivity].
    + destruct (N.eqb_spec k k'); cbn.
      * subst k'. destruct (N.eqb_spec j k); [contradiction | reflexivity].
      * destruct (N.eqb_spec j k'); [reflexivity | exact IH].
Qed.

(** keys strictly increasing: the canonical form in which points are compared *)
Fixpoint ksorted (m : amap) : bool :=
  match m with
  | [] => true
  | (k, _) :: r => match r with [] => true | (k', _) :: _ => (k <? k')%N && ksorted r end
  end.

Definition lower_bound (k : key) (m : amap) : Prop :=
  match m with [] => True | (k', _) :: _ => (k < k')%N end.

Lemma ksorted_cons k v m : ksorted ((k, v) :: m) = true <-> lower_bound k m /\ ksorted m = true.
Proof.
  destruct m as [|[k' v'] r]; cbn [ksorted lower_bound].
  - tauto.
  - rewrite andb_true_iff, N.ltb_lt. tauto.
Qed.

Lemma put_lower j k v m : (j < k)%N -> lower_bound j m -> lower_bound j (put k v m).
Proof.
  intros Hjk Hm. destruct m as [|[k' v'] r]; cbn; [exact Hjk|].
  destruct (N.ltb_spec k k'); cbn; [exact Hjk|].
  destruct (N.eqb_spec k k'); cbn; [exact Hjk | exact Hm].
Qed.

Lemma ksorted_put k v m : ksorted m = true -> ksorted (put k v m) = true.
Proof.
  induction m as [|[k' v'] r IH]; intros Hs; [reflexivity|].
  apply ksorted_cons in Hs as [Hl Hs]. cbn [put].
  destruct (N.ltb_spec k k').
  - apply ksorted_cons. split; [exact H|]. apply ksorted_cons. now split.
  - destruct (N.eqb_spec k k').
    + subst k'. apply ksorted_cons. now split.
    + apply ksorted_cons. split; [|now apply IH].
      apply put_lower; [lia | exact Hl].
Qed.

Lemma get_below k m : lower_bound k m -> ksorted m = true -> get k m = None.
Proof.
  revert k; induction m as [|[k' v'] r IH]; intros k Hl Hs; [reflexivity|].
  cbn in Hl. cbn [get]. destruct (N.eqb_spec k k'); [lia|].
  apply ksorted_cons in Hs as [Hl' Hs]. apply IH; [|exact Hs].
  destruct r as [|[k'' v''] r']; cbn in *; [exact I | lia].
Qed.

(** Two sorted maps with the same lookups are equal. *)
Lemma ksorted_ext m1 m2 :
  ksorted m1 = true -> ksorted m2 = true -> (forall k, get k m1 = get k m2) -> m1 = m2.
Proof.
  revert m2; induction m1 as [|[k1 v1] r1 IH]; intros [|[k2 v2] r2] H1 H2 He.
  - reflexivity.
  - specialize (He k2). cbn in He. rewrite N.eqb_refl in He. discriminate.
  - specialize (He k1). cbn in He. rewrite N.eqb_refl in He. discriminate.
  - apply ksorted_cons in H1 as [L1 S1]. apply ksorted_cons in H2 as [L2 S2].
    assert (Hk : k1 = k2).
    { pose proof (He k1) as E1. pose proof (He k2) as E2. cbn in E1, E2.
      rewrite N.eqb_refl in E1, E2.
      destruct (N.eqb_spec k1 k2) as [|Hn]; [assumption|].
      destruct (N.eqb_spec k2 k1) as [|_]; [congruence|].
      destruct (N.lt_total k1 k2) as [Hlt|[|Hlt]]; [|assumption|].
      - rewrite (get_below k1 r2) in E1; [discriminate| |exact S2].
        destruct r2 as [|[k'' ?] ?]; cbn in *; [exact I | lia].
      - rewrite (get_below k2 r1) in E2; [discriminate| |exact S1].
        destruct r1 as [|[k'' ?] ?]; cbn in *; [exact I | lia]. }
    subst k2. pose proof (He k1) as E. cbn in E. rewrite N.eqb_refl in E. inversion E; subst v2.
    f_equal. apply IH; try assumption. intros k. specialize (He k). cbn in He.
    destruct (N.eqb_spec k k1); [|exact He]. subst k.
    rewrite (get_below k1 r1), (get_below k1 r2); auto.
Qed.

Definition amap_eqb (a b : amap) : bool :=
  list_eqb (fun x y => (fst x =? fst y)%N && list_eqb Z.eqb (snd x) (snd y)) a b.

(** ** The aggregator *)
Inductive temporality := Delta | Cumulative.

Record aggcfg := { a_op : aop; a_pre : bool; a_temp : temporality }.

Record agg := { vals : amap; reported : amap; start : N }.

Definition new_agg (t0 : N) : agg := {| vals := []; reported := []; start := t0 |}.

(** valueMap.measure / lastValue.measure / histValues.measure under the stream mutex *)
Definition measure (c : aggcfg) (k : key) (v : vec) (a : agg) : agg :=
  {| vals := put k (match get k (vals a) with Some o => comb (a_op c) o v | None => v end) (vals a);
     reported := reported a; start := start a |}.

Definition measure_all (c : aggcfg) (kvs : list (key * vec)) (a : agg) : agg :=
  fold_left (fun a kv => measure c (fst kv) (snd kv) a) kvs a.

Definition getz (k : key) (m : amap) : vec := match get k m with Some v => v | None => [] end.

(** precomputedSum.delta computes value - reported[key] (0 when absent) *)
Definition is_presum_delta (c : aggcfg) : bool :=
  match a_op c, a_temp c with OpAdd, Delta => a_pre c | _, _ => false end.

Definition clears (c : aggcfg) : bool :=
  match a_temp c with Delta => true | Cumulative => a_pre c end.

Definition out_points (c : aggcfg) (a : agg) : amap :=
  if is_presum_delta c
  then map (fun kv => (fst kv, vsub (snd kv) (getz (fst kv) (reported a)))) (vals a)
  else vals a.

(** One output of a stream: (StartTime, Time, data points).  An empty point
    list means the stream is absent from the ResourceMetrics of that collection. *)
Definition sobs := (N * N * amap)%type.
Definition o_start (o : sobs) : N := fst (fst o).
Definition o_time (o : sobs) : N := snd (fst o).
Definition o_points (o : sobs) : amap := snd o.

(** sum.delta / sum.cumulative / precomputedSum.* / lastValue.* / histogram.* at instant [now] *)
Definition collect (c : aggcfg) (now : N) (a : agg) : sobs * agg :=
  ((start a, now, out_points c a),
   {| vals := if clears c then [] else vals a;
      reported := if is_presum_delta c then vals a else reported a;
      start := match a_temp c with Delta => now | Cumulative => start a end |}).

(** A stream driven by cycles: all measurements of the cycle, then the collection.
    [tm n] is the instant of the n-th collection of this stream. *)
Fixpoint arun (c : aggcfg) (cycles : list (list (key * vec))) (tm : nat -> N) (n : nat) (a : agg) : list sobs :=
  match cycles with
  | [] => []
  | cyc :: r =>
      let '(o, a') := collect c (tm n) (measure_all c cyc a) in
      o :: arun c r tm (S n) a'
  end.

(** ** Explicit-bucket histogram measurement vector *)
(** sort.SearchFloat64s(bounds, v): smallest i with bounds[i] >= v = number of bounds below v *)
Definition bidx (bounds : list Z) (v : Z) : nat := length (filter (fun b => b <? v) bounds).
Fixpoint onehot (i n : nat) : vec :=
  match n with
  | O => []
  | S n' => match i with O => 1 :: onehot n' n' | S i' => 0 :: onehot i' n' end
  end.
Definition hvec (bounds : list Z) (v : Z) : vec := v :: 1 :: onehot (bidx bounds v) (S (length bounds)).

(** ** Base-2 exponential histogram at scale 0 (the scale does not move while all recorded
    magnitudes stay within maxSize buckets): a sum aggregator over
    [[sum; count; zero count; negative count; bucket_0 .. bucket_23]], bucket j = (2^j, 2^(j+1)].
    [unit] is the model unit of the instrument (1 for int64, 2^10 for float64); the harness feeds
    whole numbers of magnitude 0 or 2 .. 2^23.
    expoHistogramDataPoint.getBin at scale 0: frexp exponent - 1 (- 2 for an exact power of two)
    = log2_up x - 1. *)
Definition evec (unit v : Z) : vec :=
  let x := v / unit in
  v :: 1 :: (if x =? 0 then 1 else 0) :: (if x <? 0 then 1 else 0) ::
  (if 0 <? x then onehot (Z.to_nat (Z.log2_up x - 1)) 24 else onehot 24 24).

(** ** Lemmas about the aggregator (used by C08 and C02 proofs) *)

(** the values selected for key [k] out of a list of measurements *)
Definition sel (k : key) (kvs : list (key * vec)) : list (option vec) :=
  map (fun kv => if (fst kv =? k)%N then Some (snd kv) else None) kvs.

Lemma measure_get c k v a j :
  get j (vals (measure c k v a)) = ocomb (a_op c) (get j (vals a)) (if (k =? j)%N then Some v else None).
Proof.
  unfold measure; cbn [vals]. destruct (N.eqb_spec k j) as [->|Hn].
  - rewrite get_put_same. destruct (get j (vals a)); reflexivity.
  - rewrite get_put_other by congruence. now rewrite ocomb_none_r.
Qed.

Lemma measure_all_get c kvs a j :
  get j (vals (measure_all c kvs a)) = ocomb (a_op c) (get j (vals a)) (ofold (a_op c) (sel j kvs)).
Proof.
  unfold measure_all. revert a; induction kvs as [|[k v] r IH]; intros a; cbn [fold_left sel map ofold fold_right].
  - now rewrite ocomb_none_r.
  - rewrite IH, measure_get. cbn [fst snd]. now rewrite <- ocomb_assoc.
Qed.

Lemma measure_reported c k v a : reported (measure c k v a) = reported a.
Proof. reflexivity. Qed.
Lemma measure_start c k v a : start (measure c k v a) = start a.
Proof. reflexivity. Qed.
Lemma measure_all_reported c kvs a : reported (measure_all c kvs a) = reported a.
Proof. unfold measure_all. revert a; induction kvs as [|x r IH]; intros a; cbn; [reflexivity | now rewrite IH]. Qed.
Lemma measure_all_start c kvs a : start (measure_all c kvs a) = start a.
Proof. unfold measure_all. revert a; induction kvs as [|x r IH]; intros a; cbn; [reflexivity | now rewrite IH]. Qed.

Lemma measure_sorted c k v a : ksorted (vals a) = true -> ksorted (vals (measure c k v a)) = true.
Proof. intros H. unfold measure; cbn [vals]. now apply ksorted_put. Qed.
Lemma measure_all_sorted c kvs a : ksorted (vals a) = true -> ksorted (vals (measure_all c kvs a)) = true.
Proof.
  unfold measure_all. revert a; induction kvs as [|x r IH]; intros a H; cbn; [exact H|].
  apply IH. now apply measure_sorted.
Qed.

Lemma get_map_vals (f : key -> vec -> vec) m k :
  get k (map (fun kv => (fst kv, f (fst kv) (snd kv))) m) = option_map (f k) (get k m).
Proof.
  induction m as [|[k' v'] r IH]; cbn; [reflexivity|].
  destruct (N.eqb_spec k k'); [now subst | exact IH].
Qed.

Lemma ksorted_map_vals (f : key -> vec -> vec) m :
  ksorted (map (fun kv => (fst kv, f (fst kv) (snd kv))) m) = ksorted m.
Proof.
  induction m as [|[k v] r IH]; [reflexivity|].
  destruct r as [|[k' v'] r']; [reflexivity|].
  change (((k <? k')%N && ksorted (map (fun kv => (fst kv, f (fst kv) (snd kv))) ((k', v') :: r'))) =
          ((k <? k')%N && ksorted ((k', v') :: r'))).
  now rewrite IH.
Qed.

Lemma out_points_sorted c a : ksorted (vals a) = true -> ksorted (out_points c a) = true.
Proof.
  intros H. unfold out_points. destruct (is_presum_delta c); [|exact H].
  now rewrite (ksorted_map_vals (fun k v => vsub v (getz k (reported a)))).
Qed.

Lemma out_points_get c a k :
  get k (out_points c a) =
  if is_presum_delta c then option_map (fun v => vsub v (getz k (reported a))) (get k (vals a))
  else get k (vals a).
Proof.
  unfold out_points. destruct (is_presum_delta c); [|reflexivity].
  apply (get_map_vals (fun k v => vsub v (getz k (reported a)))).
Qed.

Lemma collect_sorted c now a : ksorted (vals a) = true -> ksorted (vals (snd (collect c now a))) = true.
Proof. intros H. cbn. destruct (clears c); [reflexivity | exact H]. Qed.

Lemma arun_length c cycles tm n a : length (arun c cycles tm n a) = length cycles.
Proof.
  revert n a; induction cycles as [|cyc r IH]; intros n a; cbn [arun]; [reflexivity|].
  destruct (collect c (tm n) (measure_all c cyc a)) as [o a'] eqn:E. cbn. now rewrite IH.
Qed.

(** ** Characterisation of the outputs of [arun] *)
Definition odflt : sobs := (0%N, 0%N, []).

Lemma arun_cons c cyc r tm n a :
  arun c (cyc :: r) tm n a =
  fst (collect c (tm n) (measure_all c cyc a)) :: arun c r tm (S n) (snd (collect c (tm n) (measure_all c cyc a))).
Proof. reflexivity. Qed.

Lemma arun_nth_time c cycles tm : forall n a j, (j < length cycles)%nat ->
  o_time (nth j (arun c cycles tm n a) odflt) = tm (n + j)%nat.
Proof.
  induction cycles as [|cyc r IH]; intros n a j Hj; [cbn in Hj; lia|].
  rewrite arun_cons. destruct j as [|j].
  - cbn. f_equal. lia.
  - cbn [nth]. rewrite IH by (cbn in Hj; lia). f_equal. lia.
Qed.

Lemma arun_nth_start_delta c cycles tm : a_temp c = Delta -> forall n a j, (j < length cycles)%nat ->
  o_start (nth j (arun c cycles tm n a) odflt) = match j with O => start a | S j' => tm (n + j')%nat end.
Proof.
  intros Ht. induction cycles as [|cyc r IH]; intros n a j Hj; [cbn in Hj; lia|].
  rewrite arun_cons. destruct j as [|j].
  - cbn. apply measure_all_start.
  - cbn [nth]. rewrite IH by (cbn in Hj; lia). destruct j as [|j].
    + cbn. rewrite Ht. f_equal. lia.
    + f_equal. lia.
Qed.

Lemma arun_nth_start_cum c cycles tm : a_temp c = Cumulative -> forall n a j, (j < length cycles)%nat ->
  o_start (nth j (arun c cycles tm n a) odflt) = start a.
Proof.
  intros Ht. induction cycles as [|cyc r IH]; intros n a j Hj; [cbn in Hj; lia|].
  rewrite arun_cons. destruct j as [|j].
  - cbn. apply measure_all_start.
  - cbn [nth]. rewrite IH by (cbn in Hj; lia). cbn. rewrite Ht. apply measure_all_start.
Qed.

Lemma arun_sorted c cycles tm : forall n a j, ksorted (vals a) = true ->
  ksorted (o_points (nth j (arun c cycles tm n a) odflt)) = true.
Proof.
  induction cycles as [|cyc r IH]; intros n a j Hs.
  - destruct j; reflexivity.
  - rewrite arun_cons. destruct j as [|j].
    + cbn [nth]. unfold collect, o_points; cbn [fst snd]. apply out_points_sorted. now apply measure_all_sorted.
    + cbn [nth]. apply IH. apply collect_sorted. now apply measure_all_sorted.
Qed.

(** aggregators that forget every cycle (delta temporality, and all precomputed ones):
    a collection shows exactly the cycle's own measurements *)
Lemma arun_cycle_exact c cycles tm : clears c = true -> is_presum_delta c = false ->
  forall n a j k, vals a = [] -> (j < length cycles)%nat ->
  get k (o_points (nth j (arun c cycles tm n a) odflt)) = ofold (a_op c) (sel k (nth j cycles [])).
Proof.
  intros Hc Hp. induction cycles as [|cyc r IH]; intros n a j k Hv Hj; [cbn in Hj; lia|].
  rewrite arun_cons. destruct j as [|j].
  - cbn [nth]. unfold collect, o_points; cbn [fst snd]. rewrite out_points_get, Hp, measure_all_get, Hv. reflexivity.
  - cbn [nth]. apply IH; [|cbn in Hj; lia]. cbn. now rewrite Hc.
Qed.

(** precomputedSum.delta: observed value minus the value observed in the preceding cycle *)
Definition ovz (o : option vec) : vec := match o with Some v => v | None => [] end.

Lemma arun_presum_delta c cycles tm : is_presum_delta c = true ->
  forall n a j k prev, vals a = [] -> (forall k, get k (reported a) = ofold OpAdd (sel k prev)) ->
  (j < length cycles)%nat ->
  get k (o_points (nth j (arun c cycles tm n a) odflt)) =
  option_map (fun v => vsub v (ovz (ofold OpAdd (sel k (match j with O => prev | S j' => nth j' cycles [] end)))))
             (ofold OpAdd (sel k (nth j cycles []))).
Proof.
  intros Hp.
  assert (Hop : a_op c = OpAdd /\ clears c = true).
  { unfold is_presum_delta in Hp. unfold clears. destruct (a_op c), (a_temp c); try discriminate. auto. }
  destruct Hop as [Hop Hc].
  induction cycles as [|cyc r IH]; intros n a j k prev Hv Hr Hj; [cbn in Hj; lia|].
  rewrite arun_cons. destruct j as [|j].
  - cbn [nth]. unfold collect, o_points; cbn [fst snd].
    rewrite out_points_get, Hp, measure_all_get, Hv, Hop, measure_all_reported. cbn [get ocomb].
    unfold getz. now rewrite Hr.
  - cbn [nth]. rewrite (IH (S n) _ j k cyc).
    + destruct j; reflexivity.
    + cbn. now rewrite Hc.
    + intros k'. cbn. rewrite Hp, measure_all_get, Hv, Hop. reflexivity.
    + cbn in Hj; lia.
Qed.

Lemma sel_app k l1 l2 : sel k (l1 ++ l2) = sel k l1 ++ sel k l2.
Proof. unfold sel. apply map_app. Qed.

(** aggregators that never forget (sum.cumulative, lastValue.cumulative, histogram.cumulative) *)
Lemma arun_sofar c cycles tm : clears c = false ->
  forall n a j k, (j < length cycles)%nat ->
  get k (o_points (nth j (arun c cycles tm n a) odflt)) =
  ocomb (a_op c) (get k (vals a)) (ofold (a_op c) (sel k (concat (firstn (S j) cycles)))).
Proof.
  intros Hc.
  assert (Hp : is_presum_delta c = false).
  { unfold clears in Hc. unfold is_presum_delta. destruct (a_op c), (a_temp c); try reflexivity; try discriminate; try exact Hc. }
  induction cycles as [|cyc r IH]; intros n a j k Hj; [cbn in Hj; lia|].
  rewrite arun_cons. destruct j as [|j].
  - cbn [nth firstn concat]. rewrite app_nil_r. unfold collect, o_points; cbn [fst snd].
    now rewrite out_points_get, Hp, measure_all_get.
  - cbn [nth]. rewrite IH by (cbn in Hj; lia). cbn [collect snd vals]. rewrite Hc, measure_all_get.
    change (firstn (S (S j)) (cyc :: r)) with (cyc :: firstn (S j) r). cbn [concat].
    now rewrite sel_app, ofold_app, ocomb_assoc.
Qed.

(** delta and cumulative sum aggregators fed the same cycles: the cumulative value is the
    running total of the delta values *)
Lemma arun_running cD cC cycles tmD tmC :
  a_op cD = OpAdd -> a_op cC = OpAdd -> clears cD = true -> is_presum_delta cD = false -> clears cC = false ->
  forall n m aD aC (acc : key -> option vec),
  vals aD = [] -> (forall k, get k (vals aC) = acc k) ->
  forall j k, (j < length cycles)%nat ->
  get k (o_points (nth j (arun cC cycles tmC m aC) odflt)) =
  fold_left (fun s p => oadd s (get k p)) (firstn (S j) (map o_points (arun cD cycles tmD n aD))) (acc k).
Proof.
  intros HoD HoC HcD HpD HcC.
  assert (HpC : is_presum_delta cC = false).
  { unfold clears in HcC. unfold is_presum_delta. destruct (a_op cC), (a_temp cC); try reflexivity; try discriminate; try exact HcC. }
  induction cycles as [|cyc r IH]; intros n m aD aC acc HvD Hinv j k Hj; [cbn in Hj; lia|].
  rewrite !arun_cons.
  assert (E0 : get k (vals (measure_all cC cyc aC)) = oadd (acc k) (get k (vals (measure_all cD cyc aD)))).
  { rewrite !measure_all_get, Hinv, HvD, HoD, HoC. reflexivity. }
  destruct j as [|j].
  - cbn [nth map firstn fold_left]. unfold collect, o_points; cbn [fst snd].
    rewrite !out_points_get, HpC, HpD. exact E0.
  - cbn [nth]. change (firstn (S (S j)) (map o_points (?x :: ?y))) with (o_points x :: firstn (S j) (map o_points y)).
    cbn [fold_left].
    set (aD' := snd (collect cD (tmD n) (measure_all cD cyc aD))).
    set (aC' := snd (collect cC (tmC m) (measure_all cC cyc aC))).
    rewrite (IH (S n) (S m) aD' aC' (fun k => oadd (acc k) (get k (vals (measure_all cD cyc aD))))).
    + do 2 f_equal. unfold collect, o_points; cbn [fst snd]. now rewrite out_points_get, HpD.
    + subst aD'. cbn. now rewrite HcD.
    + intros k'. subst aC'. cbn [collect snd vals]. rewrite HcC. rewrite !measure_all_get, Hinv, HvD, HoD, HoC. reflexivity.
    + cbn in Hj; lia.
Qed.

(** the running total of the first [m] delta collections is the total of the first [m] cycles *)
Lemma arun_delta_running c cycles tm : a_op c = OpAdd -> clears c = true -> is_presum_delta c = false ->
  forall n a m k acc, vals a = [] ->
  fold_left (fun s p => oadd s (get k p)) (firstn m (map o_points (arun c cycles tm n a))) acc =
  oadd acc (ofold OpAdd (sel k (concat (firstn m cycles)))).
Proof.
  intros Ho Hc Hp. induction cycles as [|cyc r IH]; intros n a m k acc Hv.
  - destruct m; cbn [arun map firstn fold_left concat sel ofold fold_right]; unfold oadd; now rewrite ocomb_none_r.
  - destruct m as [|m]; [cbn [firstn fold_left concat sel map ofold fold_right]; unfold oadd; now rewrite ocomb_none_r|].
    rewrite arun_cons. cbn [map firstn fold_left concat].
    rewrite IH by (cbn; now rewrite Hc).
    unfold collect at 1, o_points at 1; cbn [fst snd]. rewrite out_points_get, Hp, measure_all_get, Hv, Ho.
    cbn [get ocomb]. rewrite sel_app, ofold_app. unfold oadd. now rewrite ocomb_assoc.
Qed.
