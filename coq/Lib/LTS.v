(** Generic machinery for the interleaving models (C10, C15): labelled transition
    systems whose actions are thread ids drawn from [nat] (any number of threads),
    runs over arbitrary schedules, reachability, invariants by induction over
    schedules, per-thread program counters ([upd]) with rewriting lemmas and a
    tactic, and the "history prefix" principle used to lift a property of every
    emitted event to every position of a recorded history.  No axioms. *)
From Coq Require Import List Arith Lia Bool.
Import ListNotations.

(** ** Per-thread maps *)
Definition upd {A} (f : nat -> A) (t : nat) (p : A) : nat -> A :=
  fun u => if Nat.eqb u t then p else f u.

Lemma upd_same {A} (f : nat -> A) t p : upd f t p t = p.
Proof. unfold upd; now rewrite Nat.eqb_refl. Qed.

Lemma upd_other {A} (f : nat -> A) t p u : u <> t -> upd f t p u = f u.
Proof. unfold upd; intros H; destruct (Nat.eqb_spec u t); congruence. Qed.

Lemma upd_eq {A} (f : nat -> A) t p u :
  upd f t p u = if Nat.eq_dec u t then p else f u.
Proof.
  destruct (Nat.eq_dec u t) as [->|H]; [apply upd_same | now apply upd_other].
Qed.

(** [upd_cases]: split every [upd _ t _ u] in goal and hypotheses on [u = t]. *)
Ltac upd_cases :=
  repeat match goal with
  | |- context [upd _ ?t _ ?t] => rewrite upd_same
  | H : context [upd _ ?t _ ?t] |- _ => rewrite upd_same in H
  | H : ?u <> ?t |- context [upd _ ?t _ ?u] => rewrite (upd_other _ t _ u H)
  | H : ?u <> ?t, H' : context [upd _ ?t _ ?u] |- _ => rewrite (upd_other _ t _ u H) in H'
  | H : ?t <> ?u |- context [upd _ ?t _ ?u] =>
      rewrite (upd_other _ t _ u (fun e => H (eq_sym e)))
  | H : ?t <> ?u, H' : context [upd _ ?t _ ?u] |- _ =>
      rewrite (upd_other _ t _ u (fun e => H (eq_sym e))) in H'
  | |- context [upd _ ?t _ ?u] =>
      let e := fresh "e" in
      destruct (Nat.eq_dec u t) as [e|e];
      [ first [subst u | subst t | rewrite e in *]; rewrite ?upd_same in *
      | rewrite ?(upd_other _ t _ u e) in * ]
  | H : context [upd _ ?t _ ?u] |- _ =>
      let e := fresh "e" in
      destruct (Nat.eq_dec u t) as [e|e];
      [ first [subst u | subst t | rewrite e in *]; rewrite ?upd_same in *
      | rewrite ?(upd_other _ t _ u e) in * ]
  end.

(** ** Transition systems *)
Section LTS.
  Context {state : Type}.
  Variable step : state -> nat -> option state.
  Variable init : state.

  (** [run s sch]: execute the schedule [sch] (a list of thread ids) from [s];
      [None] when a scheduled thread is not enabled. *)
  Fixpoint run (s : state) (sch : list nat) : option state :=
    match sch with
    | [] => Some s
    | t :: r => match step s t with Some s' => run s' r | None => None end
    end.

  Inductive Reach : state -> Prop :=
  | Reach_init : Reach init
  | Reach_step s t s' : Reach s -> step s t = Some s' -> Reach s'.

  Lemma run_app s a b :
    run s (a ++ b) = match run s a with Some s' => run s' b | None => None end.
  Proof.
    revert s; induction a as [|t a IH]; intros s; cbn; [reflexivity|].
    destruct (step s t); [apply IH | reflexivity].
  Qed.

  Lemma run_reach_from s sch s' : Reach s -> run s sch = Some s' -> Reach s'.
  Proof.
    revert s; induction sch as [|t r IH]; cbn; intros s Hr H.
    - inversion H; subst; exact Hr.
    - destruct (step s t) eqn:Hs; [|discriminate].
      eapply IH; [eapply Reach_step; eauto | exact H].
  Qed.

  Lemma run_reach sch s : run init sch = Some s -> Reach s.
  Proof. apply run_reach_from; constructor. Qed.

  Lemma reach_run s : Reach s -> exists sch, run init sch = Some s.
  Proof.
    induction 1 as [|s t s' _ [sch IH] Hs].
    - exists []; reflexivity.
    - exists (sch ++ [t]). rewrite run_app, IH. cbn. now rewrite Hs.
  Qed.

  (** Invariant principle: a predicate that holds initially and is preserved
      by every step from a reachable state holds after every schedule. *)
  Lemma invariant (P : state -> Prop) :
    P init ->
    (forall s t s', Reach s -> P s -> step s t = Some s' -> P s') ->
    forall s, Reach s -> P s.
  Proof. intros H0 HS s Hr; induction Hr; eauto. Qed.

  Lemma invariant_run (P : state -> Prop) :
    P init ->
    (forall s t s', Reach s -> P s -> step s t = Some s' -> P s') ->
    forall sch s, run init sch = Some s -> P s.
  Proof. intros H0 HS sch s H. eapply invariant; eauto using run_reach. Qed.

  (** ** Histories.  A system that records events chronologically: every step
      leaves the history alone or appends events.  If a predicate [Q past e] holds
      of every event at the moment it is appended, it holds at every position of
      every reachable history. *)
  Section History.
    Context {event : Type}.
    Variable hist : state -> list event.
    Variable Q : list event -> event -> Prop.
    Hypothesis hist_init : hist init = [].
    Hypothesis hist_step : forall s t s', Reach s -> step s t = Some s' ->
      hist s' = hist s \/ exists e, hist s' = hist s ++ [e] /\ Q (hist s) e.

    Lemma history_positions s : Reach s ->
      forall past e fut, hist s = past ++ e :: fut -> Q past e.
    Proof.
      induction 1 as [|s t s' Hr IH Hs]; intros past e fut E.
      - rewrite hist_init in E. destruct past; discriminate.
      - destruct (hist_step s t s' Hr Hs) as [Hh | [e0 [Hh Hq]]].
        + rewrite Hh in E. eauto.
        + rewrite Hh in E.
          destruct fut as [|f fut'] using rev_ind.
          * apply app_inj_tail in E as [E1 E2]. subst. exact Hq.
          * clear IHfut'. rewrite app_comm_cons, app_assoc in E.
            apply app_inj_tail in E as [E1 _]. eauto.
    Qed.
  End History.
End LTS.

Arguments Reach {state} step init s.
Arguments run {state} step s sch.

(** ** List helpers shared by the history specifications *)

(** Longest prefix without an element satisfying [p]. *)
Fixpoint take_until {A} (p : A -> bool) (l : list A) : list A :=
  match l with
  | [] => []
  | x :: r => if p x then [] else x :: take_until p r
  end.

Lemma take_until_none {A} (p : A -> bool) l :
  existsb p l = false -> take_until p l = l.
Proof.
  induction l as [|x r IH]; cbn; [reflexivity|].
  intros H. apply orb_false_iff in H as [H1 H2]. rewrite H1. now rewrite IH.
Qed.

Lemma take_until_app_none {A} (p : A -> bool) l m :
  existsb p l = false -> take_until p (l ++ m) = l ++ take_until p m.
Proof.
  induction l as [|x r IH]; cbn; [reflexivity|].
  intros H. apply orb_false_iff in H as [H1 H2]. rewrite H1. now rewrite IH.
Qed.

Lemma take_until_app_some {A} (p : A -> bool) l m :
  existsb p l = true -> take_until p (l ++ m) = take_until p l.
Proof.
  induction l as [|x r IH]; cbn; [discriminate|].
  destruct (p x); [reflexivity|]. cbn. intros H. now rewrite IH.
Qed.

Lemma take_until_incl {A} (p : A -> bool) l x : In x (take_until p l) -> In x l.
Proof.
  induction l as [|y r IH]; cbn; [tauto|].
  destruct (p y); cbn; [tauto|]. intros [H|H]; auto.
Qed.

Lemma take_until_notp {A} (p : A -> bool) l x : In x (take_until p l) -> p x = false.
Proof.
  induction l as [|y r IH]; cbn; [tauto|].
  destruct (p y) eqn:E; cbn; [tauto|]. intros [H|H]; subst; auto.
Qed.

(** Membership in the prefix is monotone when the history grows. *)
Lemma take_until_mono {A} (p : A -> bool) l m x :
  In x (take_until p l) -> In x (take_until p (l ++ m)).
Proof.
  destruct (existsb p l) eqn:E.
  - now rewrite take_until_app_some.
  - rewrite take_until_app_none by exact E. rewrite take_until_none by exact E.
    intros H. apply in_or_app; auto.
Qed.

Lemma existsb_app_tail {A} (p : A -> bool) l x :
  existsb p (l ++ [x]) = existsb p l || p x.
Proof. rewrite existsb_app. cbn. now rewrite orb_false_r. Qed.

Lemma take_until_snoc {A} (p : A -> bool) l x :
  take_until p (l ++ [x]) =
  if existsb p l then take_until p l else if p x then l else l ++ [x].
Proof.
  destruct (existsb p l) eqn:E.
  - now apply take_until_app_some.
  - rewrite take_until_app_none by exact E. cbn. destruct (p x); [now rewrite app_nil_r | reflexivity].
Qed.

(** Number of elements satisfying [p]. *)
Definition countb {A} (p : A -> bool) (l : list A) : nat := length (filter p l).

Lemma countb_app {A} (p : A -> bool) l m : countb p (l ++ m) = countb p l + countb p m.
Proof. unfold countb. now rewrite filter_app, app_length. Qed.

Lemma countb_snoc {A} (p : A -> bool) l x :
  countb p (l ++ [x]) = countb p l + (if p x then 1 else 0).
Proof. rewrite countb_app. unfold countb. cbn. now destruct (p x). Qed.

Lemma countb_zero {A} (p : A -> bool) l : countb p l = 0 <-> existsb p l = false.
Proof.
  unfold countb. induction l as [|x r IH]; cbn; [tauto|].
  destruct (p x); cbn; [split; discriminate | exact IH].
Qed.
