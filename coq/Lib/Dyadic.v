(** Exact treatment of IEEE-754 binary64 values (owned by C07; used for histogram
    boundaries, measurements and exponential bucket indexes).

    A finite float64 is the dyadic rational (-1)^s * m * 2^e decoded from its 64-bit
    pattern.  Because every finite float64 is an integer multiple of 2^-1074, the whole
    type embeds, order- and sum-preservingly, into [Z] by v |-> v * 2^1074 ("fixed point",
    [fx64]).  All comparisons are therefore plain integer comparisons; no floating-point
    operation and no real number is used anywhere.

    The second half compares a positive dyadic m * 2^e with powers of two 2^a (a any
    integer): [pow2_lt] and [le_pow2] are the rational inequalities with denominators
    cleared; [pow2_lt_iff]/[le_pow2_iff] give the convenient "difference" forms. *)
From Coq Require Import ZArith NArith List Lia Bool.
Import ListNotations.
Open Scope Z_scope.

(** ** Decoding *)
Definition FX : Z := 1074.

Definition f64_sign (b : N) : bool := N.testbit b 63.
Definition f64_exp (b : N) : Z := Z.of_N (N.land (N.shiftr b 52) 2047).
Definition f64_man (b : N) : Z := Z.of_N (N.land b 4503599627370495).   (* 2^52 - 1 *)

(** [(negative, m, e)] with value (-1)^negative * m * 2^e; [None] for infinities and NaN. *)
Definition decode64 (b : N) : option (bool * Z * Z) :=
  let E := f64_exp b in
  let M := f64_man b in
  if E =? 2047 then None
  else if E =? 0 then Some (f64_sign b, M, -1074)
  else Some (f64_sign b, 4503599627370496 + M, E - 1075).

(** The integer v * 2^1074. *)
Definition fx_of (d : bool * Z * Z) : Z :=
  let '(s, m, e) := d in
  let a := Z.shiftl m (e + FX) in      (* m * 2^(e+1074); e >= -1074 for every float64 *)
  if s then - a else a.

Definition fx64 (b : N) : option Z := option_map fx_of (decode64 b).

(** An int64 measurement n, in the same fixed-point unit. *)
Definition fx_int (n : Z) : Z := Z.shiftl n FX.

Lemma fx_int_mul n : fx_int n = n * 2 ^ FX.
Proof. unfold fx_int, FX. now rewrite Z.shiftl_mul_pow2. Qed.

Lemma fx_of_mul s m e : - FX <= e -> fx_of (s, m, e) = (if s then -1 else 1) * (m * 2 ^ (e + FX)).
Proof. intro H. unfold fx_of. rewrite Z.shiftl_mul_pow2 by lia. destruct s; lia. Qed.

Lemma f64_man_range b : 0 <= f64_man b < 4503599627370496.
Proof.
  unfold f64_man. split; [apply N2Z.is_nonneg|].
  change 4503599627370496 with (Z.of_N 4503599627370496). apply N2Z.inj_lt.
  change 4503599627370495%N with (N.ones 52). rewrite N.land_ones.
  apply N.mod_lt. discriminate.
Qed.

Lemma f64_exp_range b : 0 <= f64_exp b < 2048.
Proof.
  unfold f64_exp. split; [apply N2Z.is_nonneg|].
  change 2048 with (Z.of_N 2048). apply N2Z.inj_lt.
  change 2047%N with (N.ones 11). rewrite N.land_ones.
  apply N.mod_lt. discriminate.
Qed.

(** Every decoded value has a 53-bit significand and an exponent in the binary64 range. *)
Lemma decode64_range b s m e :
  decode64 b = Some (s, m, e) -> 0 <= m < 2 ^ 53 /\ -1074 <= e <= 971.
Proof.
  change (2 ^ 53) with 9007199254740992.
  unfold decode64. pose proof (f64_man_range b) as Hm. pose proof (f64_exp_range b) as He.
  destruct (f64_exp b =? 2047) eqn:E1; [discriminate|].
  destruct (f64_exp b =? 0) eqn:E2; intro H.
  - assert (H2 : f64_man b = m) by congruence.
    assert (H3 : -1074 = e) by congruence. lia.
  - assert (H2 : 4503599627370496 + f64_man b = m) by congruence.
    assert (H3 : f64_exp b - 1075 = e) by congruence.
    apply Z.eqb_neq in E1. apply Z.eqb_neq in E2. lia.
Qed.

(** The fixed-point image of every finite float64 lies strictly inside (-2^2098, 2^2098). *)
Lemma fx64_range b v : fx64 b = Some v -> Z.abs v < 2 ^ 2098.
Proof.
  unfold fx64. destruct (decode64 b) as [[[s m] e]|] eqn:D; [|discriminate].
  cbn [option_map]. intro H. assert (Hv : v = fx_of (s, m, e)) by congruence. clear H.
  apply decode64_range in D as [Hm He]. subst v. unfold fx_of, FX.
  rewrite Z.shiftl_mul_pow2 by lia.
  assert (Hp : 0 < 2 ^ (e + 1074)) by (apply Z.pow_pos_nonneg; lia).
  assert (Hle : 2 ^ (e + 1074) <= 2 ^ 2045) by (apply Z.pow_le_mono_r; lia).
  assert (Hs : 2 ^ 2098 = 2 ^ 53 * 2 ^ 2045) by (rewrite <- Z.pow_add_r by lia; reflexivity).
  rewrite Hs. clear Hs.
  assert (H53 : 0 < 2 ^ 53) by (apply Z.pow_pos_nonneg; lia).
  generalize dependent (2 ^ (e + 1074)). generalize dependent (2 ^ 2045).
  generalize dependent (2 ^ 53). intros p53 Hm H53 p2045 q Hq Hle.
  assert (Hb : m * q < p53 * p2045) by nia.
  destruct s; [rewrite Z.abs_opp|]; rewrite Z.abs_eq by nia; exact Hb.
Qed.

(** float64(n) for an integer n (Go's int64 -> float64 conversion): round to nearest, ties
    to even, on the 53-bit significand.  Exact for |n| <= 2^53. *)
Definition round_int_f64 (n : Z) : Z :=
  let a := Z.abs n in
  let L := Z.log2 a in
  if L <=? 52 then n
  else
    let sh := L - 52 in
    let q := Z.shiftr a sh in
    let rem := a - Z.shiftl q sh in
    let half := Z.shiftl 1 (sh - 1) in
    let up := (half <? rem) || ((rem =? half) && Z.odd q) in
    let r := Z.shiftl (if up then q + 1 else q) sh in
    if n <? 0 then - r else r.

Lemma round_int_f64_small n : Z.abs n < 2 ^ 53 -> round_int_f64 n = n.
Proof.
  intro H. unfold round_int_f64. destruct (Z.eq_dec n 0) as [->|Hn]; [reflexivity|].
  assert (Z.log2 (Z.abs n) < 53) by (apply Z.log2_lt_pow2; lia).
  destruct (Z.leb_spec (Z.log2 (Z.abs n)) 52); [reflexivity|lia].
Qed.

(** ** Positive dyadics against powers of two *)
Definition zpos (x : Z) : Z := Z.max x 0.
Definition zneg (x : Z) : Z := Z.max (- x) 0.

(** 2^a < m * 2^e   (over the rationals; 2^x = 2^(zpos x) / 2^(zneg x)). *)
Definition pow2_lt (a m e : Z) : Prop :=
  2 ^ zpos a * 2 ^ zneg e < m * 2 ^ zpos e * 2 ^ zneg a.

(** m * 2^e <= 2^a. *)
Definition le_pow2 (m e a : Z) : Prop :=
  m * 2 ^ zpos e * 2 ^ zneg a <= 2 ^ zpos a * 2 ^ zneg e.

Lemma pow2_split x y : 0 <= x -> 0 <= y -> 2 ^ (x + y) = 2 ^ x * 2 ^ y.
Proof. intros. now rewrite Z.pow_add_r. Qed.

Lemma pow2_pos x : 0 <= x -> 0 < 2 ^ x.
Proof. intro. apply Z.pow_pos_nonneg; lia. Qed.

Lemma pow2_ge1 x : 0 <= x -> 1 <= 2 ^ x.
Proof. intro H. pose proof (pow2_pos x H). lia. Qed.

Lemma pow2_ge2 x : 0 < x -> 2 <= 2 ^ x.
Proof.
  intro H. replace x with (1 + (x - 1)) by lia. rewrite pow2_split by lia.
  pose proof (pow2_ge1 (x - 1)). change (2 ^ 1) with 2. lia.
Qed.

Lemma pow2_lt_iff a m e : 0 < m -> (pow2_lt a m e <-> a - e < 0 \/ 2 ^ (a - e) < m).
Proof.
  intro Hm. unfold pow2_lt.
  set (X := zpos a + zneg e). set (Y := zpos e + zneg a).
  assert (HX : 0 <= X) by (unfold X, zpos, zneg; lia).
  assert (HY : 0 <= Y) by (unfold Y, zpos, zneg; lia).
  assert (Hd : X - Y = a - e) by (unfold X, Y, zpos, zneg; lia).
  replace (2 ^ zpos a * 2 ^ zneg e) with (2 ^ X)
    by (unfold X; rewrite pow2_split by (unfold zpos, zneg; lia); reflexivity).
  replace (m * 2 ^ zpos e * 2 ^ zneg a) with (m * 2 ^ Y)
    by (unfold Y; rewrite pow2_split by (unfold zpos, zneg; lia); ring).
  rewrite <- Hd. destruct (Z_lt_ge_dec (X - Y) 0) as [Hn|Hp].
  - split; [intros _; now left|intros _].
    replace Y with (X + (Y - X)) by lia. rewrite pow2_split by lia.
    pose proof (pow2_pos X HX) as Hp. assert (Hq : 2 <= 2 ^ (Y - X)) by (apply pow2_ge2; lia).
    generalize dependent (2 ^ (Y - X)). generalize dependent (2 ^ X). intros p Hp q Hq.
    assert (2 * p <= p * q) by nia. assert (p * q <= m * (p * q)) by nia. lia.
  - replace X with (Y + (X - Y)) at 1 by lia. rewrite pow2_split by lia.
    pose proof (pow2_pos Y HY) as Hy.
    generalize dependent (2 ^ (X - Y)). generalize dependent (2 ^ Y). intros p Hpp q.
    split.
    + intro H1. right. nia.
    + intros [H1|H1]; [lia|]. nia.
Qed.

Lemma le_pow2_iff m e a : 0 < m -> (le_pow2 m e a <-> 0 <= a - e /\ m <= 2 ^ (a - e)).
Proof.
  intro Hm. unfold le_pow2.
  set (X := zpos a + zneg e). set (Y := zpos e + zneg a).
  assert (HX : 0 <= X) by (unfold X, zpos, zneg; lia).
  assert (HY : 0 <= Y) by (unfold Y, zpos, zneg; lia).
  assert (Hd : X - Y = a - e) by (unfold X, Y, zpos, zneg; lia).
  replace (2 ^ zpos a * 2 ^ zneg e) with (2 ^ X)
    by (unfold X; rewrite pow2_split by (unfold zpos, zneg; lia); reflexivity).
  replace (m * 2 ^ zpos e * 2 ^ zneg a) with (m * 2 ^ Y)
    by (unfold Y; rewrite pow2_split by (unfold zpos, zneg; lia); ring).
  rewrite <- Hd. destruct (Z_lt_ge_dec (X - Y) 0) as [Hn|Hp].
  - split; [intro H1; exfalso|intros [H1 _]; lia].
    replace Y with (X + (Y - X)) in H1 by lia. rewrite pow2_split in H1 by lia.
    pose proof (pow2_pos X HX) as Hp. assert (Hq : 2 <= 2 ^ (Y - X)) by (apply pow2_ge2; lia).
    generalize dependent (2 ^ (Y - X)). generalize dependent (2 ^ X). intros p Hp q H1 Hq.
    assert (2 * p <= p * q) by nia. assert (p * q <= m * (p * q)) by nia. lia.
  - replace X with (Y + (X - Y)) at 1 by lia. rewrite pow2_split by lia.
    pose proof (pow2_pos Y HY) as Hy.
    generalize dependent (2 ^ (X - Y)). generalize dependent (2 ^ Y). intros p Hpp q.
    split.
    + intro H1. split; [lia|]. nia.
    + intros [_ H1]. nia.
Qed.

(** Boolean forms (what generated case files evaluate). *)
Definition pow2_ltb (a m e : Z) : bool :=
  let d := a - e in (d <? 0) || (Z.shiftl 1 d <? m).
Definition le_pow2b (m e a : Z) : bool :=
  let d := a - e in (0 <=? d) && (m <=? Z.shiftl 1 d).

Lemma shiftl_1 d : 0 <= d -> Z.shiftl 1 d = 2 ^ d.
Proof. intro H. rewrite Z.shiftl_mul_pow2 by exact H. lia. Qed.

Lemma pow2_ltb_spec a m e : 0 < m -> (pow2_ltb a m e = true <-> pow2_lt a m e).
Proof.
  intro Hm. rewrite pow2_lt_iff by exact Hm. unfold pow2_ltb. cbv zeta.
  rewrite orb_true_iff, Z.ltb_lt. destruct (Z_lt_ge_dec (a - e) 0) as [Hn|Hp].
  - split; intros _; now left.
  - rewrite shiftl_1 by lia. rewrite Z.ltb_lt. reflexivity.
Qed.

Lemma le_pow2b_spec m e a : 0 < m -> (le_pow2b m e a = true <-> le_pow2 m e a).
Proof.
  intro Hm. rewrite le_pow2_iff by exact Hm. unfold le_pow2b. cbv zeta.
  rewrite andb_true_iff, Z.leb_le. destruct (Z_lt_ge_dec (a - e) 0) as [Hn|Hp].
  - split; intros [H _]; lia.
  - rewrite shiftl_1 by lia. rewrite Z.leb_le. reflexivity.
Qed.

(** Monotonicity in the exponent of the power of two. *)
Lemma pow2_lt_mono a a' m e : 0 < m -> a' <= a -> pow2_lt a m e -> pow2_lt a' m e.
Proof.
  intros Hm Ha. rewrite !pow2_lt_iff by exact Hm. intros [H|H]; [left; lia|].
  destruct (Z_lt_ge_dec (a' - e) 0); [now left|right].
  eapply Z.le_lt_trans; [|exact H]. apply Z.pow_le_mono_r; lia.
Qed.

Lemma le_pow2_mono m e a a' : 0 < m -> a <= a' -> le_pow2 m e a -> le_pow2 m e a'.
Proof.
  intros Hm Ha. rewrite !le_pow2_iff by exact Hm. intros [H1 H2]. split; [lia|].
  eapply Z.le_trans; [exact H2|]. apply Z.pow_le_mono_r; lia.
Qed.

(** A value cannot be both above 2^a and at most 2^a' for a' <= a. *)
Lemma pow2_lt_le_excl a a' m e : 0 < m -> a' <= a -> pow2_lt a m e -> le_pow2 m e a' -> False.
Proof.
  intros Hm Ha. rewrite pow2_lt_iff, le_pow2_iff by exact Hm. intros [H|H] [H1 H2]; [lia|].
  assert (2 ^ (a' - e) <= 2 ^ (a - e)) by (apply Z.pow_le_mono_r; lia). lia.
Qed.

(** ** Shifts *)
Lemma shiftr1_div2 x : Z.shiftr x 1 = x / 2.
Proof. rewrite Z.shiftr_div_pow2 by lia. reflexivity. Qed.

Lemma shiftr_shiftr1 x d : 0 <= d -> Z.shiftr (Z.shiftr x 1) d = Z.shiftr x (d + 1).
Proof. intro H. rewrite Z.shiftr_shiftr by lia. f_equal. lia. Qed.

Lemma shiftr_mono x y d : 0 <= d -> x <= y -> Z.shiftr x d <= Z.shiftr y d.
Proof.
  intros Hd H. rewrite !Z.shiftr_div_pow2 by exact Hd.
  apply Z.div_le_mono; [apply pow2_pos; exact Hd|exact H].
Qed.

Lemma shiftr_succ x d : 0 <= d -> Z.shiftr x (d + 1) = Z.shiftr (Z.shiftr x d) 1.
Proof. intro H. rewrite Z.shiftr_shiftr by lia. reflexivity. Qed.

(** Squares: strict and weak monotonicity on non-negative integers. *)
Lemma sq_lt_inv x y : 0 <= x -> 0 <= y -> x * x < y * y -> x < y.
Proof. intros; nia. Qed.
Lemma sq_le_inv x y : 0 <= x -> 0 <= y -> x * x <= y * y -> x <= y.
Proof. intros; nia. Qed.
