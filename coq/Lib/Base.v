(** Shared basics: byte strings as [list N], hex literals for generated
    case files, small list utilities.  No axioms. *)
From Coq Require Export List NArith ZArith Bool Lia.
From Coq Require String Ascii.
Export ListNotations.
Export String.StringSyntax.
Import String Ascii.
Open Scope N_scope.

Definition byte := N.
Definition bytes := list N.

Fixpoint bytes_eqb (a b : bytes) : bool :=
  match a, b with
  | [], [] => true
  | x :: a', y :: b' => (x =? y) && bytes_eqb a' b'
  | _, _ => false
  end.

Lemma bytes_eqb_eq a b : bytes_eqb a b = true <-> a = b.
Proof.
  revert b; induction a as [|x a IH]; intros [|y b]; cbn; split; intro H;
    try reflexivity; try discriminate.
  - apply andb_true_iff in H as [H1 H2]. apply N.eqb_eq in H1. apply IH in H2. congruence.
  - inversion H; subst. rewrite N.eqb_refl. cbn. now apply IH.
Qed.

Lemma bytes_eqb_refl a : bytes_eqb a a = true.
Proof. now apply bytes_eqb_eq. Qed.

Lemma bytes_eqb_neq a b : bytes_eqb a b = false <-> a <> b.
Proof.
  split; intro H.
  - intro E. apply bytes_eqb_eq in E. congruence.
  - destruct (bytes_eqb a b) eqn:E; [|reflexivity]. apply bytes_eqb_eq in E. contradiction.
Qed.

(** ** Hex literals (used only by generated case files and corpora). *)
Definition hexdigit (c : ascii) : N :=
  let n := N_of_ascii c in
  if (48 <=? n) && (n <=? 57) then n - 48
  else if (97 <=? n) && (n <=? 102) then n - 87
  else if (65 <=? n) && (n <=? 70) then n - 55
  else 0.

Fixpoint hx (s : string) : bytes :=
  match s with
  | String a (String b r) => (16 * hexdigit a + hexdigit b) :: hx r
  | _ => []
  end.

Arguments hx s%string_scope.

(** ASCII literal to bytes (for readable constants in models). *)
Fixpoint str (s : string) : bytes :=
  match s with
  | EmptyString => []
  | String a r => N_of_ascii a :: str r
  end.

Arguments str s%string_scope.

(** ** Generic list helpers *)
Fixpoint list_eqb {A} (eqb : A -> A -> bool) (a b : list A) : bool :=
  match a, b with
  | [], [] => true
  | x :: a', y :: b' => eqb x y && list_eqb eqb a' b'
  | _, _ => false
  end.

Lemma list_eqb_eq {A} (eqb : A -> A -> bool) :
  (forall x y, eqb x y = true <-> x = y) ->
  forall a b, list_eqb eqb a b = true <-> a = b.
Proof.
  intros He a; induction a as [|x a IH]; intros [|y b]; cbn; split; intro H;
    try reflexivity; try discriminate.
  - apply andb_true_iff in H as [H1 H2]. apply He in H1. apply IH in H2. congruence.
  - inversion H; subst. apply andb_true_iff; split; [now apply He | now apply IH].
Qed.

Definition option_eqb {A} (eqb : A -> A -> bool) (a b : option A) : bool :=
  match a, b with
  | None, None => true
  | Some x, Some y => eqb x y
  | _, _ => false
  end.

Definition pair_eqb {A B} (ea : A -> A -> bool) (eb : B -> B -> bool) (a b : A * B) : bool :=
  ea (fst a) (fst b) && eb (snd a) (snd b).

(** Index the non-empty results of a per-case checker. Result entries are
    [(case index, verdict code)]; codes: 1 = model/implementation mismatch,
    2 = spec violated by the implementation's observation, 3 = spec violated by the model's
    own output (cannot happen while the theorems hold), 100+k = known finding k. *)
Fixpoint index_from {A} (i : N) (f : A -> list N) (l : list A) : list (N * N) :=
  match l with
  | [] => []
  | c :: r => map (fun v => (i, v)) (f c) ++ index_from (i + 1) f r
  end.

Definition V_MISMATCH : N := 1.
Definition V_SPECFAIL : N := 2.
Definition V_MODELSPEC : N := 3.
Definition V_KNOWN (k : N) : N := 100 + k.
