(** IEEE-754 binary64 values read off their 64-bit patterns, as exact dyadic
    rationals over Z (no primitive floats anywhere).  Shared vocabulary of the
    C09 model and specification: this is the standard's decoding, not a model of
    any code.  (Owned by the C09 check.) *)
From Coq Require Import ZArith NArith Bool Lia.
Open Scope Z_scope.

(** A bit pattern denotes NaN, an infinity, or (-1)^neg * m * 2^e with
    0 <= m < 2^53 and -1074 <= e <= 971. *)
Inductive fclass :=
| FNaN
| FInf (neg : bool)
| FFin (neg : bool) (m e : Z).

Definition fsign (bits : N) : bool := (2 ^ 63 <=? bits)%N.
Definition fexpo (bits : N) : Z := Z.of_N ((bits / 2 ^ 52) mod 2048).
Definition fmant (bits : N) : Z := Z.of_N (bits mod 2 ^ 52).

Definition classify (bits : N) : fclass :=
  let s := fsign bits in
  let e := fexpo bits in
  let m := fmant bits in
  if e =? 2047 then (if m =? 0 then FInf s else FNaN)
  else if e =? 0 then FFin s m (-1074)
  else FFin s (2 ^ 52 + m) (e - 1075).

(** Every finite value is an integer multiple of 2^-1074: [scaled] = value * 2^1074. *)
Definition scaled (neg : bool) (m e : Z) : Z :=
  let a := m * 2 ^ (e + 1074) in if neg then - a else a.

Definition ONE : Z := 2 ^ 1074.   (* 1.0, scaled *)

(** Order of the extended reals the patterns denote (false when a NaN is involved). *)
Definition fle (a b : fclass) : bool :=
  match a, b with
  | FNaN, _ | _, FNaN => false
  | FInf true, _ => true
  | _, FInf false => true
  | FInf false, _ => false
  | _, FInf true => false
  | FFin s1 m1 e1, FFin s2 m2 e2 => scaled s1 m1 e1 <=? scaled s2 m2 e2
  end.

Definition is_nan (a : fclass) : bool := match a with FNaN => true | _ => false end.

(** value <= 0,  value >= 1 *)
Definition le_zero (a : fclass) : bool :=
  match a with
  | FNaN => false
  | FInf neg => neg
  | FFin s m e => scaled s m e <=? 0
  end.
Definition ge_one (a : fclass) : bool :=
  match a with
  | FNaN => false
  | FInf neg => negb neg
  | FFin s m e => ONE <=? scaled s m e
  end.

Lemma fexpo_range bits : 0 <= fexpo bits < 2048.
Proof.
  unfold fexpo. assert (H : ((bits / 2 ^ 52) mod 2048 < 2048)%N) by (apply N.mod_lt; discriminate).
  revert H. generalize ((bits / 2 ^ 52) mod 2048)%N. intros n H. lia.
Qed.

Lemma fmant_range bits : 0 <= fmant bits < 2 ^ 52.
Proof.
  unfold fmant. assert (H : (bits mod 2 ^ 52 < 2 ^ 52)%N) by (apply N.mod_lt; discriminate).
  revert H. generalize (bits mod 2 ^ 52)%N. intros n H.
  change (2 ^ 52)%N with 4503599627370496%N in H. change (2 ^ 52) with 4503599627370496. lia.
Qed.

(** Shape of every finite pattern. *)
Definition fin_m (c : fclass) : Z := match c with FFin _ m _ => m | _ => 0 end.
Definition fin_e (c : fclass) : Z := match c with FFin _ _ e => e | _ => 0 end.

Lemma classify_fin bits s m e :
  classify bits = FFin s m e -> 0 <= m < 2 ^ 53 /\ -1074 <= e <= 971.
Proof.
  unfold classify. pose proof (fexpo_range bits). pose proof (fmant_range bits).
  change (2 ^ 52) with 4503599627370496 in *. change (2 ^ 53) with 9007199254740992.
  destruct (fexpo bits =? 2047) eqn:E1.
  - destruct (fmant bits =? 0); discriminate.
  - destruct (fexpo bits =? 0) eqn:E2; intro H';
      pose proof (f_equal fin_m H') as Hm; pose proof (f_equal fin_e H') as He;
      unfold fin_m, fin_e in Hm, He; lia.
Qed.
