(** C15 correspondence: evaluates model and specification on the operation
    sequences the Go harness ran against the three SDK providers (one child process per
    sequence). *)
From Verif Require Import Lib.Base Lib.LTS C15.Spec C15.Model.
Open Scope N_scope.

Definition n2 (x : N) : nat := N.to_nat x.

(** Compact literals. *)
Definition cl (l : list (N * callk)) : list (nat * callk) := map (fun c => (n2 (fst c), snd c)) l.
Definition OB (e : err) (flag : bool) (calls xcalls : list (N * callk)) (wrote : bool) : obs :=
  {| o_err := e; o_flag := flag; o_calls := cl calls; o_xcalls := cl xcalls; o_wrote := wrote |}.

Definition Reg (p : N) := TReg (n2 p).
Definition Unreg (p : N) := TUnreg (n2 p).
Definition End_ (i : N) := TEnd (n2 i).
Definition Collect (i : N) := MCollect (n2 i).

Inductive case :=
(** trace provider: processor kinds (by id), initially registered ids, operations, observations *)
| CT (kinds : list pk) (members : list N) (ops : list top) (obs : list obs)
(** metric provider: readers, operations, observations ([None] = the child process crashed) *)
| CM (readers : list rk) (ops : list mop) (obs : option (list obs))
(** log provider *)
| CL (procs : list lk) (ops : list lop) (obs : option (list obs))
(** storm: [late] = OnStart/OnEnd calls that reached any processor after the storm's Shutdown had returned
    (spans from a pre-shutdown tracer and a span started before). [n] processors registered up front; goroutines concurrently call Shutdown (live
    context), Unregister of those processors, Register of [extra] further ones, and end spans.
    Observed afterwards: Shutdown calls per processor, whether a fresh tracer still records,
    error classes of a final ForceFlush and Shutdown. *)
| CStorm (kinds : list pk) (n extra : N) (shutdowns xshutdowns : list N) (late : N) (fresh_records : bool) (flush_err shutdown_err : err)
(** one round of concurrent Shutdown / ForceFlush callers on a fresh LoggerProvider / MeterProvider *)
| CStormL (procs : list lk) (pshut xshut : list N) (shut_errs flush_errs : list err)
| CStormM (readers : list rk) (xshut : list N) (shut_errs flush_errs collect_after : list err)
(** trace provider built with WithSyncer / WithBatcher: the processors are inside the provider, only their
    exporters are wrapped.  The processor-level calls cannot be observed: they are taken from the model;
    error classes, flags, exporter-level calls and output are compared and judged as in [CT]. *)
| CTO (kinds : list pk) (members : list N) (ops : list top) (obs : list obs)
(** one stock span processor driven directly (model + spec); one stock log processor (spec only) *)
| CD (k : pk) (ops : list dop) (obs : list obs)
| CDL (k : lk) (ops : list dop) (obs : list obs)
(** concurrent direct callers of one processor: exporter shutdowns seen, error classes returned *)
| CDStorm (hasx : bool) (xshut : N) (errs : list err)
| CDStorm2 (hasx : bool) (at_return : list N) (late : N) (errs : list err)
| CDCancel (hasx : bool) (xshut late : N) (first : err) (later : list err)
(** one metric reader used directly and through [reg] providers *)
| CR (r : rk) (reg : N) (ops : list rop) (obs : list obs)
(** failing processors: ids for which ForceFlush and Shutdown report an error *)
| CF (failing members : list N) (ops : list fop) (obs : list obs).

Definition FReg_ (p : N) := FReg (n2 p).
Definition FUnreg_ (p : N) := FUnreg (n2 p).

(** Exporter-level calls are compared as multisets (they may come from worker goroutines). *)
Definition callk_rank (k : callk) : nat :=
  match k with KOnStart => 0 | KOnEnd => 1 | KShutdown => 2 | KFlush => 3 | KExport => 4 | KXFlush => 5 | KXShutdown => 6 end%nat.
Definition call_le (a b : nat * callk) : bool :=
  (Nat.ltb (fst a) (fst b)) || (Nat.eqb (fst a) (fst b) && Nat.leb (callk_rank (snd a)) (callk_rank (snd b))).
Fixpoint ins (c : nat * callk) (l : list (nat * callk)) : list (nat * callk) :=
  match l with
  | [] => [c]
  | x :: r => if call_le c x then c :: l else x :: ins c r
  end.
Definition sort_calls (l : list (nat * callk)) : list (nat * callk) := fold_right ins [] l.

Definition obs_eqb (a b : obs) : bool :=
  err_eqb (o_err a) (o_err b) && Bool.eqb (o_flag a) (o_flag b) && calls_eqb (o_calls a) (o_calls b) &&
  calls_eqb (sort_calls (o_xcalls a)) (sort_calls (o_xcalls b)) && Bool.eqb (o_wrote a) (o_wrote b).

Fixpoint obs_list_eqb (a b : list obs) : bool :=
  match a, b with
  | [], [] => true
  | x :: a', y :: b' => obs_eqb x y && obs_list_eqb a' b'
  | _, _ => false
  end.

(** Model observation (with allowed error set) against a real one. *)
Definition mobs_match (m : mobs) (o : obs) : bool :=
  err_in (o_err o) (a_errs m) &&
  (Nat.ltb (a_strict m) 1 ||
   (Bool.eqb (o_flag (a_obs m)) (o_flag o) && calls_eqb (o_calls (a_obs m)) (o_calls o))) &&
  (Nat.ltb (a_strict m) 2 ||
   (calls_eqb (sort_calls (o_xcalls (a_obs m))) (sort_calls (o_xcalls o)) && Bool.eqb (o_wrote (a_obs m)) (o_wrote o))).

Fixpoint mobs_list_match {A} (a : list (A * mobs)) (b : list obs) : bool :=
  match a, b with
  | [], [] => true
  | (_, x) :: a', y :: b' => mobs_match x y && mobs_list_match a' b'
  | _, _ => false
  end.

Definition kinds_fn (kinds : list pk) (p : nat) : pk := nth p kinds PCount.

Definition flag (b : bool) (code : N) : list N := if b then [] else [code].

(** Storm judge (the property, on what is observable afterwards): every processor registered
    before the storm was shut down exactly once, those registered during it at most once;
    afterwards a fresh tracer does not record and ForceFlush / Shutdown return nil. *)
Definition storm_ok (kinds : list pk) (n extra : nat) (shutdowns xshutdowns : list nat) (late : nat) (fresh_records : bool) (fe se : err) : bool :=
  (* after Shutdown returned no processor is told about a span any more (from whatever tracer) *)
  Nat.eqb late 0 &&
  Nat.eqb (length shutdowns) (n + extra) && Nat.eqb (length xshutdowns) (n + extra) && Nat.eqb (length kinds) (n + extra) &&
  forallb (fun c => Nat.eqb c 1) (firstn n shutdowns) &&
  forallb (fun c => Nat.leb c 1) (skipn n shutdowns) &&
  (* each exporter is shut down exactly when (and as often as) its processor is: once or never *)
  forallb (fun kcx => let '(k, c, x) := kcx in Nat.eqb x (if has_x k then c else 0))
          (combine (combine kinds shutdowns) xshutdowns) &&
  negb fresh_records && err_eqb fe ENil && err_eqb se ENil.

(** Trace: a Shutdown whose context is already cancelled is told to every processor, each of which
    may honour the context: the returned class is nil or the context error, and what the processors
    finish in the background (drain, export, exporter shutdown) can surface during any later
    operation.  From that operation on only the error class (against the allowed set), the flag and
    the processor-level calls are compared. *)
Fixpoint tmatch (kinds : nat -> pk) (s : tstate) (loose : bool) (ops : list top) (obs : list obs) : bool :=
  match ops, obs with
  | [], [] => true
  | o :: r, ob :: obr =>
      let '(s', m) := tstep kinds s o in
      let cancelled := match o with
                       | TShutdown false => negb (t_shut s) && negb (Nat.eqb (length (t_regs s)) 0)
                       | _ => false
                       end in
      let loose' := loose || cancelled in
      (if loose'
       then err_in (o_err ob) (if cancelled then [ENil; ECtx] else [o_err m]) &&
            Bool.eqb (o_flag m) (o_flag ob) && calls_eqb (o_calls m) (o_calls ob)
       else obs_eqb m ob) && tmatch kinds s' loose' r obr
  | _, _ => false
  end.

Definition check_case (c : case) : list N :=
  match c with
  | CT kinds members ops obs =>
      let ms := map n2 members in
      flag (tmatch (kinds_fn kinds) (tinit ms) false ops obs) V_MISMATCH ++
      flag (Nat.eqb (length ops) (length obs) && tspec_ok (kinds_fn kinds) ms (combine ops obs)) V_SPECFAIL ++
      flag (tspec_ok (kinds_fn kinds) ms (trun (kinds_fn kinds) (tinit ms) ops)) V_MODELSPEC
  | CM readers ops obs =>
      match mrun readers ops, obs with
      | Ok m, Some o =>
          flag (mobs_list_match m o) V_MISMATCH ++
          flag (Nat.eqb (length ops) (length o) && mspec_ok readers (combine ops o)) V_SPECFAIL ++
          flag (mspec_ok readers (map (fun x => (fst x, a_obs (snd x))) m)) V_MODELSPEC
      | _, _ => [V_MISMATCH; V_SPECFAIL]               (* a crash: the model has none *)
      end
  | CL procs ops obs =>
      match lrun procs ops, obs with
      | Ok m, Some o =>
          flag (mobs_list_match m o) V_MISMATCH ++
          flag (Nat.eqb (length ops) (length o) && lspec_ok procs (combine ops o)) V_SPECFAIL ++
          flag (lspec_ok procs (map (fun x => (fst x, a_obs (snd x))) m)) V_MODELSPEC
      | _, _ => [V_MISMATCH; V_SPECFAIL]
      end
  | CStorm kinds n extra sh xsh late fr fe se =>
      flag (storm_ok kinds (n2 n) (n2 extra) (map n2 sh) (map n2 xsh) (n2 late) fr fe se) V_SPECFAIL
  | CStormL procs ps xs se fe =>
      flag (lstorm_ok procs (map n2 ps) (map n2 xs) se fe) V_SPECFAIL
  | CStormM readers xs se fe ca =>
      flag (mstorm_ok readers (map n2 xs) se fe ca) V_SPECFAIL
  | CTO kinds members ops obs =>
      let ms := map n2 members in
      let m := trun (kinds_fn kinds) (tinit ms) ops in
      let obs' := map (fun mo => {| o_err := o_err (snd mo); o_flag := o_flag (snd mo); o_calls := o_calls (snd (fst mo));
                                   o_xcalls := o_xcalls (snd mo); o_wrote := o_wrote (snd mo) |}) (combine m obs) in
      flag (Nat.eqb (length ops) (length obs) && tmatch (kinds_fn kinds) (tinit ms) false ops obs') V_MISMATCH ++
      flag (Nat.eqb (length ops) (length obs) && tspec_ok (kinds_fn kinds) ms (combine ops obs')) V_SPECFAIL ++
      flag (tspec_ok (kinds_fn kinds) ms m) V_MODELSPEC
  | CD k ops obs =>
      let m := drun k pst0 ops in
      flag (obs_list_eqb (map snd m) obs) V_MISMATCH ++
      flag (Nat.eqb (length ops) (length obs) && dspec_ok (has_x k) (combine ops obs)) V_SPECFAIL ++
      flag (dspec_ok (has_x k) m) V_MODELSPEC
  | CDL k ops obs =>
      flag (Nat.eqb (length ops) (length obs) && dspec_ok (has_std k) (combine ops obs)) V_SPECFAIL
  | CDStorm hasx xs errs =>
      flag (dstorm_ok hasx (n2 xs) errs) V_SPECFAIL
  | CDCancel hasx xs late e1 later =>
      flag (dcancel_ok hasx (n2 xs) (n2 late) e1 later) V_SPECFAIL
  | CDStorm2 hasx ar late errs =>
      flag (dstorm2_ok hasx (map n2 ar) (n2 late) errs) V_SPECFAIL
  | CR r reg ops obs =>
      let m := rrun r (n2 reg) rinit ops in
      flag (obs_list_eqb (map snd m) obs) V_MISMATCH ++
      flag (Nat.eqb (length ops) (length obs) && rspec_ok r (n2 reg) (combine ops obs)) V_SPECFAIL ++
      flag (rspec_ok r (n2 reg) m) V_MODELSPEC
  | CF failing members ops obs =>
      let fails := fun p => mem p (map n2 failing) in
      let m := frun fails (map n2 members, false) ops in
      flag (obs_list_eqb (map snd m) obs) V_MISMATCH ++
      flag (Nat.eqb (length ops) (length obs) && fspec_ok fails (map n2 members) (combine ops obs)) V_SPECFAIL ++
      flag (fspec_ok fails (map n2 members) m) V_MODELSPEC
  end.

Definition run (cs : list case) : list (N * N) := index_from 0 check_case cs.
