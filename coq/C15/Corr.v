(** C15 correspondence: evaluates model and specification on the operation
    sequences the Go harness ran against the three SDK providers (one child process per
    sequence). *)
From Verif Require Import Lib.Base Lib.LTS C15.Spec C15.Model.
Open Scope N_scope.

Definition n2 (x : N) : nat := N.to_nat x.

(** Compact literals. *)
Definition cl (l : list (N * callk)) : list (nat * callk) := map (fun c => (n2 (fst c), snd c)) l.
Definition OB (e : err) (flag : bool) (calls xcalls : list (N * callk)) (wrote : bool) : obs :=
  {| o_err := e; o_flag := flag; o_calls := cl calls; o_xcalls := cl xcalls; o_wrote := wrote |}.

Definition Reg (p : N) := TReg (n2 p).
Definition Unreg (p : N) := TUnreg (n2 p).
Definition End_ (i : N) := TEnd (n2 i).
Definition Collect (i : N) := MCollect (n2 i).

Inductive case :=
(** trace provider: processor kinds (by id), initially registered ids, operations, observations *)
| CT (kinds : list pk) (members : list N) (ops : list top) (obs : list obs)
(** metric provider: readers, operations, observations ([None] = the child process crashed) *)
| CM (readers : list rk) (ops : list mop) (obs : option (list obs))
(** log provider *)
| CL (procs : list lk) (ops : list lop) (obs : option (list obs))
(** storm: [n] processors registered up front; goroutines concurrently call Shutdown (live
    context), Unregister of those processors, Register of [extra] further ones, and end spans.
    Observed afterwards: Shutdown calls per processor, whether a fresh tracer still records,
    error classes of a final ForceFlush and Shutdown. *)
| CStorm (n extra : N) (shutdowns : list N) (fresh_records : bool) (flush_err shutdown_err : err).

(** Exporter-level calls are compared as multisets (they may come from worker goroutines). *)
Definition callk_rank (k : callk) : nat :=
  match k with KOnStart => 0 | KOnEnd => 1 | KShutdown => 2 | KFlush => 3 | KExport => 4 | KXFlush => 5 | KXShutdown => 6 end%nat.
Definition call_le (a b : nat * callk) : bool :=
  (Nat.ltb (fst a) (fst b)) || (Nat.eqb (fst a) (fst b) && Nat.leb (callk_rank (snd a)) (callk_rank (snd b))).
Fixpoint ins (c : nat * callk) (l : list (nat * callk)) : list (nat * callk) :=
  match l with
  | [] => [c]
  | x :: r => if call_le c x then c :: l else x :: ins c r
  end.
Definition sort_calls (l : list (nat * callk)) : list (nat * callk) := fold_right ins [] l.

Definition obs_eqb (a b : obs) : bool :=
  err_eqb (o_err a) (o_err b) && Bool.eqb (o_flag a) (o_flag b) && calls_eqb (o_calls a) (o_calls b) &&
  calls_eqb (sort_calls (o_xcalls a)) (sort_calls (o_xcalls b)) && Bool.eqb (o_wrote a) (o_wrote b).

Fixpoint obs_list_eqb (a b : list obs) : bool :=
  match a, b with
  | [], [] => true
  | x :: a', y :: b' => obs_eqb x y && obs_list_eqb a' b'
  | _, _ => false
  end.

(** Model observation (with allowed error set) against a real one. *)
Definition mobs_match (m : mobs) (o : obs) : bool :=
  err_in (o_err o) (a_errs m) &&
  (Nat.ltb (a_strict m) 1 ||
   (Bool.eqb (o_flag (a_obs m)) (o_flag o) && calls_eqb (o_calls (a_obs m)) (o_calls o))) &&
  (Nat.ltb (a_strict m) 2 ||
   (calls_eqb (sort_calls (o_xcalls (a_obs m))) (sort_calls (o_xcalls o)) && Bool.eqb (o_wrote (a_obs m)) (o_wrote o))).

Fixpoint mobs_list_match {A} (a : list (A * mobs)) (b : list obs) : bool :=
  match a, b with
  | [], [] => true
  | (_, x) :: a', y :: b' => mobs_match x y && mobs_list_match a' b'
  | _, _ => false
  end.

Definition kinds_fn (kinds : list pk) (p : nat) : pk := nth p kinds PCount.

Definition flag (b : bool) (code : N) : list N := if b then [] else [code].

(** Storm judge (the property, on what is observable afterwards): every processor registered
    before the storm was shut down exactly once, those registered during it at most once;
    afterwards a fresh tracer does not record and ForceFlush / Shutdown return nil. *)
Definition storm_ok (n extra : nat) (shutdowns : list nat) (fresh_records : bool) (fe se : err) : bool :=
  Nat.eqb (length shutdowns) (n + extra) &&
  forallb (fun c => Nat.eqb c 1) (firstn n shutdowns) &&
  forallb (fun c => Nat.leb c 1) (skipn n shutdowns) &&
  negb fresh_records && err_eqb fe ENil && err_eqb se ENil.

Definition check_case (c : case) : list N :=
  match c with
  | CT kinds members ops obs =>
      let ms := map n2 members in
      let m := trun (kinds_fn kinds) (tinit ms) ops in
      let run := combine ops obs in
      flag (Nat.eqb (length ops) (length obs) && obs_list_eqb (map snd m) obs) V_MISMATCH ++
      (if tspec_ok ms run then []
       else if t_trigger ms ops && tspec_known ms run then [V_KNOWN 1] else [V_SPECFAIL]) ++
      flag (tspec_known ms m) V_MODELSPEC
  | CM readers ops obs =>
      match mrun readers ops, obs with
      | Crash, None => [V_KNOWN 2]                     (* PeriodicReader around a nil exporter *)
      | Crash, Some _ => [V_MISMATCH]
      | Ok m, None => [V_MISMATCH; V_SPECFAIL]         (* a crash the model does not have *)
      | Ok m, Some o =>
          flag (mobs_list_match m o) V_MISMATCH ++
          flag (Nat.eqb (length ops) (length o) && mspec_ok readers (combine ops o)) V_SPECFAIL ++
          flag (mspec_ok readers (map (fun x => (fst x, a_obs (snd x))) m)) V_MODELSPEC
      end
  | CL procs ops obs =>
      match lrun procs ops, obs with
      | Ok m, Some o =>
          flag (mobs_list_match m o) V_MISMATCH ++
          flag (Nat.eqb (length ops) (length o) && lspec_ok procs (combine ops o)) V_SPECFAIL ++
          flag (lspec_ok procs (map (fun x => (fst x, a_obs (snd x))) m)) V_MODELSPEC
      | _, _ => [V_MISMATCH; V_SPECFAIL]
      end
  | CStorm n extra sh fr fe se =>
      flag (storm_ok (n2 n) (n2 extra) (map n2 sh) fr fe se) V_SPECFAIL
  end.

Definition run (cs : list case) : list (N * N) := index_from 0 check_case cs.
