(** C15 model (definitions only): the lifecycle state machines of the three SDK
    providers, following the code as it is.

    Trace (sdk/trace/provider.go, span_processor.go, simple_span_processor.go, batch_span_processor.go):
      spanProcessors         [t_regs : list (pid * once-fired)], copy-on-write, read atomically
      RegisterSpanProcessor  append a fresh spanProcessorState unless isShutdown
      UnregisterSpanProcessor  unless isShutdown / empty: locate the LAST entry whose processor is sp
                             ([last_index]); none -> return (fix f92b4a5); state.Do(sp.Shutdown); splice it out
      Shutdown(ctx)          isShutdown CAS; for each entry state.Do(sp.Shutdown(ctx)) (no early return on a
                             cancelled ctx since fix 98804a6); store the empty list
      ForceFlush(ctx)        empty -> nil; for each entry { ctx done -> return ctx.Err(); sp.ForceFlush }
      Tracer                 a no-op tracer once isShutdown; Start/End fan out over the list read at that moment
      simpleSpanProcessor    OnEnd exports while the exporter field is non-nil; Shutdown (stopOnce) zeroes the
                             field and shuts the exporter down; a nil exporter is tolerated (fix d192059)
      batchSpanProcessor     OnEnd enqueues unless stopped / nil exporter; ForceFlush exports the queue;
                             Shutdown (stopOnce) drains, exports, shuts the exporter down
    Metric (sdk/metric/provider.go, config.go unifyShutdown, manual_reader.go, periodic_reader.go) and
    log (sdk/log/provider.go, simple.go, batch.go) providers: see [mstep] and [lstep].

    A nil exporter is a value ([XNil]); a call on it that the code does not guard is the outcome [Crash]. *)
From Coq Require Import List Arith Lia Bool.
From Verif Require Import Lib.LTS C15.Spec.
Import ListNotations.

Inductive outcome (A : Type) := Ok (a : A) | Crash.
Arguments Ok {A} a.
Arguments Crash {A}.

(** * Trace provider *)
Record pst := { p_once : bool; p_alive : bool; p_q : nat }.
Definition pst0 : pst := {| p_once := false; p_alive := true; p_q := 0 |}.

Definition is_nil (x : xk) : bool := match x with XNil => true | _ => false end.
Definition is_std (x : xk) : bool := match x with XStd => true | _ => false end.

(** Effects of one call on processor [p]: new state, exporter-level calls, output written. *)
Definition eff := (pst * list (nat * callk) * bool)%type.

Definition p_on_start (k : pk) (p : nat) (st : pst) : eff := (st, [], false).

Definition p_on_end (k : pk) (p : nat) (st : pst) : eff :=
  match k with
  | PCount => (st, [], false)
  | PSimple x => if p_alive st && negb (is_nil x) then (st, [(p, KExport)], is_std x) else (st, [], false)
  | PBatch x => if p_alive st && negb (is_nil x)
                then ({| p_once := p_once st; p_alive := true; p_q := S (p_q st) |}, [], false)
                else (st, [], false)
  end.

Definition p_flush (k : pk) (p : nat) (st : pst) : eff :=
  match k with
  | PBatch x => if p_alive st && negb (is_nil x) && (0 <? p_q st)
                then ({| p_once := p_once st; p_alive := true; p_q := 0 |}, [(p, KExport)], is_std x)
                else (st, [], false)
  | _ => (st, [], false)
  end.

Definition p_shutdown (k : pk) (p : nat) (st : pst) : eff :=
  if p_once st then (st, [], false) else
  let st' := {| p_once := true; p_alive := false; p_q := 0 |} in
  match k with
  | PCount => (st', [], false)
  | PSimple x => (st', if is_nil x then [] else [(p, KXShutdown)], false)
  | PBatch x => if is_nil x then (st', [], false)
                else (st', (if 0 <? p_q st then [(p, KExport)] else []) ++ [(p, KXShutdown)],
                      (0 <? p_q st) && is_std x)
  end.

Record tstate := {
  t_regs : list (nat * bool);     (* spanProcessorStates: processor, state(Once) fired *)
  t_shut : bool;                  (* isShutdown *)
  t_pst : nat -> pst;             (* the processors themselves *)
  t_spans : list (bool * bool)    (* started spans: recording, ended *)
}.

Definition tinit (members : list nat) : tstate :=
  {| t_regs := map (fun p => (p, false)) members; t_shut := false; t_pst := fun _ => pst0; t_spans := [] |}.

(** Call [f] on every entry of [regs] in order. *)
Fixpoint fan (kinds : nat -> pk) (f : pk -> nat -> pst -> eff) (k : callk) (regs : list (nat * bool))
             (ps : nat -> pst) : (nat -> pst) * list (nat * callk) * list (nat * callk) * bool :=
  match regs with
  | [] => (ps, [], [], false)
  | (p, _) :: r =>
      let '(st, xs, w) := f (kinds p) p (ps p) in
      let '(ps', cs, xs', w') := fan kinds f k r (upd ps p st) in
      (ps', (p, k) :: cs, xs ++ xs', w || w')
  end.

(** state.Do(sp.Shutdown) on every entry, marking the Once. *)
Fixpoint shutdown_all (kinds : nat -> pk) (regs : list (nat * bool)) (ps : nat -> pst)
  : (nat -> pst) * list (nat * callk) * list (nat * callk) * bool :=
  match regs with
  | [] => (ps, [], [], false)
  | (p, fired) :: r =>
      if fired then shutdown_all kinds r ps
      else let '(st, xs, w) := p_shutdown (kinds p) p (ps p) in
           let '(ps', cs, xs', w') := shutdown_all kinds r (upd ps p st) in
           (ps', (p, KShutdown) :: cs, xs ++ xs', w || w')
  end.

(** The loop of UnregisterSpanProcessor: index of the last entry holding [p]. *)
Fixpoint last_index_from (p : nat) (i : nat) (regs : list (nat * bool)) (acc : option nat) : option nat :=
  match regs with
  | [] => acc
  | (q, _) :: r => last_index_from p (S i) r (if q =? p then Some i else acc)
  end.
Definition last_index (p : nat) (regs : list (nat * bool)) : option nat := last_index_from p 0 regs None.

Definition quiet (e : err) (flag : bool) : obs :=
  {| o_err := e; o_flag := flag; o_calls := []; o_xcalls := []; o_wrote := false |}.

Definition tstep (kinds : nat -> pk) (s : tstate) (o : top) : tstate * obs :=
  match o with
  | TReg p =>
      if t_shut s then (s, quiet ENil false)
      else ({| t_regs := t_regs s ++ [(p, false)]; t_shut := false; t_pst := t_pst s; t_spans := t_spans s |},
            quiet ENil false)
  | TUnreg p =>
      if t_shut s then (s, quiet ENil false) else
      match last_index p (t_regs s) with
      | None => (s, quiet ENil false)
      | Some i =>
          let fired := match nth_error (t_regs s) i with Some (_, f) => f | None => true end in
          let regs' := firstn i (t_regs s) ++ skipn (S i) (t_regs s) in
          if fired
          then ({| t_regs := regs'; t_shut := false; t_pst := t_pst s; t_spans := t_spans s |}, quiet ENil false)
          else let '(st, xs, w) := p_shutdown (kinds p) p (t_pst s p) in
               ({| t_regs := regs'; t_shut := false; t_pst := upd (t_pst s) p st; t_spans := t_spans s |},
                {| o_err := ENil; o_flag := false; o_calls := [(p, KShutdown)]; o_xcalls := xs; o_wrote := w |})
      end
  | TStart fresh =>
      if t_shut s && fresh
      then ({| t_regs := t_regs s; t_shut := t_shut s; t_pst := t_pst s; t_spans := t_spans s ++ [(false, false)] |},
            quiet ENil false)
      else let '(ps, cs, xs, w) := fan kinds p_on_start KOnStart (t_regs s) (t_pst s) in
           ({| t_regs := t_regs s; t_shut := t_shut s; t_pst := ps; t_spans := t_spans s ++ [(true, false)] |},
            {| o_err := ENil; o_flag := true; o_calls := cs; o_xcalls := xs; o_wrote := w |})
  | TEnd i =>
      match nth_error (t_spans s) i with
      | Some (true, false) =>
          let '(ps, cs, xs, w) := fan kinds p_on_end KOnEnd (t_regs s) (t_pst s) in
          ({| t_regs := t_regs s; t_shut := t_shut s; t_pst := ps; t_spans := set_ended i (t_spans s) |},
           {| o_err := ENil; o_flag := false; o_calls := cs; o_xcalls := xs; o_wrote := w |})
      | _ => (s, quiet ENil false)
      end
  | TFlush live =>
      match t_regs s with
      | [] => (s, quiet ENil false)
      | _ => if live
             then let '(ps, cs, xs, w) := fan kinds p_flush KFlush (t_regs s) (t_pst s) in
                  ({| t_regs := t_regs s; t_shut := t_shut s; t_pst := ps; t_spans := t_spans s |},
                   {| o_err := ENil; o_flag := false; o_calls := cs; o_xcalls := xs; o_wrote := w |})
             else (s, quiet ECtx false)
      end
  | TShutdown live =>
      (* isShutdown CAS; every entry's state.Do(sp.Shutdown(ctx)) whatever ctx (fix 98804a6); store the
         empty list. With a cancelled ctx the processors may report it and finish in the background:
         the canonical observation below is the one of a live context. *)
      if t_shut s then (s, quiet ENil false) else
      let '(ps, cs, xs, w) := shutdown_all kinds (t_regs s) (t_pst s) in
      ({| t_regs := []; t_shut := true; t_pst := ps; t_spans := t_spans s |},
       {| o_err := ENil; o_flag := false; o_calls := cs; o_xcalls := xs; o_wrote := w |})
  end.

Fixpoint trun (kinds : nat -> pk) (s : tstate) (ops : list top) : list (top * obs) :=
  match ops with
  | [] => []
  | o :: r => let '(s', ob) := tstep kinds s o in (o, ob) :: trun kinds s' r
  end.

Fixpoint tstate_after (kinds : nat -> pk) (s : tstate) (ops : list top) : tstate :=
  match ops with
  | [] => s
  | o :: r => tstate_after kinds (fst (tstep kinds s o)) r
  end.

(** * Concurrent callers of Shutdown / Unregister / Register (the once clauses).
    Everything between p.mu.Lock() and Unlock() is one step; what interleaves is the
    unlocked isShutdown pre-check, the acquisition of the mutex, and the critical section.
    Registrations carry a unique id so that "each registration's processor sees exactly one
    Shutdown" can be stated ([c_count]). *)
Inductive cop := CShutdown (live : bool) | CUnreg (p : nat) | CReg (p : nat).
Inductive cpc := CIdle | CWant | CIn | CDone.

Record cstate := {
  c_regs : list (nat * nat);      (* registration id, processor *)
  c_shut : bool;
  c_mu : option nat;
  c_next : nat;                   (* next registration id *)
  c_count : nat -> nat;           (* Shutdown calls received through registration r *)
  c_pcs : nat -> cpc
}.

Definition cinit (members : list nat) : cstate :=
  {| c_regs := combine (seq 0 (length members)) members; c_shut := false; c_mu := None;
     c_next := length members; c_count := fun _ => 0; c_pcs := fun _ => CIdle |}.

Fixpoint c_last_from (p : nat) (i : nat) (regs : list (nat * nat)) (acc : option nat) : option nat :=
  match regs with
  | [] => acc
  | (_, q) :: r => c_last_from p (S i) r (if q =? p then Some i else acc)
  end.

Fixpoint bump_all (regs : list (nat * nat)) (cnt : nat -> nat) : nat -> nat :=
  match regs with
  | [] => cnt
  | (r, _) :: t => bump_all t (upd cnt r (S (cnt r)))
  end.

Definition ccrit (s : cstate) (t : nat) (o : cop) : cstate :=
  let done := upd (c_pcs s) t CDone in
  let same := {| c_regs := c_regs s; c_shut := c_shut s; c_mu := None; c_next := c_next s;
                 c_count := c_count s; c_pcs := done |} in
  if c_shut s then same else
  match o with
  | CReg p => {| c_regs := c_regs s ++ [(c_next s, p)]; c_shut := false; c_mu := None; c_next := S (c_next s);
                 c_count := c_count s; c_pcs := done |}
  | CUnreg p =>
      match c_last_from p 0 (c_regs s) None with
      | None => same
      | Some i =>
          let r := match nth_error (c_regs s) i with Some (r, _) => r | None => 0 end in
          {| c_regs := firstn i (c_regs s) ++ skipn (S i) (c_regs s); c_shut := false; c_mu := None;
             c_next := c_next s; c_count := upd (c_count s) r (S (c_count s r)); c_pcs := done |}
      end
  | CShutdown live =>
      {| c_regs := []; c_shut := true; c_mu := None; c_next := c_next s;
         c_count := bump_all (c_regs s) (c_count s); c_pcs := done |}
  end.

Definition cstep (prog : nat -> option cop) (s : cstate) (t : nat) : option cstate :=
  match prog t with
  | None => None
  | Some o =>
      match c_pcs s t with
      | CIdle => (* if p.isShutdown.Load() { return } *)
          Some {| c_regs := c_regs s; c_shut := c_shut s; c_mu := c_mu s; c_next := c_next s; c_count := c_count s;
                  c_pcs := upd (c_pcs s) t (if c_shut s then CDone else CWant) |}
      | CWant => match c_mu s with
                 | Some _ => None
                 | None => Some {| c_regs := c_regs s; c_shut := c_shut s; c_mu := Some t; c_next := c_next s;
                                   c_count := c_count s; c_pcs := upd (c_pcs s) t CIn |}
                 end
      | CIn => Some (ccrit s t o)
      | CDone => None
      end
  end.

(** * Metric provider *)
Record mstate := {
  m_stopped : bool; m_once : bool; m_rs : list bool (* reader shut down *);
  m_pending : bool   (* a ForceFlush abandoned by its cancelled context may still be served by a reader's
                        run goroutine: its export can surface during any operation up to the next
                        live ForceFlush or Shutdown, which wait behind it *)
}.

(** Model observation: allowed error classes and how much of the rest is determined:
    2 = everything, 1 = flag and processor-level calls (exporter calls and output may include a
    stray asynchronous export), 0 = the error class only. *)
Record mobs := { a_errs : list err; a_strict : nat; a_obs : obs }.

Definition mk (errs : list err) (strict : nat) (flag : bool) (cs xs : list (nat * callk)) (w : bool) : mobs :=
  {| a_errs := errs; a_strict := strict;
     a_obs := {| o_err := hd ENil errs; o_flag := flag; o_calls := cs; o_xcalls := xs; o_wrote := w |} |}.

Definition nil_periodic (r : rk) : bool := match r with RPeriodic XNil => true | _ => false end.

(** ForceFlush of every PeriodicReader (readers that have the method), in order. *)
Fixpoint m_flush (i : nat) (rs : list rk) (shut : list bool) : list (nat * callk) * bool * bool (* some EShut *) :=
  match rs, shut with
  | r :: rt, b :: bt =>
      let '(xs, w, e) := m_flush (S i) rt bt in
      match r with
      | RManual => (xs, w, e)
      | RPeriodic x => if b then (xs, w, true)
                       else if is_nil x then (xs, w, e)     (* no-op exporter (fix b09d39a) *)
                       else ((i, KExport) :: (i, KXFlush) :: xs, is_std x || w, e)
      end
  | _, _ => ([], false, false)
  end.

Fixpoint m_shutdown (live : bool) (i : nat) (rs : list rk) (shut : list bool) : list (nat * callk) * bool :=
  match rs, shut with
  | r :: rt, b :: bt =>
      let '(xs, w) := m_shutdown live (S i) rt bt in
      match r with
      | RManual => (xs, w)
      | RPeriodic x => if b then (xs, w)
                       else if is_nil x then (xs, w)
                       else ((i, KExport) :: (i, KXShutdown) :: xs, (live && is_std x) || w)
      end
  | _, _ => ([], false)
  end.

Definition has_periodic (readers : list rk) : bool :=
  existsb (fun r => match r with RPeriodic _ => true | RManual => false end) readers.

Definition mstep (readers : list rk) (s : mstate) (o : mop) : mstate * mobs :=
  let lvl := if m_pending s then 1 else 2 in
  match o with
  | MAdd fresh => (s, mk [ENil] lvl (negb (m_stopped s && fresh)) [] [] false)
  | MCollect i =>
      (s, mk [if nth i (m_rs s) false then EShut else ENil] lvl false [] [] false)
  | MFlush live =>
      let '(xs, w, e) := m_flush 0 readers (m_rs s) in
      if live
      then ({| m_stopped := m_stopped s; m_once := m_once s; m_rs := m_rs s; m_pending := false |},
            mk [if e then EShut else ENil] lvl false [] xs w)
      else ({| m_stopped := m_stopped s; m_once := m_once s; m_rs := m_rs s;
               m_pending := m_pending s || (negb (m_once s) && has_periodic readers) |},
            mk [ENil; ECtx; EShut] 0 false [] [] false)
  | MShutdown live =>
      if m_once s
      then ({| m_stopped := true; m_once := true; m_rs := m_rs s; m_pending := m_pending s |},
            mk [EShut] lvl false [] [] false)
      else let '(xs, w) := m_shutdown live 0 readers (m_rs s) in
           ({| m_stopped := true; m_once := true; m_rs := map (fun _ => true) (m_rs s); m_pending := false |},
            mk (if live then [ENil] else [ENil; ECtx]) lvl false [] xs w)
  end.

Fixpoint mrun_from (readers : list rk) (s : mstate) (ops : list mop) : list (mop * mobs) :=
  match ops with
  | [] => []
  | o :: r => let '(s', ob) := mstep readers s o in (o, ob) :: mrun_from readers s' r
  end.

Definition mrun (readers : list rk) (ops : list mop) : outcome (list (mop * mobs)) :=
  Ok (mrun_from readers {| m_stopped := false; m_once := false; m_rs := map (fun _ => false) readers;
                           m_pending := false |} ops).

(** * Log provider *)
Record lstate := { l_stopped : bool; l_q : list nat (* batch queue lengths, per processor *);
                   l_pending : bool (* as [m_pending], for batch processors *) }.

Definition l_x (p : lk) : xk := match p with LSimple x | LBatch x => x end.

Fixpoint l_emit (stopped : bool) (i : nat) (ps : list lk) (q : list nat) : list nat * list (nat * callk) * bool :=
  match ps, q with
  | p :: pt, n :: qt =>
      let '(q', xs, w) := l_emit stopped (S i) pt qt in
      match p with
      | LSimple x => if is_nil x then (n :: q', xs, w)
                     else (n :: q', (i, KExport) :: xs, (negb stopped && is_std x) || w)
      | LBatch _ => ((if stopped then n else S n) :: q', xs, w)
      end
  | _, _ => ([], [], false)
  end.

Fixpoint l_flush (i : nat) (ps : list lk) (q : list nat) : list nat * list (nat * callk) * bool :=
  match ps, q with
  | p :: pt, n :: qt =>
      let '(q', xs, w) := l_flush (S i) pt qt in
      match p with
      | LSimple x => if is_nil x then (n :: q', xs, w) else (n :: q', (i, KXFlush) :: xs, w)
      | LBatch x => if is_nil x then (0 :: q', xs, w)
                    else (0 :: q', (if 0 <? n then [(i, KExport)] else []) ++ (i, KXFlush) :: xs,
                          ((0 <? n) && is_std x) || w)
      end
  | _, _ => ([], [], false)
  end.

Fixpoint l_shutdown (i : nat) (ps : list lk) (q : list nat) : list (nat * callk) * bool :=
  match ps, q with
  | p :: pt, n :: qt =>
      let '(xs, w) := l_shutdown (S i) pt qt in
      match p with
      | LSimple x => if is_nil x then (xs, w) else ((i, KXShutdown) :: xs, w)
      | LBatch x => if is_nil x then (xs, w)
                    else ((if 0 <? n then [(i, KExport)] else []) ++ (i, KXShutdown) :: xs,
                          ((0 <? n) && is_std x) || w)
      end
  | _, _ => ([], false)
  end.

Definition has_batch (procs : list lk) : bool :=
  existsb (fun p => match p with LBatch x => negb (is_nil x) | LSimple _ => false end) procs.

Definition lstep (procs : list lk) (s : lstate) (o : lop) : lstate * mobs :=
  let all := seq 0 (length procs) in
  let lvl := if l_pending s then 1 else 2 in
  match o with
  | LEmit fresh =>
      if l_stopped s && fresh then (s, mk [ENil] lvl false [] [] false)
      else let '(q', xs, w) := l_emit (l_stopped s) 0 procs (l_q s) in
           ({| l_stopped := l_stopped s; l_q := q'; l_pending := l_pending s |},
            mk [ENil] lvl true (to_all KOnEnd all) xs w)
  | LFlush live =>
      if l_stopped s then (s, mk [ENil] lvl false [] [] false)
      else if live
      then let '(q', xs, w) := l_flush 0 procs (l_q s) in
           ({| l_stopped := false; l_q := q'; l_pending := false |}, mk [ENil] lvl false (to_all KFlush all) xs w)
      else ({| l_stopped := false; l_q := l_q s; l_pending := l_pending s || has_batch procs |},
            mk [ENil; ECtx] 0 false [] [] false)
  | LShutdown live =>
      if l_stopped s then (s, mk [ENil] lvl false [] [] false)
      else let '(xs, w) := l_shutdown 0 procs (l_q s) in
           ({| l_stopped := true; l_q := map (fun _ => 0) (l_q s);
               l_pending := negb live && (l_pending s || has_batch procs) (* a cancelled Shutdown does not wait *) |},
            mk (if live then [ENil] else [ENil; ECtx]) (if live then lvl else 1) false (to_all KShutdown all) xs w)
  end.

Fixpoint lrun_from (procs : list lk) (s : lstate) (ops : list lop) : list (lop * mobs) :=
  match ops with
  | [] => []
  | o :: r => let '(s', ob) := lstep procs s o in (o, ob) :: lrun_from procs s' r
  end.

Definition lrun (procs : list lk) (ops : list lop) : outcome (list (lop * mobs)) :=
  Ok (lrun_from procs {| l_stopped := false; l_q := map (fun _ => 0) procs; l_pending := false |} ops).

(** * Concurrent Shutdown callers on the log and metric providers.
    LoggerProvider.Shutdown: [stopped.Swap(true)]; the caller that swapped false->true shuts the
    processors down one after the other, every other caller returns nil at once ([blocking = false]).
    MeterProvider.Shutdown: [stopped.Store(true)] then unifyShutdown's [sync.Once]: the first caller
    runs the readers' shutdown, every other caller waits for it and returns ErrReaderShutdown
    ([blocking = true]). [n] = number of processors / readers. *)
Inductive spc := SIdle | SRun (i : nat) | SDone (e : err).

Record sstate := {
  s_flag : option nat;          (* the caller that won the swap / the Once *)
  s_finished : bool;            (* the winner has shut everything down *)
  s_counts : nat -> nat;        (* Shutdown calls received by processor / reader j *)
  s_pcs : nat -> spc
}.

Definition sinit : sstate :=
  {| s_flag := None; s_finished := false; s_counts := fun _ => 0; s_pcs := fun _ => SIdle |}.

Definition sstep (blocking : bool) (n : nat) (callers : nat -> bool) (s : sstate) (t : nat) : option sstate :=
  if negb (callers t) then None else
  match s_pcs s t with
  | SIdle =>
      match s_flag s with
      | None => Some {| s_flag := Some t; s_finished := false; s_counts := s_counts s; s_pcs := upd (s_pcs s) t (SRun 0) |}
      | Some _ =>
          if blocking
          then if s_finished s
               then Some {| s_flag := s_flag s; s_finished := true; s_counts := s_counts s;
                            s_pcs := upd (s_pcs s) t (SDone EShut) |}
               else None                                   (* sync.Once.Do waits for the running call *)
          else Some {| s_flag := s_flag s; s_finished := s_finished s; s_counts := s_counts s;
                       s_pcs := upd (s_pcs s) t (SDone ENil) |}
      end
  | SRun i =>
      if i <? n
      then Some {| s_flag := s_flag s; s_finished := false; s_counts := upd (s_counts s) i (S (s_counts s i));
                   s_pcs := upd (s_pcs s) t (SRun (S i)) |}
      else Some {| s_flag := s_flag s; s_finished := true; s_counts := s_counts s;
                   s_pcs := upd (s_pcs s) t (SDone ENil) |}
  | SDone _ => None
  end.

(** * OLD definitions, kept only to document what the repaired defects were
    (they are not the model of the current code; see Proofs.*_old_refuted). *)

(** Before 98804a6: Shutdown returned ctx.Err() before the first processor when ctx was already
    cancelled, leaving isShutdown set, the processors live and the list in place. *)
Definition tstep_old (kinds : nat -> pk) (s : tstate) (o : top) : tstate * obs :=
  match o with
  | TShutdown false =>
      if t_shut s then (s, quiet ENil false) else
      match t_regs s with
      | [] => tstep kinds s o
      | _ => ({| t_regs := t_regs s; t_shut := true; t_pst := t_pst s; t_spans := t_spans s |}, quiet ECtx false)
      end
  | _ => tstep kinds s o
  end.
Fixpoint trun_old (kinds : nat -> pk) (s : tstate) (ops : list top) : list (top * obs) :=
  match ops with
  | [] => []
  | o :: r => let '(s', ob) := tstep_old kinds s o in (o, ob) :: trun_old kinds s' r
  end.

Definition ccrit_old (s : cstate) (t : nat) (o : cop) : cstate :=
  match o, c_shut s, c_regs s with
  | CShutdown false, false, _ :: _ =>
      {| c_regs := c_regs s; c_shut := true; c_mu := None; c_next := c_next s; c_count := c_count s;
         c_pcs := upd (c_pcs s) t CDone |}
  | _, _, _ => ccrit s t o
  end.
Definition cstep_old (prog : nat -> option cop) (s : cstate) (t : nat) : option cstate :=
  match prog t with
  | None => None
  | Some o => match c_pcs s t with CIn => Some (ccrit_old s t o) | _ => cstep prog s t end
  end.

(** Before b09d39a: a PeriodicReader around a nil exporter dereferenced it on the first instrument,
    on ForceFlush and on Shutdown. *)
Definition mrun_old (readers : list rk) (ops : list mop) : outcome (list (mop * mobs)) :=
  if existsb nil_periodic readers then Crash else mrun readers ops.

(** * Components used directly *)

(** A stock span processor driven directly: the per-processor functions above, live contexts. *)
Definition eff_obs (e : eff) : obs :=
  let '(_, xs, w) := e in {| o_err := ENil; o_flag := false; o_calls := []; o_xcalls := xs; o_wrote := w |}.

Definition dstep (k : pk) (st : pst) (o : dop) : pst * obs :=
  let e := match o with
           | DOnEnd => p_on_end k 0 st
           | DFlush => p_flush k 0 st
           | DShutdown => p_shutdown k 0 st
           | DOnEndDrop | DFlushDead => (st, [], false)
           end in
  match o, k with
  | DFlushDead, PBatch _ =>   (* batchSpanProcessor.ForceFlush: if err := ctx.Err(); err != nil { return err } *)
      (st, {| o_err := ECtx; o_flag := false; o_calls := []; o_xcalls := []; o_wrote := false |})
  | _, _ => (fst (fst e), eff_obs e)
  end.

Fixpoint drun (k : pk) (st : pst) (ops : list dop) : list (dop * obs) :=
  match ops with
  | [] => []
  | o :: r => let '(st', ob) := dstep k st o in (o, ob) :: drun k st' r
  end.

(** One metric reader (manual_reader.go, periodic_reader.go) with the providers it was handed to
    (provider.go, config.go unifyShutdown): [r_shut] = the reader's shutdownOnce has fired,
    [r_once1/2] = the providers' unifyShutdown Once.  register() on a second provider is refused
    (CompareAndSwap on sdkProducer fails, logged), yet the reader stays in that provider's list. *)
Record rstate := { r_shut : bool; r_once1 : bool; r_once2 : bool }.

Definition robs (e : err) (xs : list (nat * callk)) (w : bool) : obs :=
  {| o_err := e; o_flag := false; o_calls := []; o_xcalls := xs; o_wrote := w |}.

(** PeriodicReader.ForceFlush: the run loop collects and exports, then exporter.ForceFlush. *)
Definition r_flush (r : rk) (reg : nat) (shut : bool) : obs :=
  match r with
  | RManual => robs ENil [] false
  | RPeriodic x =>
      if shut then robs EShut [] false
      else if reg =? 0 then robs EOther [] false               (* ErrReaderNotRegistered from the collection *)
      else if is_nil x then robs ENil [] false
      else robs ENil [(0, KExport); (0, KXFlush)] (is_std x)
  end.

(** Reader.Shutdown under its shutdownOnce (first caller). *)
Definition r_shutdown (r : rk) (reg : nat) : obs :=
  match r with
  | RManual => robs ENil [] false
  | RPeriodic x =>
      if is_nil x then robs ENil [] false
      else robs ENil ((if reg =? 0 then [] else [(0, KExport)]) ++ [(0, KXShutdown)]) (negb (reg =? 0) && is_std x)
  end.

Definition rstep (r : rk) (reg : nat) (s : rstate) (o : rop) : rstate * obs :=
  match o with
  | ROCollect => (s, robs (if r_shut s then EShut else if reg =? 0 then EOther else ENil) [] false)
  | ROCollectNil => (s, robs EOther [] false)       (* if rm == nil { return errors.New(...) } comes first *)
  | ROFlush => (s, r_flush r reg (r_shut s))
  | ROPFlush b => (s, if prov_exists reg b then r_flush r reg (r_shut s) else robs ENil [] false)
  | ROShutdown =>
      if r_shut s then (s, robs EShut [] false)
      else ({| r_shut := true; r_once1 := r_once1 s; r_once2 := r_once2 s |}, r_shutdown r reg)
  | ROPShutdown b =>
      if negb (prov_exists reg b) then (s, robs ENil [] false) else
      let s' := {| r_shut := true; r_once1 := if b then r_once1 s else true; r_once2 := if b then true else r_once2 s |} in
      if (if b then r_once2 s else r_once1 s) then (s', robs EShut [] false)   (* unifyShutdown: second call *)
      else if r_shut s then (s', robs EShut [] false)                        (* the reader's own Once has fired *)
      else (s', r_shutdown r reg)
  end.

Fixpoint rrun (r : rk) (reg : nat) (s : rstate) (ops : list rop) : list (rop * obs) :=
  match ops with
  | [] => []
  | o :: t => let '(s', ob) := rstep r reg s o in (o, ob) :: rrun r reg s' t
  end.
Definition rinit : rstate := {| r_shut := false; r_once1 := false; r_once2 := false |}.

(** Processors that fail (TracerProvider.ForceFlush / Shutdown / UnregisterSpanProcessor loops). *)
Fixpoint f_flush (fails : nat -> bool) (regs : list nat) : list (nat * callk) * err :=
  match regs with
  | [] => ([], ENil)
  | p :: r => if fails p then ([(p, KFlush)], EOther)          (* if err != nil { return err } *)
              else let '(cs, e) := f_flush fails r in ((p, KFlush) :: cs, e)
  end.

Fixpoint f_shutdown (fails : nat -> bool) (regs : list nat) : list (nat * callk) * bool :=
  match regs with
  | [] => ([], false)
  | p :: r => let '(cs, e) := f_shutdown fails r in ((p, KShutdown) :: cs, fails p || e)
  end.

Definition fobs (e : err) (cs : list (nat * callk)) : obs :=
  {| o_err := e; o_flag := false; o_calls := cs; o_xcalls := []; o_wrote := false |}.

Definition fstep (fails : nat -> bool) (s : list nat * bool) (o : fop) : (list nat * bool) * obs :=
  let '(regs, shut) := s in
  match o with
  | FReg p => (if shut then regs else regs ++ [p], shut, fobs ENil [])
  | FUnreg p =>
      if shut then (s, fobs ENil []) else
      match last_index p (map (fun q => (q, false)) regs) with
      | None => (s, fobs ENil [])
      | Some i => (firstn i regs ++ skipn (S i) regs, shut, fobs ENil [(p, KShutdown)])
      end
  | FFlush => let '(cs, e) := f_flush fails regs in (s, fobs e cs)
  | FShutdown =>
      if shut then (s, fobs ENil []) else
      let '(cs, e) := f_shutdown fails regs in ([], true, fobs (if e then EOther else ENil) cs)
  end.

Fixpoint frun (fails : nat -> bool) (s : list nat * bool) (ops : list fop) : list (fop * obs) :=
  match ops with
  | [] => []
  | o :: r => let '(s', ob) := fstep fails s o in (o, ob) :: frun fails s' r
  end.
