(** C15 proofs. *)
From Coq Require Import List Arith Lia Bool.
From Verif Require Import Lib.LTS C15.Spec C15.Model.
Import ListNotations.

(** * Reflection of the small equalities *)
Lemma err_eqb_eq a b : err_eqb a b = true <-> a = b.
Proof. destruct a, b; cbn; split; congruence. Qed.
Lemma err_eqb_refl a : err_eqb a a = true.
Proof. now apply err_eqb_eq. Qed.
Lemma callk_eqb_eq a b : callk_eqb a b = true <-> a = b.
Proof. destruct a, b; cbn; split; congruence. Qed.
Lemma calls_eqb_eq a b : calls_eqb a b = true <-> a = b.
Proof.
  revert b; induction a as [|[p k] a IH]; intros [|[q j] b]; cbn; split; intro H; try congruence.
  - rewrite !andb_true_iff in H. destruct H as [[H1 H2] H3].
    apply Nat.eqb_eq in H1. apply callk_eqb_eq in H2. apply IH in H3. congruence.
  - inversion H; subst. rewrite Nat.eqb_refl. cbn.
    apply andb_true_iff; split; [now apply callk_eqb_eq | now apply IH].
Qed.
Lemma calls_eqb_refl a : calls_eqb a a = true.
Proof. now apply calls_eqb_eq. Qed.

(** * The Unregister loop removes exactly the last registration of the processor *)
Fixpoint last_pos (p : nat) (l : list nat) : option nat :=
  match l with
  | [] => None
  | x :: r => match last_pos p r with
              | Some j => Some (S j)
              | None => if x =? p then Some 0 else None
              end
  end.

Lemma last_index_from_spec p regs : forall i acc,
  last_index_from p i regs acc =
  match last_pos p (map fst regs) with Some j => Some (i + j) | None => acc end.
Proof.
  induction regs as [|[q f] r IH]; intros i acc; cbn; [reflexivity|].
  rewrite IH. destruct (last_pos p (map fst r)) as [j|].
  - f_equal. lia.
  - destruct (q =? p); [f_equal; lia | reflexivity].
Qed.

Lemma last_index_spec p regs : last_index p regs = last_pos p (map fst regs).
Proof.
  unfold last_index. rewrite last_index_from_spec. now destruct (last_pos p (map fst regs)).
Qed.

Lemma last_pos_none p l : last_pos p l = None <-> mem p l = false.
Proof.
  unfold mem. induction l as [|x r IH]; cbn; [tauto|].
  destruct (last_pos p r) as [j|].
  - split; [discriminate|]. intros H. apply orb_false_iff in H as [_ H]. apply IH in H. discriminate.
  - rewrite (Nat.eqb_sym p x). destruct (x =? p); cbn; [split; discriminate|]. tauto.
Qed.

Lemma last_pos_splice p l j : last_pos p l = Some j ->
  firstn j l ++ skipn (S j) l = remove_last p l /\ nth_error l j = Some p.
Proof.
  revert j. induction l as [|x r IH]; intros j; [discriminate|].
  cbn [last_pos remove_last].
  destruct (last_pos p r) as [k|] eqn:E.
  - intros H; inversion H; subst. destruct (IH k eq_refl) as [H1 H2].
    assert (Hm : mem p r = true).
    { destruct (mem p r) eqn:Hm; [reflexivity|]. apply last_pos_none in Hm. congruence. }
    rewrite Hm. cbn [firstn skipn app nth_error]. rewrite <- H1. auto.
  - apply last_pos_none in E. rewrite E.
    destruct (Nat.eqb_spec x p); [|discriminate]. intros H; inversion H; subst. cbn. auto.
Qed.

Lemma remove_last_absent p l : mem p l = false -> remove_last p l = l.
Proof.
  induction l as [|x r IH]; [reflexivity|]. cbn [remove_last]. unfold mem at 1. cbn [existsb].
  intros H. apply orb_false_iff in H as [H1 H2]. fold (mem p r) in H2. rewrite H2.
  rewrite Nat.eqb_sym, H1. reflexivity.
Qed.

Lemma map_fst_splice {A B} (l : list (A * B)) i :
  map fst (firstn i l ++ skipn (S i) l) = firstn i (map fst l) ++ skipn (S i) (map fst l).
Proof. now rewrite map_app, firstn_map, skipn_map. Qed.

(** * Fan-out *)
Lemma fan_calls kinds f k regs : forall ps,
  let '(_, cs, _, _) := fan kinds f k regs ps in cs = to_all k (map fst regs).
Proof.
  induction regs as [|[p b] r IH]; intros ps; cbn; [reflexivity|].
  destruct (f (kinds p) p (ps p)) as [[st xs] w].
  specialize (IH (upd ps p st)). destruct (fan kinds f k r (upd ps p st)) as [[[ps' cs] xs'] w'].
  now rewrite IH.
Qed.

Lemma shutdown_all_calls kinds regs : forall ps,
  Forall (fun e => snd e = false) regs ->
  let '(_, cs, _, _) := shutdown_all kinds regs ps in cs = to_all KShutdown (map fst regs).
Proof.
  induction regs as [|[p b] r IH]; intros ps Hf; cbn; [reflexivity|].
  inversion Hf as [|? ? Hb Hr]; subst. cbn in Hb. subst b.
  destruct (p_shutdown (kinds p) p (ps p)) as [[st xs] w].
  specialize (IH (upd ps p st) Hr). destruct (shutdown_all kinds r (upd ps p st)) as [[[ps' cs] xs'] w'].
  now rewrite IH.
Qed.

(** * Trace provider: the model refines the specification *)
Definition Sim (s : tstate) (sp : tspec) : Prop :=
  map fst (t_regs s) = ts_members sp /\ t_shut s = ts_shut sp /\ t_spans s = ts_spans sp /\
  Forall (fun e => snd e = false) (t_regs s) /\ (t_shut s = true -> t_regs s = []).

Lemma sim_init members : Sim (tinit members) (tspec_init members).
Proof.
  unfold Sim, tinit, tspec_init; cbn. repeat split; try discriminate.
  - rewrite map_map. cbn. apply map_id.
  - apply Forall_forall. intros e He. apply in_map_iff in He as [p [<- _]]. reflexivity.
Qed.

Lemma Forall_splice {A} (P : A -> Prop) l i : Forall P l -> Forall P (firstn i l ++ skipn (S i) l).
Proof.
  intros H. apply Forall_app. split.
  - rewrite <- (firstn_skipn i l) in H. apply Forall_app in H. tauto.
  - rewrite <- (firstn_skipn (S i) l) in H. apply Forall_app in H. tauto.
Qed.

Lemma fan_nil_wrote kinds f k ps : fan kinds f k [] ps = (ps, [], [], false).
Proof. reflexivity. Qed.

Lemma step_sim kinds s sp o :
  Sim s sp ->
  exists sp', tsstep_core sp o (snd (tstep kinds s o)) = Some sp' /\ Sim (fst (tstep kinds s o)) sp' /\
              ts_xdone sp' = ts_xdone sp.
Proof.
  intros (Hm & Hs & Hsp & Hf & Hd).
  assert (Hq : forall w, (ts_shut sp = true -> w = false) ->
               negb (negb (ts_shut sp) || negb w || ts_loose sp) = false).
  { intros w Hw. destruct (ts_shut sp) eqn:E; cbn; [|reflexivity]. rewrite (Hw eq_refl). reflexivity. }
  assert (Hempty : ts_shut sp = true -> t_regs s = []) by (intros X; apply Hd; congruence).
  unfold tsstep_core. destruct o as [p|p|fresh|i|live|live]; cbn [tstep].
  - (* Register *)
    rewrite Hs. destruct (ts_shut sp) eqn:Esh; cbn [snd fst quiet o_wrote o_calls o_err].
    + rewrite Hq by reflexivity. cbn. eexists; split; [reflexivity|]. repeat split; auto; congruence.
    + rewrite Hq by reflexivity. cbn. eexists; split; [reflexivity|].
      repeat split; cbn; auto; try discriminate.
      * rewrite map_app, Hm. reflexivity.
      * apply Forall_app; split; [exact Hf | repeat constructor].
  - (* Unregister *)
    rewrite Hs. destruct (ts_shut sp) eqn:Esh; cbn [snd fst quiet o_wrote o_calls o_err].
    + rewrite Hq by reflexivity. cbn. eexists; split; [reflexivity|]. repeat split; auto; congruence.
    + rewrite last_index_spec, Hm. destruct (last_pos p (ts_members sp)) as [j|] eqn:El.
      * destruct (last_pos_splice _ _ _ El) as [Hspl Hnth].
        assert (Hmem : mem p (ts_members sp) = true).
        { destruct (mem p (ts_members sp)) eqn:X; [reflexivity|]. apply last_pos_none in X. congruence. }
        assert (Hfired : match nth_error (t_regs s) j with Some (_, f) => f | None => true end = false).
        { rewrite <- Hm in Hnth. rewrite nth_error_map in Hnth.
          destruct (nth_error (t_regs s) j) as [[q f]|] eqn:En; [|discriminate].
          rewrite Forall_forall in Hf. apply (Hf (q, f)). eapply nth_error_In; eauto. }
        rewrite Hfired. destruct (p_shutdown (kinds p) p (t_pst s p)) as [[st xs] w].
        cbn [snd fst o_wrote o_calls o_err]. rewrite Hq by discriminate.
        rewrite Hmem. cbn. rewrite Nat.eqb_refl. cbn.
        eexists; split; [reflexivity|].
        change (match t_regs s with [] => [] | _ :: l => skipn j l end) with (skipn (S j) (t_regs s)).
        repeat split; cbn [t_regs t_shut t_spans ts_members ts_shut ts_spans with_members]; auto; try discriminate.
        -- rewrite map_fst_splice, Hm. exact Hspl.
        -- now apply Forall_splice.
      * cbn [snd fst quiet o_wrote o_calls o_err]. rewrite Hq by reflexivity.
        apply last_pos_none in El. rewrite El. cbn.
        eexists; split; [reflexivity|]. repeat split; auto; congruence.
  - (* Start *)
    rewrite Hs. destruct (ts_shut sp && fresh) eqn:Eb; cbn [snd fst quiet o_wrote o_calls o_err o_flag].
    + rewrite Hq by reflexivity. cbn.
      eexists; split; [reflexivity|]. repeat split; cbn; auto; congruence.
    + pose proof (fan_calls kinds p_on_start KOnStart (t_regs s) (t_pst s)) as Hc.
      assert (Hw : forall regs ps, let '(_, _, xs, w) := fan kinds p_on_start KOnStart regs ps in w = false).
      { induction regs as [|[q b] r IH]; intros ps; cbn; [reflexivity|].
        specialize (IH (upd ps q (ps q))). destruct (fan kinds p_on_start KOnStart r (upd ps q (ps q))) as [[[? ?] ?] ?].
        now rewrite IH. }
      specialize (Hw (t_regs s) (t_pst s)).
      destruct (fan kinds p_on_start KOnStart (t_regs s) (t_pst s)) as [[[ps cs] xs] w].
      cbn [snd fst o_wrote o_calls o_err o_flag]. subst w. rewrite Hq by reflexivity. cbn.
      rewrite Hc, Hm, calls_eqb_refl. cbn.
      eexists; split; [reflexivity|]. repeat split; cbn; auto; congruence.
  - (* End *)
    rewrite <- Hsp. destruct (nth_error (t_spans s) i) as [[[|] [|]]|] eqn:En;
      try (cbn [snd fst quiet o_wrote o_calls o_err]; rewrite Hq by reflexivity; cbn;
           eexists; split; [reflexivity|]; repeat split; auto; congruence).
    pose proof (fan_calls kinds p_on_end KOnEnd (t_regs s) (t_pst s)) as Hc.
    destruct (fan kinds p_on_end KOnEnd (t_regs s) (t_pst s)) as [[[ps cs] xs] w] eqn:Ef.
    cbn [snd fst o_wrote o_calls o_err].
    rewrite Hq.
    + cbn. rewrite Hc, Hm, calls_eqb_refl.
      eexists; split; [reflexivity|]. repeat split; cbn; auto; congruence.
    + intros E. rewrite (Hempty E) in Ef. cbn in Ef. congruence.
  - (* ForceFlush *)
    destruct (t_regs s) as [|e r] eqn:Er.
    + cbn [snd fst quiet o_wrote o_calls o_err]. rewrite Hq by reflexivity.
      assert (Em : ts_members sp = []) by (rewrite <- Hm; reflexivity).
      rewrite Em. cbn. rewrite orb_true_r. cbn.
      eexists; split; [reflexivity|]. repeat split; auto; try congruence; rewrite Er; auto.
    + rewrite <- Er in *. destruct live.
      * pose proof (fan_calls kinds p_flush KFlush (t_regs s) (t_pst s)) as Hc.
        destruct (fan kinds p_flush KFlush (t_regs s) (t_pst s)) as [[[ps cs] xs] w] eqn:Ef.
        cbn [snd fst o_wrote o_calls o_err]. rewrite Hq.
        -- cbn. rewrite Hc, Hm, calls_eqb_refl. cbn.
           eexists; split; [reflexivity|]. repeat split; cbn; auto; congruence.
        -- intros E. rewrite (Hempty E) in Er. discriminate.
      * cbn [snd fst quiet o_wrote o_calls o_err]. rewrite Hq by reflexivity.
        assert (Hl : (length (ts_members sp) =? 0) = false).
        { rewrite <- Hm, Er. reflexivity. }
        rewrite Hl. cbn.
        eexists; split; [reflexivity|]. repeat split; auto; congruence.
  - (* Shutdown *)
    rewrite Hs. destruct (ts_shut sp) eqn:Esh.
    + cbn [snd fst quiet o_wrote o_calls o_err]. rewrite Hq by reflexivity. cbn.
      eexists; split; [reflexivity|]. repeat split; auto; congruence.
    + pose proof (shutdown_all_calls kinds (t_regs s) (t_pst s) Hf) as Hc.
      destruct (shutdown_all kinds (t_regs s) (t_pst s)) as [[[ps cs] xs] w].
      cbn [snd fst o_wrote o_calls o_err]. rewrite Hq by discriminate.
      rewrite Hc, Hm, calls_eqb_refl.
      assert (Hin : err_in ENil (if live || (length (ts_members sp) =? 0) then [ENil] else [ENil; ECtx]) = true)
        by (destruct (live || (length (ts_members sp) =? 0)); reflexivity).
      rewrite Hin. cbn.
      eexists; split; [reflexivity|]. repeat split; cbn; auto.
Qed.

(** ** Exporter-level single shutdown *)
Definition XInv (kinds : nat -> pk) (ps : nat -> pst) (done : list nat) : Prop :=
  forall p, has_x (kinds p) = true -> mem p done = p_once (ps p).

Lemma mem_app p a b : mem p (a ++ b) = mem p a || mem p b.
Proof. unfold mem. apply existsb_app. Qed.

Lemma mem_cons p x l : mem p (x :: l) = (p =? x) || mem p l.
Proof. reflexivity. Qed.

Lemma xshut_pids_app a b : xshut_pids (a ++ b) = xshut_pids a ++ xshut_pids b.
Proof. unfold xshut_pids. now rewrite filter_app, map_app. Qed.

Lemma p_shutdown_x k p st0 :
  let '(st, xs, _) := p_shutdown k p st0 in
  p_once st = true /\ xshut_pids xs = if has_x k && negb (p_once st0) then [p] else [].
Proof.
  unfold p_shutdown. destruct (p_once st0) eqn:E; cbn.
  - rewrite E, andb_false_r. auto.
  - destruct k as [|x|x]; [|destruct x|destruct x]; cbn; auto; destruct (p_q st0); cbn; auto.
Qed.

Lemma fan_x kinds f k (Hf : forall kd p st, let '(st', xs, _) := f kd p st in p_once st' = p_once st /\ xshut_pids xs = []) regs :
  forall ps, let '(ps', _, xs, _) := fan kinds f k regs ps in
             xshut_pids xs = [] /\ forall p, p_once (ps' p) = p_once (ps p).
Proof.
  induction regs as [|[q b] r IH]; intros ps; cbn; [auto|].
  specialize (Hf (kinds q) q (ps q)). destruct (f (kinds q) q (ps q)) as [[st xs] w]. destruct Hf as [H1 H2].
  specialize (IH (upd ps q st)). destruct (fan kinds f k r (upd ps q st)) as [[[ps' cs] xs'] w'].
  destruct IH as [I1 I2]. split; [now rewrite xshut_pids_app, H2, I1|].
  intros p. rewrite I2. destruct (Nat.eq_dec p q) as [->|Hn]; [now rewrite upd_same | now rewrite upd_other].
Qed.

Lemma on_start_x kd p st : let '(st', xs, _) := p_on_start kd p st in p_once st' = p_once st /\ xshut_pids xs = [].
Proof. cbn. auto. Qed.
Lemma on_end_x kd p st : let '(st', xs, _) := p_on_end kd p st in p_once st' = p_once st /\ xshut_pids xs = [].
Proof. destruct kd as [|x|x]; cbn; auto; destruct (p_alive st && negb (is_nil x)); cbn; auto. Qed.
Lemma flush_x kd p st : let '(st', xs, _) := p_flush kd p st in p_once st' = p_once st /\ xshut_pids xs = [].
Proof.
  destruct kd as [|x|x]; cbn; auto.
  destruct (p_alive st && negb (is_nil x)); cbn; auto. destruct (p_q st); cbn; auto.
Qed.

Lemma shutdown_all_x kinds regs : forall ps done,
  XInv kinds ps done -> Forall (fun e => snd e = false) regs ->
  let '(ps', _, xs, _) := shutdown_all kinds regs ps in
  xshut_pids xs = expect_x (fun p => has_x (kinds p)) (map fst regs) done /\
  XInv kinds ps' (xshut_pids xs ++ done).
Proof.
  induction regs as [|[q b] r IH]; intros ps done HX Hf; cbn [shutdown_all map fst expect_x]; [split; [reflexivity | exact HX]|].
  inversion Hf as [|? ? Hb Hr]; subst. cbn in Hb. subst b.
  pose proof (p_shutdown_x (kinds q) q (ps q)) as Hp.
  destruct (p_shutdown (kinds q) q (ps q)) as [[st xs] w]. destruct Hp as [Ho Hx].
  assert (Hc : has_x (kinds q) && negb (p_once (ps q)) = has_x (kinds q) && negb (mem q done)).
  { destruct (has_x (kinds q)) eqn:E; [now rewrite (HX q E) | reflexivity]. }
  rewrite Hc in Hx. clear Hc.
  destruct (has_x (kinds q) && negb (mem q done)) eqn:Ec.
  - assert (HX' : XInv kinds (upd ps q st) (q :: done)).
    { intros p Hp. rewrite mem_cons. destruct (Nat.eq_dec p q) as [->|Hn].
      - now rewrite upd_same, Ho, Nat.eqb_refl.
      - rewrite upd_other by exact Hn. destruct (Nat.eqb_spec p q); [contradiction|]. now apply HX. }
    specialize (IH (upd ps q st) (q :: done) HX' Hr).
    destruct (shutdown_all kinds r (upd ps q st)) as [[[ps' cs] xs'] w']. destruct IH as [I1 I2].
    split; [now rewrite xshut_pids_app, Hx, I1|]. rewrite xshut_pids_app, Hx.
    intros p Hp. rewrite <- (I2 p Hp). cbn [app]. rewrite mem_cons, !mem_app, mem_cons.
    destruct (p =? q), (mem p (xshut_pids xs')), (mem p done); reflexivity.
  - assert (HX' : XInv kinds (upd ps q st) done).
    { intros p Hp. destruct (Nat.eq_dec p q) as [->|Hn].
      - rewrite upd_same, Ho. rewrite Hp in Ec. cbn in Ec. apply negb_false_iff in Ec. exact Ec.
      - rewrite upd_other by exact Hn. now apply HX. }
    specialize (IH (upd ps q st) done HX' Hr).
    destruct (shutdown_all kinds r (upd ps q st)) as [[[ps' cs] xs'] w']. destruct IH as [I1 I2].
    split; [now rewrite xshut_pids_app, Hx, I1|]. rewrite xshut_pids_app, Hx. exact I2.
Qed.

Lemma expect_x_ok hasx l : forall done,
  nodupb (expect_x hasx l done) = true /\
  forallb (fun p => hasx p && negb (mem p done)) (expect_x hasx l done) = true /\
  (forall p, mem p (expect_x hasx l done) = true -> mem p done = false).
Proof.
  induction l as [|q r IH]; intros done; cbn [expect_x]; [repeat split; intros; discriminate|].
  destruct (hasx q && negb (mem q done)) eqn:E; [|apply IH].
  destruct (IH (q :: done)) as (A & B & C). apply andb_true_iff in E as [E1 E2]. apply negb_true_iff in E2.
  cbn [nodupb forallb]. rewrite A, E1, E2. cbn [andb negb].
  assert (Hq : mem q (expect_x hasx r (q :: done)) = false).
  { destruct (mem q (expect_x hasx r (q :: done))) eqn:X; [|reflexivity]. apply C in X. rewrite mem_cons, Nat.eqb_refl in X. discriminate. }
  rewrite Hq. cbn [andb negb]. split; [reflexivity|]. split.
  - rewrite forallb_forall in *. intros p Hp. specialize (B p Hp). apply andb_true_iff in B as [B1 B2].
    rewrite B1. cbn [andb]. apply negb_true_iff in B2. rewrite mem_cons in B2. apply orb_false_iff in B2 as [_ B2]. now rewrite B2.
  - intros p Hp. rewrite mem_cons in Hp. apply orb_true_iff in Hp as [Hp|Hp].
    + apply Nat.eqb_eq in Hp; subst. exact E2.
    + apply C in Hp. rewrite mem_cons in Hp. apply orb_false_iff in Hp. tauto.
Qed.

Lemma same_set_refl l : same_set l l = true.
Proof.
  unfold same_set. assert (H : forallb (fun p => mem p l) l = true).
  { apply forallb_forall. intros p Hp. unfold mem. apply existsb_exists. exists p. split; [exact Hp | apply Nat.eqb_refl]. }
  now rewrite H.
Qed.

Lemma xs_ok_of hasx sp o ob due_eq :
  xshut_pids (o_xcalls ob) = due_eq ->
  due_eq = match o with
           | TUnreg p => if ts_shut sp || negb (mem p (ts_members sp)) then [] else expect_x hasx [p] (ts_xdone sp)
           | TShutdown _ => if ts_shut sp then [] else expect_x hasx (ts_members sp) (ts_xdone sp)
           | _ => []
           end ->
  xs_ok hasx sp o ob = true.
Proof.
  intros H1 H2. unfold xs_ok. rewrite H1. rewrite <- H2. rewrite same_set_refl, !orb_true_r, andb_true_r.
  assert (Hd : nodupb due_eq = true /\ forallb (fun p => hasx p && negb (mem p (ts_xdone sp))) due_eq = true).
  { rewrite H2. destruct o; try (split; reflexivity).
    - destruct (ts_shut sp || negb (mem p (ts_members sp))); [split; reflexivity|].
      destruct (expect_x_ok hasx [p] (ts_xdone sp)) as (A & B & _). auto.
    - destruct (ts_shut sp); [split; reflexivity|].
      destruct (expect_x_ok hasx (ts_members sp) (ts_xdone sp)) as (A & B & _). auto. }
  destruct Hd as [-> ->]. reflexivity.
Qed.

Lemma step_x kinds s sp o :
  Sim s sp -> XInv kinds (t_pst s) (ts_xdone sp) ->
  xs_ok (fun p => has_x (kinds p)) sp o (snd (tstep kinds s o)) = true /\
  XInv kinds (t_pst (fst (tstep kinds s o))) (xshut_pids (o_xcalls (snd (tstep kinds s o))) ++ ts_xdone sp).
Proof.
  intros (Hm & Hs & Hsp & Hf & Hd) HX.
  destruct o as [p|p|fresh|i|live|live]; cbn [tstep].
  - destruct (t_shut s); cbn [snd fst quiet o_xcalls t_pst]; (split; [eapply xs_ok_of; reflexivity | exact HX]).
  - destruct (t_shut s) eqn:Esh; cbn [snd fst quiet o_xcalls t_pst].
    + split; [eapply xs_ok_of; [reflexivity | cbn; now rewrite <- Hs] | exact HX].
    + rewrite last_index_spec, Hm. destruct (last_pos p (ts_members sp)) as [j|] eqn:El.
      * destruct (last_pos_splice _ _ _ El) as [_ Hnth].
        assert (Hmem : mem p (ts_members sp) = true).
        { destruct (mem p (ts_members sp)) eqn:X; [reflexivity|]. apply last_pos_none in X. congruence. }
        assert (Hfired : match nth_error (t_regs s) j with Some (_, f) => f | None => true end = false).
        { rewrite <- Hm in Hnth. rewrite nth_error_map in Hnth.
          destruct (nth_error (t_regs s) j) as [[q f]|] eqn:En; [|discriminate].
          rewrite Forall_forall in Hf. apply (Hf (q, f)). eapply nth_error_In; eauto. }
        rewrite Hfired. pose proof (p_shutdown_x (kinds p) p (t_pst s p)) as Hp.
        destruct (p_shutdown (kinds p) p (t_pst s p)) as [[st xs] w]. destruct Hp as [Ho Hx].
        cbn [snd fst o_xcalls t_pst].
        assert (Hdue : xshut_pids xs = expect_x (fun p0 => has_x (kinds p0)) [p] (ts_xdone sp)).
        { rewrite Hx. cbn [expect_x]. destruct (has_x (kinds p)) eqn:Eh; cbn [andb]; [|reflexivity].
          rewrite (HX p Eh). destruct (p_once (t_pst s p)); reflexivity. }
        split.
        -- eapply xs_ok_of; [exact Hdue|]. cbn. rewrite <- Hs, Hmem. reflexivity.
        -- intros q Hq. rewrite mem_app. destruct (Nat.eq_dec q p) as [->|Hn].
           ++ rewrite upd_same, Ho, Hx, Hq. cbn [andb]. destruct (p_once (t_pst s p)) eqn:E; cbn [negb].
              ** rewrite (HX p Hq), E. apply orb_true_r.
              ** rewrite mem_cons, Nat.eqb_refl. reflexivity.
           ++ rewrite upd_other by exact Hn. rewrite <- (HX q Hq), Hx.
              destruct (has_x (kinds p) && negb (p_once (t_pst s p))); [|reflexivity].
              rewrite mem_cons. destruct (Nat.eqb_spec q p); [contradiction | reflexivity].
      * cbn [snd fst quiet o_xcalls]. apply last_pos_none in El.
        split; [eapply xs_ok_of; [reflexivity | cbn; now rewrite <- Hs, El] | exact HX].
  - destruct (t_shut s && fresh); [cbn [snd fst quiet o_xcalls t_pst]; split; [eapply xs_ok_of; reflexivity | exact HX]|].
    pose proof (fan_x kinds p_on_start KOnStart on_start_x (t_regs s) (t_pst s)) as H.
    destruct (fan kinds p_on_start KOnStart (t_regs s) (t_pst s)) as [[[ps cs] xs] w]. destruct H as [H1 H2].
    cbn [snd fst o_xcalls t_pst]. rewrite H1. split; [eapply xs_ok_of; [exact H1 | reflexivity]|].
    intros p Hp. cbn. rewrite H2. now apply HX.
  - destruct (nth_error (t_spans s) i) as [[[|] [|]]|]; try (cbn [snd fst quiet o_xcalls t_pst]; split; [eapply xs_ok_of; reflexivity | exact HX]).
    pose proof (fan_x kinds p_on_end KOnEnd on_end_x (t_regs s) (t_pst s)) as H.
    destruct (fan kinds p_on_end KOnEnd (t_regs s) (t_pst s)) as [[[ps cs] xs] w]. destruct H as [H1 H2].
    cbn [snd fst o_xcalls t_pst]. rewrite H1. split; [eapply xs_ok_of; [exact H1 | reflexivity]|].
    intros p Hp. cbn. rewrite H2. now apply HX.
  - destruct (t_regs s) as [|e r] eqn:Er; [cbn [snd fst quiet o_xcalls t_pst]; split; [eapply xs_ok_of; reflexivity | exact HX]|]. rewrite <- Er.
    destruct live; [|cbn [snd fst quiet o_xcalls t_pst]; split; [eapply xs_ok_of; reflexivity | exact HX]].
    pose proof (fan_x kinds p_flush KFlush flush_x (t_regs s) (t_pst s)) as H.
    destruct (fan kinds p_flush KFlush (t_regs s) (t_pst s)) as [[[ps cs] xs] w]. destruct H as [H1 H2].
    cbn [snd fst o_xcalls t_pst]. rewrite H1. split; [eapply xs_ok_of; [exact H1 | reflexivity]|].
    intros p Hp. cbn. rewrite H2. now apply HX.
  - destruct (t_shut s) eqn:Esh; cbn [snd fst quiet o_xcalls t_pst].
    + split; [eapply xs_ok_of; [reflexivity | cbn; now rewrite <- Hs] | exact HX].
    + pose proof (shutdown_all_x kinds (t_regs s) (t_pst s) (ts_xdone sp) HX Hf) as H.
      destruct (shutdown_all kinds (t_regs s) (t_pst s)) as [[[ps cs] xs] w]. destruct H as [H1 H2].
      cbn [snd fst o_xcalls t_pst]. split; [|exact H2].
      eapply xs_ok_of; [exact H1|]. cbn. rewrite <- Hs, Hm. reflexivity.
Qed.

Lemma sim_xdone s sp d : Sim s sp -> Sim s (with_xdone sp d).
Proof. intros (A & B & C & D & E). repeat split; auto. Qed.

Lemma trun_ok kinds ops : forall s sp, Sim s sp -> XInv kinds (t_pst s) (ts_xdone sp) ->
  tspec_run (fun p => has_x (kinds p)) sp (trun kinds s ops) = true.
Proof.
  induction ops as [|o r IH]; intros s sp HS HX; [reflexivity|].
  cbn [trun]. destruct (step_sim kinds s sp o HS) as (sp' & H1 & H2 & H3).
  destruct (step_x kinds s sp o HS HX) as [X1 X2].
  destruct (tstep kinds s o) as [s' ob] eqn:Et. cbn [tspec_run fst snd] in *.
  unfold tsstep. rewrite X1, H1. apply IH; [now apply sim_xdone | exact X2].
Qed.

(** The model satisfies the whole trace specification, for all operation sequences. *)
Theorem tspec_ok_model kinds members ops : tspec_ok kinds members (trun kinds (tinit members) ops) = true.
Proof. apply trun_ok; [apply sim_init | intros p _; reflexivity]. Qed.

(** The code before 98804a6 did not: a processor registered when Shutdown(cancelled ctx) was called
    was never shut down and kept receiving spans. *)
Lemma tspec_ok_old_refuted : exists kinds members ops,
  tspec_ok kinds members (trun_old kinds (tinit members) ops) = false.
Proof.
  exists (fun _ => PCount), [0], [TStart false; TShutdown false; TEnd 0; TShutdown true]. reflexivity.
Qed.

(** * Membership, readable form *)
Definition next_members (m : list nat) (o : top) : list nat :=
  match o with TReg p => m ++ [p] | TUnreg p => remove_last p m | _ => m end.

Lemma tstep_regs kinds s o :
  Forall (fun e => snd e = false) (t_regs s) -> (t_shut s = true -> t_regs s = []) ->
  let s' := fst (tstep kinds s o) in
  Forall (fun e => snd e = false) (t_regs s') /\ (t_shut s' = true -> t_regs s' = []) /\
  (t_shut s = true -> t_shut s' = true) /\
  (t_shut s = false ->
     match o with
     | TShutdown _ => t_shut s' = true
     | _ => t_shut s' = false /\ map fst (t_regs s') = next_members (map fst (t_regs s)) o
     end).
Proof.
  intros Hf Hd.
  destruct (step_sim kinds s {| ts_members := map fst (t_regs s); ts_shut := t_shut s; ts_spans := t_spans s; ts_xdone := []; ts_loose := false |} o)
    as (sp' & H1 & H2 & _).
  { repeat split; auto. }
  destruct H2 as (_ & _ & _ & Hf' & Hd'). cbn zeta. split; [exact Hf'|]. split; [exact Hd'|]. clear H1 Hf' Hd' sp'.
  destruct (t_shut s) eqn:Esh; (split; intros Hsh; [|discriminate Hsh] || (split; intros Hsh; [discriminate Hsh|])).
  - destruct o as [p|p|fresh|i|live|live]; cbn [tstep]; rewrite ?Esh; cbn [andb fst quiet]; auto.
    + destruct fresh; cbn; auto.
      destruct (fan kinds p_on_start KOnStart (t_regs s) (t_pst s)) as [[[? ?] ?] ?]. cbn. auto.
    + destruct (nth_error (t_spans s) i) as [[[|] [|]]|]; cbn; auto.
      destruct (fan kinds p_on_end KOnEnd (t_regs s) (t_pst s)) as [[[? ?] ?] ?]. cbn. auto.
    + destruct (t_regs s) as [|e r] eqn:E; [cbn; auto|]. rewrite <- E. destruct live; cbn [fst]; auto.
      destruct (fan kinds p_flush KFlush (t_regs s) (t_pst s)) as [[[? ?] ?] ?]. cbn. auto.
  - destruct o as [p|p|fresh|i|live|live]; cbn [tstep]; rewrite ?Esh; cbn [andb].
    + cbn. split; [reflexivity|]. now rewrite map_app.
    + rewrite last_index_spec. destruct (last_pos p (map fst (t_regs s))) as [j|] eqn:El.
      * destruct (last_pos_splice _ _ _ El) as [Hspl Hnth].
        destruct (match nth_error (t_regs s) j with Some (_, f) => f | None => true end);
          [|destruct (p_shutdown (kinds p) p (t_pst s p)) as [[st xs] w]]; cbn [fst t_shut t_regs next_members];
          (split; [reflexivity|]; rewrite map_fst_splice; exact Hspl).
      * cbn. split; [assumption|]. apply last_pos_none in El. symmetry. now apply remove_last_absent.
    + destruct (fan kinds p_on_start KOnStart (t_regs s) (t_pst s)) as [[[? ?] ?] ?]. cbn. auto.
    + destruct (nth_error (t_spans s) i) as [[[|] [|]]|]; cbn; auto.
      destruct (fan kinds p_on_end KOnEnd (t_regs s) (t_pst s)) as [[[? ?] ?] ?]. cbn. auto.
    + destruct (t_regs s) as [|e r] eqn:E; [cbn; rewrite ?E; auto|]. rewrite <- E.
      destruct live; cbn [fst quiet]; auto.
      destruct (fan kinds p_flush KFlush (t_regs s) (t_pst s)) as [[[? ?] ?] ?]. cbn. auto.
    + destruct (shutdown_all kinds (t_regs s) (t_pst s)) as [[[? ?] ?] ?]. cbn. auto.
Qed.

Lemma regs_after kinds ops : forall s,
  Forall (fun e => snd e = false) (t_regs s) -> (t_shut s = true -> t_regs s = []) ->
  let s' := tstate_after kinds s ops in
  map fst (t_regs s') = members_after (map fst (t_regs s)) (t_shut s) ops /\
  Forall (fun e => snd e = false) (t_regs s') /\ (t_shut s' = true -> t_regs s' = []).
Proof.
  induction ops as [|o r IH]; intros s Hf Hd; cbn zeta; [cbn; auto|].
  cbn [tstate_after]. destruct (tstep_regs kinds s o Hf Hd) as (Hf' & Hd' & H1 & H2).
  set (s1 := fst (tstep kinds s o)) in *.
  destruct (IH s1 Hf' Hd') as (A & B & C). split; [|auto]. rewrite A.
  destruct (t_shut s) eqn:Esh.
  - specialize (H1 eq_refl). rewrite H1, (Hd' H1), (Hd eq_refl). destruct o; reflexivity.
  - specialize (H2 eq_refl). destruct o as [p|p|fresh|i|live|live];
      try (destruct H2 as [-> ->]; reflexivity).
    rewrite H2, (Hd' H2). reflexivity.
Qed.

(** c15_membership: an ended (recording, not yet ended) span is handed to exactly the processors
    registered and not unregistered at that moment, in registration order. *)
Theorem membership kinds members ops i :
  let s := tstate_after kinds (tinit members) ops in
  map fst (t_regs s) = members_after members false ops /\
  (nth_error (t_spans s) i = Some (true, false) ->
   o_calls (snd (tstep kinds s (TEnd i))) = to_all KOnEnd (members_after members false ops)).
Proof.
  cbn zeta.
  assert (Hinit : map fst (t_regs (tinit members)) = members).
  { cbn. rewrite map_map. apply map_id. }
  destruct (regs_after kinds ops (tinit members)) as (A & _ & _).
  - apply Forall_forall. intros e He. apply in_map_iff in He as [p [<- _]]. reflexivity.
  - discriminate.
  - rewrite Hinit in A. cbn [t_shut tinit] in A. split; [exact A|].
    intros Hn. cbn [tstep]. rewrite Hn.
    pose proof (fan_calls kinds p_on_end KOnEnd (t_regs (tstate_after kinds (tinit members) ops))
                          (t_pst (tstate_after kinds (tinit members) ops))) as Hc.
    destruct (fan kinds p_on_end KOnEnd _ _) as [[[ps cs] xs] w]. cbn. now rewrite Hc, A.
Qed.

(** c15_unregister_unknown_noop *)
Theorem unregister_unknown_noop kinds s p :
  mem p (map fst (t_regs s)) = false -> tstep kinds s (TUnreg p) = (s, quiet ENil false).
Proof.
  intros H. cbn [tstep]. destruct (t_shut s); [reflexivity|].
  rewrite last_index_spec. apply last_pos_none in H. now rewrite H.
Qed.

(** c15_after_shutdown (trace) *)
Definition t_dead (s : tstate) : Prop := t_shut s = true /\ t_regs s = [].

Lemma dead_step kinds s o : t_dead s ->
  let '(s', ob) := tstep kinds s o in
  t_dead s' /\ o_calls ob = [] /\ o_xcalls ob = [] /\ o_wrote ob = false /\ o_err ob = ENil /\
  (o = TStart true -> o_flag ob = false).
Proof.
  intros [Hs Hr]. destruct o as [p|p|fresh|i|live|live]; cbn [tstep]; rewrite ?Hs, ?Hr; cbn [andb].
  - repeat split; auto; discriminate.
  - repeat split; auto; discriminate.
  - destruct fresh; cbn; repeat split; auto; discriminate.
  - destruct (nth_error (t_spans s) i) as [[[|] [|]]|]; cbn; repeat split; auto; discriminate.
  - repeat split; auto; discriminate.
  - repeat split; auto; discriminate.
Qed.

Theorem after_shutdown kinds ops : forall s, t_dead s ->
  Forall (fun x => o_calls (snd x) = [] /\ o_xcalls (snd x) = [] /\ o_wrote (snd x) = false /\
                   o_err (snd x) = ENil /\ (fst x = TStart true -> o_flag (snd x) = false))
         (trun kinds s ops).
Proof.
  induction ops as [|o r IH]; intros s Hd; cbn [trun]; [constructor|].
  pose proof (dead_step kinds s o Hd) as H. destruct (tstep kinds s o) as [s' ob].
  destruct H as (Hd' & H). constructor; [exact H | now apply IH].
Qed.

(** Every Shutdown, whatever its context, makes the provider dead. *)
Lemma shutdown_makes_dead kinds s live :
  t_shut s = false \/ t_dead s -> t_dead (fst (tstep kinds s (TShutdown live))).
Proof.
  intros Hs. cbn [tstep]. destruct (t_shut s) eqn:E.
  - destruct Hs as [X|X]; [discriminate | exact X].
  - destruct (shutdown_all kinds (t_regs s) (t_pst s)) as [[[? ?] ?] ?]. split; reflexivity.
Qed.

Lemma NoDup_snoc {A} (l : list A) x : NoDup l -> ~ In x l -> NoDup (l ++ [x]).
Proof.
  induction 1 as [|a l Ha Hn IH]; cbn; intros Hx.
  - constructor; [tauto | constructor].
  - constructor.
    + rewrite in_app_iff; cbn. intros [H|[H|[]]]; [contradiction | subst; tauto].
    + apply IH; tauto.
Qed.

(** * Concurrent callers: every registration is shut down at most once, exactly once when it
    leaves the list, for all schedules of any number of Shutdown / Unregister / Register callers *)
Lemma c_last_from_spec p regs : forall i acc,
  c_last_from p i regs acc =
  match last_pos p (map snd regs) with Some j => Some (i + j) | None => acc end.
Proof.
  induction regs as [|[r q] l IH]; intros i acc; cbn; [reflexivity|].
  rewrite IH. destruct (last_pos p (map snd l)) as [j|].
  - f_equal. lia.
  - destruct (q =? p); [f_equal; lia | reflexivity].
Qed.

Lemma splice_at {A} (l : list A) i a : nth_error l i = Some a ->
  exists l1 l2, l = l1 ++ a :: l2 /\ firstn i l ++ skipn (S i) l = l1 ++ l2.
Proof.
  intros H. destruct (nth_error_split l i H) as (l1 & l2 & -> & Hl). exists l1, l2. split; [reflexivity|].
  subst i. clear H. induction l1 as [|x l1 IH]; cbn; [reflexivity|]. f_equal. exact IH.
Qed.

Lemma combine_fst_seq {B} (l : list B) k : map fst (combine (seq k (length l)) l) = seq k (length l).
Proof. revert k. induction l as [|x l IH]; intros k; cbn; [reflexivity|]. now rewrite IH. Qed.

Lemma bump_all_spec regs : forall cnt r, NoDup (map fst regs) ->
  bump_all regs cnt r = cnt r + (if in_dec Nat.eq_dec r (map fst regs) then 1 else 0).
Proof.
  induction regs as [|[a p] l IH]; intros cnt r Hn; cbn [bump_all map fst]; [cbn; lia|].
  inversion Hn as [|? ? Ha Hl]; subst. rewrite IH by exact Hl.
  destruct (in_dec Nat.eq_dec r (a :: map fst l)) as [Hi|Hi]; destruct (in_dec Nat.eq_dec r (map fst l)) as [Hj|Hj];
    destruct (Nat.eq_dec r a) as [->|Hne]; rewrite ?upd_same, ?(upd_other _ _ _ _ Hne); try lia;
    try contradiction.
  all: try (destruct Hi as [Hi|Hi]; [congruence | contradiction]).
  all: exfalso; apply Hi; cbn; auto.
Qed.

Section Conc.
  Variable prog : nat -> option cop.
  Variable members : list nat.
  Notation CR := (Reach (cstep prog) (cinit members)).

  Definition CInv (s : cstate) : Prop :=
    NoDup (map fst (c_regs s)) /\
    (forall r, In r (map fst (c_regs s)) -> r < c_next s /\ c_count s r = 0) /\
    (forall r, r < c_next s -> ~ In r (map fst (c_regs s)) -> c_count s r = 1) /\
    (forall r, c_next s <= r -> c_count s r = 0) /\
    (forall t, c_pcs s t = CIn <-> c_mu s = Some t) /\
    (forall t live, prog t = Some (CShutdown live) -> c_pcs s t = CDone -> c_shut s = true) /\
    (c_shut s = true -> c_regs s = []).

  Lemma cinit_fst : map fst (c_regs (cinit members)) = seq 0 (length members).
  Proof. cbn. apply combine_fst_seq. Qed.

  Lemma cinv_init : CInv (cinit members).
  Proof.
    unfold CInv. rewrite cinit_fst. cbn [c_next c_count c_pcs c_mu c_shut cinit].
    split; [apply seq_NoDup|]. split; [intros r Hr; apply in_seq in Hr; split; [lia | reflexivity]|].
    split; [intros r Hlt Hn; exfalso; apply Hn; apply in_seq; lia|].
    split; [reflexivity|]. split; [intros t; split; discriminate|].
    split; [discriminate | discriminate].
  Qed.

  (** The critical section preserves the invariant (everything but the mutex clause). *)
  Lemma ccrit_inv s t o :
    CInv s -> prog t = Some o -> c_pcs s t = CIn ->
    CInv (ccrit s t o).
  Proof.
    intros (Hnd & Hin & Hout & Hhi & Hmu & Hsd & Hlive) Hp Hpc.
    assert (Hmu' : forall u, upd (c_pcs s) t CDone u = CIn <-> @None nat = Some u).
    { intros u. destruct (Nat.eq_dec u t) as [->|Hn].
      - rewrite upd_same. split; discriminate.
      - rewrite upd_other by exact Hn. split; [|discriminate]. intros X. apply Hmu in X.
        apply Hmu in Hpc. congruence. }
    assert (Hsd0 : forall u live, prog u = Some (CShutdown live) -> upd (c_pcs s) t CDone u = CDone ->
                     (u = t -> c_shut s = true) -> c_shut s = true).
    { intros u live Hu Hd Hself. destruct (Nat.eq_dec u t) as [->|Hn]; [now apply Hself|].
      rewrite upd_other in Hd by exact Hn. eapply Hsd; eauto. }
    unfold ccrit, CInv. destruct (c_shut s) eqn:Esh.
    { (* already shut down: nothing changes *)
      cbn [c_regs c_shut c_next c_count c_pcs c_mu].
      split; [exact Hnd|]. split; [exact Hin|]. split; [exact Hout|]. split; [exact Hhi|].
      split; [apply Hmu'|]. split; [reflexivity | exact Hlive]. }
    destruct o as [live|p|p].
    - (* Shutdown *)
      cbn [c_regs c_shut c_next c_count c_pcs c_mu map].
      split; [constructor|]. split; [intros x []|]. split.
      { intros r0 Hlt _. rewrite bump_all_spec by exact Hnd.
        destruct (in_dec Nat.eq_dec r0 (map fst (c_regs s))) as [Hi|Hi].
        - destruct (Hin _ Hi) as [_ ->]. reflexivity.
        - rewrite (Hout _ Hlt Hi). lia. }
      split.
      { intros r0 Hge. rewrite bump_all_spec by exact Hnd.
        destruct (in_dec Nat.eq_dec r0 (map fst (c_regs s))) as [Hi|Hi].
        - destruct (Hin _ Hi) as [X _]. lia.
        - rewrite (Hhi _ Hge). lia. }
      split; [apply Hmu'|]. split; reflexivity.
    - (* Unregister *)
      rewrite c_last_from_spec. destruct (last_pos p (map snd (c_regs s))) as [j|] eqn:El.
      + cbn [Nat.add]. destruct (last_pos_splice _ _ _ El) as [_ Hnth].
        rewrite nth_error_map in Hnth. destruct (nth_error (c_regs s) j) as [[r0 q]|] eqn:En; [|discriminate].
        destruct (splice_at _ _ _ En) as (l1 & l2 & Hl & Hspl). rewrite Hspl.
        assert (Hnd2 : NoDup (map fst (l1 ++ l2)) /\ ~ In r0 (map fst (l1 ++ l2))).
        { rewrite Hl, map_app in Hnd. cbn in Hnd. rewrite map_app. split.
          - eapply NoDup_remove_1; eauto. - eapply NoDup_remove_2; eauto. }
        destruct Hnd2 as [Hnd2 Hnot].
        assert (Hsub : forall x, In x (map fst (l1 ++ l2)) -> In x (map fst (c_regs s)) /\ x <> r0).
        { intros x Hx. split; [|intros ->; contradiction].
          rewrite Hl, map_app. cbn. rewrite map_app in Hx. apply in_app_iff in Hx. apply in_app_iff.
          destruct Hx; [left | right; right]; assumption. }
        assert (Hr0 : In r0 (map fst (c_regs s))).
        { rewrite Hl, map_app. apply in_app_iff. right. left. reflexivity. }
        cbn [c_regs c_shut c_next c_count c_pcs c_mu].
        split; [exact Hnd2|]. split.
        { intros x Hx. destruct (Hsub x Hx) as [Hi Hne]. rewrite upd_other by exact Hne. now apply Hin. }
        split.
        { intros x Hlt Hni. destruct (Nat.eq_dec x r0) as [->|Hne].
          - rewrite upd_same. destruct (Hin _ Hr0) as [_ ->]. reflexivity.
          - rewrite upd_other by exact Hne. apply Hout; [exact Hlt|]. intros Hi. apply Hni.
            rewrite Hl, map_app in Hi. cbn in Hi. rewrite map_app.
            apply in_app_iff in Hi. apply in_app_iff. destruct Hi as [Hi|[Hi|Hi]]; [now left | congruence | now right]. }
        split.
        { intros x Hge. destruct (Hin _ Hr0) as [Hlt _]. rewrite upd_other by lia. now apply Hhi. }
        split; [apply Hmu'|]. split; [|discriminate].
        intros u live Hu Hd. eapply Hsd0; eauto. intros ->. congruence.
      + cbn [c_regs c_shut c_next c_count c_pcs c_mu].
        split; [exact Hnd|]. split; [exact Hin|]. split; [exact Hout|]. split; [exact Hhi|].
        split; [apply Hmu'|]. split; [|discriminate].
        intros u live Hu Hd. eapply Hsd0; eauto. intros ->. congruence.
    - (* Register *)
      cbn [c_regs c_shut c_next c_count c_pcs c_mu].
      split. { rewrite map_app. cbn. apply NoDup_snoc; [exact Hnd|]. intros Hi. apply Hin in Hi. lia. }
      split. { intros x Hx. rewrite map_app in Hx. cbn in Hx.
               apply in_app_iff in Hx as [Hx|[<-|[]]]; [apply Hin in Hx; split; [lia | tauto] | split; [lia | apply Hhi; lia]]. }
      split. { intros x Hlt Hni. rewrite map_app in Hni. cbn in Hni. apply Hout.
               - destruct (Nat.eq_dec x (c_next s)) as [->|]; [|lia]. exfalso. apply Hni. apply in_app_iff. right. now left.
               - intros Hi. apply Hni. apply in_app_iff. now left. }
      split. { intros x Hge. apply Hhi. lia. }
      split; [apply Hmu'|]. split; [|discriminate].
      intros u live Hu Hd. eapply Hsd0; eauto. intros ->. congruence.
  Qed.

  Lemma cinv : forall s, CR s -> CInv s.
  Proof.
    apply invariant; [apply cinv_init|].
    intros s t s' _ HI Hs. unfold cstep in Hs.
    destruct (prog t) as [o|] eqn:Hp; [|discriminate].
    destruct (c_pcs s t) eqn:Hpc; try discriminate.
    - (* unlocked isShutdown pre-check *)
      inversion Hs; subst; clear Hs. destruct HI as (Hnd & Hin & Hout & Hhi & Hmu & Hsd & Hlive).
      unfold CInv; cbn [c_regs c_shut c_next c_count c_pcs c_mu].
      split; [exact Hnd|]. split; [exact Hin|]. split; [exact Hout|]. split; [exact Hhi|]. split.
      { intros u. destruct (Nat.eq_dec u t) as [->|Hn].
        - rewrite upd_same. split; [destruct (c_shut s); discriminate|]. intros X. apply Hmu in X. congruence.
        - rewrite upd_other by exact Hn. apply Hmu. }
      split; [|exact Hlive].
      intros u live Hu Hd. destruct (Nat.eq_dec u t) as [->|Hn].
      + rewrite upd_same in Hd. destruct (c_shut s); [reflexivity | discriminate].
      + rewrite upd_other in Hd by exact Hn. eapply Hsd; eauto.
    - (* p.mu.Lock() *)
      destruct (c_mu s) eqn:Hm; [discriminate|]. inversion Hs; subst; clear Hs.
      destruct HI as (Hnd & Hin & Hout & Hhi & Hmu & Hsd & Hlive).
      unfold CInv; cbn [c_regs c_shut c_next c_count c_pcs c_mu].
      split; [exact Hnd|]. split; [exact Hin|]. split; [exact Hout|]. split; [exact Hhi|]. split.
      { intros u. destruct (Nat.eq_dec u t) as [->|Hn].
        - rewrite upd_same. tauto.
        - rewrite upd_other by exact Hn. split; [intros X; apply Hmu in X; congruence | congruence]. }
      split; [|exact Hlive].
      intros u live Hu Hd. destruct (Nat.eq_dec u t) as [->|Hn].
      + rewrite upd_same in Hd. discriminate.
      + rewrite upd_other in Hd by exact Hn. eapply Hsd; eauto.
    - inversion Hs; subst. now apply ccrit_inv.
  Qed.

  (** c15_shutdown_once. *)
  Theorem shutdown_once s : CR s ->
    (forall r, c_count s r <= 1) /\
    (forall r, r < c_next s ->
       (In r (map fst (c_regs s)) /\ c_count s r = 0) \/ (~ In r (map fst (c_regs s)) /\ c_count s r = 1)) /\
    (forall t live, prog t = Some (CShutdown live) -> c_pcs s t = CDone ->
       c_regs s = [] /\ forall r, r < c_next s -> c_count s r = 1).
  Proof.
    intros Hr. destruct (cinv s Hr) as (Hnd & Hin & Hout & Hhi & Hmu & Hsd & Hlive).
    assert (H2 : forall r, r < c_next s ->
       (In r (map fst (c_regs s)) /\ c_count s r = 0) \/ (~ In r (map fst (c_regs s)) /\ c_count s r = 1)).
    { intros r Hlt. destruct (in_dec Nat.eq_dec r (map fst (c_regs s))) as [Hi|Hi].
      - left. split; [exact Hi | now apply Hin]. - right. split; [exact Hi | now apply Hout]. }
    split; [|split; [exact H2|]].
    - intros r. destruct (le_lt_dec (c_next s) r) as [Hge|Hlt]; [rewrite (Hhi _ Hge); lia|].
      destruct (H2 r Hlt) as [[_ ->]|[_ ->]]; lia.
    - intros t live Ht Hd. assert (Hsh : c_shut s = true) by (eapply Hsd; eauto).
      pose proof (Hlive Hsh) as He. split; [exact He|].
      intros r Hlt. apply Hout; [exact Hlt|]. rewrite He. intros [].
  Qed.

  Lemma cidle : forall s, CR s -> forall t, prog t = None -> c_pcs s t = CIdle.
  Proof.
    apply (invariant (cstep prog) (cinit members) (fun s => forall t, prog t = None -> c_pcs s t = CIdle)).
    - reflexivity.
    - intros s t s' _ IH Hs u Hu. unfold cstep in Hs.
      destruct (prog t) as [o|] eqn:Hp; [|discriminate].
      assert (Hne : u <> t) by congruence.
      destruct (c_pcs s t); try discriminate.
      + inversion Hs; subst; cbn. rewrite upd_other by exact Hne. now apply IH.
      + destruct (c_mu s); [discriminate|]. inversion Hs; subst; cbn. rewrite upd_other by exact Hne. now apply IH.
      + inversion Hs; subst. unfold ccrit.
        repeat match goal with
        | |- c_pcs (if ?b then _ else _) _ = _ => destruct b
        | |- c_pcs (match ?x with _ => _ end) _ = _ => destruct x
        end; cbn; rewrite upd_other by exact Hne; now apply IH.
  Qed.

  (** No caller is ever stuck: if some caller has not finished, some thread can step. *)
  Theorem conc_no_deadlock s t o : CR s -> prog t = Some o -> c_pcs s t <> CDone ->
    exists u, cstep prog s u <> None.
  Proof.
    intros Hr Hp Hd. destruct (cinv s Hr) as (_ & _ & _ & _ & Hmu & _).
    destruct (c_mu s) as [h|] eqn:Hm.
    - exists h. assert (Hh : c_pcs s h = CIn) by now apply Hmu.
      unfold cstep. destruct (prog h) as [oh|] eqn:Hph.
      + rewrite Hh. discriminate.
      + rewrite (cidle s Hr h Hph) in Hh. discriminate.
    - exists t. unfold cstep. rewrite Hp. destruct (c_pcs s t); try contradiction; try discriminate.
      rewrite Hm. discriminate.
  Qed.
End Conc.

(** The code before 98804a6: a Shutdown caller with a cancelled context returned with the registration
    still in the list and never shut down by any continuation. *)
Lemma shutdown_once_old_refuted :
  exists prog members sch s,
    run (cstep_old prog) (cinit members) sch = Some s /\ c_pcs s 0 = CDone /\ prog 0 = Some (CShutdown false) /\
    c_count s 0 = 0 /\
    forall sch' s', run (cstep_old prog) s sch' = Some s' -> c_count s' 0 = 0.
Proof.
  exists (fun t => match t with 0 => Some (CShutdown false) | _ => Some (CShutdown true) end), [7], [0; 0; 0].
  eexists. split; [reflexivity|]. cbn. repeat split; auto.
  assert (Hstable : forall sch' s0 s', c_shut s0 = true -> c_count s0 0 = 0 ->
            run (cstep_old (fun t => match t with 0 => Some (CShutdown false) | _ => Some (CShutdown true) end)) s0 sch' = Some s' ->
            c_count s' 0 = 0).
  { induction sch' as [|u r IH]; cbn; intros s0 s' Hsh Hc H; [inversion H; subst; exact Hc|].
    destruct (cstep_old _ s0 u) as [s1|] eqn:Hs; [|discriminate].
    apply (IH s1 s'); [| |exact H]; unfold cstep_old, cstep in Hs;
      destruct (match u with 0 => Some (CShutdown false) | S _ => Some (CShutdown true) end) as [o|]; try discriminate;
      destruct (c_pcs s0 u); try discriminate;
      try (destruct (c_mu s0); try discriminate); inversion Hs; subst; clear Hs; cbn; auto;
      unfold ccrit_old, ccrit; rewrite Hsh; destruct o as [[|]| |]; cbn; auto. }
  intros sch' s' H. eapply Hstable; [| |exact H]; reflexivity.
Qed.

(** * Metric and log providers: the model satisfies the specification *)
Definition no_k (k : callk) (xs : list (nat * callk)) : Prop := Forall (fun c => snd c <> k) xs.
Definition ids_ge (i : nat) (xs : list (nat * callk)) : Prop := Forall (fun c => i <= fst c) xs.

Lemma count_calls_no_k j k xs : no_k k xs -> count_calls j k xs = 0.
Proof.
  unfold count_calls. induction 1 as [|c l Hc Hl IH]; cbn; [reflexivity|].
  destruct (callk_eqb (snd c) k) eqn:E; [apply callk_eqb_eq in E; contradiction|].
  rewrite andb_false_r. exact IH.
Qed.

Lemma count_calls_lt j k xs i : ids_ge i xs -> j < i -> count_calls j k xs = 0.
Proof.
  unfold count_calls. induction 1 as [|c l Hc Hl IH]; intros Hj; cbn; [reflexivity|].
  destruct (Nat.eqb_spec (fst c) j); [lia|]. cbn. now apply IH.
Qed.

Lemma count_calls_cons j k c xs :
  count_calls j k (c :: xs) = (if (fst c =? j) && callk_eqb (snd c) k then 1 else 0) + count_calls j k xs.
Proof. unfold count_calls. cbn. destruct ((fst c =? j) && callk_eqb (snd c) k); reflexivity. Qed.

Lemma count_calls_app j k a b : count_calls j k (a ++ b) = count_calls j k a + count_calls j k b.
Proof. unfold count_calls. now rewrite filter_app, app_length. Qed.

Lemma add_counts_no_k k xs : no_k k xs -> forall i cs, add_counts k xs i cs = cs.
Proof.
  intros H i cs. revert i. induction cs as [|c r IH]; intros i; cbn; [reflexivity|].
  rewrite count_calls_no_k by exact H. rewrite Nat.add_0_r. now rewrite IH.
Qed.

Lemma add_counts_skip k c0 xs : forall i cs, fst c0 < i -> add_counts k (c0 :: xs) i cs = add_counts k xs i cs.
Proof.
  intros i cs. revert i. induction cs as [|c r IH]; intros i Hlt; cbn [add_counts]; [reflexivity|].
  rewrite count_calls_cons. destruct (Nat.eqb_spec (fst c0) i); [lia|]. cbn. rewrite IH by lia. reflexivity.
Qed.

Lemma add_counts_length k xs : forall i cs, length (add_counts k xs i cs) = length cs.
Proof. intros i cs. revert i. induction cs; intros i; cbn; [reflexivity | now rewrite IHcs]. Qed.

Notation is_periodic := periodic_std (only parsing).

Lemma m_shutdown_ids live rs : forall i shut, ids_ge i (fst (m_shutdown live i rs shut)).
Proof.
  induction rs as [|r rt IH]; intros i [|b bt]; cbn; try constructor.
  specialize (IH (S i) bt). destruct (m_shutdown live (S i) rt bt) as [xs w]. cbn in IH.
  assert (Hw : ids_ge i xs) by (eapply Forall_impl; [|exact IH]; cbn; intros; lia).
  destruct r as [|x]; [exact Hw|]. destruct b; [exact Hw|]. destruct (is_nil x); [exact Hw|].
  cbn. constructor; [cbn; lia|]. constructor; [cbn; lia | exact Hw].
Qed.

Lemma m_shutdown_counts live rs : forall i shut cs,
  length shut = length rs -> length cs = length rs -> Forall (fun b => b = false) shut ->
  add_counts KXShutdown (fst (m_shutdown live i rs shut)) i cs =
  map (fun rc => snd rc + (if is_periodic (fst rc) then 1 else 0)) (combine rs cs).
Proof.
  induction rs as [|r rt IH]; intros i [|b bt] [|c ct] Hl1 Hl2 Hf; cbn in Hl1, Hl2; try discriminate; [reflexivity|].
  inversion Hf as [|? ? Hb Hbt]; subst. cbn [m_shutdown combine map fst snd].
  pose proof (m_shutdown_ids live rt (S i) bt) as Hids.
  specialize (IH (S i) bt ct). destruct (m_shutdown live (S i) rt bt) as [xs w]. cbn [fst] in *.
  destruct r as [|x]; [|destruct x]; cbn [fst periodic_std is_nil add_counts];
    rewrite ?count_calls_cons; cbn [fst snd]; rewrite ?Nat.eqb_refl; cbn [andb callk_eqb];
    rewrite (count_calls_lt i _ xs (S i)) by (auto; lia);
    rewrite ?add_counts_skip by (cbn; lia); rewrite IH by (auto; lia); f_equal; lia.
Qed.

Lemma m_flush_no_shutdown rs : forall i shut, no_k KXShutdown (fst (fst (m_flush i rs shut))).
Proof.
  induction rs as [|r rt IH]; intros i [|b bt]; cbn; try constructor.
  specialize (IH (S i) bt). destruct (m_flush (S i) rt bt) as [[xs w] e]. cbn in *.
  destruct r as [|x]; [exact IH|]. destruct b; [exact IH|]. destruct (is_nil x); [exact IH|].
  cbn. repeat constructor; cbn; auto; discriminate.
Qed.

Lemma m_flush_all_shut rs : forall i shut, length shut = length rs -> Forall (fun b => b = true) shut ->
  fst (m_flush i rs shut) = ([], false).
Proof.
  induction rs as [|r rt IH]; intros i [|b bt] Hl Hf; cbn in *; try discriminate; [reflexivity|].
  inversion Hf; subst. specialize (IH (S i) bt). destruct (m_flush (S i) rt bt) as [[xs w] e]. cbn in *.
  rewrite IH by (auto; lia). destruct r; reflexivity.
Qed.

Definition pcount (r : rk) : nat := if periodic_std r then 1 else 0.

Lemma le1_zeros cs : Forall (fun c => c = 0) cs -> forallb (fun c => c <=? 1) cs = true.
Proof. induction 1; cbn; [reflexivity|]. subst. exact IHForall. Qed.

Lemma le1_pcount rs : forallb (fun c => c <=? 1) (map pcount rs) = true.
Proof. induction rs as [|r l IH]; cbn; [reflexivity|]. rewrite IH. unfold pcount. now destruct (periodic_std r). Qed.

Lemma all_once_pcount rs :
  forallb (fun rc => if periodic_std (fst rc) then snd rc =? 1 else snd rc =? 0) (combine rs (map pcount rs)) = true.
Proof.
  induction rs as [|r l IH]; cbn; [reflexivity|]. rewrite IH. unfold pcount. now destruct (periodic_std r).
Qed.

Lemma bump_zeros rs : forall cs, Forall (fun c => c = 0) cs -> length cs = length rs ->
  map (fun rc => snd rc + (if is_periodic (fst rc) then 1 else 0)) (combine rs cs) = map pcount rs.
Proof.
  induction rs as [|r l IH]; intros [|c ct] Hf Hl; cbn in *; try discriminate; [reflexivity|].
  inversion Hf; subst. rewrite IH by (auto; lia). reflexivity.
Qed.

Lemma nth_const {A} (b d : A) l i : Forall (fun x => x = b) l -> i < length l -> nth i l d = b.
Proof.
  intros Hf. revert i. induction Hf as [|x l Hx Hl IH]; intros i Hi; cbn in Hi; [lia|].
  destruct i; cbn; [exact Hx | apply IH; lia].
Qed.

Definition MSim (readers : list rk) (s : mstate) (sp : mspec) : Prop :=
  ms_shut sp = m_once s /\ m_stopped s = m_once s /\
  length (m_rs s) = length readers /\ length (ms_xshut sp) = length readers /\
  (m_once s = false -> Forall (fun b => b = false) (m_rs s) /\ Forall (fun c => c = 0) (ms_xshut sp)) /\
  (m_once s = true -> Forall (fun b => b = true) (m_rs s) /\ ms_xshut sp = map pcount readers).

Definition mop_wf (n : nat) (o : mop) : Prop := match o with MCollect i => i < n | _ => True end.

Lemma mstep_sim readers s sp o :
  mop_wf (length readers) o -> MSim readers s sp ->
  exists sp', msstep readers sp o (a_obs (snd (mstep readers s o))) = Some sp' /\
              MSim readers (fst (mstep readers s o)) sp'.
Proof.
  intros Hwf (Hsh & Hst & Hl1 & Hl2 & H0 & H1).
  assert (Hle : forallb (fun c => c <=? 1) (ms_xshut sp) = true).
  { destruct (m_once s) eqn:E.
    - destruct (H1 eq_refl) as [_ ->]. apply le1_pcount.
    - destruct (H0 eq_refl) as [_ X]. now apply le1_zeros. }
  assert (Hkeep : forall sp', ms_shut sp' = m_once s -> ms_xshut sp' = ms_xshut sp ->
            MSim readers s sp').
  { intros sp' A B. unfold MSim. rewrite A, B. repeat split; auto; try apply H0; try apply H1; auto. }
  unfold msstep. destruct o as [fresh|i|live|live]; cbn [mstep].
  - (* Add *)
    cbn [snd fst mk a_obs o_wrote o_xcalls o_flag o_err hd has_export existsb].
    rewrite add_counts_no_k by constructor. rewrite Hle. rewrite Hsh.
    rewrite Hst.
    rewrite orb_true_r.
    cbn.
    rewrite eqb_reflx. eexists; split; [reflexivity|]. now apply Hkeep.
  - (* Collect *)
    cbn [snd fst mk a_obs o_wrote o_xcalls o_flag o_err hd has_export existsb].
    rewrite add_counts_no_k by constructor. rewrite Hle, Hsh. rewrite orb_true_r. cbn.
    assert (Hn : nth i (m_rs s) false = m_once s).
    { cbn in Hwf. destruct (m_once s) eqn:E.
      - apply nth_const; [apply (H1 eq_refl) | lia].
      - apply nth_const; [apply (H0 eq_refl) | lia]. }
    rewrite Hn. destruct (m_once s); cbn; (eexists; split; [reflexivity|]; now apply Hkeep).
  - (* ForceFlush *)
    pose proof (m_flush_no_shutdown readers 0 (m_rs s)) as Hno.
    destruct (m_flush 0 readers (m_rs s)) as [[xs w] e] eqn:Ef. cbn [fst] in Hno.
    destruct live; cbn [snd fst mk a_obs o_wrote o_xcalls o_flag o_err hd has_export existsb].
    + rewrite add_counts_no_k by exact Hno. rewrite Hle, Hsh.
      destruct (m_once s) eqn:E.
      * destruct (H1 eq_refl) as [Hall _].
        pose proof (m_flush_all_shut readers 0 (m_rs s) Hl1 Hall) as X. rewrite Ef in X. cbn in X.
        inversion X; subst. cbn. destruct e; cbn;
          (eexists; split; [reflexivity|]; unfold MSim; cbn; repeat split; auto; try apply H1; auto; discriminate).
      * cbn.
        assert (He : e = false).
        { destruct (H0 eq_refl) as [Hall _]. clear - Ef Hall Hl1. revert Ef. generalize 0. revert xs w e Hl1 Hall.
          generalize (m_rs s). induction readers as [|r rt IH]; intros [|b bt] xs w e Hl Hall n Ef; cbn in *; try discriminate; try congruence.
          inversion Hall; subst. destruct (m_flush (S n) rt bt) as [[xs' w'] e'] eqn:E'.
          assert (e' = false) by (eapply IH; eauto). subst e'. destruct r as [|x]; [|destruct (is_nil x)]; inversion Ef; reflexivity. }
        subst e. cbn.
        eexists; split; [reflexivity|]. unfold MSim; cbn; repeat split; auto; try apply H0; auto; discriminate.
    + rewrite add_counts_no_k by constructor. rewrite Hle, Hsh, orb_true_r. cbn.
      assert (Hin : err_in ENil (if m_once s then [ENil; EShut; ECtx] else [ENil; ECtx]) = true) by (destruct (m_once s); reflexivity).
      rewrite Hin. eexists; split; [reflexivity|].
      unfold MSim; cbn. repeat split; auto; try apply H0; try apply H1; auto.
  - (* Shutdown *)
    destruct (m_once s) eqn:E.
    + cbn [snd fst mk a_obs o_wrote o_xcalls o_flag o_err hd has_export existsb].
      rewrite add_counts_no_k by constructor. rewrite Hle, Hsh, orb_true_r. cbn.
      eexists; split; [reflexivity|]. unfold MSim; cbn. repeat split; auto; try apply H1; auto; discriminate.
    + destruct (H0 eq_refl) as [Hf0 Hz].
      pose proof (m_shutdown_counts live readers 0 (m_rs s) (ms_xshut sp) Hl1 Hl2 Hf0) as Hc.
      destruct (m_shutdown live 0 readers (m_rs s)) as [xs w]. cbn [fst] in Hc.
      cbn [snd fst mk a_obs o_wrote o_xcalls o_flag o_err hd].
      rewrite Hc, bump_zeros by auto. rewrite le1_pcount, Hsh. cbn.
      rewrite all_once_pcount.
      assert (Hin : err_in (hd ENil (if live then [ENil] else [ENil; ECtx])) (if live then [ENil] else [ENil; ECtx]) = true)
        by (destruct live; reflexivity).
      rewrite Hin. cbn. eexists; split; [reflexivity|].
      unfold MSim; cbn. repeat split; auto; try discriminate.
      * now rewrite map_length.
      * now rewrite map_length.
      * apply Forall_forall. intros b Hb. apply in_map_iff in Hb as [? [<- _]]. reflexivity.
Qed.

Definition strip {A} (l : list (A * mobs)) : list (A * obs) := map (fun x => (fst x, a_obs (snd x))) l.

Lemma mrun_sim readers :
  forall ops s sp, Forall (mop_wf (length readers)) ops -> MSim readers s sp ->
  mspec_run readers sp (strip (mrun_from readers s ops)) = true.
Proof.
  induction ops as [|o r IH]; intros s sp Hwf HS; [reflexivity|].
  inversion Hwf as [|? ? Ho Hr]; subst. cbn [mrun_from].
  destruct (mstep_sim readers s sp o Ho HS) as (sp' & H1 & H2).
  destruct (mstep readers s o) as [s' ob]. cbn [strip map fst snd mspec_run] in *. rewrite H1. now apply IH.
Qed.

(** c15 (metric): for every configuration without a nil-exporter periodic reader and every operation
    sequence, the model's observations satisfy the metric specification. *)
Theorem mspec_ok_model readers ops l :
  Forall (mop_wf (length readers)) ops -> mrun readers ops = Ok l -> mspec_ok readers (strip l) = true.
Proof.
  unfold mrun. intros Hwf H. inversion H; subst; clear H. apply mrun_sim; auto.
  unfold MSim; cbn. rewrite !map_length. repeat split; auto; try discriminate.
  - apply Forall_forall. intros b Hb. apply in_map_iff in Hb as [? [<- _]]. reflexivity.
  - apply Forall_forall. intros b Hb. apply in_map_iff in Hb as [? [<- _]]. reflexivity.
Qed.

(** Log provider *)
Definition lcount (p : lk) : nat := if has_std p then 1 else 0.

Lemma l_emit_facts st ps : forall i q, length q = length ps ->
  let '(q', xs, w) := l_emit st i ps q in
  length q' = length ps /\ no_k KXShutdown xs /\ (st = true -> w = false).
Proof.
  induction ps as [|p pt IH]; intros i [|n qt] Hl; cbn in *; try discriminate; [repeat split; constructor|].
  specialize (IH (S i) qt). destruct (l_emit st (S i) pt qt) as [[q' xs] w].
  destruct IH as (A & B & C); [lia|].
  destruct p as [x|x]; [destruct (is_nil x)|]; cbn; repeat split; auto; try lia.
  - constructor; [discriminate | exact B].
  - intros ->. cbn. now apply C.
Qed.

Lemma l_flush_facts ps : forall i q, length q = length ps ->
  let '(q', xs, w) := l_flush i ps q in length q' = length ps /\ no_k KXShutdown xs.
Proof.
  induction ps as [|p pt IH]; intros i [|n qt] Hl; cbn in *; try discriminate; [repeat split; constructor|].
  specialize (IH (S i) qt). destruct (l_flush (S i) pt qt) as [[q' xs] w].
  destruct IH as (A & B); [lia|].
  destruct p as [x|x]; destruct (is_nil x); cbn [length]; (split; [lia|]); try exact B.
  - constructor; [discriminate | exact B].
  - destruct n; cbn; repeat (constructor; [cbn; discriminate|]); exact B.
Qed.

Lemma l_shutdown_ids ps : forall i q, ids_ge i (fst (l_shutdown i ps q)).
Proof.
  induction ps as [|p pt IH]; intros i [|n qt]; cbn; try constructor.
  specialize (IH (S i) qt). destruct (l_shutdown (S i) pt qt) as [xs w]. cbn in IH.
  assert (Hw : ids_ge i xs) by (eapply Forall_impl; [|exact IH]; cbn; intros; lia).
  destruct p as [x|x]; destruct (is_nil x); cbn [fst]; try exact Hw.
  - constructor; [cbn; lia | exact Hw].
  - destruct n; cbn; repeat (constructor; [cbn; lia|]); exact Hw.
Qed.

Lemma l_shutdown_counts ps : forall i q cs,
  length q = length ps -> length cs = length ps ->
  add_counts KXShutdown (fst (l_shutdown i ps q)) i cs =
  map (fun pc => snd pc + lcount (fst pc)) (combine ps cs).
Proof.
  induction ps as [|p pt IH]; intros i [|n qt] [|c ct] Hl1 Hl2; cbn in Hl1, Hl2; try discriminate; [reflexivity|].
  cbn [l_shutdown combine map fst snd].
  pose proof (l_shutdown_ids pt (S i) qt) as Hids.
  specialize (IH (S i) qt ct). destruct (l_shutdown (S i) pt qt) as [xs w]. cbn [fst] in *.
  assert (H0 : count_calls i KXShutdown xs = 0) by (apply (count_calls_lt i _ xs (S i)); auto).
  destruct p as [x|x]; destruct x; cbn [fst is_nil lcount has_std add_counts app];
    rewrite ?count_calls_cons, ?count_calls_app; cbn [fst snd]; rewrite ?Nat.eqb_refl; cbn [andb callk_eqb];
    try (destruct (0 <? n); cbn [app]); rewrite ?count_calls_cons; cbn [fst snd]; rewrite ?Nat.eqb_refl; cbn [andb callk_eqb];
    rewrite ?H0, ?add_counts_skip by (cbn; lia); rewrite IH by lia; f_equal; lia.
Qed.

Lemma le1_lcount ps : forallb (fun c => c <=? 1) (map lcount ps) = true.
Proof. induction ps as [|p l IH]; cbn; [reflexivity|]. rewrite IH. unfold lcount. now destruct (has_std p). Qed.

Lemma all_once_lcount ps :
  forallb (fun rc => if has_std (fst rc) then snd rc =? 1 else snd rc =? 0) (combine ps (map lcount ps)) = true.
Proof.
  induction ps as [|p l IH]; cbn; [reflexivity|]. rewrite IH. unfold lcount. now destruct (has_std p).
Qed.

Lemma lbump_zeros ps : forall cs, Forall (fun c => c = 0) cs -> length cs = length ps ->
  map (fun pc => snd pc + lcount (fst pc)) (combine ps cs) = map lcount ps.
Proof.
  induction ps as [|p l IH]; intros [|c ct] Hf Hl; cbn in *; try discriminate; [reflexivity|].
  inversion Hf; subst. rewrite IH by (auto; lia). reflexivity.
Qed.

Definition LSim (procs : list lk) (s : lstate) (sp : mspec) : Prop :=
  ms_shut sp = l_stopped s /\ length (l_q s) = length procs /\ length (ms_xshut sp) = length procs /\
  (l_stopped s = false -> Forall (fun c => c = 0) (ms_xshut sp)) /\
  (l_stopped s = true -> ms_xshut sp = map lcount procs).

Lemma lstep_sim procs s sp o : LSim procs s sp ->
  exists sp', lsstep procs sp o (a_obs (snd (lstep procs s o))) = Some sp' /\ LSim procs (fst (lstep procs s o)) sp'.
Proof.
  intros (Hsh & Hl1 & Hl2 & H0 & H1).
  assert (Hle : forallb (fun c => c <=? 1) (ms_xshut sp) = true).
  { destruct (l_stopped s) eqn:E; [rewrite (H1 eq_refl); apply le1_lcount | now apply le1_zeros, H0]. }
  unfold lsstep. destruct o as [fresh|live|live]; cbn [lstep].
  - (* Emit *)
    destruct (l_stopped s && fresh) eqn:Eb.
    + cbn [snd fst mk a_obs o_wrote o_xcalls o_flag o_err o_calls hd].
      rewrite add_counts_no_k by constructor. rewrite Hle, Hsh, Eb, orb_true_r. cbn.
      eexists; split; [reflexivity|]. unfold LSim; cbn. repeat split; auto.
    + pose proof (l_emit_facts (l_stopped s) procs 0 (l_q s) Hl1) as Hf.
      destruct (l_emit (l_stopped s) 0 procs (l_q s)) as [[q' xs] w]. destruct Hf as (A & B & C).
      cbn [snd fst mk a_obs o_wrote o_xcalls o_flag o_err o_calls hd].
      rewrite add_counts_no_k by exact B. rewrite Hle, Hsh, Eb.
      assert (Hq : negb (l_stopped s) || negb w = true).
      { destruct (l_stopped s); [rewrite (C eq_refl); reflexivity | reflexivity]. }
      rewrite Hq. cbn.
      eexists; split; [reflexivity|]. unfold LSim; cbn. repeat split; auto.
  - (* ForceFlush *)
    destruct (l_stopped s) eqn:E.
    + cbn [snd fst mk a_obs o_wrote o_xcalls o_flag o_err o_calls hd].
      rewrite add_counts_no_k by constructor. rewrite Hle, Hsh, orb_true_r. cbn.
      eexists; split; [reflexivity|]. unfold LSim; cbn. rewrite E. repeat split; auto.
    + destruct live.
      * pose proof (l_flush_facts procs 0 (l_q s) Hl1) as Hf.
        destruct (l_flush 0 procs (l_q s)) as [[q' xs] w]. destruct Hf as (A & B).
        cbn [snd fst mk a_obs o_wrote o_xcalls o_flag o_err o_calls hd].
        rewrite add_counts_no_k by exact B. rewrite Hle, Hsh. cbn.
        eexists; split; [reflexivity|]. unfold LSim; cbn. repeat split; auto; discriminate.
      * cbn [snd fst mk a_obs o_wrote o_xcalls o_flag o_err o_calls hd].
        rewrite add_counts_no_k by constructor. rewrite Hle, Hsh. cbn.
        eexists; split; [reflexivity|]. unfold LSim; cbn. repeat split; auto; discriminate.
  - (* Shutdown *)
    destruct (l_stopped s) eqn:E.
    + cbn [snd fst mk a_obs o_wrote o_xcalls o_flag o_err o_calls hd].
      rewrite add_counts_no_k by constructor. rewrite Hle, Hsh, orb_true_r. cbn.
      eexists; split; [reflexivity|]. unfold LSim; cbn. rewrite E. repeat split; auto.
    + pose proof (l_shutdown_counts procs 0 (l_q s) (ms_xshut sp) Hl1 Hl2) as Hc.
      destruct (l_shutdown 0 procs (l_q s)) as [xs w]. cbn [fst] in Hc.
      cbn [snd fst mk a_obs o_wrote o_xcalls o_flag o_err o_calls hd].
      rewrite Hc, lbump_zeros by auto. rewrite le1_lcount, Hsh. cbn.
      rewrite all_once_lcount, calls_eqb_refl.
      assert (Hin : err_in (hd ENil (if live then [ENil] else [ENil; ECtx])) (if live then [ENil] else [ENil; ECtx]) = true)
        by (destruct live; reflexivity).
      rewrite Hin. cbn. eexists; split; [reflexivity|].
      unfold LSim; cbn. rewrite !map_length. repeat split; auto; discriminate.
Qed.

Lemma lrun_sim procs : forall ops s sp, LSim procs s sp ->
  lspec_run procs sp (strip (lrun_from procs s ops)) = true.
Proof.
  induction ops as [|o r IH]; intros s sp HS; [reflexivity|]. cbn [lrun_from].
  destruct (lstep_sim procs s sp o HS) as (sp' & H1 & H2).
  destruct (lstep procs s o) as [s' ob]. cbn [strip map fst snd lspec_run] in *. rewrite H1. now apply IH.
Qed.

(** c15 (log): for every configuration (nil exporters included) and every operation sequence the
    model's observations satisfy the log specification. *)
Theorem lspec_ok_model procs ops l : lrun procs ops = Ok l -> lspec_ok procs (strip l) = true.
Proof.
  unfold lrun. intros H. inversion H; subst; clear H. apply lrun_sim.
  unfold LSim; cbn. rewrite !map_length.
  split; [reflexivity|]. split; [reflexivity|]. split; [reflexivity|]. split; [|discriminate].
  intros _. apply Forall_forall. intros b Hb. apply in_map_iff in Hb as [? [<- _]]. reflexivity.
Qed.

(** * Never crashes *)
Theorem metric_never_crashes readers ops : exists l, mrun readers ops = Ok l.
Proof. unfold mrun. eauto. Qed.

Theorem log_never_crashes procs ops : exists l, lrun procs ops = Ok l.
Proof. unfold lrun. eauto. Qed.

(** Before b09d39a a PeriodicReader around a nil exporter was the one stock configuration that did. *)
Lemma metric_nil_periodic_old_crashes : forall ops, mrun_old [RPeriodic XNil] ops = Crash.
Proof. reflexivity. Qed.

(** * Concurrent Shutdown callers on the log / metric providers (swap and Once protocols) *)
Section OneShot.
  Variable blocking : bool.
  Variable n : nat.
  Variable callers : nat -> bool.
  Notation SR := (Reach (sstep blocking n callers) sinit).

  Definition progress (s : sstate) : nat :=
    match s_flag s with
    | None => 0
    | Some w => match s_pcs s w with SRun i => i | SDone _ => n | SIdle => 0 end
    end.

  Definition SInv (s : sstate) : Prop :=
    (s_flag s = None -> s_finished s = false) /\
    (blocking = true -> forall t e, s_pcs s t = SDone e -> s_finished s = true) /\
    (forall j, s_counts s j = if j <? progress s then 1 else 0) /\
    progress s <= n /\
    (forall t i, s_pcs s t = SRun i -> s_flag s = Some t) /\
    (s_flag s = None -> forall t, s_pcs s t = SIdle) /\
    (forall w, s_flag s = Some w -> s_pcs s w <> SIdle /\
               (s_finished s = true <-> exists e, s_pcs s w = SDone e)).

  Lemma sinv : forall s, SR s -> SInv s.
  Proof.
    apply invariant.
    - unfold SInv, progress; cbn. repeat split; try discriminate; auto; lia.
    - intros s t s' _ (Hnf & Hblk & Hc & Hp & Hrun & Hnone & Hw) Hs. unfold sstep in Hs.
      destruct (callers t); [|discriminate]. cbn [negb] in Hs.
      destruct (s_pcs s t) as [|i|e] eqn:Hpc; [| |discriminate].
      + (* a caller arrives *)
        destruct (s_flag s) as [w|] eqn:Hf.
        * assert (Hne : w <> t) by (intros ->; destruct (Hw t eq_refl) as [X _]; congruence).
          assert (Hsame : forall p f, progress {| s_flag := Some w; s_finished := f; s_counts := s_counts s;
                                                  s_pcs := upd (s_pcs s) t p |} = progress s).
          { intros p f. unfold progress; cbn. rewrite Hf. now rewrite upd_other by exact Hne. }
          destruct blocking eqn:Hbk.
          -- destruct (s_finished s) eqn:Hfin; [|discriminate]. inversion Hs; subst; clear Hs.
             unfold SInv. rewrite Hsame. cbn [s_counts s_flag s_pcs s_finished]. split; [discriminate|]. split; [reflexivity|].
             split; [exact Hc|]. split; [exact Hp|]. split.
             { intros u i Hu. destruct (Nat.eq_dec u t) as [->|Hn]; [rewrite upd_same in Hu; discriminate|].
               rewrite upd_other in Hu by exact Hn. rewrite ?Hf. eapply Hrun; eauto. }
             split; [discriminate|].
             intros w' Hw'. inversion Hw'; subst w'. rewrite upd_other by exact Hne.
             destruct (Hw w eq_refl) as [X Y]. split; [exact X | exact Y].
          -- inversion Hs; subst; clear Hs. unfold SInv. rewrite Hsame. cbn [s_counts s_flag s_pcs s_finished]. split; [discriminate|]. split; [intros Hb; congruence|].
             split; [exact Hc|]. split; [exact Hp|]. split.
             { intros u i Hu. destruct (Nat.eq_dec u t) as [->|Hn]; [rewrite upd_same in Hu; discriminate|].
               rewrite upd_other in Hu by exact Hn. rewrite ?Hf. eapply Hrun; eauto. }
             split; [discriminate|].
             intros w' Hw'. inversion Hw'; subst w'. rewrite upd_other by exact Hne. now apply Hw.
        * inversion Hs; subst; clear Hs.
          assert (Hp0 : progress s = 0) by (unfold progress; now rewrite Hf).
          unfold SInv, progress. cbn [s_counts s_flag s_pcs s_finished]. rewrite upd_same. split; [discriminate|]. split; [intros _ u e Hu; destruct (Nat.eq_dec u t) as [->|Hn]; [rewrite upd_same in Hu; discriminate | rewrite upd_other in Hu by exact Hn; rewrite (Hnone eq_refl u) in Hu; discriminate]|].
          split; [intros j; rewrite Hc, Hp0; reflexivity|]. split; [lia|]. split.
          { intros u i Hu. destruct (Nat.eq_dec u t) as [->|Hn]; [reflexivity|].
            rewrite upd_other in Hu by exact Hn. rewrite (Hnone eq_refl u) in Hu. discriminate. }
          split; [discriminate|].
          intros w' Hw'. inversion Hw'; subst w'. rewrite upd_same. split; [discriminate|].
          split; [discriminate | intros [e He]; discriminate].
      + (* the winner works through the processors *)
        pose proof (Hrun t i Hpc) as Hf. destruct (Hw t Hf) as [_ Hfin].
        assert (Hpi : progress s = i) by (unfold progress; now rewrite Hf, Hpc).
        destruct (i <? n) eqn:Hlt; inversion Hs; subst s'; clear Hs.
        * apply Nat.ltb_lt in Hlt. unfold SInv, progress. cbn [s_counts s_flag s_pcs s_finished]. rewrite Hf, upd_same. split; [discriminate|]. split; [intros Hb u e Hu; destruct (Nat.eq_dec u t) as [->|Hn]; [rewrite upd_same in Hu; discriminate | rewrite upd_other in Hu by exact Hn; exfalso; apply (Hblk Hb) in Hu; apply Hfin in Hu as [e' He']; congruence]|].
          split.
          { intros j. destruct (Nat.eq_dec j i) as [->|Hn].
            - rewrite upd_same, Hc, Hpi. rewrite Nat.ltb_irrefl. replace (i <? S i) with true by (symmetry; apply Nat.ltb_lt; lia). reflexivity.
            - rewrite upd_other by exact Hn. rewrite Hc, Hpi.
              destruct (j <? i) eqn:A; destruct (j <? S i) eqn:B; try reflexivity;
                apply Nat.ltb_lt in A || apply Nat.ltb_ge in A; apply Nat.ltb_lt in B || apply Nat.ltb_ge in B; lia. }
          split; [lia|]. split.
          { intros u k Hu. destruct (Nat.eq_dec u t) as [->|Hn]; [reflexivity|].
            rewrite upd_other in Hu by exact Hn. rewrite <- Hf. eapply Hrun; eauto. }
          split; [congruence|].
          intros w' Hw'. inversion Hw'; subst w'. rewrite upd_same. split; [discriminate|].
          split; [discriminate | intros [e He]; discriminate].
        * apply Nat.ltb_ge in Hlt. unfold SInv, progress. cbn [s_counts s_flag s_pcs s_finished]. rewrite Hf, upd_same. split; [discriminate|]. split; [reflexivity|].
          assert (Hin' : i = n) by lia. rewrite Hin' in *.
          split; [intros j; rewrite Hc, Hpi; reflexivity|]. split; [lia|]. split.
          { intros u k Hu. destruct (Nat.eq_dec u t) as [->|Hn]; [rewrite upd_same in Hu; discriminate|].
            rewrite upd_other in Hu by exact Hn. rewrite <- Hf. eapply Hrun; eauto. }
          split; [congruence|].
          intros w' Hw'. inversion Hw'; subst w'. rewrite upd_same. split; [discriminate|].
          split; [eauto | reflexivity].
  Qed.

  (** Every processor / reader is shut down at most once; exactly once as soon as the winning call
      has finished; a caller that returned an error-free "I did it" ([blocking]: any returned caller)
      implies … ; and nobody is stuck. *)
  Theorem oneshot_once s : SR s ->
    (forall j, s_counts s j <= 1) /\
    (forall j, n <= j -> s_counts s j = 0) /\
    (s_finished s = true -> forall j, j < n -> s_counts s j = 1) /\
    (blocking = true -> forall t e, s_pcs s t = SDone e -> s_finished s = true).
  Proof.
    intros Hr. pose proof (sinv s Hr) as (Hnf & Hblk & Hc & Hp & Hrun & Hnone & Hw).
    split; [intros j; rewrite Hc; destruct (j <? progress s); lia|].
    split; [intros j Hj; rewrite Hc; replace (j <? progress s) with false; [reflexivity | symmetry; apply Nat.ltb_ge; lia]|].
    split.
    - intros Hfin j Hj. rewrite Hc.
      destruct (s_flag s) as [w|] eqn:Hf.
      + destruct (Hw w eq_refl) as [_ X]. apply X in Hfin as [e He].
        unfold progress. rewrite Hf, He. replace (j <? n) with true; [reflexivity | symmetry; now apply Nat.ltb_lt].
      + rewrite (Hnf eq_refl) in Hfin. discriminate.
    - exact Hblk.
  Qed.

  Lemma sidle : forall s, SR s -> forall t, callers t = false -> s_pcs s t = SIdle.
  Proof.
    apply (invariant (sstep blocking n callers) sinit (fun s => forall t, callers t = false -> s_pcs s t = SIdle)).
    - reflexivity.
    - intros s t s' _ IH Hs u Hu. unfold sstep in Hs. destruct (callers t) eqn:Hct; [|discriminate]. cbn [negb] in Hs.
      assert (Hne : u <> t) by congruence.
      destruct (s_pcs s t); [| |discriminate].
      + destruct (s_flag s); [destruct blocking; [destruct (s_finished s); [|discriminate]|]|];
          inversion Hs; subst; cbn; rewrite upd_other by exact Hne; now apply IH.
      + destruct (i <? n); inversion Hs; subst; cbn; rewrite upd_other by exact Hne; now apply IH.
  Qed.

  Theorem oneshot_no_deadlock s t : SR s -> callers t = true -> (forall e, s_pcs s t <> SDone e) ->
    exists u, sstep blocking n callers s u <> None.
  Proof.
    intros Hr Hc Hnd. pose proof (sinv s Hr) as (_ & _ & _ & _ & Hrun & Hnone & Hw).
    destruct (s_flag s) as [w|] eqn:Hf.
    - destruct (Hw w eq_refl) as [Hni Hfin].
      destruct (s_pcs s w) as [|i|e] eqn:Hpw; [contradiction| |].
      + exists w. unfold sstep.
        assert (Hcw : callers w = true).
        { destruct (callers w) eqn:X; [reflexivity|]. rewrite (sidle s Hr w X) in Hpw. discriminate. }
        rewrite Hcw, Hpw. cbn [negb]. destruct (i <? n); discriminate.
      + exists t. unfold sstep. rewrite Hc. cbn [negb].
        destruct (s_pcs s t) as [|i|e'] eqn:Hpt.
        * rewrite Hf. assert (Hfi : s_finished s = true) by (apply Hfin; eauto). rewrite Hfi.
          destruct blocking; discriminate.
        * pose proof (Hrun t i Hpt). assert (w = t) by congruence. subst. congruence.
        * exfalso. eapply Hnd; eauto.
    - exists t. unfold sstep. rewrite Hc. cbn [negb]. rewrite (Hnone eq_refl t), Hf. discriminate.
  Qed.
End OneShot.

(** * Components used directly *)

Lemma count_k_nil k : count_k k [] = 0. Proof. reflexivity. Qed.

(** Span processor driven directly. *)
Definition DInv (st : pst) (shut : bool) : Prop := shut = p_once st /\ (p_once st = true -> p_alive st = false).

Lemma dstep_sim k st shut o : DInv st shut ->
  exists shut', dsstep (has_x k) shut o (snd (dstep k st o)) = Some shut' /\ DInv (fst (dstep k st o)) shut'.
Proof.
  intros [Hs Ha]. subst shut. destruct st as [once alive q]. cbn in Ha.
  destruct once.
  - rewrite (Ha eq_refl).
    destruct o; destruct k as [|x|x]; try destruct x; cbn; (eexists; split; [reflexivity|]; split; cbn; auto).
  - destruct o; destruct k as [|x|x]; try destruct x; destruct alive; destruct q; cbn;
      (eexists; split; [reflexivity|]; split; cbn; auto; discriminate).
Qed.

Theorem dspec_ok_model k : forall ops st shut, DInv st shut -> dspec_run (has_x k) shut (drun k st ops) = true.
Proof.
  induction ops as [|o r IH]; intros st shut HI; [reflexivity|].
  cbn [drun]. destruct (dstep_sim k st shut o HI) as (shut' & H1 & H2).
  destruct (dstep k st o) as [st' ob]. cbn [fst snd] in *. cbn [dspec_run]. rewrite H1. now apply IH.
Qed.

(** Metric reader used directly. *)
Definition RInv (r : rk) (s : rstate) (sp : rspec) : Prop :=
  rs_shut sp = r_shut s /\ rs_once1 sp = r_once1 s /\ rs_once2 sp = r_once2 s /\
  rs_x sp = (if r_shut s then (if periodic_std r then 1 else 0) else 0) /\
  (r_once1 s = true -> r_shut s = true) /\ (r_once2 s = true -> r_shut s = true).

Lemma rstep_sim r reg s sp o : RInv r s sp ->
  exists sp', rsstep r reg sp o (snd (rstep r reg s o)) = Some sp' /\ RInv r (fst (rstep r reg s o)) sp'.
Proof.
  intros (H1 & H2 & H3 & H4 & H5 & H6). destruct sp as [sh x o1 o2]. destruct s as [rs q1 q2].
  cbn in *. subst sh o1 o2 x.
  assert (Hreg : reg = 0 \/ reg = 1 \/ reg = 2 \/ 3 <= reg) by lia.
  destruct rs.
  - (* the reader is shut down *)
    destruct o as [| | |b|b|]; destruct r as [|[]]; try destruct b;
      destruct Hreg as [->|[->|[->|Hge]]];
      try (destruct reg as [|[|[|reg]]]; [lia|lia|lia|]);
      destruct q1; destruct q2; cbn;
      try (eexists; split; [reflexivity|]; unfold RInv; cbn; repeat split; auto; fail).
  - assert (q1 = false) by (destruct q1; [specialize (H5 eq_refl); discriminate | reflexivity]).
    assert (q2 = false) by (destruct q2; [specialize (H6 eq_refl); discriminate | reflexivity]).
    subst q1 q2.
    destruct o as [| | |b|b|]; destruct r as [|[]]; try destruct b;
      destruct Hreg as [->|[->|[->|Hge]]];
      try (destruct reg as [|[|[|reg]]]; [lia|lia|lia|]);
      cbn;
      try (eexists; split; [reflexivity|]; unfold RInv; cbn; repeat split; auto; discriminate).
Qed.

Theorem rspec_ok_model r reg : forall ops s sp, RInv r s sp -> rspec_run r reg sp (rrun r reg s ops) = true.
Proof.
  induction ops as [|o t IH]; intros s sp HI; [reflexivity|].
  cbn [rrun]. destruct (rstep_sim r reg s sp o HI) as (sp' & H1 & H2).
  destruct (rstep r reg s o) as [s' ob]. cbn [fst snd] in *. cbn [rspec_run]. rewrite H1. now apply IH.
Qed.

(** Failing processors. *)
Lemma f_flush_spec fails regs :
  f_flush fails regs = (to_all KFlush (upto_fail fails regs), if existsb fails regs then EOther else ENil).
Proof.
  induction regs as [|p r IH]; [reflexivity|]. cbn. destruct (fails p); [reflexivity|].
  rewrite IH. reflexivity.
Qed.

Lemma f_shutdown_spec fails regs : f_shutdown fails regs = (to_all KShutdown regs, existsb fails regs).
Proof. induction regs as [|p r IH]; [reflexivity|]. cbn. rewrite IH. reflexivity. Qed.

Lemma map_pair_fst (regs : list nat) : map fst (map (fun q => (q, false)) regs) = regs.
Proof. induction regs; cbn; congruence. Qed.

Lemma fstep_sim fails s o :
  fsstep fails s o (snd (fstep fails s o)) = Some (fst (fstep fails s o)).
Proof.
  destruct s as [regs shut]. destruct o as [p|p| |]; cbn [fstep fsstep].
  - cbn. reflexivity.
  - destruct shut; [cbn; reflexivity|]. cbn [orb].
    rewrite last_index_spec, map_pair_fst.
    destruct (last_pos p regs) as [j|] eqn:El.
    + destruct (last_pos_splice p regs j El) as [Hsp _].
      assert (Hm : mem p regs = true).
      { destruct (mem p regs) eqn:Hm; [reflexivity|]. apply last_pos_none in Hm. congruence. }
      rewrite Hm. cbn [negb fst snd fobs o_calls o_err]. rewrite calls_eqb_refl. rewrite Hsp. reflexivity.
    + apply last_pos_none in El. rewrite El. cbn. reflexivity.
  - rewrite f_flush_spec. cbn [fst snd fobs o_calls o_err]. rewrite calls_eqb_refl.
    destruct (existsb fails regs); reflexivity.
  - destruct shut; [cbn; reflexivity|]. rewrite f_shutdown_spec.
    cbn [fst snd fobs o_calls o_err]. rewrite calls_eqb_refl.
    destruct (existsb fails regs); reflexivity.
Qed.

Theorem fspec_ok_model fails : forall ops s, fspec_run fails s (frun fails s ops) = true.
Proof.
  induction ops as [|o r IH]; intros s; [reflexivity|].
  cbn [frun]. pose proof (fstep_sim fails s o) as H.
  destruct (fstep fails s o) as [s' ob]. cbn [fst snd] in H. cbn [fspec_run]. rewrite H. apply IH.
Qed.
