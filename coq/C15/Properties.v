(** C15 property theorems: provider lifecycle.  Statements only, each closed by
    lemmas of Proofs.v, with the axiom audit and non-vacuity examples.

    The models follow the code after the repairs f92b4a5, d192059 (F-C15-1/2), 98804a6 (F-C15-3:
    Shutdown with an already-cancelled context now shuts every processor down) and b09d39a
    (F-C15-4: a PeriodicReader around a nil exporter uses a no-op exporter); all theorems are
    unconditional.  The [..._old_refuted] lemmas are about the clearly named OLD definitions of
    Model.v and document what the repairs excluded. *)
From Coq Require Import List Arith Lia Bool.
From Verif Require Import Lib.LTS C15.Spec C15.Model C15.Proofs.
Import ListNotations.

(** Exact membership, for ALL operation sequences: the list the provider holds is the abstract
    "registered and not unregistered" list, and an ended span is handed to exactly those
    processors, in registration order. *)
Theorem c15_membership : forall kinds members ops i,
  let s := tstate_after kinds (tinit members) ops in
  map fst (t_regs s) = members_after members false ops /\
  (nth_error (t_spans s) i = Some (true, false) ->
   o_calls (snd (tstep kinds s (TEnd i))) = to_all KOnEnd (members_after members false ops)).
Proof. exact membership. Qed.
Print Assumptions c15_membership.

(** Unregistering a processor that is not registered changes nothing and calls nobody (any state). *)
Theorem c15_unregister_unknown_noop : forall kinds s p,
  mem p (map fst (t_regs s)) = false -> tstep kinds s (TUnreg p) = (s, quiet ENil false).
Proof. exact unregister_unknown_noop. Qed.
Print Assumptions c15_unregister_unknown_noop.

(** The whole trace specification (membership, Unregister, Start/End fan-out, ForceFlush and
    Shutdown results, per-registration single Shutdown whatever the context, each exporter behind a
    simple / batch processor shut down exactly once - when its processor is shut down for the first
    time - and never again, nothing after a live-context Shutdown) holds of the model for ALL
    configurations and operation sequences. *)
Theorem c15_trace_spec : forall kinds members ops,
  tspec_ok kinds members (trun kinds (tinit members) ops) = true.
Proof. exact tspec_ok_model. Qed.
Print Assumptions c15_trace_spec.

Theorem c15_trace_spec_old_refuted : exists kinds members ops,
  tspec_ok kinds members (trun_old kinds (tinit members) ops) = false.
Proof. exact tspec_ok_old_refuted. Qed.
Print Assumptions c15_trace_spec_old_refuted.

(** Single shutdown under concurrency (trace provider: mutex + splice): for ALL schedules of ANY
    number of concurrent Shutdown (live or cancelled context) / Unregister / Register callers, every
    registration's processor has received at most one Shutdown, exactly one as soon as it has left
    the list, and once any Shutdown caller has returned the list is empty and every registration has
    received exactly one. *)
Theorem c15_shutdown_once : forall prog members sch s,
  run (cstep prog) (cinit members) sch = Some s ->
  (forall r, c_count s r <= 1) /\
  (forall r, r < c_next s ->
     (In r (map fst (c_regs s)) /\ c_count s r = 0) \/ (~ In r (map fst (c_regs s)) /\ c_count s r = 1)) /\
  (forall t live, prog t = Some (CShutdown live) -> c_pcs s t = CDone ->
     c_regs s = [] /\ forall r, r < c_next s -> c_count s r = 1).
Proof. intros prog members sch s H. apply (shutdown_once prog members). eapply run_reach; eauto. Qed.
Print Assumptions c15_shutdown_once.

Theorem c15_shutdown_once_old_refuted :
  exists prog members sch s,
    run (cstep_old prog) (cinit members) sch = Some s /\ c_pcs s 0 = CDone /\ prog 0 = Some (CShutdown false) /\
    c_count s 0 = 0 /\ forall sch' s', run (cstep_old prog) s sch' = Some s' -> c_count s' 0 = 0.
Proof. exact shutdown_once_old_refuted. Qed.
Print Assumptions c15_shutdown_once_old_refuted.

(** Single shutdown under concurrency (log provider: [stopped.Swap], [blocking = false]; metric provider:
    [sync.Once] of unifyShutdown, [blocking = true]): for ALL schedules of ANY set of concurrent Shutdown
    callers over [n] processors / readers, each is shut down at most once, exactly once as soon as the
    winning call has finished; with the Once every returned caller implies it has finished; nobody is stuck. *)
Theorem c15_shutdown_once_log_metric : forall blocking n callers sch s,
  run (sstep blocking n callers) sinit sch = Some s ->
  (forall j, s_counts s j <= 1) /\ (forall j, n <= j -> s_counts s j = 0) /\
  (s_finished s = true -> forall j, j < n -> s_counts s j = 1) /\
  (blocking = true -> forall t e, s_pcs s t = SDone e -> s_finished s = true) /\
  (forall t, callers t = true -> (forall e, s_pcs s t <> SDone e) -> exists u, sstep blocking n callers s u <> None).
Proof.
  intros blocking n callers sch s H. pose proof (run_reach _ _ _ _ H) as Hr.
  destruct (oneshot_once blocking n callers s Hr) as (A & B & C & D).
  repeat split; auto. intros t Ht Hnd. eapply oneshot_no_deadlock; eauto.
Qed.
Print Assumptions c15_shutdown_once_log_metric.

(** Safe afterwards (trace): ANY Shutdown, whatever its context, leaves the provider dead, and on a
    dead provider EVERY further operation sequence calls no processor and no exporter, writes
    nothing, returns nil, and a tracer obtained afterwards does not record. *)
Theorem c15_after_shutdown : forall kinds s live ops,
  t_shut s = false \/ t_dead s ->
  let s1 := fst (tstep kinds s (TShutdown live)) in
  t_dead s1 /\
  Forall (fun x => o_calls (snd x) = [] /\ o_xcalls (snd x) = [] /\ o_wrote (snd x) = false /\
                   o_err (snd x) = ENil /\ (fst x = TStart true -> o_flag (snd x) = false))
         (trun kinds s1 ops).
Proof.
  intros kinds s live ops Hs. cbn zeta.
  pose proof (shutdown_makes_dead kinds s live Hs) as Hd. split; [exact Hd | now apply after_shutdown].
Qed.
Print Assumptions c15_after_shutdown.

(** Metric provider: for ALL configurations (nil exporters included) and sequences the model
    satisfies the metric specification. *)
Theorem c15_metric_spec : forall readers ops l,
  Forall (mop_wf (length readers)) ops -> mrun readers ops = Ok l -> mspec_ok readers (strip l) = true.
Proof. exact mspec_ok_model. Qed.
Print Assumptions c15_metric_spec.

(** Log provider: same. *)
Theorem c15_log_spec : forall procs ops l, lrun procs ops = Ok l -> lspec_ok procs (strip l) = true.
Proof. exact lspec_ok_model. Qed.
Print Assumptions c15_log_spec.

(** Never crashes, never stuck: the trace model is a total function (one observation per operation,
    whatever the processors and however nil their exporters), the log and metric models never reach
    [Crash], and concurrent Shutdown / Unregister / Register callers cannot deadlock. *)
Theorem c15_never_crashes :
  (forall kinds members ops, length (trun kinds (tinit members) ops) = length ops) /\
  (forall procs ops, exists l, lrun procs ops = Ok l) /\
  (forall readers ops, exists l, mrun readers ops = Ok l) /\
  (forall prog members sch s t o, run (cstep prog) (cinit members) sch = Some s ->
     prog t = Some o -> c_pcs s t <> CDone -> exists u, cstep prog s u <> None).
Proof.
  split; [|split; [exact log_never_crashes | split; [exact metric_never_crashes|]]].
  - intros kinds members ops. generalize (tinit members). induction ops as [|o r IH]; intros s; cbn; [reflexivity|].
    destruct (tstep kinds s o) as [s' ob]. cbn. now rewrite IH.
  - intros prog members sch s t o H. apply (conc_no_deadlock prog members). eapply run_reach; eauto.
Qed.
Print Assumptions c15_never_crashes.

Theorem c15_never_crashes_old_refuted : forall ops, mrun_old [RPeriodic XNil] ops = Crash.
Proof. exact metric_nil_periodic_old_crashes. Qed.
Print Assumptions c15_never_crashes_old_refuted.

(** Components used directly (not through a provider), for every operation sequence.
    A stock span processor: the exporter is shut down by the first Shutdown, exactly once, nothing is
    exported afterwards, every call returns nil. *)
Theorem c15_direct_processor : forall k ops, dspec_ok (has_x k) (drun k pst0 ops) = true.
Proof. intros k ops. apply dspec_ok_model. split; [reflexivity | discriminate]. Qed.
Print Assumptions c15_direct_processor.

(** A metric reader used directly and through one or two providers (or none): whoever shuts it down
    first gets nil and the exporter's only Shutdown; everything later reports ErrReaderShutdown. *)
Theorem c15_direct_reader : forall r reg ops, rspec_ok r reg (rrun r reg rinit ops) = true.
Proof. intros r reg ops. apply rspec_ok_model. unfold RInv; cbn. repeat split; auto; discriminate. Qed.
Print Assumptions c15_direct_reader.

(** Processors whose ForceFlush / Shutdown fail: Shutdown still reaches every registered processor. *)
Theorem c15_failing_processors : forall fails members ops, fspec_ok fails members (frun fails (members, false) ops) = true.
Proof. intros. apply fspec_ok_model. Qed.
Print Assumptions c15_failing_processors.

(** Non-vacuity. *)
Example ex_membership :
  let ops := [TReg 2; TUnreg 0; TStart false; TReg 0; TUnreg 7; TEnd 0; TShutdown false; TStart true] in
  members_after [0; 1; 0] false (firstn 6 ops) = [0; 1; 2; 0] /\
  map (fun x => o_calls (snd x)) (trun (fun _ => PCount) (tinit [0; 1; 0]) ops) =
    [[]; [(0, KShutdown)]; [(0, KOnStart); (1, KOnStart); (2, KOnStart)]; []; [];
     [(0, KOnEnd); (1, KOnEnd); (2, KOnEnd); (0, KOnEnd)];
     [(0, KShutdown); (1, KShutdown); (2, KShutdown); (0, KShutdown)]; []].
Proof. vm_compute. auto. Qed.

Example ex_shutdown_once :
  exists s, run (cstep (fun t => match t with 0 => Some (CShutdown false) | 1 => Some (CUnreg 5) | 2 => Some (CReg 9)
                                      | 3 => Some (CShutdown true) | _ => None end))
                (cinit [5; 6]) [1; 0; 2; 3; 1; 1; 0; 0; 2; 2; 3; 3] = Some s /\
            c_count s 0 = 1 /\ c_count s 1 = 1 /\ c_regs s = [] /\ c_pcs s 0 = CDone.
Proof. eexists. split; [vm_compute; reflexivity|]. vm_compute. auto. Qed.

Example ex_oneshot :
  exists s, run (sstep true 2 (fun t => t <? 3)) sinit [0; 0; 0; 0; 1; 2] = Some s /\
            s_counts s 0 = 1 /\ s_counts s 1 = 1 /\ s_pcs s 0 = SDone ENil /\ s_pcs s 1 = SDone EShut /\ s_pcs s 2 = SDone EShut.
Proof. eexists. split; [vm_compute; reflexivity|]. vm_compute. auto. Qed.

Example ex_metric :
  exists l, mrun [RManual; RPeriodic XStd; RPeriodic XNil] [MAdd false; MFlush true; MShutdown true; MAdd true; MFlush true; MCollect 0; MShutdown true] = Ok l /\
            map (fun x => o_err (a_obs (snd x))) l = [ENil; ENil; ENil; ENil; EShut; EShut; EShut] /\
            mspec_ok [RManual; RPeriodic XStd; RPeriodic XNil] (strip l) = true.
Proof. eexists. split; [reflexivity|]. vm_compute. auto. Qed.

(** The judges reject what the property forbids. *)
Example ex_rejects_f_c15_1 :
  tspec_ok (fun _ => PCount) [0; 1] [(TUnreg 2, quiet ENil false); (TStart false, {| o_err := ENil; o_flag := true; o_calls := [(1, KOnStart)]; o_xcalls := []; o_wrote := false |})] = false.
Proof. reflexivity. Qed.
Example ex_rejects_second_shutdown :
  tspec_ok (fun _ => PCount) [0] [(TShutdown true, {| o_err := ENil; o_flag := false; o_calls := [(0, KShutdown)]; o_xcalls := []; o_wrote := false |});
                (TShutdown true, {| o_err := ENil; o_flag := false; o_calls := [(0, KShutdown)]; o_xcalls := []; o_wrote := false |})] = false.
Proof. reflexivity. Qed.
Example ex_rejects_f_c15_3 :
  tspec_ok (fun _ => PCount) [0] [(TShutdown false, quiet ECtx false)] = false.
Proof. reflexivity. Qed.
Example ex_rejects_double_exporter_shutdown :
  (* the exporter of simple processor 0 is shut down by Unregister and again by the provider's Shutdown *)
  tspec_ok (fun _ => PSimple XStd) [0; 0]
    [(TUnreg 0, {| o_err := ENil; o_flag := false; o_calls := [(0, KShutdown)]; o_xcalls := [(0, KXShutdown)]; o_wrote := false |});
     (TShutdown true, {| o_err := ENil; o_flag := false; o_calls := [(0, KShutdown)]; o_xcalls := [(0, KXShutdown)]; o_wrote := false |})] = false.
Proof. reflexivity. Qed.
Example ex_rejects_missing_exporter_shutdown :
  tspec_ok (fun _ => PBatch XStd) [0]
    [(TShutdown true, {| o_err := ENil; o_flag := false; o_calls := [(0, KShutdown)]; o_xcalls := []; o_wrote := false |})] = false.
Proof. reflexivity. Qed.
Example ex_rejects_double_log_shutdown :
  lstorm_ok [LSimple XStd] [2] [2] [ENil; ENil] [] = false.
Proof. reflexivity. Qed.
Example ex_direct :
  map (fun x => o_xcalls (snd x)) (drun (PBatch XStd) pst0 [DOnEnd; DFlush; DOnEnd; DShutdown; DShutdown; DOnEnd; DFlush]) =
    [[]; [(0, KExport)]; []; [(0, KExport); (0, KXShutdown)]; []; []; []].
Proof. reflexivity. Qed.
Example ex_rejects_direct_double_shutdown :
  dspec_ok true [(DShutdown, robs ENil [(0, KXShutdown)] false); (DShutdown, robs ENil [(0, KXShutdown)] false)] = false.
Proof. reflexivity. Qed.
Example ex_reader_two_providers :
  map (fun x => o_err (snd x)) (rrun (RPeriodic XStd) 2 rinit [ROCollect; ROPShutdown true; ROPShutdown false; ROShutdown; ROCollect; ROFlush]) =
    [ENil; ENil; EShut; EShut; EShut; EShut].
Proof. reflexivity. Qed.
Example ex_rejects_reader_shut_twice :
  rspec_ok (RPeriodic XStd) 1 [(ROShutdown, robs ENil [(0, KXShutdown)] false); (ROPShutdown false, robs ENil [(0, KXShutdown)] false)] = false.
Proof. reflexivity. Qed.
Example ex_failing :
  map (fun x => (o_err (snd x), o_calls (snd x))) (frun (fun p => p =? 1) ([0; 1; 2], false) [FFlush; FShutdown]) =
    [(EOther, [(0, KFlush); (1, KFlush)]); (EOther, [(0, KShutdown); (1, KShutdown); (2, KShutdown)])].
Proof. reflexivity. Qed.
Example ex_rejects_shutdown_stopping_at_failure :
  fspec_ok (fun p => p =? 1) [0; 1; 2] [(FShutdown, fobs EOther [(0, KShutdown); (1, KShutdown)])] = false.
Proof. reflexivity. Qed.
