(** C15 property theorems: provider lifecycle.  Statements only, each closed by
    lemmas of Proofs.v, with the axiom audit and non-vacuity examples.

    The models follow the code as it is.  Two clauses of the property do not hold of it
    in full and are recorded as known findings; the guards are in plain sight:
      F-C15-3  TracerProvider.Shutdown with an already-cancelled context marks the provider
               shut down without shutting its processors down or forgetting them
               (guard [t_trigger members ops = false] / [all_live]; [..._refuted] lemmas);
      F-C15-4  a PeriodicReader built around a nil exporter dereferences it
               (guard [existsb nil_periodic readers = false]). *)
From Coq Require Import List Arith Lia Bool.
From Verif Require Import Lib.LTS C15.Spec C15.Model C15.Proofs.
Import ListNotations.

(** Exact membership, for ALL operation sequences: the list the provider holds is the abstract
    "registered and not unregistered" list, and an ended span is handed to exactly those
    processors, in registration order. *)
Theorem c15_membership : forall kinds members ops i,
  t_trigger members ops = false ->
  let s := tstate_after kinds (tinit members) ops in
  map fst (t_regs s) = members_after members false ops /\
  (nth_error (t_spans s) i = Some (true, false) ->
   o_calls (snd (tstep kinds s (TEnd i))) = to_all KOnEnd (members_after members false ops)).
Proof. exact membership. Qed.
Print Assumptions c15_membership.

(** Unregistering a processor that is not registered changes nothing and calls nobody (any state). *)
Theorem c15_unregister_unknown_noop : forall kinds s p,
  mem p (map fst (t_regs s)) = false -> tstep kinds s (TUnreg p) = (s, quiet ENil false).
Proof. exact unregister_unknown_noop. Qed.
Print Assumptions c15_unregister_unknown_noop.

(** The whole trace specification (membership, Unregister, Start/End fan-out, ForceFlush and
    Shutdown results, per-registration single Shutdown, nothing after Shutdown) for ALL sequences
    whose first Shutdown does not hit F-C15-3 … *)
Theorem c15_trace_spec_partial : forall kinds members ops,
  t_trigger members ops = false -> tspec_ok members (trun kinds (tinit members) ops) = true.
Proof. exact tspec_ok_model. Qed.
Print Assumptions c15_trace_spec_partial.

(** … for ALL sequences when the specification is read with the finding … *)
Theorem c15_trace_spec_known : forall kinds members ops,
  tspec_known members (trun kinds (tinit members) ops) = true.
Proof. exact tspec_known_model. Qed.
Print Assumptions c15_trace_spec_known.

(** … and not otherwise. *)
Theorem c15_trace_spec_refuted : exists kinds members ops,
  tspec_ok members (trun kinds (tinit members) ops) = false.
Proof. exact tspec_ok_refuted. Qed.
Print Assumptions c15_trace_spec_refuted.

(** Single shutdown under concurrency: for ALL schedules of ANY number of concurrent Shutdown /
    Unregister / Register callers, every registration's processor has received at most one Shutdown,
    exactly one as soon as it has left the list, and once a Shutdown caller has returned (all
    contexts live) the list is empty and every registration has received exactly one. *)
Theorem c15_shutdown_once : forall prog members sch s,
  run (cstep prog) (cinit members) sch = Some s ->
  (forall r, c_count s r <= 1) /\
  (forall r, r < c_next s ->
     (In r (map fst (c_regs s)) /\ c_count s r = 0) \/ (~ In r (map fst (c_regs s)) /\ c_count s r = 1)) /\
  (all_live prog -> forall t, prog t = Some (CShutdown true) -> c_pcs s t = CDone ->
     c_regs s = [] /\ forall r, r < c_next s -> c_count s r = 1).
Proof. intros prog members sch s H. apply (shutdown_once prog members). eapply run_reach; eauto. Qed.
Print Assumptions c15_shutdown_once.

Theorem c15_shutdown_once_refuted :
  exists prog members sch s,
    run (cstep prog) (cinit members) sch = Some s /\ c_pcs s 0 = CDone /\ prog 0 = Some (CShutdown false) /\
    c_count s 0 = 0 /\ forall sch' s', run (cstep prog) s sch' = Some s' -> c_count s' 0 = 0.
Proof. exact shutdown_once_refuted. Qed.
Print Assumptions c15_shutdown_once_refuted.

(** Safe afterwards (trace): a Shutdown with a live context (or with nothing registered) leaves the
    provider dead, and on a dead provider EVERY further operation sequence calls no processor and no
    exporter, writes nothing, returns nil, and a tracer obtained afterwards does not record. *)
Theorem c15_after_shutdown : forall kinds s live ops,
  live = true \/ t_regs s = [] -> t_shut s = false \/ t_dead s ->
  let s1 := fst (tstep kinds s (TShutdown live)) in
  t_dead s1 /\
  Forall (fun x => o_calls (snd x) = [] /\ o_xcalls (snd x) = [] /\ o_wrote (snd x) = false /\
                   o_err (snd x) = ENil /\ (fst x = TStart true -> o_flag (snd x) = false))
         (trun kinds s1 ops).
Proof.
  intros kinds s live ops Hl Hs. cbn zeta.
  pose proof (shutdown_makes_dead kinds s live Hl Hs) as Hd. split; [exact Hd | now apply after_shutdown].
Qed.
Print Assumptions c15_after_shutdown.

(** Metric provider: for ALL sequences the model satisfies the metric specification (no-op meters,
    nothing exported and only nil / ErrReaderShutdown / the context error after Shutdown, every
    exporter shut down exactly once by the first Shutdown and never again). *)
Theorem c15_metric_spec : forall readers ops l,
  Forall (mop_wf (length readers)) ops -> mrun readers ops = Ok l -> mspec_ok readers (strip l) = true.
Proof. exact mspec_ok_model. Qed.
Print Assumptions c15_metric_spec.

(** Log provider: same, for every configuration including nil exporters. *)
Theorem c15_log_spec : forall procs ops l, lrun procs ops = Ok l -> lspec_ok procs (strip l) = true.
Proof. exact lspec_ok_model. Qed.
Print Assumptions c15_log_spec.

(** Never crashes, never stuck: the trace model is a total function (one observation per operation,
    whatever the processors and however nil their exporters), the log model never reaches [Crash],
    the metric model reaches it only through a PeriodicReader around a nil exporter, and concurrent
    Shutdown / Unregister / Register callers cannot deadlock. *)
Theorem c15_never_crashes_partial :
  (forall kinds members ops, length (trun kinds (tinit members) ops) = length ops) /\
  (forall procs ops, exists l, lrun procs ops = Ok l) /\
  (forall readers ops, existsb nil_periodic readers = false -> exists l, mrun readers ops = Ok l) /\
  (forall prog members sch s t o, run (cstep prog) (cinit members) sch = Some s ->
     prog t = Some o -> c_pcs s t <> CDone -> exists u, cstep prog s u <> None).
Proof.
  split; [|split; [exact log_never_crashes | split; [exact metric_never_crashes|]]].
  - intros kinds members ops. generalize (tinit members). induction ops as [|o r IH]; intros s; cbn; [reflexivity|].
    destruct (tstep kinds s o) as [s' ob]. cbn. now rewrite IH.
  - intros prog members sch s t o H. apply (conc_no_deadlock prog members). eapply run_reach; eauto.
Qed.
Print Assumptions c15_never_crashes_partial.

Theorem c15_never_crashes_refuted : forall ops, mrun [RPeriodic XNil] ops = Crash.
Proof. exact metric_nil_periodic_crashes. Qed.
Print Assumptions c15_never_crashes_refuted.

(** Non-vacuity. *)
Example ex_membership :
  let ops := [TReg 2; TUnreg 0; TStart false; TReg 0; TUnreg 7; TEnd 0] in
  t_trigger [0; 1; 0] ops = false /\ members_after [0; 1; 0] false ops = [0; 1; 2; 0] /\
  map (fun x => o_calls (snd x)) (trun (fun _ => PCount) (tinit [0; 1; 0]) ops) =
    [[]; [(0, KShutdown)]; [(0, KOnStart); (1, KOnStart); (2, KOnStart)]; []; [];
     [(0, KOnEnd); (1, KOnEnd); (2, KOnEnd); (0, KOnEnd)]].
Proof. vm_compute. auto. Qed.

Example ex_shutdown_once :
  exists s, run (cstep (fun t => match t with 0 => Some (CShutdown true) | 1 => Some (CUnreg 5) | 2 => Some (CReg 9)
                                      | 3 => Some (CShutdown true) | _ => None end))
                (cinit [5; 6]) [1; 0; 2; 3; 1; 1; 0; 0; 2; 2; 3; 3] = Some s /\
            c_count s 0 = 1 /\ c_count s 1 = 1 /\ c_regs s = [] /\ c_pcs s 0 = CDone.
Proof. eexists. split; [vm_compute; reflexivity|]. vm_compute. auto. Qed.

Example ex_metric :
  exists l, mrun [RManual; RPeriodic XStd] [MAdd false; MFlush true; MShutdown true; MAdd true; MFlush true; MCollect 0; MShutdown true] = Ok l /\
            map (fun x => o_err (a_obs (snd x))) l = [ENil; ENil; ENil; ENil; EShut; EShut; EShut] /\
            mspec_ok [RManual; RPeriodic XStd] (strip l) = true.
Proof. eexists. split; [reflexivity|]. vm_compute. auto. Qed.

(** The judges reject what the property forbids. *)
Example ex_rejects_f_c15_1 :
  (* unregistering the never-registered processor 2 removed processor 0: the span reaches only 1 *)
  tspec_ok [0; 1] [(TUnreg 2, quiet ENil false); (TStart false, {| o_err := ENil; o_flag := true; o_calls := [(1, KOnStart)]; o_xcalls := []; o_wrote := false |})] = false.
Proof. reflexivity. Qed.
Example ex_rejects_second_shutdown :
  tspec_ok [0] [(TShutdown true, {| o_err := ENil; o_flag := false; o_calls := [(0, KShutdown)]; o_xcalls := []; o_wrote := false |});
                (TShutdown true, {| o_err := ENil; o_flag := false; o_calls := [(0, KShutdown)]; o_xcalls := []; o_wrote := false |})] = false.
Proof. reflexivity. Qed.
