(** C15 specification: provider lifecycle (exact processor membership, single
    shutdown, safe afterwards) for the trace, metric and log SDK providers, as
    decidable judges over a sequence of operations and what was observed after each
    one.  Written against the property text, without reference to the model: the only
    state the judges keep is what a user can know — which processors are registered
    and not unregistered, whether Shutdown has returned, which spans were started.

    An observation of one operation is: the class of the returned error, a flag
    (span recording / fresh meter or logger is a real one), the calls that reached the
    counting wrappers around processors during the operation (in order), the calls that
    reached the counting wrappers around exporters (sorted), and whether any stock
    exporter's output grew. *)
From Coq Require Import List Arith Lia Bool.
Import ListNotations.

Inductive err := ENil | ECtx (* context cancelled / deadline *) | EShut (* ErrReaderShutdown *) | EOther.
Inductive callk := KOnStart | KOnEnd | KShutdown | KFlush       (* processor / reader level *)
                 | KExport | KXShutdown | KXFlush.               (* exporter level *)

Record obs := {
  o_err : err;
  o_flag : bool;
  o_calls : list (nat * callk);
  o_xcalls : list (nat * callk);
  o_wrote : bool
}.

Definition err_eqb (a b : err) : bool :=
  match a, b with ENil, ENil | ECtx, ECtx | EShut, EShut | EOther, EOther => true | _, _ => false end.
Definition callk_eqb (a b : callk) : bool :=
  match a, b with
  | KOnStart, KOnStart | KOnEnd, KOnEnd | KShutdown, KShutdown | KFlush, KFlush
  | KExport, KExport | KXShutdown, KXShutdown | KXFlush, KXFlush => true
  | _, _ => false
  end.
Fixpoint calls_eqb (a b : list (nat * callk)) : bool :=
  match a, b with
  | [], [] => true
  | (p, k) :: a', (q, j) :: b' => (p =? q) && callk_eqb k j && calls_eqb a' b'
  | _, _ => false
  end.
Definition err_in (e : err) (l : list err) : bool := existsb (err_eqb e) l.
Definition has_export (l : list (nat * callk)) : bool :=
  existsb (fun c => callk_eqb (snd c) KExport) l.

Definition to_all (k : callk) (members : list nat) : list (nat * callk) := map (fun p => (p, k)) members.

Definition mem (p : nat) (l : list nat) : bool := existsb (Nat.eqb p) l.

(** Remove the most recent registration of [p] (the last occurrence), if any. *)
Fixpoint remove_last (p : nat) (l : list nat) : list nat :=
  match l with
  | [] => []
  | x :: r => if mem p r then x :: remove_last p r else if x =? p then r else x :: r
  end.

(** Exporters and span processors (configuration vocabulary). *)
Inductive xk := XNil | XStd | XMem.   (* nil exporter / stock stdout exporter writing to a buffer / in-memory *)
Inductive pk := PCount | PSimple (x : xk) | PBatch (x : xk).   (* counting only / simple / batch processor *)

(** Does processor kind [k] own an exporter that can be shut down? *)
Definition has_x (k : pk) : bool :=
  match k with PSimple XNil | PBatch XNil | PCount => false | _ => true end.

(** Processors whose exporter's Shutdown shows in the exporter-level calls of one operation. *)
Definition xshut_pids (xs : list (nat * callk)) : list nat :=
  map fst (filter (fun c => callk_eqb (snd c) KXShutdown) xs).

(** Exporters that must be shut down when the processors [members] are shut down in this order,
    given those already shut down: each exporter once, at its processor's first Shutdown. *)
Fixpoint expect_x (hasx : nat -> bool) (members done : list nat) : list nat :=
  match members with
  | [] => []
  | p :: r => if hasx p && negb (mem p done) then p :: expect_x hasx r (p :: done) else expect_x hasx r done
  end.

Fixpoint nodupb (l : list nat) : bool :=
  match l with [] => true | x :: r => negb (mem x r) && nodupb r end.
Definition same_set (a b : list nat) : bool :=
  forallb (fun p => mem p b) a && forallb (fun p => mem p a) b.

(** * Trace provider *)
Inductive top :=
| TReg (p : nat)            (* RegisterSpanProcessor(p) *)
| TUnreg (p : nat)          (* UnregisterSpanProcessor(p) *)
| TStart (fresh : bool)     (* Start a span from a tracer obtained now (fresh) or before any Shutdown *)
| TEnd (i : nat)            (* End the i-th started span *)
| TFlush (live : bool)      (* ForceFlush(ctx); live = context not cancelled *)
| TShutdown (live : bool).  (* Shutdown(ctx) *)

Record tspec := {
  ts_members : list nat;              (* registered and not unregistered, oldest first *)
  ts_shut : bool;                     (* some Shutdown has returned *)
  ts_spans : list (bool * bool);      (* per started span: recording, ended *)
  ts_xdone : list nat;                (* processors whose exporter has been shut down *)
  ts_loose : bool                     (* the Shutdown that did the work had an already-cancelled context:
                                         processors honour it and may finish (drain, export, shut their
                                         exporter down) in the background after Shutdown returned *)
}.
Definition tspec_init (members : list nat) : tspec :=
  {| ts_members := members; ts_shut := false; ts_spans := []; ts_xdone := []; ts_loose := false |}.

Fixpoint set_ended (i : nat) (l : list (bool * bool)) : list (bool * bool) :=
  match l, i with
  | [], _ => []
  | (r, _) :: t, O => (r, true) :: t
  | x :: t, S j => x :: set_ended j t
  end.

Definition with_members (s : tspec) (m : list nat) : tspec :=
  {| ts_members := m; ts_shut := ts_shut s; ts_spans := ts_spans s; ts_xdone := ts_xdone s; ts_loose := ts_loose s |}.
Definition with_spans (s : tspec) (sp : list (bool * bool)) : tspec :=
  {| ts_members := ts_members s; ts_shut := ts_shut s; ts_spans := sp; ts_xdone := ts_xdone s; ts_loose := ts_loose s |}.
Definition with_xdone (s : tspec) (d : list nat) : tspec :=
  {| ts_members := ts_members s; ts_shut := ts_shut s; ts_spans := ts_spans s; ts_xdone := d; ts_loose := ts_loose s |}.

Definition tsstep_core (s : tspec) (o : top) (ob : obs) : option tspec :=
  (* "nothing more is exported" after Shutdown returned *)
  let quiet := negb (ts_shut s) || negb (o_wrote ob) || ts_loose s in
  if negb quiet then None else
  match o with
  | TReg p =>
      if calls_eqb (o_calls ob) [] && err_eqb (o_err ob) ENil
      then Some (if ts_shut s then s else with_members s (ts_members s ++ [p]))
      else None
  | TUnreg p =>
      if ts_shut s || negb (mem p (ts_members s))
      then (* after shutdown, or never registered: nothing happens *)
           if calls_eqb (o_calls ob) [] then Some s else None
      else if calls_eqb (o_calls ob) [(p, KShutdown)]
           then Some (with_members s (remove_last p (ts_members s)))
           else None
  | TStart fresh =>
      let rec := negb (ts_shut s && fresh) in      (* a tracer obtained after Shutdown is a no-op tracer *)
      if Bool.eqb (o_flag ob) rec &&
         calls_eqb (o_calls ob) (if rec then to_all KOnStart (ts_members s) else [])
      then Some (with_spans s (ts_spans s ++ [(rec, false)]))
      else None
  | TEnd i =>
      match nth_error (ts_spans s) i with
      | Some (true, false) =>
          (* exactly the processors registered and not unregistered now, in registration order *)
          if calls_eqb (o_calls ob) (to_all KOnEnd (ts_members s))
          then Some (with_spans s (set_ended i (ts_spans s)))
          else None
      | _ => if calls_eqb (o_calls ob) [] then Some s else None
      end
  | TFlush live =>
      if live || Nat.eqb (length (ts_members s)) 0
      then if calls_eqb (o_calls ob) (to_all KFlush (ts_members s)) && err_eqb (o_err ob) ENil then Some s else None
      else if calls_eqb (o_calls ob) [] && err_eqb (o_err ob) ECtx then Some s else None
  | TShutdown live =>
      if ts_shut s
      then if calls_eqb (o_calls ob) [] && err_eqb (o_err ob) ENil then Some s else None
      else (* every registered processor is shut down, once, whatever the context; with a cancelled
              context the processors may report it *)
           if calls_eqb (o_calls ob) (to_all KShutdown (ts_members s)) &&
              err_in (o_err ob) (if live || Nat.eqb (length (ts_members s)) 0 then [ENil] else [ENil; ECtx])
           then Some {| ts_members := []; ts_shut := true; ts_spans := ts_spans s; ts_xdone := ts_xdone s;
                        ts_loose := negb live && negb (Nat.eqb (length (ts_members s)) 0) |}
           else None
  end.

(** Exporter-level single shutdown: an exporter's Shutdown is seen at most once ever, only for a processor
    that has one, and exactly when its processor is shut down for the first time (by Unregister or by the
    provider's Shutdown); after a cancelled-context Shutdown it may arrive late. *)
Definition xs_ok (hasx : nat -> bool) (s : tspec) (o : top) (ob : obs) : bool :=
  let ks := xshut_pids (o_xcalls ob) in
  let due := match o with
             | TUnreg p => if ts_shut s || negb (mem p (ts_members s)) then [] else expect_x hasx [p] (ts_xdone s)
             | TShutdown _ => if ts_shut s then [] else expect_x hasx (ts_members s) (ts_xdone s)
             | _ => []
             end in
  let cancelled := match o with
                   | TShutdown false => negb (ts_shut s) && negb (Nat.eqb (length (ts_members s)) 0)
                   | _ => false
                   end in
  nodupb ks && forallb (fun p => hasx p && negb (mem p (ts_xdone s))) ks &&
  (ts_loose s || cancelled || same_set ks due).

Definition tsstep (hasx : nat -> bool) (s : tspec) (o : top) (ob : obs) : option tspec :=
  if xs_ok hasx s o ob
  then match tsstep_core s o ob with
       | Some s' => Some (with_xdone s' (xshut_pids (o_xcalls ob) ++ ts_xdone s))
       | None => None
       end
  else None.

Fixpoint tspec_run (hasx : nat -> bool) (s : tspec) (l : list (top * obs)) : bool :=
  match l with
  | [] => true
  | (o, ob) :: r => match tsstep hasx s o ob with Some s' => tspec_run hasx s' r | None => false end
  end.

(** [kinds] : the kind of each processor id. *)
Definition tspec_ok (kinds : nat -> pk) (members : list nat) (l : list (top * obs)) : bool :=
  tspec_run (fun p => has_x (kinds p)) (tspec_init members) l.

(** "The processors currently registered" after a sequence of operations, as a function of the
    operations alone: registered and not unregistered, nothing once Shutdown has returned. *)
Fixpoint members_after (m : list nat) (shut : bool) (ops : list top) : list nat :=
  match ops with
  | [] => m
  | TReg p :: r => members_after (if shut then m else m ++ [p]) shut r
  | TUnreg p :: r => members_after (if shut then m else remove_last p m) shut r
  | TShutdown _ :: r => members_after [] true r
  | _ :: r => members_after m shut r
  end.

(** * Exporters and pipelines of the metric and log providers *)
Inductive rk := RManual | RPeriodic (x : xk).          (* metric readers *)
Inductive lk := LSimple (x : xk) | LBatch (x : xk).    (* log processors *)

Inductive mop :=
| MAdd (fresh : bool)       (* record on a counter from a meter obtained now / before Shutdown *)
| MCollect (i : nat)        (* Collect on reader i (manual readers) *)
| MFlush (live : bool)
| MShutdown (live : bool).

Inductive lop :=
| LEmit (fresh : bool)      (* emit through a logger obtained now / before Shutdown *)
| LFlush (live : bool)
| LShutdown (live : bool).

(** Metric provider.  State: has Shutdown returned; how many exporter shutdowns were seen per reader. *)
Record mspec := {
  ms_shut : bool; ms_xshut : list nat;
  ms_loose : bool   (* log: the Shutdown that did the work had an already-cancelled context and did not wait for the
                       batch processors' exports in flight: their output may still arrive *)
}.

Definition count_calls (id : nat) (k : callk) (l : list (nat * callk)) : nat :=
  length (filter (fun c => (fst c =? id) && callk_eqb (snd c) k) l).

Fixpoint add_counts (k : callk) (l : list (nat * callk)) (i : nat) (cs : list nat) : list nat :=
  match cs with
  | [] => []
  | c :: r => (c + count_calls i k l) :: add_counts k l (S i) r
  end.

Definition periodic_std (r : rk) : bool := match r with RPeriodic XStd | RPeriodic XMem => true | _ => false end.

(** After Shutdown: a fresh meter is a no-op, nothing is exported, Collect/ForceFlush/Shutdown
    return nil, ErrReaderShutdown or (for a cancelled context) the context error; the first
    Shutdown shuts every exporter down exactly once (never again). *)
Definition msstep (readers : list rk) (s : mspec) (o : mop) (ob : obs) : option mspec :=
  let quiet := negb (ms_shut s) || (negb (o_wrote ob) && negb (has_export (o_xcalls ob))) in
  let counts := add_counts KXShutdown (o_xcalls ob) 0 (ms_xshut s) in
  let once_ok := forallb (fun c => c <=? 1) counts in
  if negb (quiet && once_ok) then None else
  match o with
  | MAdd fresh =>
      if Bool.eqb (o_flag ob) (negb (ms_shut s && fresh))
      then Some {| ms_shut := ms_shut s; ms_xshut := counts; ms_loose := ms_loose s |} else None
  | MCollect i =>
      if (if ms_shut s then err_eqb (o_err ob) EShut else err_eqb (o_err ob) ENil)
      then Some {| ms_shut := ms_shut s; ms_xshut := counts; ms_loose := ms_loose s |} else None
  | MFlush live =>
      if err_in (o_err ob) (if ms_shut s then (if live then [ENil; EShut] else [ENil; EShut; ECtx])
                            else (if live then [ENil] else [ENil; ECtx]))
      then Some {| ms_shut := ms_shut s; ms_xshut := counts; ms_loose := ms_loose s |} else None
  | MShutdown live =>
      if ms_shut s
      then if err_in (o_err ob) [ENil; EShut] then Some {| ms_shut := true; ms_xshut := counts; ms_loose := ms_loose s |} else None
      else
        (* first Shutdown: every stock exporter has now been shut down exactly once *)
        let all_once := forallb (fun rc => if periodic_std (fst rc) then snd rc =? 1 else snd rc =? 0)
                                (combine readers counts) in
        if all_once && err_in (o_err ob) (if live then [ENil] else [ENil; ECtx])
        then Some {| ms_shut := true; ms_xshut := counts; ms_loose := ms_loose s |} else None
  end.

Fixpoint mspec_run (readers : list rk) (s : mspec) (l : list (mop * obs)) : bool :=
  match l with
  | [] => true
  | (o, ob) :: r => match msstep readers s o ob with Some s' => mspec_run readers s' r | None => false end
  end.
Definition mspec_ok (readers : list rk) (l : list (mop * obs)) : bool :=
  mspec_run readers {| ms_shut := false; ms_xshut := map (fun _ => 0) readers; ms_loose := false |} l.

(** Log provider: same shape (the logger provider's Shutdown is documented to return nil afterwards). *)
Definition has_std (p : lk) : bool := match p with LSimple XStd | LBatch XStd | LSimple XMem | LBatch XMem => true | _ => false end.

Definition lsstep (procs : list lk) (s : mspec) (o : lop) (ob : obs) : option mspec :=
  let quiet := negb (ms_shut s) || negb (o_wrote ob) || ms_loose s in
  let counts := add_counts KXShutdown (o_xcalls ob) 0 (ms_xshut s) in
  let once_ok := forallb (fun c => c <=? 1) counts in
  if negb (quiet && once_ok) then None else
  match o with
  | LEmit fresh =>
      if Bool.eqb (o_flag ob) (negb (ms_shut s && fresh))
      then Some {| ms_shut := ms_shut s; ms_xshut := counts; ms_loose := ms_loose s |} else None
  | LFlush live =>
      if err_in (o_err ob) (if ms_shut s then [ENil] else (if live then [ENil] else [ENil; ECtx]))
         && (negb (ms_shut s) || calls_eqb (o_calls ob) [])
      then Some {| ms_shut := ms_shut s; ms_xshut := counts; ms_loose := ms_loose s |} else None
  | LShutdown live =>
      if ms_shut s
      then if err_eqb (o_err ob) ENil && calls_eqb (o_calls ob) []
           then Some {| ms_shut := true; ms_xshut := counts; ms_loose := ms_loose s |} else None
      else
        let all_once := forallb (fun rc => if has_std (fst rc) then snd rc =? 1 else snd rc =? 0)
                                (combine procs counts) in
        if all_once && calls_eqb (o_calls ob) (to_all KShutdown (seq 0 (length procs)))
           && err_in (o_err ob) (if live then [ENil] else [ENil; ECtx])
        then Some {| ms_shut := true; ms_xshut := counts; ms_loose := negb live |} else None
  end.

Fixpoint lspec_run (procs : list lk) (s : mspec) (l : list (lop * obs)) : bool :=
  match l with
  | [] => true
  | (o, ob) :: r => match lsstep procs s o ob with Some s' => lspec_run procs s' r | None => false end
  end.
Definition lspec_ok (procs : list lk) (l : list (lop * obs)) : bool :=
  lspec_run procs {| ms_shut := false; ms_xshut := map (fun _ => 0) procs; ms_loose := false |} l.

(** * Concurrent Shutdown / ForceFlush storms on the log and metric providers: what is observable
    after all callers of one round have returned. *)

(** Log: every processor saw exactly one Shutdown, every exporter that exists exactly one, every
    Shutdown call returned nil (LoggerProvider.Shutdown is documented to be a no-op afterwards) and
    every ForceFlush nil. *)
Definition lstorm_ok (procs : list lk) (pshut xshut : list nat) (shut_errs flush_errs : list err) : bool :=
  (length pshut =? length procs) && (length xshut =? length procs) &&
  forallb (fun c => c =? 1) pshut &&
  forallb (fun pc => if has_std (fst pc) then snd pc =? 1 else snd pc =? 0) (combine procs xshut) &&
  negb (length shut_errs =? 0) &&
  forallb (fun e => err_eqb e ENil) shut_errs && forallb (fun e => err_eqb e ENil) flush_errs.

(** Metric: every exporter saw exactly one Shutdown; exactly one Shutdown call performed it (nil),
    every other one returned ErrReaderShutdown; ForceFlush returned nil, ErrReaderShutdown or the
    error of the cancelled collection; afterwards every reader's Collect reports the shutdown. *)
Definition mstorm_ok (readers : list rk) (xshut : list nat) (shut_errs flush_errs collect_after : list err) : bool :=
  (length xshut =? length readers) &&
  forallb (fun rc => if periodic_std (fst rc) then snd rc =? 1 else snd rc =? 0) (combine readers xshut) &&
  (length (filter (fun e => err_eqb e ENil) shut_errs) =? 1) &&
  forallb (fun e => err_in e [ENil; EShut]) shut_errs &&
  forallb (fun e => err_in e [ENil; EShut; ECtx]) flush_errs &&
  (length collect_after =? length readers) && forallb (fun e => err_eqb e EShut) collect_after.

(** * Components used directly (not through a provider), live contexts.

    One stock span processor (or log processor): spans (records) handed to it, ForceFlush and Shutdown
    called on it directly, in any order and as often as one likes.  Its exporter is shut down by the first
    Shutdown, exactly once if there is one and never again; after that Shutdown nothing is exported; every
    call returns nil. *)
Inductive dop :=
| DOnEnd | DFlush | DShutdown
| DOnEndDrop      (* an ended span that is not sampled: never exported *)
| DFlushDead.     (* ForceFlush with an already-cancelled context: exports nothing; nil or the context error *)

Definition count_k (k : callk) (l : list (nat * callk)) : nat :=
  length (filter (fun c => callk_eqb (snd c) k) l).

Definition dsstep (hasx : bool) (shut : bool) (o : dop) (ob : obs) : option bool :=
  let nx := count_k KXShutdown (o_xcalls ob) in
  let quiet := negb shut || (negb (o_wrote ob) && negb (has_export (o_xcalls ob))) in
  let silent := negb (o_wrote ob) && negb (has_export (o_xcalls ob)) in
  let err_ok := match o with DFlushDead => err_in (o_err ob) [ENil; ECtx] | _ => err_eqb (o_err ob) ENil end in
  if negb (quiet && err_ok) then None else
  match o with
  | DShutdown => if shut then (if nx =? 0 then Some true else None)
                 else if nx =? (if hasx then 1 else 0) then Some true else None
  | DOnEndDrop | DFlushDead => if (nx =? 0) && silent then Some shut else None
  | _ => if nx =? 0 then Some shut else None
  end.

Fixpoint dspec_run (hasx : bool) (shut : bool) (l : list (dop * obs)) : bool :=
  match l with
  | [] => true
  | (o, ob) :: r => match dsstep hasx shut o ob with Some s' => dspec_run hasx s' r | None => false end
  end.
Definition dspec_ok (hasx : bool) (l : list (dop * obs)) : bool := dspec_run hasx false l.

(** The same component under concurrent direct callers (and, for a span processor, a provider it is
    registered with being shut down at the same time): observable afterwards. *)
Definition dstorm_ok (hasx : bool) (xshut : nat) (errs : list err) : bool :=
  (xshut =? (if hasx then 1 else 0)) && forallb (fun e => err_eqb e ENil) errs.

(** Overlapping Shutdown callers (direct and through a provider) of one processor whose exporter is slow:
    [at_return] = the number of exporter shutdowns seen by each Shutdown caller at the moment its call
    returned, [late] = exports begun after some Shutdown call had returned. *)
Definition dstorm2_ok (hasx : bool) (at_return : list nat) (late : nat) (errs : list err) : bool :=
  negb (length at_return =? 0) && forallb (fun c => c =? (if hasx then 1 else 0)) at_return &&
  (late =? 0) && forallb (fun e => err_eqb e ENil) errs.

(** A component whose FIRST Shutdown is given an already-cancelled context, then used again and shut down again
    with a live one: the first call returns nil or the context error; whatever it returned, the exporter ends
    up shut down exactly once (the retry is not needed and does no harm), the later calls return nil, and
    [late] = exports begun through a SIMPLE processor after that first call returned = 0. *)
Definition dcancel_ok (hasx : bool) (xshut late : nat) (first : err) (later : list err) : bool :=
  (xshut =? (if hasx then 1 else 0)) && (late =? 0) && err_in first [ENil; ECtx] &&
  forallb (fun e => err_eqb e ENil) later.

(** One metric reader used directly and through the provider(s) it was handed to: [reg] = 0 (never handed
    to a provider), 1, or 2 (handed to two providers: the second registration is refused, but that
    provider's Shutdown still shuts the reader down).  Whoever shuts the reader down first (the reader's own
    Shutdown or a provider's) gets nil and shuts the exporter down, exactly once; every later Shutdown, on the
    reader or on a provider, reports ErrReaderShutdown, as do Collect and a periodic reader's ForceFlush;
    nothing is exported any more.  Before that, Collect/ForceFlush work (an unregistered reader reports
    that it is not registered). *)
Inductive rop :=
| ROCollect | ROFlush | ROShutdown           (* on the reader itself *)
| ROPShutdown (second : bool) | ROPFlush (second : bool)    (* on the first / second provider *)
| ROCollectNil.                              (* Collect(ctx, nil): refused whatever the state *)

Record rspec := { rs_shut : bool; rs_x : nat; rs_once1 : bool; rs_once2 : bool }.

Definition is_periodic_r (r : rk) : bool := match r with RPeriodic _ => true | RManual => false end.
Definition prov_exists (reg : nat) (second : bool) : bool := if second then reg =? 2 else 1 <=? reg.

Definition rsstep (r : rk) (reg : nat) (s : rspec) (o : rop) (ob : obs) : option rspec :=
  let x' := rs_x s + count_k KXShutdown (o_xcalls ob) in
  let silent := negb (o_wrote ob) && negb (has_export (o_xcalls ob)) in
  let quiet := negb (rs_shut s) || silent in
  let due := if periodic_std r then 1 else 0 in
  let keep := {| rs_shut := rs_shut s; rs_x := x'; rs_once1 := rs_once1 s; rs_once2 := rs_once2 s |} in
  if negb (quiet && (x' <=? 1)) then None else
  match o with
  | ROCollect =>
      if err_eqb (o_err ob) (if rs_shut s then EShut else if reg =? 0 then EOther else ENil) && silent && (x' =? rs_x s)
      then Some keep else None
  | ROCollectNil =>
      if err_eqb (o_err ob) EOther && silent && (x' =? rs_x s) then Some keep else None
  | ROFlush | ROPFlush _ =>
      let there := match o with ROPFlush b => prov_exists reg b | _ => true end in
      if negb there || negb (is_periodic_r r)
      then if err_eqb (o_err ob) ENil && silent && (x' =? rs_x s) then Some keep else None
      else if err_eqb (o_err ob) (if rs_shut s then EShut else if reg =? 0 then EOther else ENil) && (x' =? rs_x s)
           then Some keep else None
  | ROShutdown =>
      if rs_shut s
      then if err_eqb (o_err ob) EShut && (x' =? rs_x s) then Some keep else None
      else if err_eqb (o_err ob) ENil && (x' =? due)
           then Some {| rs_shut := true; rs_x := x'; rs_once1 := rs_once1 s; rs_once2 := rs_once2 s |} else None
  | ROPShutdown b =>
      if negb (prov_exists reg b)
      then if err_eqb (o_err ob) ENil && silent && (x' =? rs_x s) then Some keep else None
      else
        let again := if b then rs_once2 s else rs_once1 s in
        let s' := {| rs_shut := true; rs_x := x';
                     rs_once1 := if b then rs_once1 s else true; rs_once2 := if b then true else rs_once2 s |} in
        if again || rs_shut s
        then if err_eqb (o_err ob) EShut && (x' =? rs_x s) then Some s' else None
        else if err_eqb (o_err ob) ENil && (x' =? due) then Some s' else None
  end.

Fixpoint rspec_run (r : rk) (reg : nat) (s : rspec) (l : list (rop * obs)) : bool :=
  match l with
  | [] => true
  | (o, ob) :: t => match rsstep r reg s o ob with Some s' => rspec_run r reg s' t | None => false end
  end.
Definition rspec_ok (r : rk) (reg : nat) (l : list (rop * obs)) : bool :=
  rspec_run r reg {| rs_shut := false; rs_x := 0; rs_once1 := false; rs_once2 := false |} l.

(** Processors that report errors: ForceFlush of the provider stops at the first processor that fails and
    returns its error; Shutdown tells EVERY registered processor (once each) whatever the others answered and
    returns an error iff one of them did; Unregister shuts its processor down and keeps the error to itself. *)
Inductive fop := FReg (p : nat) | FUnreg (p : nat) | FFlush | FShutdown.

Fixpoint upto_fail (fails : nat -> bool) (members : list nat) : list nat :=
  match members with
  | [] => []
  | p :: r => if fails p then [p] else p :: upto_fail fails r
  end.

Definition fsstep (fails : nat -> bool) (s : list nat * bool) (o : fop) (ob : obs) : option (list nat * bool) :=
  let '(members, shut) := s in
  let bad := existsb fails members in
  match o with
  | FReg p => if calls_eqb (o_calls ob) [] && err_eqb (o_err ob) ENil
              then Some (if shut then members else members ++ [p], shut) else None
  | FUnreg p => if shut || negb (mem p members)
                then if calls_eqb (o_calls ob) [] && err_eqb (o_err ob) ENil then Some s else None
                else if calls_eqb (o_calls ob) [(p, KShutdown)] && err_eqb (o_err ob) ENil
                     then Some (remove_last p members, shut) else None
  | FFlush => if calls_eqb (o_calls ob) (to_all KFlush (upto_fail fails members)) &&
                 err_eqb (o_err ob) (if bad then EOther else ENil)
              then Some s else None
  | FShutdown => if shut
                 then if calls_eqb (o_calls ob) [] && err_eqb (o_err ob) ENil then Some s else None
                 else if calls_eqb (o_calls ob) (to_all KShutdown members) &&
                         err_eqb (o_err ob) (if bad then EOther else ENil)
                      then Some ([], true) else None
  end.

Fixpoint fspec_run (fails : nat -> bool) (s : list nat * bool) (l : list (fop * obs)) : bool :=
  match l with
  | [] => true
  | (o, ob) :: r => match fsstep fails s o ob with Some s' => fspec_run fails s' r | None => false end
  end.
Definition fspec_ok (fails : nat -> bool) (members : list nat) (l : list (fop * obs)) : bool :=
  fspec_run fails (members, false) l.
